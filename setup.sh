#!/bin/bash
# Build the checker offline from files on disk only.
set -eu
here="$(cd "$(dirname "$0")" && pwd)"
export GOFLAGS=-mod=mod GOPROXY=off GOSUMDB=off GOTOOLCHAIN=local GOWORK=off
mkdir -p "$here/bin" "$here/evidence"
cd "$here/tool" && go build -o "$here/bin/gsv" .
echo "built $here/bin/gsv"
