#!/usr/bin/env python3
"""collect_seeds.py <seed-root> <round-label> [notes.json] — copies confirmed seeded changes to
/verif/seeded/<ID>/<label><n>/ (patch.diff, demonstration files, meta.json)."""
import json, os, shutil, sys
root, label = sys.argv[1], sys.argv[2]
notes = json.load(open(sys.argv[3])) if len(sys.argv) > 3 else {}
DEST = "/verif/seeded"
SKIP = {"detect.out", "verify.out", "VERIFY.json", "DETECT.json", "meta.json"}
n_ok = 0
for pid in sorted(os.listdir(root)):
    out = os.path.join(root, pid, "out")
    if not os.path.isdir(out):
        continue
    for n in sorted(os.listdir(out)):
        d = os.path.join(out, n)
        vf = os.path.join(d, "VERIFY.json")
        if not os.path.isfile(vf) or not os.path.isfile(os.path.join(d, "patch.diff")):
            continue
        ver = json.load(open(vf))
        if ver.get("status") != "confirmed":
            print("skip (not confirmed):", pid, n, ver.get("status"))
            continue
        dest = os.path.join(DEST, pid, f"{label}{n}")
        shutil.rmtree(dest, ignore_errors=True)
        os.makedirs(dest)
        for f in os.listdir(d):
            src = os.path.join(d, f)
            if f in SKIP or os.path.isdir(src) or os.path.getsize(src) > 300_000:
                continue
            shutil.copy(src, dest)
        meta = {}
        if os.path.isfile(os.path.join(d, "meta.json")):
            try:
                meta = json.load(open(os.path.join(d, "meta.json")))
            except Exception as e:
                meta = {"meta_parse_error": str(e)}
        det = json.load(open(os.path.join(d, "DETECT.json"))) if os.path.isfile(os.path.join(d, "DETECT.json")) else {}
        key = f"{pid}/{n}"
        meta_out = {
            "property": pid,
            "breaks": meta.get("title", ""),
            "needs_to_manifest": meta.get("needs_to_manifest", ""),
            "author": "fresh sub-agent given only the property text and its own scratch worktree (" + label + ")",
            "author_meta": meta,
            "what_i_ran": {
                "script": "scripts/verify_seed.sh " + pid + " " + n + "  (in the seed's scratch worktree: git apply patch.diff; go build ./...; go test -run '^$' ./...; full pinned suite via scripts/baseline.py; demonstration with the patch, then without)",
                "suite": ver.get("suite", "").strip(),
                "demo_exit_with_patch": ver.get("demo_with_patch_rc"),
                "demo_exit_without_patch": ver.get("demo_without_patch_rc"),
                "demonstration": "mydemo.sh (wrapper written by me around the author's files)" if os.path.isfile(os.path.join(d, "mydemo.sh")) else "demo.sh",
            },
            "detection": {
                "how": "scripts/detect_seeds.sh: git -C /repo apply patch.diff; ./check " + pid + "; git -C /repo reset --hard",
                "patch_applies_to_current_repo": det.get("applies"),
                "detected": det.get("detected"),
                "rules": det.get("rules", []),
                "first_violations": det.get("first_violations", []),
                "note": notes.get(key, ""),
                "blind": (None if not notes.get(key) else (True if notes.get(key, "").startswith("blind: caught") else (False if ("BLIND MISS" in notes.get(key, "") or "blind miss" in notes.get(key, "") or "missed blind" in notes.get(key, "")) else None))),
            },
        }
        json.dump(meta_out, open(os.path.join(dest, "meta.json"), "w"), indent=1, ensure_ascii=False)
        n_ok += 1
print("collected", n_ok)
