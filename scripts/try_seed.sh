#!/bin/bash
# usage: try_seed.sh <patch.diff> <property-id>...   — applies the patch to /repo, runs the
# named checks, reverts /repo. Prints one summary line per check.
patch="$1"; shift
cd /repo || exit 2
if [ -n "$(git status --porcelain)" ]; then echo "REPO DIRTY, refusing"; exit 2; fi
if ! git apply --check "$patch" 2>/dev/null; then echo "PATCH DOES NOT APPLY: $patch"; exit 3; fi
git apply "$patch"
for id in "$@"; do
  out=$(cd /verif && VERIF_NO_EVIDENCE=1 ./check "$id" 2>&1); rc=$?
  n=$(echo "$out" | grep -c '^VIOLATION')
  echo "== $id exit=$rc violations=$n"
  echo "$out" | grep -A2 'VIOLATED\|UNDECIDED' | grep -v '^--' | head -${SHOW:-12}
done
git reset -q --hard HEAD; git clean -fdq
git status --porcelain | head -3
