#!/usr/bin/env python3
"""mkmutant.py <id> <name> <repo-relative file> <old> <new> [expect-rule] — writes /verif/mutants/<id>/<name>.diff,
a unified diff replacing the first occurrence of <old> by <new> in /repo's current file."""
import difflib, os, sys
pid, name, rel, old, new = sys.argv[1:6]
src = open(os.path.join('/repo', rel)).read()
if old not in src:
    sys.exit(f"anchor not found in {rel}: {old[:60]!r}")
dst = src.replace(old, new, 1)
d = ''.join(difflib.unified_diff(src.splitlines(True), dst.splitlines(True), 'a/' + rel, 'b/' + rel, n=3))
os.makedirs(f'/verif/mutants/{pid}', exist_ok=True)
open(f'/verif/mutants/{pid}/{name}.diff', 'w').write(f'diff --git a/{rel} b/{rel}\n' + d)
print('wrote', f'mutants/{pid}/{name}.diff')
