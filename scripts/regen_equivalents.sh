#!/bin/bash
# Regenerates /verif/equivalents/<id>/*.diff (behaviour-preserving variants: local renames) from /repo's current files.
E=/verif/scripts/mkequiv.sh
rm -rf /verif/equivalents; mkdir -p /verif/equivalents
for id in C03 C04; do $E $id rename-binder-locals generator/templates/server/parameter.gotmpl 's/\bres\b/errs/g' 's/\braw\b/rawValue/g' 's/\bhasKey\b/present/g' 's/\bqs\b/query/g' 's/\bfds\b/form/g'; done
for id in C04 C08; do $E $id rename-client-locals generator/templates/client/client.gotmpl 's/\bop := /operation := /' 's/\bop\b\([^e]\)/operation\1/g' 's/\bresult\b/reply/g'; done
$E C05 rename-serializer-locals generator/templates/serializers/additionalpropertiesserializer.gotmpl 's/\bstage1\b/known/g' 's/\bstage2\b/rest/g' 's/\brcv\b/recv/g' 's/\btoadd\b/item/g' 's/\bresult\b/out/g' 's/\bprops\b/declared/g' 's/\badditional\b/extra/g'
$E C05 rename-tuple-locals generator/templates/serializers/tupleserializer.gotmpl 's/\bstage1\b/elems/g' 's/\btoadd\b/item/g' 's/\bbuf\b/rd/g' 's/\bdata\b/values/g'
$E C05 rename-subtype-locals generator/templates/serializers/subtypeserializer.gotmpl 's/\brawProps\b/remaining/g' 's/\btoadd\b/item/g' 's/\bresult\b/decoded/g' 's/\bb1\b/plain/g' 's/\bb2\b/poly/g' 's/\bb3\b/extra/g'
for id in C03 C06; do $E $id rename-servehttp-locals generator/templates/server/operation.gotmpl 's/\buprinc\b/who/g' 's/\baCtx\b/authCtx/g' 's/\bParams\b/params/g' 's/\brCtx\b/routeCtx/g'; done
for id in C06 C08; do $E $id rename-builder-locals generator/templates/server/builder.gotmpl 's/\bum\b/verb/g' 's/\bunregistered\b/missing/g' 's/result\[name\]/auths[name]/g' 's/result := make(map\[string\]runtime.Authenticator)/auths := make(map[string]runtime.Authenticator)/' 's/  return result$/  return auths/'; done
for id in C04 C03 C01; do $E $id rename-go-locals generator/operation.go 's/\bisSuccess\b/within2xx/g' 's/\bsuccessResponses\b/okResponses/g' 's/\bhasChildValidations\b/childHasValidations/g' 's/\bhasStreamingResponse\b/streams/g'; done
for id in C08 C11 C06 C09; do $E $id rename-write-locals generator/shared.go 's/\bformatted\b/pretty/g' 's/\bwriteerr\b/werr/g' 's/\btBuf\b/out/g'; done
$E C02 rename-model-locals generator/model.go 's/\bisRequired\b/required/g' 's/\bcur\b/level/g'
for id in C15 C13 C07; do $E $id rename-execute-locals cmd/swagger/commands/diff.go 's/\boutput\b/dest/g' 's/\binput\b/report/g' 's/\bwarn\b/compat/g' 's/\bignores\b/ignored/g' 's/\bdiffs\b/found/g'; done
for id in C12 C13 C14; do $E $id rename-analyser-locals cmd/swagger/commands/diff/spec_analyser.go 's/\btypeDiffs\b/tdiffs/g' 's/\bkey\b/visitKey/g' 's/\beachURLMethodFrom2\b/urlMethod2/g' 's/\beachAddedProperty\b/addedProp/g' 's/\blocation\b/where/g'; done
for id in C12 C13 C14; do $E $id rename-checks-locals cmd/swagger/commands/diff/checks.go 's/\bdiffs\b/found/g' 's/\beachProp1Name\b/name1/g' 's/\beachProp1\b/prop1/g' 's/\bschema1Props\b/props1/g' 's/\bschema2Props\b/props2/g'; done
for id in C15 C13; do $E $id rename-report-locals cmd/swagger/commands/diff/spec_difference.go 's/\bmsg\b/text/g' 's/\bout\b/buf/g'; done
for id in C16 C17 C18; do $E $id rename-schema-locals codescan/schema.go 's/\btpe\b/typ/g' 's/\btitpe\b/itemType/g' 's/\bjsonName\b/wireName/g'; done
for id in C17 C18; do $E $id rename-parser-locals codescan/parser.go 's/\bmatches\b/groups/g' 's/\blines\b/rows/g'; done
for id in C17; do $E $id rename-application-locals codescan/application.go 's/\bcmts\b/group/g' 's/\bpp\b/parsed/g'; done
for id in C07 C01 C02; do $E $id rename-types-locals generator/types.go 's/\bschFmt\b/normFormat/g' 's/\bfmm\b/byFormat/g'; done
for id in C10 C11 C08; do $E $id rename-support-locals generator/support.go 's/\bjsonb\b/origJSON/g' 's/\bflatjsonb\b/flatJSON/g' 's/\bgenOps\b/planned/g' 's/\broutes\b/taken/g'; done
for id in C19; do $E $id rename-spec-locals cmd/swagger/commands/generate/spec.go 's/\bb\b/raw/g' 's/\bswspec\b/scanned/g'; done
for id in C19; do $E $id rename-expand-locals cmd/swagger/commands/expand.go 's/\bdata\b/ordered/g' 's/\bbb\b/rendered/g'; done
# round 5: locals of the constructs the round-5 rules look at
$E C04 rename-facade-locals generator/templates/client/facade.gotmpl 's/\bformats\b/registry/g' 's/\bcli\b/api/g' 's/\btransport\b/rt/g'
for id in C01 C11; do $E $id rename-language-locals generator/language.go 's/\bnm\b/ident/g' 's/\bresult\b/lines/g'; done
$E C01 rename-clioperation-locals generator/templates/cli/operation.gotmpl 's/\bappCli\b/client/g' 's/\bmsgStr\b/text/g'
for id in C06 C09; do $E $id rename-security-locals generator/shared.go 's/\bgenScopes\b/described/g' 's/\bisOAuth2\b/oauth/g'; done
for id in C12 C13 C14; do $E $id rename-definitions-locals cmd/swagger/commands/diff/spec_analyser.go 's/\balreadyReferenced\b/seenRefs/g' 's/\bchildLocation\b/at/g'; done
for id in C16 C18; do $E $id rename-struct-locals codescan/schema.go 's/\bafld\b/astField/g' 's/\bfld\b/field/g' 's/\bps\b/prop/g' 's/\btagName\b/jsonName/g'; done
for id in C16 C18; do $E $id rename-imports-locals codescan/application.go 's/\bknown\b/seen/g' 's/\bimportPaths\b/sorted/g'; done
for id in C04 C07; do $E $id rename-media-locals generator/media.go 's/\bneedsDefault\b/lacking/g' 's/\bmediaFor\b/listFor/g'; done
$E C18 rename-valueparser-locals codescan/parser.go 's/\bobj\b/object/g' 's/\bslice\b/list/g'
# round 6: locals of the constructs the round-6 rules look at
for id in C17 C16; do $E $id rename-paramscan-locals codescan/parameters.go 's/\bps\b/param/g' 's/\bafld\b/astField/g' 's/\bfld\b/field/g' 's/\bsb\b/builder/g'; done
for id in C17 C16; do $E $id rename-specbuilder-locals codescan/spec.go 's/\brb\b/routes/g' 's/\bpp\b/content/g' 's/\bob\b/opsBuilder/g' 's/\bsb\b/schemas/g'; done
for id in C12 C13 C14; do $E $id rename-reporting-locals cmd/swagger/commands/diff/reporting.go 's/\beachParam\b/p/g' 's/\bparams\b/byName/g'; done
for id in C12 C13 C14; do $E $id rename-arraydiff-locals cmd/swagger/commands/diff/array_diff.go 's/\btoArray\b/to/g' 's/\binFrom\b/left/g' 's/\binTo\b/right/g'; done
for id in C05 C01; do $E $id rename-structbranch-locals generator/model.go 's/\bfn\b/req/g' 's/\bcomprop\b/member/g' 's/\bemprop\b/prop/g'; done
for id in C03 C04; do $E $id rename-responses-locals generator/templates/server/responses.gotmpl 's/\bhv\b/value/g' 's/\brw\b/w/g' 's/\bpayload\b/content/g'; done
# re-indentation of template text (generated code is gofmt'ed: whitespace-only change)
for spec in "C03:generator/templates/server/parameter.gotmpl" "C04:generator/templates/client/parameter.gotmpl" "C04:generator/templates/client/response.gotmpl" "C05:generator/templates/serializers/additionalpropertiesserializer.gotmpl" "C05:generator/templates/serializers/tupleserializer.gotmpl" "C06:generator/templates/server/builder.gotmpl" "C06:generator/templates/server/operation.gotmpl" "C08:generator/templates/server/builder.gotmpl" "C09:generator/templates/server/operation.gotmpl" "C01:generator/templates/server/main.gotmpl" "C02:generator/templates/schemavalidator.gotmpl"; do id=${spec%%:*}; f=${spec#*:}; n=$(basename $f .gotmpl); $E $id reindent-$n $f 's/^  \( *[^ {]\)/\t\1/' 's/^    \( *[^ {]\)/\t\t\1/' 's/ *$//'; done
# round 7: equivalent spellings of the constructs the round-7 rules look at
for id in C07 C15; do $E $id comparator-locals cmd/swagger/commands/diff/spec_analyser.go 's/^\t\treturn sd.Diffs\[i\].String() < sd.Diffs\[j\].String()$/\t\tleft, right := sd.Diffs[i].String(), sd.Diffs[j].String()\n\t\treturn left < right/'; done
$E C19 println-format-test cmd/swagger/commands/expand.go 's/^\t\tif asJSON {$/\t\tif format == "json" {/'
$E C11 lenient-decoder generator/types.go 's/^\terr := mapstructure.Decode(v, &extType)$/\tdecoder, err := mapstructure.NewDecoder(\&mapstructure.DecoderConfig{Result: \&extType})\n\tif err == nil {\n\t\terr = decoder.Decode(v)\n\t}/'
for id in C07 C12; do $E $id rename-sortednames-locals cmd/swagger/commands/diff/checks.go 's/\bnames\b/keys/g' 's/\bprops PropertyMap\b/all PropertyMap/' 's/len(props)/len(all)/' 's/range props {/range all {/'; done
for id in C07 C08; do $E $id rename-parammappings-locals generator/operation.go 's/\bprevious\b/earlier/g' 's/\bseenIDs\b/taken/g' 's/\bidMapping\b/goNames/g'; done
$E C12 nil-test-after-resolution cmd/swagger/commands/diff/type_adapters.go 's/^\t\tif schema == nil {$/\t\tif nil == schema {/'
$E C15 rename-readignores-locals cmd/swagger/commands/diff.go 's/\bignoreDiffs\b/entries/g' 's/\bbyteValue\b/raw/g' 's/\bjsonFile\b/fh/g'
$E C09 rename-padcomment-locals generator/template_repo.go 's/\bfor i, line := range lines\b/for n, row := range lines/' 's/if text := strings.TrimLeftFunc(line, unicode.IsSpace); strings.HasPrefix(text, "+build") {/if rest := strings.TrimLeftFunc(row, unicode.IsSpace); strings.HasPrefix(rest, "+build") {/' 's/lines\[i\] = line\[:len(line)-len(text)\] + "\[+\]" + strings.TrimPrefix(text, "+")/lines[n] = row[:len(row)-len(rest)] + "[+]" + strings.TrimPrefix(rest, "+")/'
$E C10 rename-flatten-locals generator/spec.go 's/\bspecDoc\b/document/g'
# round 8: equivalent spellings of the constructs the round-8 rules look at
for id in C01 C04; do $E $id rename-serializers-locals generator/media.go 's/\buniqueSerializerGroups\b/groupsByName/g' 's/\buniqueSerializers\b/byMediaType/g'; done
$E C01 rename-discriminator-locals generator/discriminators.go 's/\btpe\b/goType/g' 's/\bbt\b/base/g' 's/\bdce\b/child/g'
$E C13 rename-wideness-rows cmd/swagger/commands/diff/reporting.go 's/^\t"integer.int32": 0,$/\t"integer.int32": 0, \/\/ narrowest/'
for id in C13 C14; do $E $id rename-media-locals cmd/swagger/commands/diff/spec_analyser.go 's/\bconsumes1\b/oldConsumes/g' 's/\bconsumesLocation\b/consumesAt/g'; done
$E C16 rename-retype-locals codescan/schema.go 's/\bisString\b/quoted/g' 's/\bsfName\b/formatName/g'
$E C17 rename-processdecl-locals codescan/application.go 's/\bisNamed\b/named/g' 's/\bcomments\b/doc/g'
$E C17 rename-responses-locals codescan/parser.go 's/\barrays\b/depth/g' 's/\brefTarget\b/target/g'
$E C05 rename-additional-locals generator/templates/serializers/additionalpropertiesserializer.gotmpl 's/\bstage2\b/extras/g' 's/\bstage1\b/declared/g'
# round 9
for id in C06 C08; do $E $id rename-schemes-locals generator/support.go 's/\brequiredSecuritySchemes\b/required/g'; done
$E C07 rename-routeparams-locals codescan/route_params.go 's/\benumValues\b/listed/g' 's/\bfinalEnum\b/converted/g'
$E C10 rename-readable-locals generator/support.go 's/for _, b := range string(spec) {/for _, r := range string(spec) {/' "s/if b == '\`' {/if r == '\`' {/" 's/buf.WriteRune(b)/buf.WriteRune(r)/'
$E C12 rename-items-locals cmd/swagger/commands/diff/spec_analyser.go 's/\bitems1\b/left/g' 's/\bitems2\b/right/g'
$E C15 rename-reportchanges-locals cmd/swagger/commands/diff/spec_difference.go 's/\btoReportList\b/lines/g' 's/\beachDiff\b/line/g'
# round 10
for id in C13 C14; do $E $id rename-compareschema-locals cmd/swagger/commands/diff/spec_analyser.go 's/\brefDiffs\b/changedRefs/g' 's/\btypeDiffs\b/propDiffs/g' 's/\bkey := schemaLocationKey\b/visitedKey := schemaLocationKey/' 's/sd.schemasCompared\[key\]/sd.schemasCompared[visitedKey]/g'; done
$E C13 rename-numeric-locals cmd/swagger/commands/diff/checks.go 's/\bmaxDiffs\b/upper/g' 's/\bminDiffs\b/lower/g'
$E C08 rename-routes-locals generator/support.go 's/\broutes\b/slots/g' 's/\broute := op.Method\b/slot := op.Method/' 's/routes\[route\]/slots[slot]/g' 's/\[route\]/[slot]/g' 's/, route)/, slot)/g'
$E C08 rename-collision-locals generator/shared.go 's/\bprevious\b/earlier/g'
for id in C16 C17; do $E $id rename-names-locals codescan/application.go 's/\bmatches\b/found/g' 's/\bcmt\b/comment/g'; done
$E C17 rename-operation-locals codescan/operations.go 's/\bpthObj\b/item/g' 's/\bop\b/operation/g'
$E C17 rename-newspecbuilder-locals codescan/spec.go 's/func newSpecBuilder(input \*spec.Swagger/func newSpecBuilder(in *spec.Swagger/' '/^func newSpecBuilder/,/^}/s/\binput\b/in/g' '/^func newSpecBuilder/,/^}/s/in:  *in,/input:       in,/'
$E C18 rename-xorder-locals generator/spec.go 's/\bxOrderIndex\b/at/g' 's/\bpSlice\b/schemaKeys/g'
$E C05 dash-tag-switch generator/structs.go 's/^\tif result.String() == "-" {$/\tif tag := result.String(); tag == "-" {/'
# round 11
$E C12 rename-comparevalues-locals cmd/swagger/commands/diff/checks.go 's/\bval1\b/before/g' 's/\bval2\b/after/g'
$E C10 rename-checkopts-locals generator/shared.go 's/\bpth\b/located/g'
$E C19 rename-initspec-locals cmd/swagger/commands/initcmd/spec.go 's/\binfo\b/meta/g' 's/\bdoc\b/document/g'
for id in C07 C08 C10; do $E $id rename-planning-locals generator/support.go 's/\boperationNames\b/sortedOps/g' 's/\breread\b/decoded/g' 's/\borig\b/original/g' 's/\bmodelNames\b/sortedModels/g'; done
$E C15 rename-analysedefinitions-locals cmd/swagger/commands/diff/spec_analyser.go 's/\bnames1\b/oldNames/g' 's/\bname1\b/oldName/g'
$E C11 rename-configureopts-locals generator/config.go 's/\bopts\b/options/g'
# round 12
$E C01 rename-items-locals generator/operation.go 's/\bnext\b/following/g' 's/\bcIndex\b/childIndex/g'
$E C08 rename-analyzetags-locals generator/operation.go 's/\bintersected\b/selected/g' 's/\bfilter\b/wanted/g'
$E C08 rename-alias-locals generator/support.go 's/\baliasUsed\b/taken/g' 's/\bpth\b/importedAs/g'
$E C17 rename-discovered-locals codescan/spec.go 's/\bqueue\b/pending/g' 's/\bnm\b/defName/g'
for id in C16 C18; do $E $id rename-stringable-locals codescan/schema.go 's/\btpe ast.Expr\b/expr ast.Expr/' 's/switch t := tpe.(type) {/switch t := expr.(type) {/'; done
$E C05 reorder-number-formats generator/formats.go 's/^\t\t"double": "float64",$/\t\t"double": "float64", \/\/ IEEE 754 binary64/'
