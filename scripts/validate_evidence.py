#!/usr/bin/env python3
import json, sys, glob, jsonschema
s = json.load(open("/root/.vp/EVIDENCE.schema.json"))
bad = 0
for f in sorted(glob.glob("/verif/evidence/*.json")):
    try:
        jsonschema.validate(json.load(open(f)), s)
        print("ok  ", f)
    except Exception as e:
        bad += 1
        print("BAD ", f, str(e)[:300])
sys.exit(1 if bad else 0)
