#!/bin/bash
# usage: mkequiv.sh <id> <name> <repo-relative file> <sed-expr>...   — behaviour-preserving variant of one file as a unified diff
id="$1"; name="$2"; rel="$3"; shift 3
tmp=$(mktemp -d); mkdir -p "$tmp/a/$(dirname "$rel")" "$tmp/b/$(dirname "$rel")"
cp "/repo/$rel" "$tmp/a/$rel"
args=(); for e in "$@"; do args+=(-e "$e"); done
sed "${args[@]}" "/repo/$rel" > "$tmp/b/$rel"
mkdir -p "/verif/equivalents/$id"
out="/verif/equivalents/$id/$name.diff"
{ echo "diff --git a/$rel b/$rel"; (cd "$tmp" && diff -u "a/$rel" "b/$rel"); } > "$out"
n=$(grep -c '^[-+][^-+]' "$out"); rm -rf "$tmp"; echo "wrote $out ($n changed lines)"
