#!/usr/bin/env python3
"""Regenerates /verif/MANIFEST.json from the table below (one place to keep the claims,
level texts and not_applicable reasons current). Run after adding/removing a check."""
import json, os, subprocess, sys

HERE = os.path.dirname(os.path.dirname(os.path.abspath(__file__)))

# id -> dict(text, note, technique, design_ref)   (claimed checks)
CLAIMED = {}
# id -> reason   (properties not claimed)
NOT_APPLICABLE = {}

def claim(pid, text, note, technique, ref):
    CLAIMED[pid] = dict(text=text, note=note, technique=technique, ref=ref)

exec(open(os.path.join(HERE, "scripts", "claims.py")).read())

ids = [json.loads(l)["id"] for l in open(os.path.join(HERE, "properties.jsonl"))]
checks = []
for pid in ids:
    if pid not in CLAIMED:
        continue
    c = CLAIMED[pid]
    checks.append({
        "property_id": pid,
        "quick_cmd": f"./check {pid} --tier quick",
        "thorough_cmd": f"./check {pid} --tier thorough",
        "evidence_file": f"/verif/evidence/{pid}.json",
        "replay_cmd_template": f"./check {pid} --replay {{path}}",
        "engine": "gsv",
        "level_claimed": {"category": "other", "text": c["text"], "design_ref": c["ref"]},
        "level_note": c["note"],
        "technique": c["technique"],
    })
na = []
for pid in ids:
    if pid in CLAIMED:
        continue
    na.append({"property_id": pid, "reason": NOT_APPLICABLE.get(pid, "no check built for this property in this round; see DESIGN.md §4/§5 for what a static rule could and could not decide")})

manifest = {
    "version": 1,
    "setup_cmd": "./setup.sh",
    "hooks": {
        "guard": "verif",
        "enable": "none needed: the checks are static analyses of /repo's source (go/packages + go/types + go/cfg + text/template/parse); no instrumentation of go-swagger exists, the build tag 'verif' is reserved and unused",
        "baseline_off_cmd": "cd /repo && GOFLAGS=-mod=mod GOPROXY=off GOSUMDB=off GOTOOLCHAIN=local go test -json -vet=off -count=1 -timeout 25m ./...",
        "source_commits": [],
        "add_only": True,
    },
    "engines": [
        {"name": "gsv", "path": "/verif/tool", "serves_properties": sorted(CLAIMED),
         "kind_free_text": "repository-specific static analyser in Go: typed AST/CFG rules over go-swagger's packages and parse-tree rules over its code-generation templates; obligations + floors + known-findings; see DESIGN.md §2"},
    ],
    "checks": checks,
    "not_applicable": na,
    "notes": "All claims are at level 'other': each check decides named structural necessary conditions of its property on /repo's current source (DESIGN.md §0/§4) and states in its evidence what it does not decide (§5). Genuine defects found are either repaired by fix: commits in /repo or listed in /verif/known_findings.json.",
}
json.dump(manifest, open(os.path.join(HERE, "MANIFEST.json"), "w"), indent=1, ensure_ascii=False)
print("MANIFEST.json written:", len(checks), "checks,", len(na), "not applicable")
try:
    import jsonschema
    jsonschema.validate(manifest, json.load(open("/root/.vp/MANIFEST.schema.json")))
    print("schema: valid")
except ImportError:
    print("jsonschema not importable here; validate with python3-vt")
