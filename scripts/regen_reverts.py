#!/usr/bin/env python3
"""regen_reverts.py — for every `fixed` entry of known_findings.json writes /verif/mutants/<property>/revert-<sha>.diff:
the reversal of that fix commit expressed against /repo's current HEAD (git revert --no-commit in a scratch
worktree outside /repo and /verif). A fix whose reversal conflicts with later commits is skipped and reported."""
import json, os, subprocess, sys, glob
WT = "/tmp/wt-reverts"
def sh(*a, **k): return subprocess.run(a, capture_output=True, text=True, **k)
head = sh("git", "-C", "/repo", "rev-parse", "HEAD").stdout.strip()
sh("git", "-C", "/repo", "worktree", "remove", "--force", WT)
r = sh("git", "-C", "/repo", "worktree", "add", "--detach", WT, head)
if r.returncode: sys.exit(r.stderr)
for f in glob.glob("/verif/mutants/*/revert-*.diff"): os.remove(f)
seen, ok, skipped = set(), 0, []
for f in json.load(open("/verif/known_findings.json"))["findings"]:
    if f.get("status") != "fixed": continue
    key = (f["property"], f["commit"])
    if key in seen: continue
    seen.add(key)
    sh("git", "-C", WT, "reset", "--hard", head)
    r = sh("git", "-C", WT, "revert", "--no-commit", f["commit"])
    if r.returncode:
        sh("git", "-C", WT, "revert", "--abort")
        skipped.append(key); continue
    d = sh("git", "-C", WT, "diff", "HEAD").stdout
    os.makedirs(f"/verif/mutants/{key[0]}", exist_ok=True)
    open(f"/verif/mutants/{key[0]}/revert-{key[1]}.diff", "w").write(d)
    ok += 1
sh("git", "-C", "/repo", "worktree", "remove", "--force", WT)
print(f"{ok} revert mutants written; skipped (conflict with later commits): {skipped}")
