#!/usr/bin/env python3
"""Run go-swagger's pinned suite in a given tree (default /repo) and compare with
/root/.vp/BASELINE.json: every one of the stable_pass tests must pass.
usage: baseline.py [dir] [pkgpattern...]   (exit 0 = all baseline tests of the packages run passed)
go.sum is restored afterwards (-mod=mod may touch it)."""
import json, os, subprocess, sys, shutil
d = sys.argv[1] if len(sys.argv) > 1 else "/repo"
pats = sys.argv[2:] or ["./..."]
env = dict(os.environ, GOFLAGS="-mod=mod", GOPROXY="off", GOSUMDB="off", GOTOOLCHAIN="local")
env.pop("GOWORK", None)
gosum = open(os.path.join(d, "go.sum"), "rb").read()
gomod = open(os.path.join(d, "go.mod"), "rb").read()
try:
    p = subprocess.run(["go", "test", "-json", "-vet=off", "-count=1", "-timeout", "25m"] + pats,
                       cwd=d, env=env, stdout=subprocess.PIPE, stderr=subprocess.STDOUT, text=True)
finally:
    open(os.path.join(d, "go.sum"), "wb").write(gosum)
    open(os.path.join(d, "go.mod"), "wb").write(gomod)
passed, failed, pkgs = set(), set(), set()
buildfail = []
for line in p.stdout.splitlines():
    if not line.startswith("{"):
        continue
    try:
        ev = json.loads(line)
    except Exception:
        continue
    a, pkg, t = ev.get("Action"), ev.get("Package", ""), ev.get("Test")
    if a in ("pass", "fail", "skip") and t is None:
        pkgs.add(pkg)
        if a == "fail":
            buildfail.append(pkg)
    if t is None or a not in ("pass", "fail"):
        continue
    (passed if a == "pass" else failed).add(pkg + "::" + t)
passed -= failed
base = set(json.load(open("/root/.vp/BASELINE.json"))["stable_pass"])
want = {t for t in base if t.split("::")[0] in pkgs} if pats != ["./..."] else base
missing = sorted(want - passed)
print(f"baseline tests expected={len(want)} passed={len(want & passed)} missing_or_failed={len(missing)}")
for m in missing[:40]:
    print("  NOT PASSED:", m)
newfail = sorted(failed - base)
print("other failures (not in baseline):", len(newfail))
sys.exit(1 if missing else 0)
