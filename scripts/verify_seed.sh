#!/bin/bash
# usage: verify_seed.sh <ID> <N>   — confirm a seeded change in its own scratch worktree
# (/tmp/seed/<ID>/wt): patch applies, builds, pinned suite passes, demo fails with the
# patch and passes without. Writes /tmp/seed/<ID>/out/<N>/VERIFY.json
id="$1"; n="$2"
root=${SEED_ROOT:-/tmp/seed}; d=$root/$id/out/$n; wt=$root/$id/wt
export GOFLAGS=-mod=mod GOPROXY=off GOSUMDB=off GOTOOLCHAIN=local
unset GOWORK
cd "$wt" || exit 2
git checkout -q -- . ; git clean -fdq
res() { python3 - "$@" <<'PY'
import json,sys
k=sys.argv[1:]
d=dict(zip(k[0::2],k[1::2]))
json.dump(d,open(d.pop('_out'),'w'),indent=1)
print(d)
PY
}
demo="$d/mydemo.sh"; [ -f "$demo" ] || demo="$d/demo.sh"
[ -f "$demo" ] || { res _out "$d/VERIFY.json" status no-demo; exit 1; }
if ! git apply --check "$d/patch.diff" 2>/dev/null; then res _out "$d/VERIFY.json" status patch-does-not-apply; exit 1; fi
git apply "$d/patch.diff"
if ! (go build ./... && go test -vet=off -count=1 -run '^$' ./... >/dev/null 2>&1); then git checkout -q -- .; res _out "$d/VERIFY.json" status build-fails; exit 1; fi
suite=$(python3 /verif/scripts/baseline.py "$wt" 2>&1 | head -3 | tr '\n' ' ')
suite_rc=0; echo "$suite" | grep -q "missing_or_failed=0" || suite_rc=1
bash "$demo" > "$d/demo_with_patch.log" 2>&1; with_rc=$?
git checkout -q -- . ; git clean -fdq
bash "$demo" > "$d/demo_without_patch.log" 2>&1; without_rc=$?
git checkout -q -- . ; git clean -fdq
status=confirmed
[ "$suite_rc" = 0 ] || status=suite-fails
[ "$with_rc" != 0 ] || status=demo-passes-with-patch
[ "$without_rc" = 0 ] || status=demo-fails-without-patch
res _out "$d/VERIFY.json" status "$status" suite "$suite" demo_with_patch_rc "$with_rc" demo_without_patch_rc "$without_rc"
