# Claims table (exec'd by gen_manifest.py). Keep in step with DESIGN.md §0/§4/§5.
PENDING = "check not built yet in this round (implementation order: DESIGN.md §8); what a static rule can and cannot decide for it is in DESIGN.md §4/§5"
for _p in ["C01","C02","C03","C04","C05","C06","C07","C08","C09","C10","C11","C12","C13","C14","C16","C17","C18","C19"]:
    NOT_APPLICABLE[_p] = PENDING

claim("C15",
  "Decides, on every run, the structural part of C15 in the diff package: the code/compatibility string tables are total, injective and not cross-wired and the reverse tables and JSON (un)marshallers use the paired tables; SpecDifference.Matches compares exactly the JSON-visible fields; FilterIgnores keeps an element iff the ignore list does not contain it and Execute filters before reporting; the text report has a section per Compatibility constant; every exit-0 return of the report functions is control-dependent on 'no breaking change'. It does not decide JSON decode/encode identity for arbitrary info strings nor run the command.",
  "Trusted: go/types constant folding and type resolution; encoding/json string round-trip; go-flags turning a non-nil Execute error into a non-zero exit status. One known finding (JSON format exits 0 with Breaking entries) is pinned by the test-suite and listed in known_findings.json.",
  "typed-AST table agreement (totality/injectivity/cross-wiring), struct-tag vs comparison-field agreement, structural control-dependence of return statements",
  "DESIGN.md §4 C15")
