# Claims table (exec'd by gen_manifest.py). Keep in step with DESIGN.md §0/§4/§5.
PENDING = "check not built yet in this round (implementation order: DESIGN.md §8); what a static rule can and cannot decide for it is in DESIGN.md §4/§5"
for _p in ["C01","C02","C03","C04","C05","C06","C07","C08","C09","C10","C11","C16","C17","C18","C19"]:
    NOT_APPLICABLE[_p] = PENDING

claim("C15",
  "Decides, on every run, the structural part of C15 in the diff package: the code/compatibility string tables are total, injective and not cross-wired and the reverse tables and JSON (un)marshallers use the paired tables; SpecDifference.Matches compares exactly the JSON-visible fields; FilterIgnores keeps an element iff the ignore list does not contain it and Execute filters before reporting; the text report has a section per Compatibility constant; every exit-0 return of the report functions is control-dependent on 'no breaking change'. It does not decide JSON decode/encode identity for arbitrary info strings nor run the command.",
  "Trusted: go/types constant folding and type resolution; encoding/json string round-trip; go-flags turning a non-nil Execute error into a non-zero exit status. One known finding (JSON format exits 0 with Breaking entries) is pinned by the test-suite and listed in known_findings.json.",
  "typed-AST table agreement (totality/injectivity/cross-wiring), struct-tag vs comparison-field agreement, structural control-dependence of return statements",
  "DESIGN.md §4 C15")

claim("C13",
  "Decides structural necessary conditions of 'diff never under-reports': the compatibility policy never maps a code the statement lists as breaking to NonBreaking/Warning and is applied to every stored difference; Compare*Values call sites compare the attribute their label names from opposite sides with the right widened/narrowed sense; every constraint attribute of the statement is compared between the two specs, without a one-sided pre-filter and without a format gate; the parameter/header/items adapters copy every validation field; all five parameter locations are analysed with operation-level override precedence; $ref resolution precedes field reads; every exit-0 return is control-dependent on 'no breaking change'. It does not decide completeness of the analyser against request semantics (nested constraints, location changes, witnesses).",
  "Trusted: go/types; the side inference seeds (Analyse's parameters are old/new spec); the frozen list of breaking codes taken from the property statement and docs/reference/transform/diff.md. Two known findings (JSON exit status; enum introduced on a value that had none) are listed in known_findings.json.",
  "side-inference dataflow over the typed AST, table agreement, structural control-dependence, call-site argument agreement",
  "DESIGN.md §4 C13")
claim("C14",
  "Decides the orientation of every difference-emission site of the diff analyser: each directed change code is emitted only under a relational trigger of the matching orientation between spec 1 and spec 2 (derived by side inference and guard classification), Widened/Narrowed agree with the sense of the attribute compared, every directed emission has a mirror emission, and DiffsTo's result orientation is derived from its body. It does not decide multiset equality of two concrete mirrored reports.",
  "Trusted: go/types; seeds of the side inference; code classes follow the repository's constant names with the mirror table of DESIGN appendix A.3. One known defect (compareDescripton labels a changed description 'deleted' in both directions, pinned by a golden fixture) is listed in known_findings.json under its three obligations.",
  "side-inference dataflow + guard-literal classification (relational triggers) over the typed AST; mirror-site matching",
  "DESIGN.md §4 C14")

claim("C12",
  "Decides crash-freedom and guard-presence obligations for the diff analyser: every slice/string index, dereference of a pointer that may be nil in a valid Swagger 2.0 document (incl. typed-nil pointers passed through interface parameters), interface{} comparison, single-value type assertion and explicit panic in the diff package is dominated by a fact that makes it safe (facts from branch conditions, producers, guard-function summaries; unguarded parameter uses become preconditions checked at call sites); the $ref recursion of compareSchema tests and updates the visited set before descending and the visited key is loop-free; every difference emission is control-dependent on a relational trigger of difference polarity, and presence lookups compare twin collections. It does not decide reflexivity of the comparison for every spec, nor behaviour under re-serialisation (loader).",
  "Trusted: go/types; the list of pointer fields of go-openapi/spec that may be nil in a valid document (table diffNilable) and the validity assumptions stated in the evidence (array ⇒ items present; $refs resolve; Paths/Info/Responses present). Five crashes found by these rules were repaired by fix: commits (known_findings.json, status fixed).",
  "flow-sensitive guard-fact analysis over the typed AST (may-panic obligations with parameter preconditions), dominance ordering for the recursion guard, relational trigger classification",
  "DESIGN.md §4 C12")
