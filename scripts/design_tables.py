#!/usr/bin/env python3
"""design_tables.py rules | round <label>  — prints the markdown tables of DESIGN.md §9.2 (from evidence/*.json)
and §9.5 (from seeded/*/<label>*/meta.json)."""
import json, glob, os, sys
def rules():
    print("| id | obligations | rules (instances on the current tree / floor) |\n|----|----|----|")
    for f in sorted(glob.glob('/verif/evidence/C*.json')):
        d = json.load(open(f))
        cov = d.get('coverage', {})
        rs = cov.get('rules', [])
        nob = cov.get('obligations', cov.get('obligations_total', ''))
        if not nob:
            nob = sum(r.get('instances', 0) for r in rs)
        cells = ' · '.join(f"{r['rule'].split('.',1)[1]} ({r['instances']}/{r['floor']})" for r in rs)
        print(f"| {os.path.basename(f)[:-5]} | {nob} | {cells} |")
def rnd(label):
    rows, blind, n = [], 0, 0
    for m in sorted(glob.glob(f'/verif/seeded/*/{label}*/meta.json')):
        d = json.load(open(m)); pid = d['property']; k = os.path.basename(os.path.dirname(m))
        det = d['detection']; note = det.get('note', '')
        rules = ', '.join(sorted(set(r.split('.', 1)[1] for r in det.get('rules', []))))
        n += 1
        if det.get('blind') is True:
            blind += 1; res = f"**caught blind**: {rules}"
        elif 'caught blind by' in note:
            res = f"missed blind by {pid}, caught blind by a sibling check → now also {rules}"
        elif note.startswith('MISSED'):
            res = "**missed (documented)**"
        else:
            res = f"missed blind → rule added: {rules}"
        what = (d.get('breaks') or '')[:90].replace('|', '/')
        rows.append(f"| {pid}/{k} | {what} — {res} |")
    print(f"{n} confirmed changes, {blind} caught blind by the check of their own property\n")
    print("| change | what it breaks — blind result: rule that reports it now |\n|----|----|")
    print('\n'.join(rows))
if sys.argv[1] == 'rules': rules()
else: rnd(sys.argv[2])
