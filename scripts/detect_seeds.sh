#!/bin/bash
# usage: detect_seeds.sh <seed-root> [ids...]  — for every <seed-root>/<ID>/out/<n>/patch.diff: apply to /repo,
# run the check of the seed's own property, revert; writes <seed-root>/<ID>/out/<n>/DETECT.json
root="$1"; shift
ids="$@"; [ -z "$ids" ] && ids=$(ls "$root" | grep '^C[0-9][0-9]$')
cd /repo || exit 2
[ -n "$(git status --porcelain)" ] && { echo "REPO DIRTY"; exit 2; }
for id in $ids; do for n in 1 2 3 4; do
  d="$root/$id/out/$n"; p="$d/patch.diff"; [ -f "$p" ] || continue
  if ! git apply --check "$p" 2>/dev/null; then
    python3 - "$d" "$id" <<'PY'
import json,sys
json.dump({"property":sys.argv[2],"applies":False,"detected":None,"rules":[]},open(sys.argv[1]+"/DETECT.json","w"),indent=1)
PY
    echo "$id/$n DOES-NOT-APPLY"; continue
  fi
  git apply "$p"
  out=$(cd /verif && VERIF_NO_EVIDENCE=1 ./check "$id" 2>&1); rc=$?
  git reset -q --hard HEAD; git clean -fdq
  echo "$out" > "$d/detect.out"
  python3 - "$d" "$id" "$rc" <<'PY'
import json,sys,re
d,pid,rc=sys.argv[1],sys.argv[2],int(sys.argv[3])
out=open(d+"/detect.out",errors="replace").read()
rules=sorted(set(re.findall(r'VIOLATED (\S+) ::',out)))
first=re.findall(r'VIOLATED (.*)',out)[:3]
json.dump({"property":pid,"applies":True,"exit":rc,"detected":rc==1 and bool(rules),"rules":rules,"first_violations":first},open(d+"/DETECT.json","w"),indent=1,ensure_ascii=False)
print(f"{pid}/{d.rsplit('/',1)[1]} exit={rc} rules={rules}")
PY
done; done
