package goan

import (
	"go/ast"
	"go/token"
	"go/types"
)

// Lit is one literal of the conjunction of conditions under which a statement executes:
// expression E evaluated to Pos. A positive disjunction is kept whole (Pos=true, E=a||b).
// For switch statements with a tag, Tag is set and E is the case expression (meaning
// Tag == E when Pos, Tag != E otherwise).
type Lit struct {
	E   ast.Expr
	Pos bool
	Tag ast.Expr
	// Early is true when the literal comes from an earlier `if c { ...terminates }` rather
	// than from an enclosing branch.
	Early bool
	// NonEmpty: the literal states len(E) > 0 (body of `range E`).
	NonEmpty bool
}

func (l Lit) String() string {
	s := types.ExprString(l.E)
	if l.NonEmpty {
		return "nonempty(" + s + ")"
	}
	if l.Tag != nil {
		if l.Pos {
			return types.ExprString(l.Tag) + " == " + s
		}
		return types.ExprString(l.Tag) + " != " + s
	}
	if !l.Pos {
		return "!(" + s + ")"
	}
	return s
}

// Flatten decomposes a condition evaluated to pos into conjunct literals.
func Flatten(e ast.Expr, pos bool, out *[]Lit) {
	switch x := e.(type) {
	case *ast.ParenExpr:
		Flatten(x.X, pos, out)
		return
	case *ast.UnaryExpr:
		if x.Op == token.NOT {
			Flatten(x.X, !pos, out)
			return
		}
	case *ast.BinaryExpr:
		if (x.Op == token.LAND && pos) || (x.Op == token.LOR && !pos) {
			Flatten(x.X, pos, out)
			Flatten(x.Y, pos, out)
			return
		}
	}
	*out = append(*out, Lit{E: e, Pos: pos})
}

// Terminates reports whether a statement list always leaves the enclosing block
// (return / continue / break / goto / panic / os.Exit / log.Fatal*).
func Terminates(info *types.Info, b []ast.Stmt) bool {
	if len(b) == 0 {
		return false
	}
	switch x := b[len(b)-1].(type) {
	case *ast.ReturnStmt:
		return true
	case *ast.BranchStmt:
		return x.Tok == token.CONTINUE || x.Tok == token.BREAK || x.Tok == token.GOTO
	case *ast.ExprStmt:
		if c, ok := x.X.(*ast.CallExpr); ok {
			return IsNoReturnCall(info, c)
		}
	case *ast.BlockStmt:
		return Terminates(info, x.List)
	case *ast.IfStmt:
		if x.Else == nil {
			return false
		}
		if !Terminates(info, x.Body.List) {
			return false
		}
		switch e := x.Else.(type) {
		case *ast.BlockStmt:
			return Terminates(info, e.List)
		case *ast.IfStmt:
			return Terminates(info, []ast.Stmt{e})
		}
	}
	return false
}

// IsNoReturnCall recognises panic, os.Exit, log.Fatal*, log.Panic*.
func IsNoReturnCall(info *types.Info, c *ast.CallExpr) bool {
	switch f := c.Fun.(type) {
	case *ast.Ident:
		if f.Name == "panic" {
			if _, ok := info.Uses[f].(*types.Builtin); ok {
				return true
			}
		}
	case *ast.SelectorExpr:
		if fn, ok := info.Uses[f.Sel].(*types.Func); ok && fn.Pkg() != nil {
			switch fn.Pkg().Path() + "." + fn.Name() {
			case "os.Exit", "log.Fatal", "log.Fatalf", "log.Fatalln", "log.Panic", "log.Panicf", "log.Panicln":
				return true
			}
		}
	}
	return false
}

// GuardVisitor is called for every "leaf" statement (anything that is not a structured
// control statement) and for every condition / tag / range expression, with the guard
// literals in force. Loops holds the enclosing loop statements, innermost last.
type GuardVisitor func(n ast.Node, guards []Lit, loops []ast.Stmt)

// WalkGuards walks a function body computing guard literals structurally. FuncLits are
// walked with the guards of their definition site (closures called in place).
func WalkGuards(info *types.Info, body *ast.BlockStmt, visit GuardVisitor) {
	w := &gwalk{info: info, visit: visit}
	w.block(body.List, nil, nil)
}

type gwalk struct {
	info  *types.Info
	visit GuardVisitor
}

func cp(g []Lit, more ...Lit) []Lit {
	out := make([]Lit, 0, len(g)+len(more))
	out = append(out, g...)
	return append(out, more...)
}

func (w *gwalk) block(b []ast.Stmt, g []Lit, loops []ast.Stmt) []Lit {
	for _, s := range b {
		g = w.stmt(s, g, loops)
	}
	return g
}

func early(ls []Lit) []Lit {
	out := make([]Lit, len(ls))
	for i, l := range ls {
		l.Early = true
		out[i] = l
	}
	return out
}

// stmt visits s under g and returns the guards in force after s (extended by early exits).
func (w *gwalk) stmt(s ast.Stmt, g []Lit, loops []ast.Stmt) []Lit {
	switch x := s.(type) {
	case *ast.IfStmt:
		if x.Init != nil {
			g = w.stmt(x.Init, g, loops)
		}
		w.visit(x.Cond, g, loops)
		var pos, neg []Lit
		Flatten(x.Cond, true, &pos)
		Flatten(x.Cond, false, &neg)
		w.block(x.Body.List, cp(g, pos...), loops)
		elseTerm := false
		if x.Else != nil {
			switch e := x.Else.(type) {
			case *ast.BlockStmt:
				w.block(e.List, cp(g, neg...), loops)
				elseTerm = Terminates(w.info, e.List)
			default:
				w.stmt(e, cp(g, neg...), loops)
				elseTerm = Terminates(w.info, []ast.Stmt{e})
			}
		}
		if Terminates(w.info, x.Body.List) {
			return cp(g, early(neg)...)
		} else if elseTerm {
			return cp(g, early(pos)...)
		}
		return g
	case *ast.BlockStmt:
		return w.block(x.List, g, loops)
	case *ast.LabeledStmt:
		return w.stmt(x.Stmt, g, loops)
	case *ast.RangeStmt:
		w.visit(x, g, loops)
		w.block(x.Body.List, cp(g, Lit{E: x.X, Pos: true, NonEmpty: true}), append(append([]ast.Stmt{}, loops...), x))
		return g
	case *ast.ForStmt:
		if x.Init != nil {
			g = w.stmt(x.Init, g, loops)
		}
		g2 := g
		if x.Cond != nil {
			w.visit(x.Cond, g, loops)
			var pos []Lit
			Flatten(x.Cond, true, &pos)
			g2 = cp(g, pos...)
		}
		w.block(x.Body.List, g2, append(append([]ast.Stmt{}, loops...), x))
		if x.Post != nil {
			w.stmt(x.Post, g2, loops)
		}
		return g
	case *ast.SwitchStmt:
		if x.Init != nil {
			g = w.stmt(x.Init, g, loops)
		}
		if x.Tag != nil {
			w.visit(x.Tag, g, loops)
		}
		var prevNeg []Lit
		for _, c := range x.Body.List {
			cc := c.(*ast.CaseClause)
			g2 := cp(g, prevNeg...)
			if x.Tag == nil {
				if len(cc.List) == 1 {
					Flatten(cc.List[0], true, &g2)
				} else if len(cc.List) > 1 {
					// disjunction of several expressions: keep as an or-literal
					var or ast.Expr = cc.List[0]
					for _, e := range cc.List[1:] {
						or = &ast.BinaryExpr{X: or, Op: token.LOR, Y: e, OpPos: e.Pos()}
					}
					g2 = append(g2, Lit{E: or, Pos: true})
				}
				for _, e := range cc.List {
					w.visit(e, cp(g, prevNeg...), loops)
					Flatten(e, false, &prevNeg)
				}
			} else {
				if len(cc.List) == 1 {
					g2 = append(g2, Lit{E: cc.List[0], Pos: true, Tag: x.Tag})
				}
				for _, e := range cc.List {
					prevNeg = append(prevNeg, Lit{E: e, Pos: false, Tag: x.Tag})
				}
			}
			w.block(cc.Body, g2, loops)
		}
		return g
	case *ast.TypeSwitchStmt:
		if x.Init != nil {
			g = w.stmt(x.Init, g, loops)
		}
		w.visit(x.Assign, g, loops)
		for _, c := range x.Body.List {
			w.block(c.(*ast.CaseClause).Body, g, loops)
		}
		return g
	case *ast.SelectStmt:
		for _, c := range x.Body.List {
			w.block(c.(*ast.CommClause).Body, g, loops)
		}
		return g
	default:
		w.visit(s, g, loops)
		// closures defined in this statement are walked in place
		ast.Inspect(s, func(n ast.Node) bool {
			if fl, ok := n.(*ast.FuncLit); ok {
				w.block(fl.Body.List, g, nil)
				return false
			}
			return true
		})
		return g
	}
}
