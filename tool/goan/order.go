package goan

// Order taint (DESIGN E7): does the iteration order of a Go map reach an output?
//
// For every `range` over a map (and over slices already filled in map order) the body's
// order-sensitive effects are collected: appends to locations living outside the loop body,
// writes to builders/writers, value-carrying returns/breaks (first match), last-writer
// assignments, and calls to functions whose summary says they append to / write through a
// location reachable from their arguments. A tainted location is sanitised by a sort call on
// it that is positioned after the loop in a block enclosing the loop. What remains tainted
// and escapes (returned, stored in a field, joined/printed/marshalled) is a finding.

import (
	"fmt"
	"go/ast"
	"go/token"
	"go/types"
	"sort"
	"strings"

	"golang.org/x/tools/go/packages"
)

type RootKind int

const (
	RootLocalInner RootKind = iota // declared inside the loop body (iteration-local)
	RootLocalOuter                 // local declared outside the loop
	RootParam                      // parameter / receiver rooted
	RootGlobal
	RootFresh // field of an object allocated in this iteration
	RootUnknown
)

func (k RootKind) String() string {
	return [...]string{"iter-local", "outer-local", "param/recv", "global", "fresh", "unknown"}[k]
}

// Effect is one order-sensitive effect inside a map-range body.
type Effect struct {
	Kind string // append | write | first-match | last-writer | call
	Loc  string // location key for append / last-writer
	Root RootKind
	Pos  token.Pos
	Text string
	// for Kind == call: callee name
	Callee  string
	RootVar *types.Var
	Stmt    ast.Node
}

type MapRange struct {
	Pkg          *packages.Package
	Fn           *ast.FuncDecl
	FnName       string
	Stmt         *ast.RangeStmt
	X            string
	IsMap        bool // false: range over an order-tainted slice
	Effects      []Effect
	Class        string // insensitive | sanitised | escapes | reviewed
	Findings     []string
	FindingKeys  []string // parallel to Findings: a line-free key of what escapes
	Sanitised    []string
	mapReads     []mapRead
	localReads   []mapRead
	callStores   []mapRead
	directStores []mapRead
	Returned     []string // locals filled in map order and only returned (decided at call sites)
	Escaping     []EscLoc // parameter/receiver/global rooted locations left unsorted by this function
}

type mapRead struct {
	loc  string
	pos  token.Pos
	text string
	typ  string // type of the map (local reads): names the finding independently of the index text
}

// EscLoc is a caller-visible location filled in map order and not sorted in the function.
type EscLoc struct {
	Loc, Text string
	Root      RootKind
	RootVar   *types.Var
	Pos       token.Pos
}

// CallSiteTaint: the result of a function that returns a map-ordered slice, and what is
// done with it unsorted.
type CallSiteTaint struct {
	Pkg          *packages.Package
	FnName       string
	Pos          token.Pos
	Callee       string
	Target       string
	Bad          []string
	OnlyReturned bool
}

func (m *MapRange) Key() string { return m.FnName + " › range " + m.X }

// fnSummary: ordered effects of calling a function once.
type fnSummary struct {
	decl *ast.FuncDecl
	pkg  *packages.Package
	obj  *types.Func
	// appends to a location rooted at parameter i (-1 receiver), with the field path
	appendsParam  map[string]bool // "idx:path"
	appendsGlobal map[string]bool
	storesMap     map[string]bool // "idx:path": inserts into a map rooted at parameter idx
	writesParam   map[int]bool    // writes to a writer/builder parameter
	writesOutput  bool            // writes to stdout / files
	retTainted    bool            // returns a slice filled in map order (unsorted)
	retContent    bool            // returns a scalar whose content depends on map order
}

type OrderAnalysis struct {
	Pkgs    []*packages.Package
	fns     map[*types.Func]*fnSummary
	changed bool
	Ranges  []*MapRange
	// RetTainted lists functions whose result is order-tainted (evidence).
	RetTainted []string
	CallSites  []CallSiteTaint
	ctx        map[*fnSummary]*fnCtx
	// LogIsOutput: treat log.* calls as output (false: diagnostics on stderr are not part of
	// the property's outputs).
	LogIsOutput bool
}

func NewOrderAnalysis(pkgs []*packages.Package) *OrderAnalysis {
	oa := &OrderAnalysis{Pkgs: pkgs, fns: map[*types.Func]*fnSummary{}}
	for _, p := range pkgs {
		for _, fd := range allFuncs(p) {
			if o, ok := p.TypesInfo.Defs[fd.Name].(*types.Func); ok {
				oa.fns[o] = &fnSummary{decl: fd, pkg: p, obj: o, appendsParam: map[string]bool{}, appendsGlobal: map[string]bool{}, writesParam: map[int]bool{}, storesMap: map[string]bool{}}
			}
		}
	}
	return oa
}

func isMapType(t types.Type) bool {
	if t == nil {
		return false
	}
	_, ok := t.Underlying().(*types.Map)
	return ok
}

// locOf renders a location key and its root variable for an lvalue-ish expression.
func locOf(info *types.Info, e ast.Expr) (key string, root *types.Var, path string) {
	switch x := ast.Unparen(e).(type) {
	case *ast.Ident:
		if v, ok := objOf(info, x).(*types.Var); ok {
			return fmt.Sprintf("%s@%d", x.Name, v.Pos()), v, ""
		}
	case *ast.SelectorExpr:
		if sel, ok := info.Selections[x]; ok && sel.Kind() == types.FieldVal {
			k, r, p := locOf(info, x.X)
			if r == nil {
				return "", nil, ""
			}
			return k + "." + x.Sel.Name, r, p + "." + x.Sel.Name
		}
		// package-qualified global
		if v, ok := info.Uses[x.Sel].(*types.Var); ok {
			return "global:" + v.Pkg().Path() + "." + v.Name(), v, ""
		}
	case *ast.StarExpr:
		return locOf(info, x.X)
	case *ast.IndexExpr:
		k, r, p := locOf(info, x.X)
		if r == nil {
			return "", nil, ""
		}
		return k + "[]", r, p + "[]"
	}
	return "", nil, ""
}

func objOf(info *types.Info, id *ast.Ident) types.Object {
	if o := info.Uses[id]; o != nil {
		return o
	}
	return info.Defs[id]
}

func (oa *OrderAnalysis) rootKind(p *packages.Package, fd *ast.FuncDecl, loop *ast.RangeStmt, v *types.Var) RootKind {
	if v == nil {
		return RootUnknown
	}
	if v.Parent() == p.Types.Scope() || (v.Pkg() != nil && v.Parent() == v.Pkg().Scope()) {
		return RootGlobal
	}
	if isParamOrRecv(p.TypesInfo, fd, v) {
		return RootParam
	}
	if loop != nil && v.Pos() >= loop.Body.Pos() && v.Pos() <= loop.Body.End() {
		return RootLocalInner
	}
	// the loop's own key/value variables are iteration-local
	if loop != nil {
		for _, kv := range []ast.Expr{loop.Key, loop.Value} {
			if id, ok := kv.(*ast.Ident); ok && p.TypesInfo.Defs[id] == v {
				return RootLocalInner
			}
		}
	}
	return RootLocalOuter
}

// freshInIteration: v is declared inside the loop body and initialised from an allocation
// (composite literal, &T{}, new, make, constructor call): its fields are iteration-local.
func freshLocal(info *types.Info, fd *ast.FuncDecl, v *types.Var) bool {
	for _, a := range AssignmentsTo(info, fd.Body, v) {
		if a.Rhs == nil || a.IsRange {
			continue
		}
		switch x := ast.Unparen(a.Rhs).(type) {
		case *ast.CompositeLit:
			return true
		case *ast.UnaryExpr:
			if x.Op == token.AND {
				return true
			}
		case *ast.CallExpr:
			return true // value returned by a call: a fresh value or a copy, not an alias of an outer slice header… conservative for structs
		}
	}
	return false
}

func sortTarget(info *types.Info, c *ast.CallExpr) (string, bool) {
	fn := Callee(info, c)
	if fn == nil || fn.Pkg() == nil || len(c.Args) == 0 {
		return "", false
	}
	if fn.Pkg().Path() != "sort" && fn.Pkg().Path() != "slices" {
		return "", false
	}
	switch fn.Name() {
	case "Sort", "Stable", "Strings", "Ints", "Float64s", "Slice", "SliceStable", "SortFunc", "SortStableFunc":
	default:
		return "", false
	}
	a := c.Args[0]
	for {
		if ce, ok := ast.Unparen(a).(*ast.CallExpr); ok && len(ce.Args) == 1 {
			a = ce.Args[0] // conversions, sort.Reverse(...)
			continue
		}
		break
	}
	k, _, _ := locOf(info, a)
	return k, k != ""
}

// isWriterCall: writes to an io.Writer / strings.Builder / bytes.Buffer.
func writerCall(info *types.Info, c *ast.CallExpr) (target ast.Expr, isLog bool, ok bool) {
	fn := Callee(info, c)
	if fn == nil || fn.Pkg() == nil {
		return nil, false, false
	}
	full := CalleeName(fn)
	switch {
	case strings.HasPrefix(full, "fmt.Fprint"):
		if len(c.Args) > 0 {
			return c.Args[0], false, true
		}
	case strings.HasPrefix(full, "fmt.Print"):
		return nil, false, true
	case strings.HasPrefix(full, "log."):
		switch fn.Name() {
		case "Printf", "Println", "Print", "Fatalf", "Fatal", "Fatalln":
			return nil, true, true
		}
	case full == "io.WriteString":
		if len(c.Args) > 0 {
			return c.Args[0], false, true
		}
	}
	if se, isSel := c.Fun.(*ast.SelectorExpr); isSel {
		switch fn.Name() {
		case "WriteString", "WriteByte", "WriteRune", "Write":
			if sel, ok := info.Selections[se]; ok {
				tn := NamedPath(sel.Recv())
				if tn == "strings.Builder" || tn == "bytes.Buffer" || strings.HasSuffix(tn, "Writer") || tn == "os.File" {
					return se.X, false, true
				}
			}
		}
	}
	return nil, false, false
}

func mentionsAny(info *types.Info, e ast.Node, objs []types.Object) bool {
	found := false
	ast.Inspect(e, func(n ast.Node) bool {
		if id, ok := n.(*ast.Ident); ok {
			o := objOf(info, id)
			for _, w := range objs {
				if w != nil && o == w {
					found = true
				}
			}
		}
		return !found
	})
	return found
}

// Run computes summaries to a fixpoint and classifies every map range.
func (oa *OrderAnalysis) Run() {
	for i := 0; i < 12; i++ {
		oa.changed = false
		for _, fs := range oa.sortedFns() {
			oa.analyse(fs, false)
		}
		if !oa.changed {
			break
		}
	}
	oa.Ranges = nil
	oa.CallSites = nil
	for _, fs := range oa.sortedFns() {
		oa.Ranges = append(oa.Ranges, oa.analyse(fs, true)...)
	}
	sort.SliceStable(oa.Ranges, func(i, j int) bool {
		a, b := oa.Ranges[i], oa.Ranges[j]
		pa, pb := a.Pkg.Fset.Position(a.Stmt.Pos()), b.Pkg.Fset.Position(b.Stmt.Pos())
		if pa.Filename != pb.Filename {
			return pa.Filename < pb.Filename
		}
		return pa.Line < pb.Line
	})
	for o, fs := range oa.fns {
		if fs.retTainted || fs.retContent {
			oa.RetTainted = append(oa.RetTainted, o.FullName())
		}
	}
	sort.Strings(oa.RetTainted)
}

func (oa *OrderAnalysis) sortedFns() []*fnSummary {
	var out []*fnSummary
	for _, fs := range oa.fns {
		out = append(out, fs)
	}
	sort.Slice(out, func(i, j int) bool { return out[i].decl.Pos() < out[j].decl.Pos() })
	return out
}

type taintInfo struct {
	end     token.Pos // end of the loop that tainted it
	loop    *MapRange
	content bool // content taint (joined / first-match scalar): sorting does not help
	blocks  []ast.Node
}

func (oa *OrderAnalysis) setFlag(dst *bool) {
	if !*dst {
		*dst = true
		oa.changed = true
	}
}

// analyse one function: collect map ranges and their effects, taint locations, apply
// sanitisers, decide escapes, update the function's summary.
func (oa *OrderAnalysis) analyse(fs *fnSummary, final bool) []*MapRange {
	p, fd := fs.pkg, fs.decl
	info := p.TypesInfo
	name := fd.Name.Name
	if fd.Recv != nil {
		name = recvBase(fd) + "." + name
	}
	// parents: statement -> enclosing blocks chain, for the sanitiser placement rule
	parents := map[ast.Node][]ast.Node{}
	var stack []ast.Node
	ast.Inspect(fd.Body, func(n ast.Node) bool {
		if n == nil {
			stack = stack[:len(stack)-1]
			return true
		}
		parents[n] = append([]ast.Node{}, stack...)
		stack = append(stack, n)
		return true
	})
	var sorts []sortCall
	ast.Inspect(fd.Body, func(n ast.Node) bool {
		if c, ok := n.(*ast.CallExpr); ok {
			if k, ok := sortTarget(info, c); ok {
				sorts = append(sorts, sortCall{k, c.Pos(), c})
			}
		}
		return true
	})
	tainted := map[string]*taintInfo{}
	var ranges []*MapRange

	// sanitised: a sort on loc positioned after `after`, whose enclosing blocks are all
	// ancestors of the tainting loop (so it runs on every path that ran the loop), or which
	// sits inside an enclosing loop body shared with the tainting loop.
	sanitised := func(loc string, ti *taintInfo) bool {
		for _, sc := range sorts {
			if sc.loc != loc || sc.pos < ti.end {
				continue
			}
			if ti.loop == nil {
				return true
			}
			// every BlockStmt ancestor of the sort must also be an ancestor of the loop
			loopAnc := map[ast.Node]bool{}
			for _, a := range parents[ti.loop.Stmt] {
				loopAnc[a] = true
			}
			ok := true
			for _, a := range parents[sc.n] {
				switch a.(type) {
				case *ast.IfStmt, *ast.CaseClause, *ast.ForStmt, *ast.RangeStmt, *ast.SwitchStmt, *ast.TypeSwitchStmt:
					if !loopAnc[a] {
						ok = false
					}
				}
			}
			if ok {
				return true
			}
		}
		return false
	}

	var loopStack []*MapRange
	var loopStmts []*ast.RangeStmt
	litDepth := 0
	cur := func() *MapRange {
		if len(loopStack) == 0 {
			return nil
		}
		return loopStack[len(loopStack)-1]
	}
	innermostStmt := func() *ast.RangeStmt {
		if len(loopStmts) == 0 {
			return nil
		}
		return loopStmts[len(loopStmts)-1]
	}
	addEffect := func(e Effect) {
		if m := cur(); m != nil {
			m.Effects = append(m.Effects, e)
		}
	}

	var walk func(n ast.Node) bool
	walk = func(n ast.Node) bool {
		switch x := n.(type) {
		case *ast.FuncLit:
			// closures are analysed in place, but their return statements are their own
			litDepth++
			ast.Inspect(x.Body, walk)
			litDepth--
			return false
		case *ast.RangeStmt:
			isMap := isMapType(info.TypeOf(x.X))
			taintedSrc := false
			if !isMap {
				if k, _, _ := locOf(info, x.X); k != "" {
					if ti, ok := tainted[k]; ok && !ti.content && !sanitisedBefore(sorts, k, ti.end, x.Pos()) {
						taintedSrc = true
					}
				}
				if c, ok := ast.Unparen(x.X).(*ast.CallExpr); ok {
					if fn := Callee(info, c); fn != nil {
						if cf := oa.fns[fn]; cf != nil && cf.retTainted {
							taintedSrc = true
						}
					}
				}
			}
			if isMap || taintedSrc {
				m := &MapRange{Pkg: p, Fn: fd, FnName: name, Stmt: x, X: types.ExprString(x.X), IsMap: isMap}
				loopStack = append(loopStack, m)
				loopStmts = append(loopStmts, x)
				ast.Inspect(x.Body, walk)
				loopStack = loopStack[:len(loopStack)-1]
				loopStmts = loopStmts[:len(loopStmts)-1]
				// effects bubble to the enclosing map range as well (outer order matters too)
				if outer := cur(); outer != nil {
					for _, e := range m.Effects {
						// iteration-local to the OUTER loop?
						if e.RootVar != nil {
							rk := oa.rootKind(p, fd, outer.Stmt, e.RootVar)
							if rk == RootLocalInner {
								continue
							}
						}
						outer.Effects = append(outer.Effects, e)
					}
				}
				// taint locations
				for _, e := range m.Effects {
					if (e.Kind == "append" || e.Kind == "call-append") && e.Loc != "" && e.Root != RootLocalInner && e.Root != RootFresh {
						if _, ok := tainted[e.Loc]; !ok || tainted[e.Loc].end < x.End() {
							tainted[e.Loc] = &taintInfo{end: x.End(), loop: m}
						}
					}
				}
				ranges = append(ranges, m)
				return false
			}
		case *ast.AssignStmt:
			for _, l := range x.Lhs {
				ix, ok := ast.Unparen(l).(*ast.IndexExpr)
				if !ok || !isMapType(info.TypeOf(ix.X)) {
					continue
				}
				k, root, path := locOf(info, ix.X)
				if root == nil {
					continue
				}
				if oa.rootKind(p, fd, nil, root) == RootParam {
					key := fmt.Sprintf("%d:%s", paramIdx(info, fd, root), path)
					if !fs.storesMap[key] {
						fs.storesMap[key] = true
						oa.changed = true
					}
				}
				for _, lm := range loopStack {
					if lk, _, _ := locOf(info, lm.Stmt.X); lk == k && lm.IsMap {
						lm.Effects = append(lm.Effects, Effect{Kind: "mutates-ranged-map", Loc: k, Pos: x.Pos(), Text: types.ExprString(l)})
					}
					lm.directStores = append(lm.directStores, mapRead{k, x.Pos(), types.ExprString(l), ""})
				}
			}
			for i, r := range x.Rhs {
				if i >= len(x.Lhs) && len(x.Rhs) != 1 {
					continue
				}
				lhs := x.Lhs[0]
				if i < len(x.Lhs) {
					lhs = x.Lhs[i]
				}
				c, isCall := ast.Unparen(r).(*ast.CallExpr)
				if isCall && IsBuiltinCall(info, c, "append") && len(c.Args) >= 1 {
					k, root, path := locOf(info, lhs)
					rk := oa.rootKind(p, fd, innermostStmt(), root)
					if rk == RootLocalInner && root != nil && path != "" && !freshLocal(info, fd, root) {
						rk = RootUnknown
					} else if rk == RootLocalInner && path != "" {
						rk = RootFresh
					}
					// summary: appends to parameter-rooted / global locations
					if root != nil {
						switch oa.rootKind(p, fd, nil, root) {
						case RootParam:
							key := fmt.Sprintf("%d:%s", paramIdx(info, fd, root), path)
							if !fs.appendsParam[key] {
								fs.appendsParam[key] = true
								oa.changed = true
							}
						case RootGlobal:
							if !fs.appendsGlobal[k] {
								fs.appendsGlobal[k] = true
								oa.changed = true
							}
						}
					}
					if cur() != nil && k != "" {
						addEffect(Effect{Kind: "append", Loc: k, Root: rk, Pos: x.Pos(), Text: types.ExprString(lhs), RootVar: root, Stmt: x})
					}
					// appending a tainted slice's elements taints the target
					if c.Ellipsis.IsValid() && len(c.Args) == 2 {
						if sk, _, _ := locOf(info, c.Args[1]); sk != "" {
							if ti, ok := tainted[sk]; ok && k != "" {
								tainted[k] = &taintInfo{end: x.End(), loop: ti.loop, content: ti.content}
							}
						}
					}
					continue
				}
				if isCall {
					if fn := Callee(info, c); fn != nil {
						if cf := oa.fns[fn]; cf != nil && (cf.retTainted || cf.retContent) {
							if k, _, _ := locOf(info, lhs); k != "" {
								tainted[k] = &taintInfo{end: x.End(), content: cf.retContent && !cf.retTainted}
							}
						}
					}
					// strings.Join(tainted, …) → content taint
					if fn := Callee(info, c); fn != nil && CalleeName(fn) == "strings.Join" && len(c.Args) == 2 {
						if sk, _, _ := locOf(info, c.Args[0]); sk != "" {
							if ti, ok := tainted[sk]; ok && !sanitisedBefore(sorts, sk, ti.end, x.Pos()) {
								if k, _, _ := locOf(info, lhs); k != "" {
									tainted[k] = &taintInfo{end: x.End(), loop: ti.loop, content: true}
								}
							}
						}
					}
				}
				// last-writer / accumulate: outer location assigned a value depending on the iteration
				if m := cur(); m != nil && (x.Tok == token.ASSIGN || x.Tok == token.ADD_ASSIGN) {
					k, root, path := locOf(info, lhs)
					if _, isIdx := ast.Unparen(lhs).(*ast.IndexExpr); isIdx {
						continue // keyed store: order-insensitive when keys are distinct per iteration
					}
					lt := info.TypeOf(lhs)
					if lt == nil || isMapType(lt) {
						continue // accumulating into a map/set is order-insensitive
					}
					rk := oa.rootKind(p, fd, innermostStmt(), root)
					if rk == RootLocalInner && path != "" && root != nil && freshLocal(info, fd, root) {
						rk = RootFresh
					}
					if k == "" || rk == RootLocalInner || rk == RootFresh {
						continue
					}
					if b, isBasic := lt.Underlying().(*types.Basic); isBasic {
						if b.Info()&(types.IsNumeric|types.IsBoolean) != 0 && x.Tok == token.ADD_ASSIGN {
							continue // commutative accumulation
						}
						if b.Info()&types.IsBoolean != 0 {
							continue // boolean flags: or/and-accumulation or existence
						}
					}
					selfRef := root != nil && mentionsAny(info, r, []types.Object{root}) && strings.Contains(types.ExprString(r), types.ExprString(lhs))
					if selfRef || x.Tok == token.ADD_ASSIGN {
						// x = f(x, …) / s += v: accumulation in iteration order
						if _, isSlice := lt.Underlying().(*types.Slice); isSlice {
							if root != nil && oa.rootKind(p, fd, nil, root) == RootParam {
								key := fmt.Sprintf("%d:%s", paramIdx(info, fd, root), path)
								if !fs.appendsParam[key] {
									fs.appendsParam[key] = true
									oa.changed = true
								}
							}
							addEffect(Effect{Kind: "append", Loc: k, Root: rk, Pos: x.Pos(), Text: types.ExprString(lhs), RootVar: root, Stmt: x})
						} else {
							addEffect(Effect{Kind: "concat", Loc: k, Root: rk, Pos: x.Pos(), Text: types.ExprString(lhs) + " accumulates " + types.ExprString(r), RootVar: root, Stmt: x})
						}
						continue
					}
					var rv []types.Object
					for _, ls := range loopStmts {
						for _, kv := range []ast.Expr{ls.Key, ls.Value} {
							if id, ok := kv.(*ast.Ident); ok {
								rv = append(rv, info.Defs[id])
							}
						}
					}
					if mentionsAny(info, r, rv) || dependsOnIterLocal(info, fd, innermostStmt(), r) {
						if tv, ok := info.Types[r]; ok && tv.Value != nil {
							continue
						}
						if keyedByRangeKey(info, parents[x], loopStmts) {
							continue // executed for one distinct key only
						}
						addEffect(Effect{Kind: "last-writer", Loc: k, Root: rk, Pos: x.Pos(), Text: types.ExprString(lhs) + " = " + types.ExprString(r), RootVar: root, Stmt: x})
					}
				}
			}
		case *ast.CallExpr:
			if tgt, isLog, ok := writerCall(info, x); ok {
				if isLog && !oa.LogIsOutput {
					break
				}
				if cur() != nil {
					rk := RootUnknown
					loc := "stdout"
					if tgt != nil {
						k, root, _ := locOf(info, tgt)
						loc = k
						rk = oa.rootKind(p, fd, innermostStmt(), root)
					}
					if rk != RootLocalInner {
						addEffect(Effect{Kind: "write", Loc: loc, Root: rk, Pos: x.Pos(), Text: types.ExprString(x.Fun)})
					}
				}
				if tgt != nil {
					if _, root, _ := locOf(info, tgt); root != nil && oa.rootKind(p, fd, nil, root) == RootParam {
						idx := paramIdx(info, fd, root)
						if !fs.writesParam[idx] {
							fs.writesParam[idx] = true
							oa.changed = true
						}
					}
				} else if !isLog {
					oa.setFlag(&fs.writesOutput)
				}
				break
			}
			fn := Callee(info, x)
			if fn == nil {
				break
			}
			cf := oa.fns[fn]
			if cf == nil {
				break
			}
			// propagate callee's parameter-rooted appends through the actual arguments
			for key := range cf.appendsParam {
				var idx int
				var path string
				fmt.Sscanf(key, "%d:", &idx)
				path = key[strings.IndexByte(key, ':')+1:]
				var arg ast.Expr
				if idx < 0 {
					if se, ok := x.Fun.(*ast.SelectorExpr); ok {
						arg = se.X
					}
				} else if idx < len(x.Args) {
					arg = x.Args[idx]
				}
				if arg == nil {
					continue
				}
				if u, ok := ast.Unparen(arg).(*ast.UnaryExpr); ok && u.Op == token.AND {
					arg = u.X
				}
				k, root, apath := locOf(info, arg)
				if root == nil {
					continue
				}
				full := k + path
				switch oa.rootKind(p, fd, nil, root) {
				case RootParam:
					sk := fmt.Sprintf("%d:%s", paramIdx(info, fd, root), apath+path)
					if !fs.appendsParam[sk] {
						fs.appendsParam[sk] = true
						oa.changed = true
					}
				case RootGlobal:
					if !fs.appendsGlobal[full] {
						fs.appendsGlobal[full] = true
						oa.changed = true
					}
				}
				if cur() != nil {
					rk := oa.rootKind(p, fd, innermostStmt(), root)
					if rk == RootLocalInner && freshLocal(info, fd, root) {
						rk = RootFresh
					}
					addEffect(Effect{Kind: "call-append", Loc: full, Root: rk, Pos: x.Pos(), Text: types.ExprString(x.Fun) + "→" + types.ExprString(arg) + path, Callee: fn.Name(), RootVar: root, Stmt: x})
				}
			}
			for key := range cf.storesMap {
				var idx int
				fmt.Sscanf(key, "%d:", &idx)
				path := key[strings.IndexByte(key, ':')+1:]
				var arg ast.Expr
				if idx < 0 {
					if se, ok := x.Fun.(*ast.SelectorExpr); ok {
						arg = se.X
					}
				} else if idx < len(x.Args) {
					arg = x.Args[idx]
				}
				if arg == nil {
					continue
				}
				if u, ok := ast.Unparen(arg).(*ast.UnaryExpr); ok && u.Op == token.AND {
					arg = u.X
				}
				k, root, apath := locOf(info, arg)
				if root == nil {
					continue
				}
				if oa.rootKind(p, fd, nil, root) == RootParam {
					sk := fmt.Sprintf("%d:%s", paramIdx(info, fd, root), apath+path)
					if !fs.storesMap[sk] {
						fs.storesMap[sk] = true
						oa.changed = true
					}
				}
				for _, lm := range loopStack {
					if lk, _, _ := locOf(info, lm.Stmt.X); lk == k+path && lm.IsMap {
						lm.Effects = append(lm.Effects, Effect{Kind: "mutates-ranged-map", Loc: k + path, Pos: x.Pos(), Text: types.ExprString(x.Fun) + " inserts into " + types.ExprString(arg) + path, Callee: fn.Name()})
					}
					lm.callStores = append(lm.callStores, mapRead{k + path, x.Pos(), types.ExprString(x.Fun) + " inserts into " + types.ExprString(arg) + path, ""})
				}
			}
			for g := range cf.appendsGlobal {
				if !fs.appendsGlobal[g] {
					fs.appendsGlobal[g] = true
					oa.changed = true
				}
				if cur() != nil {
					addEffect(Effect{Kind: "call-append", Loc: g, Root: RootGlobal, Pos: x.Pos(), Text: types.ExprString(x.Fun), Callee: fn.Name()})
				}
			}
			for idx := range cf.writesParam {
				var arg ast.Expr
				if idx < 0 {
					if se, ok := x.Fun.(*ast.SelectorExpr); ok {
						arg = se.X
					}
				} else if idx < len(x.Args) {
					arg = x.Args[idx]
				}
				if arg == nil {
					continue
				}
				if u, ok := ast.Unparen(arg).(*ast.UnaryExpr); ok && u.Op == token.AND {
					arg = u.X
				}
				k, root, _ := locOf(info, arg)
				if root != nil && oa.rootKind(p, fd, nil, root) == RootParam {
					pi := paramIdx(info, fd, root)
					if !fs.writesParam[pi] {
						fs.writesParam[pi] = true
						oa.changed = true
					}
				}
				if cur() != nil && root != nil && oa.rootKind(p, fd, innermostStmt(), root) != RootLocalInner {
					addEffect(Effect{Kind: "call-write", Loc: k, Root: oa.rootKind(p, fd, innermostStmt(), root), Pos: x.Pos(), Text: types.ExprString(x.Fun), Callee: fn.Name()})
				}
			}
			if cf.writesOutput {
				oa.setFlag(&fs.writesOutput)
				if cur() != nil {
					addEffect(Effect{Kind: "call-write", Loc: "output", Root: RootGlobal, Pos: x.Pos(), Text: types.ExprString(x.Fun), Callee: fn.Name()})
				}
			}
		case *ast.IndexExpr:
			if cur() != nil && isMapType(info.TypeOf(x.X)) {
				if k, root, _ := locOf(info, x.X); root != nil {
					if rk := oa.rootKind(p, fd, nil, root); rk == RootParam || rk == RootGlobal {
						for _, lm := range loopStack {
							lm.mapReads = append(lm.mapReads, mapRead{k, x.Pos(), types.ExprString(x), ""})
						}
					} else {
						// a map of the function itself: it carries a dependence for the loops it is
						// declared outside of
						for _, lm := range loopStack {
							if oa.rootKind(p, fd, lm.Stmt, root) != RootLocalInner {
								lm.localReads = append(lm.localReads, mapRead{k, x.Pos(), types.ExprString(x), types.TypeString(info.TypeOf(x.X), func(*types.Package) string { return "" })})
							}
						}
					}
				}
			}
		case *ast.BranchStmt:
			// `break` out of a map range after doing something with the element: the element the
			// loop stops at is the first one the iteration happens to visit
			if m := cur(); m != nil && m.IsMap && x.Tok == token.BREAK && litDepth == 0 {
				anc := parents[x]
				var target ast.Node
				for i := len(anc) - 1; i >= 0 && target == nil; i-- {
					switch a := anc[i].(type) {
					case *ast.ForStmt, *ast.RangeStmt, *ast.SwitchStmt, *ast.TypeSwitchStmt, *ast.SelectStmt:
						target = a
					}
				}
				if x.Label != nil {
					target = nil
					for i := len(anc) - 1; i >= 0; i-- {
						if ls, ok := anc[i].(*ast.LabeledStmt); ok && ls.Label.Name == x.Label.Name {
							target = ls.Stmt
						}
					}
				}
				if target == ast.Node(m.Stmt) {
					var block []ast.Stmt
					for i := len(anc) - 1; i >= 0 && block == nil; i-- {
						switch a := anc[i].(type) {
						case *ast.BlockStmt:
							block = a.List
						case *ast.CaseClause:
							block = a.Body
						}
					}
					carried := ""
					for _, st := range block {
						if st.Pos() >= x.Pos() {
							break
						}
						switch y := st.(type) {
						case *ast.ExprStmt:
							if _, isCall := ast.Unparen(y.X).(*ast.CallExpr); isCall {
								carried = types.ExprString(y.X)
							}
						case *ast.AssignStmt:
							if y.Tok == token.DEFINE {
								continue
							}
							for _, r := range y.Rhs {
								if tv, ok := info.Types[r]; ok && tv.Value != nil {
									continue
								}
								if id, ok := ast.Unparen(r).(*ast.Ident); ok && (id.Name == "true" || id.Name == "false" || id.Name == "nil") {
									continue
								}
								carried = exprList(y.Lhs) + " = " + exprList(y.Rhs)
							}
						case *ast.IncDecStmt:
							carried = types.ExprString(y.X)
						}
					}
					if carried != "" {
						addEffect(Effect{Kind: "first-match", Pos: x.Pos(), Text: carried + "; break"})
					}
				}
			}
		case *ast.ReturnStmt:
			if m := cur(); m != nil && len(x.Results) > 0 && litDepth == 0 {
				// error exit: last result is a non-nil error expression
				last := x.Results[len(x.Results)-1]
				isErrExit := false
				if t := info.TypeOf(last); t != nil && types.Identical(t, types.Universe.Lookup("error").Type()) && !IsNil(info, last) {
					isErrExit = true
				}
				if t := info.TypeOf(last); t != nil && isErrorType(t) && !IsNil(info, last) {
					isErrExit = true
				}
				if !isErrExit {
					carried := false
					for _, r := range x.Results {
						if IsNil(info, r) {
							continue
						}
						if tv, ok := info.Types[r]; ok && tv.Value != nil {
							continue // constant: existence test
						}
						if id, ok := ast.Unparen(r).(*ast.Ident); ok && (id.Name == "true" || id.Name == "false") {
							continue
						}
						carried = true
					}
					if carried {
						addEffect(Effect{Kind: "first-match", Pos: x.Pos(), Text: "return " + exprList(x.Results)})
					}
				}
			}
		}
		return true
	}
	ast.Inspect(fd.Body, walk)

	// returned tainted locations → summary
	checkRet := func(e ast.Expr) {
		k, _, _ := locOf(info, e)
		if k == "" {
			// return strings.Join(tainted…)
			if c, ok := ast.Unparen(e).(*ast.CallExpr); ok {
				if fn := Callee(info, c); fn != nil && CalleeName(fn) == "strings.Join" && len(c.Args) == 2 {
					if sk, _, _ := locOf(info, c.Args[0]); sk != "" {
						if ti, ok := tainted[sk]; ok && !sanitised(sk, ti) {
							oa.setFlag(&fs.retContent)
						}
					}
				}
				if fn := Callee(info, c); fn != nil {
					if cf := oa.fns[fn]; cf != nil {
						if cf.retTainted {
							oa.setFlag(&fs.retTainted)
						}
						if cf.retContent {
							oa.setFlag(&fs.retContent)
						}
					}
				}
			}
			return
		}
		if ti, ok := tainted[k]; ok {
			if ti.content {
				oa.setFlag(&fs.retContent)
			} else if !sanitised(k, ti) {
				oa.setFlag(&fs.retTainted)
			}
		}
	}
	ast.Inspect(fd.Body, func(n ast.Node) bool {
		if _, ok := n.(*ast.FuncLit); ok {
			return false
		}
		if r, ok := n.(*ast.ReturnStmt); ok {
			for _, e := range r.Results {
				checkRet(e)
			}
		}
		return true
	})
	if fd.Type.Results != nil {
		for _, f := range fd.Type.Results.List {
			for _, nm := range f.Names {
				checkRet(nm)
			}
		}
	}
	// first-match loops make the function's result content-dependent
	for _, m := range ranges {
		for _, e := range m.Effects {
			if e.Kind == "first-match" && m.IsMap {
				oa.setFlag(&fs.retContent)
			}
		}
	}
	if !final {
		return nil
	}
	// escape uses of a local location after a position
	type use struct {
		pos  token.Pos
		n    ast.Node
		what string
	}
	namedResults := map[string]bool{}
	if fd.Type.Results != nil {
		for _, f := range fd.Type.Results.List {
			for _, nm := range f.Names {
				if k, _, _ := locOf(info, nm); k != "" {
					namedResults[k] = true
				}
			}
		}
	}
	usesOf := func(loc string, after token.Pos, skip ast.Node) []use {
		var out []use
		var visit func(n ast.Node, ctx string) bool
		ast.Inspect(fd.Body, func(n ast.Node) bool {
			if n == nil || n.Pos() < after && n.End() < after {
				return true
			}
			_ = visit
			switch x := n.(type) {
			case *ast.ReturnStmt:
				if x.Pos() < after {
					return true
				}
				for _, r := range x.Results {
					if k, _, _ := locOf(info, r); k == loc {
						out = append(out, use{x.Pos(), x, "returned"})
					} else if mentionsLocValue(info, r, loc) {
						out = append(out, use{x.Pos(), x, "stored into the returned value"})
					}
				}
				if len(x.Results) == 0 && namedResults[loc] {
					out = append(out, use{x.Pos(), x, "returned (named result)"})
				}
			case *ast.AssignStmt:
				if x.Pos() < after {
					return true
				}
				for i, r := range x.Rhs {
					if c, ok := ast.Unparen(r).(*ast.CallExpr); ok && IsBuiltinCall(info, c, "append") && len(c.Args) > 0 {
						// self-append: x = append(x, …) is not an escape of x
						if k, _, _ := locOf(info, c.Args[0]); k == loc {
							if i < len(x.Lhs) {
								if lk, _, _ := locOf(info, x.Lhs[i]); lk == loc {
									continue
								}
							}
						}
					}
					if mentionsLocValue(info, r, loc) {
						tgt := ""
						if i < len(x.Lhs) {
							tgt = types.ExprString(x.Lhs[i])
						}
						out = append(out, use{x.Pos(), x, "stored into " + tgt})
					}
				}
			case *ast.ExprStmt:
				if x.Pos() < after {
					return true
				}
				if c, ok := x.X.(*ast.CallExpr); ok {
					if _, isSort := sortTarget(info, c); isSort {
						return true
					}
					for _, a := range c.Args {
						if mentionsLocValue(info, a, loc) {
							out = append(out, use{x.Pos(), x, "passed to " + types.ExprString(c.Fun)})
						}
					}
				}
			}
			return true
		})
		if namedResults[loc] {
			out = append(out, use{fd.Body.End(), fd.Body, "returned (named result, end of function)"})
		}
		return out
	}
	controlAnc := func(n ast.Node) []ast.Node {
		var out []ast.Node
		for _, a := range parents[n] {
			switch a.(type) {
			case *ast.IfStmt, *ast.CaseClause, *ast.ForStmt, *ast.RangeStmt, *ast.SwitchStmt, *ast.TypeSwitchStmt:
				out = append(out, a)
			}
		}
		return out
	}
	// sortBetween: a sort on loc after the tainting statement T and before the use U, which
	// runs whenever T ran (its control ancestors are ancestors of T).
	var curUse ast.Node
	sortBetween := func(loc string, T ast.Node, tEnd token.Pos, uPos token.Pos) bool {
		if curUse != nil {
			uAnc := map[ast.Node]bool{}
			for _, a := range parents[curUse] {
				uAnc[a] = true
			}
			for _, sc := range sorts {
				if sc.loc != loc || sc.pos < tEnd || sc.pos >= uPos {
					continue
				}
				ok := true
				for _, a := range controlAnc(sc.n) {
					if !uAnc[a] {
						ok = false
					}
				}
				if ok {
					return true // the sort dominates this use
				}
			}
		}
		tAnc := map[ast.Node]bool{}
		if T != nil {
			for _, a := range parents[T] {
				tAnc[a] = true
			}
		}
		for _, sc := range sorts {
			if sc.loc != loc || sc.pos < tEnd || sc.pos >= uPos {
				continue
			}
			ok := true
			if T != nil {
				for _, a := range controlAnc(sc.n) {
					if !tAnc[a] {
						ok = false
					}
				}
			}
			if ok {
				return true
			}
		}
		return false
	}
	// classification
	for _, m := range ranges {
		seen := map[string]bool{}
		for _, e := range m.Effects {
			switch e.Kind {
			case "append", "call-append":
				if e.Root == RootLocalInner || e.Root == RootFresh {
					continue
				}
				if seen[e.Kind+e.Loc] {
					continue
				}
				seen[e.Kind+e.Loc] = true
				if e.Root == RootLocalOuter {
					us := usesOf(e.Loc, m.Stmt.End(), m.Stmt)
					var bad []string
					for _, u := range us {
						curUse = u.n
						if !sortBetween(e.Loc, m.Stmt, m.Stmt.End(), u.pos) {
							bad = append(bad, u.what)
						}
						curUse = nil
					}
					if len(us) == 0 {
						continue // never escapes unsorted: only ranged / measured
					}
					if len(bad) == 0 {
						m.Sanitised = append(m.Sanitised, e.Text)
						continue
					}
					onlyReturned := true
					for _, b := range bad {
						if !strings.HasPrefix(b, "returned") {
							onlyReturned = false
						}
					}
					if onlyReturned {
						m.Returned = append(m.Returned, e.Text)
						continue // the function's summary says "returns order-tainted": decided at call sites
					}
					addF(m, e.Text, fmt.Sprintf("%s filled in map order is %s without being sorted", e.Text, strings.Join(uniqStr(bad), ", ")))
					continue
				}
				// parameter / receiver / global rooted: must be sorted before the function ends, or by every caller
				if sortBetween(e.Loc, m.Stmt, m.Stmt.End(), fd.Body.End()+1) {
					m.Sanitised = append(m.Sanitised, e.Text)
					continue
				}
				m.Escaping = append(m.Escaping, EscLoc{Loc: e.Loc, Text: e.Text, Root: e.Root, RootVar: e.RootVar, Pos: e.Pos})
			case "concat":
				if seen[e.Kind+e.Loc] {
					continue
				}
				seen[e.Kind+e.Loc] = true
				addF(m, "accumulate", "accumulation in iteration order: "+e.Text)
			case "write", "call-write":
				if seen[e.Kind+e.Loc+e.Text] {
					continue
				}
				seen[e.Kind+e.Loc+e.Text] = true
				addF(m, "write "+e.Text, fmt.Sprintf("%s through %s in iteration order", e.Kind, e.Text))
			case "mutates-ranged-map":
				if seen[e.Kind+e.Text] {
					continue
				}
				seen[e.Kind+e.Text] = true
				addF(m, "mutates ranged map", "the ranged map is modified during the iteration ("+e.Text+"): whether the new entries are visited depends on iteration order")
			case "first-match":
				addF(m, "first-match", "first match: "+e.Text)
			case "last-writer":
				if seen[e.Kind+e.Loc] {
					continue
				}
				seen[e.Kind+e.Loc] = true
				addF(m, "last-writer "+e.Text, "last writer wins: "+e.Text)
			}
		}
	}
	for _, m := range ranges {
		seenLC := map[string]bool{}
		for _, r := range append(append([]mapRead{}, m.mapReads...), m.localReads...) {
			visitedSet := false
			for _, d := range m.directStores {
				if d.loc == r.loc && d.text == r.text {
					visitedSet = true // `if !seen[k] { seen[k] = true; … }`: closure computation, order-insensitive
				}
			}
			if visitedSet {
				continue
			}
			for _, d := range m.directStores {
				if d.loc == r.loc && d.text != r.text && !seenLC[r.loc] {
					seenLC[r.loc] = true
					what := r.text
					if r.typ != "" {
						what = "local " + r.typ
					}
					addF(m, "loop-carried "+what, fmt.Sprintf("loop-carried dependence through a map: the body reads %s and stores %s in the same loop, so what one iteration finds depends on which iterations ran before it", r.text, d.text))
				}
			}
			for _, w := range m.callStores {
				if r.loc == w.loc && !seenLC[r.loc] {
					seenLC[r.loc] = true
					addF(m, "loop-carried "+r.text, fmt.Sprintf("loop-carried dependence through a map: the body reads %s and %s in the same loop, so what one iteration sees depends on which iterations ran before it", r.text, w.text))
				}
			}
		}
	}
	// a field written in one iteration of a map range and read in another: what the reader finds
	// depends on whether the writer's key came first
	for _, m := range ranges {
		if !m.IsMap {
			continue
		}
		type site struct {
			text string
			pos  token.Pos
			stmt ast.Node
		}
		var stores, reads []site
		lhsNodes := map[ast.Node]bool{}
		var walkStmt func(n ast.Node, stmt ast.Node)
		walkStmt = func(n ast.Node, stmt ast.Node) {
			ast.Inspect(n, func(k ast.Node) bool {
				switch y := k.(type) {
				case *ast.FuncLit:
					return false
				case *ast.AssignStmt:
					if y.Tok == token.ASSIGN {
						for _, l := range y.Lhs {
							if se, ok := ast.Unparen(l).(*ast.SelectorExpr); ok {
								if _, root, _ := locOf(info, se); root != nil && oa.rootKind(p, fd, m.Stmt, root) != RootLocalInner {
									stores = append(stores, site{types.ExprString(se), se.Pos(), y})
									lhsNodes[se] = true
								}
							}
						}
					}
				case *ast.SelectorExpr:
					if !lhsNodes[y] {
						reads = append(reads, site{types.ExprString(y), y.Pos(), nil})
					}
				}
				return true
			})
		}
		walkStmt(m.Stmt.Body, nil)
		// reads made for a log line are not outputs of the property
		var logSpans [][2]token.Pos
		ast.Inspect(m.Stmt.Body, func(k ast.Node) bool {
			if call, ok := k.(*ast.CallExpr); ok {
				name := ""
				if fn := Callee(info, call); fn != nil {
					name = fn.Name()
					if fn.Pkg() != nil && fn.Pkg().Path() == "log" {
						name = "log." + name
					}
				}
				if strings.HasPrefix(name, "debugLog") || strings.HasPrefix(name, "log.") {
					logSpans = append(logSpans, [2]token.Pos{call.Pos(), call.End()})
				}
			}
			return true
		})
		var kept []site
		for _, rd := range reads {
			inLog := false
			for _, sp := range logSpans {
				if sp[0] <= rd.pos && rd.pos <= sp[1] {
					inLog = true
				}
			}
			if !inLog {
				kept = append(kept, rd)
			}
		}
		reads = kept
		seenF := map[string]bool{}
		for _, st := range stores {
			for _, rd := range reads {
				if rd.text != st.text || seenF[st.text] {
					continue
				}
				// a read inside a statement that stores the same field (x.f = g(x.f, …)) is an accumulation: the
				// order taint of what is accumulated is decided elsewhere
				inStore := false
				for _, st2 := range stores {
					if stn, ok := st2.stmt.(*ast.AssignStmt); ok && st2.text == st.text && stn.Pos() <= rd.pos && rd.pos <= stn.End() {
						inStore = true
					}
				}
				if inStore {
					continue
				}
				seenF[st.text] = true
				addF(m, "loop-carried field "+PathOf(st.text), fmt.Sprintf("loop-carried dependence through a field: one iteration stores %s and another reads it, so what is read depends on whether the key that stores it was visited first", st.text))
			}
		}
	}
	// a closure that keeps state between its calls (a captured map or variable it reads and stores),
	// called from the body of a map range: what it answers depends on which keys were visited before
	for _, m := range ranges {
		if !m.IsMap {
			continue
		}
		seenC := map[string]bool{}
		ast.Inspect(m.Stmt.Body, func(k ast.Node) bool {
			call, ok := k.(*ast.CallExpr)
			if !ok {
				return true
			}
			id, ok := ast.Unparen(call.Fun).(*ast.Ident)
			if !ok || seenC[id.Name] {
				return true
			}
			lit, ok := ast.Unparen(ResolveLocal(info, fd.Body, id)).(*ast.FuncLit)
			if !ok {
				return true
			}
			// captured objects stored to, and read, inside the literal
			stored, read := map[types.Object]bool{}, map[types.Object]bool{}
			captured := func(e ast.Expr) types.Object {
				for {
					switch x := ast.Unparen(e).(type) {
					case *ast.IndexExpr:
						e = x.X
					case *ast.SelectorExpr:
						e = x.X
					case *ast.Ident:
						if v, ok := info.Uses[x].(*types.Var); ok && !v.IsField() && (v.Pos() < lit.Pos() || v.Pos() > lit.End()) && v.Parent() != p.Types.Scope() {
							return v
						}
						return nil
					default:
						return nil
					}
				}
			}
			lhs := map[ast.Node]bool{}
			ast.Inspect(lit.Body, func(n ast.Node) bool {
				if as, ok := n.(*ast.AssignStmt); ok {
					for _, l := range as.Lhs {
						if o := captured(l); o != nil {
							stored[o] = true
							lhs[ast.Unparen(l)] = true
						}
					}
				}
				return true
			})
			ast.Inspect(lit.Body, func(n ast.Node) bool {
				if e, ok := n.(ast.Expr); ok && !lhs[e] {
					switch e.(type) {
					case *ast.IndexExpr, *ast.Ident:
						if o := captured(e); o != nil {
							read[o] = true
						}
					}
				}
				return true
			})
			for o := range stored {
				if read[o] {
					seenC[id.Name] = true
					addF(m, "closure state "+o.Name(), fmt.Sprintf("the body calls the closure %s, which reads and stores %s between its calls: what it answers for one key depends on the keys visited before", id.Name, o.Name()))
				}
			}
			return true
		})
	}
	// call results that are order-tainted and used unsorted
	ast.Inspect(fd.Body, func(n ast.Node) bool {
		as, ok := n.(*ast.AssignStmt)
		if !ok {
			return true
		}
		for i, r := range as.Rhs {
			c, ok := ast.Unparen(r).(*ast.CallExpr)
			if !ok || i >= len(as.Lhs) {
				continue
			}
			fn := Callee(info, c)
			if fn == nil {
				continue
			}
			cf := oa.fns[fn]
			if cf == nil || !cf.retTainted {
				continue
			}
			k, root, _ := locOf(info, as.Lhs[i])
			if k == "" || root == nil {
				continue
			}
			var bad []string
			for _, u := range usesOf(k, as.End(), as) {
				curUse = u.n
				if !sortBetween(k, as, as.End(), u.pos) {
					bad = append(bad, u.what)
				}
				curUse = nil
			}
			onlyReturned := len(bad) > 0
			for _, b := range bad {
				if !strings.HasPrefix(b, "returned") {
					onlyReturned = false
				}
			}
			site := CallSiteTaint{Pkg: p, FnName: name, Pos: as.Pos(), Callee: fn.Name(), Target: types.ExprString(as.Lhs[i]), Bad: uniqStr(bad), OnlyReturned: onlyReturned}
			oa.CallSites = append(oa.CallSites, site)
		}
		return true
	})
	return ranges
}

func uniqStr(in []string) []string {
	m := map[string]bool{}
	var out []string
	for _, s := range in {
		if !m[s] {
			m[s] = true
			out = append(out, s)
		}
	}
	sort.Strings(out)
	return out
}

// mentionsLoc: the expression is (or contains) the location.
func mentionsLoc(info *types.Info, e ast.Expr, loc string) bool {
	found := false
	ast.Inspect(e, func(n ast.Node) bool {
		if ex, ok := n.(ast.Expr); ok {
			if k, _, _ := locOf(info, ex); k == loc {
				found = true
			}
		}
		return !found
	})
	return found
}

// mentionsLocValue: like mentionsLoc, but len(x)/cap(x) and x[i] element reads do not count
// as passing the ordered collection on.
func mentionsLocValue(info *types.Info, e ast.Expr, loc string) bool {
	found := false
	ast.Inspect(e, func(n ast.Node) bool {
		if found {
			return false
		}
		switch x := n.(type) {
		case *ast.CallExpr:
			if IsBuiltinCall(info, x, "len") || IsBuiltinCall(info, x, "cap") {
				return false
			}
		case *ast.FuncLit:
			return false
		}
		if ex, ok := n.(ast.Expr); ok {
			if k, _, _ := locOf(info, ex); k == loc {
				found = true
			}
		}
		return !found
	})
	return found
}

// keyedByRangeKey: the statement sits in a `switch <range key>` case with constant labels, or
// under `if <range key> == <const>`: it runs for one distinct key, so iteration order cannot
// change which value it stores.
func keyedByRangeKey(info *types.Info, ancestors []ast.Node, loops []*ast.RangeStmt) bool {
	isKey := func(e ast.Expr) bool {
		id, ok := ast.Unparen(e).(*ast.Ident)
		if !ok {
			return false
		}
		o := objOf(info, id)
		for _, l := range loops {
			if kid, ok := l.Key.(*ast.Ident); ok && info.Defs[kid] == o && isMapType(info.TypeOf(l.X)) {
				return true
			}
		}
		return false
	}
	for i, a := range ancestors {
		switch x := a.(type) {
		case *ast.CaseClause:
			// find the switch
			for j := i - 1; j >= 0; j-- {
				if sw, ok := ancestors[j].(*ast.SwitchStmt); ok {
					if sw.Tag != nil && isKey(sw.Tag) && len(x.List) > 0 {
						allConst := true
						for _, e := range x.List {
							if tv, ok := info.Types[e]; !ok || tv.Value == nil {
								allConst = false
							}
						}
						if allConst {
							return true
						}
					}
					break
				}
			}
		case *ast.IfStmt:
			if be, ok := ast.Unparen(x.Cond).(*ast.BinaryExpr); ok && be.Op == token.EQL {
				if tv, ok := info.Types[be.Y]; ok && tv.Value != nil && isKey(be.X) {
					return true
				}
			}
		}
	}
	return false
}

func isErrorType(t types.Type) bool {
	return types.Identical(t, types.Universe.Lookup("error").Type())
}

func exprList(es []ast.Expr) string {
	var s []string
	for _, e := range es {
		s = append(s, types.ExprString(e))
	}
	return strings.Join(s, ", ")
}

type sortCall struct {
	loc string
	pos token.Pos
	n   ast.Node
}

func sanitisedBefore(sorts []sortCall, loc string, after, before token.Pos) bool {
	for _, sc := range sorts {
		if sc.loc == loc && sc.pos > after && sc.pos < before {
			return true
		}
	}
	return false
}

// dependsOnIterLocal: the expression mentions a variable declared inside the loop body.
func dependsOnIterLocal(info *types.Info, fd *ast.FuncDecl, loop *ast.RangeStmt, e ast.Expr) bool {
	if loop == nil {
		return false
	}
	found := false
	ast.Inspect(e, func(n ast.Node) bool {
		if id, ok := n.(*ast.Ident); ok {
			if v, ok := objOf(info, id).(*types.Var); ok && v.Pos() >= loop.Body.Pos() && v.Pos() <= loop.Body.End() {
				found = true
			}
		}
		return !found
	})
	return found
}

// fnCtx caches the parent chains and sort calls of a function.
type fnCtx struct {
	parents map[ast.Node][]ast.Node
	sorts   []sortCall
}

func (oa *OrderAnalysis) ctxOf(fs *fnSummary) *fnCtx {
	if oa.ctx == nil {
		oa.ctx = map[*fnSummary]*fnCtx{}
	}
	if c, ok := oa.ctx[fs]; ok {
		return c
	}
	c := &fnCtx{parents: map[ast.Node][]ast.Node{}}
	var stack []ast.Node
	ast.Inspect(fs.decl.Body, func(n ast.Node) bool {
		if n == nil {
			stack = stack[:len(stack)-1]
			return true
		}
		c.parents[n] = append([]ast.Node{}, stack...)
		stack = append(stack, n)
		if call, ok := n.(*ast.CallExpr); ok {
			if k, ok := sortTarget(fs.pkg.TypesInfo, call); ok {
				c.sorts = append(c.sorts, sortCall{k, call.Pos(), call})
			}
		}
		return true
	})
	oa.ctx[fs] = c
	return c
}

// SanitisedByCallers: the location <param idx><path> of fs, left in map order by fs, is
// sorted by every (transitive) static caller after the call, before the caller returns.
// Returns the deciding callers for the evidence, or the first caller that does not sort.
func (oa *OrderAnalysis) SanitisedByCallers(fn *types.Func, idx int, path string, depth int) (bool, string) {
	return oa.sanitisedByCallers(fn, idx, path, depth, map[string]bool{})
}

func (oa *OrderAnalysis) sanitisedByCallers(fn *types.Func, idx int, path string, depth int, visiting map[string]bool) (bool, string) {
	if depth > 8 {
		return false, "call chain too deep"
	}
	vk := fmt.Sprintf("%p:%d:%s", fn, idx, path)
	if visiting[vk] {
		return true, "" // recursive cycle: decided by the non-recursive callers
	}
	visiting[vk] = true
	type site struct {
		fs   *fnSummary
		call *ast.CallExpr
	}
	var sites []site
	for _, fs := range oa.sortedFns() {
		info := fs.pkg.TypesInfo
		ast.Inspect(fs.decl.Body, func(n ast.Node) bool {
			if c, ok := n.(*ast.CallExpr); ok && Callee(info, c) == fn {
				sites = append(sites, site{fs, c})
			}
			return true
		})
	}
	if len(sites) == 0 {
		return false, "no static caller sorts it (function is an entry point or only called dynamically)"
	}
	var who []string
	for _, st := range sites {
		info := st.fs.pkg.TypesInfo
		var arg ast.Expr
		if idx < 0 {
			if se, ok := st.call.Fun.(*ast.SelectorExpr); ok {
				arg = se.X
			}
		} else if idx < len(st.call.Args) {
			arg = st.call.Args[idx]
		}
		if arg == nil {
			return false, "cannot map the location at a call in " + st.fs.decl.Name.Name
		}
		if u, ok := ast.Unparen(arg).(*ast.UnaryExpr); ok && u.Op == token.AND {
			arg = u.X
		}
		k, root, apath := locOf(info, arg)
		if root == nil {
			return false, "cannot map the location at a call in " + st.fs.decl.Name.Name
		}
		loc := k + path
		cx := oa.ctxOf(st.fs)
		callAnc := map[ast.Node]bool{}
		for _, a := range cx.parents[st.call] {
			callAnc[a] = true
		}
		sorted := false
		for _, sc := range cx.sorts {
			if sc.loc != loc || sc.pos < st.call.End() {
				continue
			}
			ok := true
			for _, a := range cx.parents[sc.n] {
				switch a.(type) {
				case *ast.IfStmt, *ast.CaseClause, *ast.ForStmt, *ast.RangeStmt, *ast.SwitchStmt, *ast.TypeSwitchStmt:
					if !callAnc[a] {
						ok = false
					}
				}
			}
			if ok {
				sorted = true
			}
		}
		if sorted {
			who = append(who, st.fs.decl.Name.Name)
			continue
		}
		// pass the obligation up when the location is rooted in the caller's own parameters
		if isParamOrRecv(info, st.fs.decl, root) {
			ok, why := oa.sanitisedByCallers(st.fs.obj, paramIdx(info, st.fs.decl, root), apath+path, depth+1, visiting)
			if !ok {
				return false, why
			}
			who = append(who, st.fs.decl.Name.Name+"←"+why)
			continue
		}
		return false, fmt.Sprintf("caller %s leaves %s unsorted", st.fs.decl.Name.Name, types.ExprString(arg)+path)
	}
	return true, strings.Join(uniqStr(who), ",")
}

// FuncOf returns the types.Func of a map range's enclosing function.
func (oa *OrderAnalysis) FuncOf(m *MapRange) *types.Func {
	f, _ := m.Pkg.TypesInfo.Defs[m.Fn.Name].(*types.Func)
	return f
}

// ParamIdxOf exposes paramIdx for clients.
func ParamIdxOf(m *MapRange, v *types.Var) int { return paramIdx(m.Pkg.TypesInfo, m.Fn, v) }

// PathOf: the field path below the root variable in a location key "name@pos.path".
func PathOf(loc string) string {
	if i := strings.IndexByte(loc, '.'); i >= 0 {
		return loc[i:]
	}
	return ""
}

func addF(m *MapRange, key, text string) {
	m.Findings = append(m.Findings, text)
	m.FindingKeys = append(m.FindingKeys, key)
}
