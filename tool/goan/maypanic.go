package goan

// May-panic guard analysis (DESIGN E9): for every index, slice, pointer dereference of a
// nil-able value, single-value type assertion, interface comparison and explicit panic,
// decide whether a dominating fact makes it safe. Facts come from branch conditions
// (decomposed on the AST), known producers and guard-function summaries; they are killed by
// assignment. Structured, flow-sensitive, intraprocedural with one level of parameter
// preconditions.

import (
	"fmt"
	"go/ast"
	"go/constant"
	"go/token"
	"go/types"
	"regexp"
	"regexp/syntax"
	"sort"
	"strings"

	"golang.org/x/tools/go/packages"
)

type PanicKind string

const (
	PKIndex     PanicKind = "index"
	PKVarIndex  PanicKind = "var-index"
	PKSlice     PanicKind = "slice"
	PKNilDeref  PanicKind = "nil-deref"
	PKAssert    PanicKind = "type-assert"
	PKIfaceCmp  PanicKind = "iface-compare"
	PKPanicCall PanicKind = "panic-call"
	PKNilMap    PanicKind = "nil-map-write"
)

type PanicSite struct {
	Kind   PanicKind
	Fn     string
	Expr   string
	Pos    token.Pos
	Safe   bool
	Why    string
	OnParm *types.Var // the unguarded use concerns this parameter (becomes a precondition)
	Need   int        // for index preconditions: required length
}

func (p PanicSite) Key() string { return fmt.Sprintf("%s › %s › %s", p.Fn, p.Kind, p.Expr) }

type mpFacts map[string]int

func (f mpFacts) clone() mpFacts {
	g := make(mpFacts, len(f))
	for k, v := range f {
		g[k] = v
	}
	return g
}

func (f mpFacts) with(g mpFacts) mpFacts {
	if len(g) == 0 {
		return f
	}
	h := f.clone()
	for k, v := range g {
		if v > h[k] {
			h[k] = v
		}
	}
	return h
}

var identRx = regexp.MustCompile(`[A-Za-z_][A-Za-z_0-9]*`)

func (f mpFacts) kill(name string) {
	for k := range f {
		for _, id := range identRx.FindAllString(k, -1) {
			if id == name {
				delete(f, k)
				break
			}
		}
	}
}

// intersect keeps facts present in both (min value).
func intersect(a, b mpFacts) mpFacts {
	out := mpFacts{}
	for k, v := range a {
		if w, ok := b[k]; ok {
			if w < v {
				v = w
			}
			out[k] = v
		}
	}
	return out
}

// MayPanic is the analysis of one package.
type MayPanic struct {
	Pkg   *packages.Package
	info  *types.Info
	Sites []PanicSite
	fn    string
	fd    *ast.FuncDecl
	// NilableField decides whether a pointer-typed struct field may be nil (by owner type
	// name and field name); fields not listed are assumed set by construction.
	NilableField func(owner, field string) bool
	// NilableResult: functions (by name) whose pointer result may be nil.
	NilableResult map[string]bool
	// NilOnlyForNilArg: among those, the ones that answer nil only when their first argument is nil.
	NilOnlyForNilArg map[string]bool
	// guard function summaries: callee name -> facts about argument 0 when the call is true
	guardSummaries map[*types.Func][]guardFact
	// regexp group counts for package-level regexp variables and struct fields
	rxGroups map[types.Object]int
	// parameter preconditions: callee -> list
	Preconds    map[*types.Func][]Precond
	loopVars    []loopBound
	sortClosure map[string]int
	frozen      bool
	tsBound     map[types.Object]*types.Var // type-switch bound variable -> interface parameter it came from
	alwaysNil   map[types.Object]bool       // parameters that receive the nil literal at every call site
	CheckNil    bool
	// ExtraCondFacts lets a client derive domain facts from conditions (e.g. "arr:x").
	ExtraCondFacts func(m *MayPanic, e ast.Expr, pol bool) map[string]int
	// FieldAssumed: dereference of base.field is assumed safe under the facts in force.
	FieldAssumed func(m *MayPanic, base ast.Expr, field string, facts map[string]int) bool
	// CheckIface: report ==/!= between interface{} operands holding decoded JSON
	CheckIface bool
}

type guardFact struct {
	param int
	key   string // "len" / "nn" / "len:.Type" (suffix applied to the argument expression)
	val   int
}

type Precond struct {
	Param2 int    // for var-index preconditions: the index parameter
	Off    int    // idx + Off < len(slice)
	Suffix string // path below the parameter, e.g. ".Type"
	Param  int
	Kind   PanicKind
	Need   int
	Expr   string
	Pos    token.Pos
}

type loopBound struct {
	idx   types.Object
	slice string // expression text the index is bounded by (range x / i < len(x))
	off   int    // idx + off < len(slice)
	max   int    // when > 0: idx < max (exact length of the ranged literal)
}

func NewMayPanic(pk *packages.Package) *MayPanic {
	m := &MayPanic{Pkg: pk, info: pk.TypesInfo, guardSummaries: map[*types.Func][]guardFact{}, rxGroups: map[types.Object]int{}, Preconds: map[*types.Func][]Precond{}, NilableResult: map[string]bool{}, sortClosure: map[string]int{}}
	m.collectRegexps()
	m.summariseGuards()
	m.collectAlwaysNil()
	return m
}

// collectAlwaysNil: unexported functions whose pointer parameter is the nil literal at every
// call site in the package; branches requiring it to be non-nil are dead.
func (m *MayPanic) collectAlwaysNil() {
	m.alwaysNil = map[types.Object]bool{}
	type st struct{ calls, nils int }
	stats := map[*types.Var]*st{}
	for _, fd := range allFuncs(m.Pkg) {
		ast.Inspect(fd.Body, func(n ast.Node) bool {
			c, ok := n.(*ast.CallExpr)
			if !ok {
				return true
			}
			fn := Callee(m.info, c)
			if fn == nil || fn.Pkg() != m.Pkg.Types || fn.Exported() {
				return true
			}
			sig := fn.Type().(*types.Signature)
			for i, a := range c.Args {
				if i >= sig.Params().Len() {
					break
				}
				p := sig.Params().At(i)
				if _, isPtr := p.Type().Underlying().(*types.Pointer); !isPtr {
					continue
				}
				s := stats[p]
				if s == nil {
					s = &st{}
					stats[p] = s
				}
				s.calls++
				if IsNil(m.info, a) {
					s.nils++
				}
			}
			return true
		})
	}
	// function values (method values / references without call) defeat the summary
	referenced := map[*types.Func]bool{}
	for _, f := range m.Pkg.Syntax {
		ast.Inspect(f, func(n ast.Node) bool {
			switch x := n.(type) {
			case *ast.CallExpr:
				// skip the Fun position of calls
				for _, a := range x.Args {
					ast.Inspect(a, func(nn ast.Node) bool {
						if id, ok := nn.(*ast.Ident); ok {
							if fn, ok := m.info.Uses[id].(*types.Func); ok {
								if _, isCall := nn.(*ast.CallExpr); !isCall {
									referenced[fn] = referenced[fn] || false
								}
							}
						}
						return true
					})
				}
			}
			return true
		})
	}
	for p, s := range stats {
		if s.calls > 0 && s.calls == s.nils {
			m.alwaysNil[p] = true
		}
	}
}

// deadCond: the condition can never hold because it requires an always-nil parameter to be
// non-nil.
func (m *MayPanic) deadCond(e ast.Expr) bool {
	var conj []Lit
	Flatten(e, true, &conj)
	for _, l := range conj {
		be, ok := ast.Unparen(l.E).(*ast.BinaryExpr)
		if !ok || !l.Pos || be.Op != token.NEQ || !IsNil(m.info, be.Y) {
			continue
		}
		if id, ok := ast.Unparen(be.X).(*ast.Ident); ok && m.alwaysNil[m.info.Uses[id]] {
			return true
		}
	}
	return false
}

func es(e ast.Expr) string {
	if e == nil {
		return ""
	}
	return normParen(types.ExprString(ast.Unparen(e)))
}

// normParen rewrites "(*x)" as "*x" so that facts about *x and (*x) share a key.
func normParen(s string) string {
	for {
		i := strings.Index(s, "(*")
		if i < 0 {
			return s
		}
		j := strings.IndexByte(s[i:], ')')
		if j < 0 {
			return s
		}
		inner := s[i+1 : i+j]
		isCall := false
		if i > 0 {
			c := s[i-1]
			isCall = c == '_' || c == ')' || c == ']' || (c >= 'a' && c <= 'z') || (c >= 'A' && c <= 'Z') || (c >= '0' && c <= '9')
		}
		if isCall || strings.ContainsAny(inner, "( ,") {
			// not a simple (*ident.path): leave, but avoid an endless loop
			return s[:i+2] + normParen(s[i+2:])
		}
		s = s[:i] + inner + s[i+j+1:]
	}
}

func (m *MayPanic) constInt(e ast.Expr) (int, bool) {
	if tv, ok := m.info.Types[e]; ok && tv.Value != nil && tv.Value.Kind() == constant.Int {
		v, ok := constant.Int64Val(tv.Value)
		return int(v), ok
	}
	return 0, false
}

func (m *MayPanic) lenArg(e ast.Expr) (string, bool) {
	e = ast.Unparen(e)
	if id, ok := e.(*ast.Ident); ok && m.fd != nil {
		// l := len(x) (single definition, x not reassigned in between is approximated by
		// requiring x itself to have at most one assignment)
		def := ResolveLocal(m.info, m.fd.Body, id)
		if def != ast.Expr(id) {
			if c, ok := ast.Unparen(def).(*ast.CallExpr); ok && len(c.Args) == 1 && IsBuiltinCall(m.info, c, "len") {
				if m.stable(c.Args[0]) {
					return es(c.Args[0]), true
				}
			}
		}
		return "", false
	}
	if c, ok := e.(*ast.CallExpr); ok && len(c.Args) == 1 && IsBuiltinCall(m.info, c, "len") {
		return es(c.Args[0]), true
	}
	return "", false
}

// stable: the expression is a variable (or field path of one) that is never reassigned in
// the current function after its definition.
func (m *MayPanic) stable(e ast.Expr) bool {
	for {
		switch x := ast.Unparen(e).(type) {
		case *ast.Ident:
			v, _ := m.info.Uses[x].(*types.Var)
			if v == nil {
				return false
			}
			n := len(AssignmentsTo(m.info, m.fd.Body, v))
			if isParamOrRecv(m.info, m.fd, v) {
				return n == 0
			}
			return n <= 1
		case *ast.SelectorExpr:
			e = x.X
		default:
			return false
		}
	}
}

// collectRegexps records the number of capture groups of regexps built from constant
// sources: package-level `var rx = regexp.MustCompile(<const>)`.
func (m *MayPanic) collectRegexps() {
	for _, f := range m.Pkg.Syntax {
		for _, d := range f.Decls {
			gd, ok := d.(*ast.GenDecl)
			if !ok || gd.Tok != token.VAR {
				continue
			}
			for _, s := range gd.Specs {
				vs := s.(*ast.ValueSpec)
				for i, n := range vs.Names {
					if i >= len(vs.Values) {
						continue
					}
					if g, ok := m.regexpGroups(vs.Values[i]); ok {
						m.rxGroups[m.info.Defs[n]] = g
					}
				}
			}
		}
	}
}

// regexpGroups: e is regexp.MustCompile(<constant string or Sprintf of constants>) → groups.
func (m *MayPanic) regexpGroups(e ast.Expr) (int, bool) {
	c, ok := ast.Unparen(e).(*ast.CallExpr)
	if !ok || len(c.Args) != 1 {
		return 0, false
	}
	fn := Callee(m.info, c)
	if fn == nil || fn.Pkg() == nil || fn.Pkg().Path() != "regexp" || (fn.Name() != "MustCompile" && fn.Name() != "Compile") {
		return 0, false
	}
	src, ok := m.constString(c.Args[0])
	if !ok {
		return 0, false
	}
	re, err := syntax.Parse(src, syntax.Perl)
	if err != nil {
		return 0, false
	}
	return re.MaxCap(), true
}

// constString folds constant strings, concatenations, and fmt.Sprintf with constant format
// and arguments that are constants or unknown (replaced by "x": does not change the number
// of capture groups unless the argument itself holds groups — callers pass literals here).
func (m *MayPanic) constString(e ast.Expr) (string, bool) {
	e = ast.Unparen(e)
	if s, ok := StringVal(m.info, e); ok {
		return s, true
	}
	switch x := e.(type) {
	case *ast.BinaryExpr:
		if x.Op == token.ADD {
			a, ok1 := m.constString(x.X)
			b, ok2 := m.constString(x.Y)
			if ok1 && ok2 {
				return a + b, true
			}
		}
	case *ast.CallExpr:
		if fn := Callee(m.info, x); fn != nil && CalleeName(fn) == "fmt.Sprintf" && len(x.Args) >= 1 {
			format, ok := m.constString(x.Args[0])
			if !ok {
				return "", false
			}
			var args []any
			for _, a := range x.Args[1:] {
				if s, ok := m.constString(a); ok {
					args = append(args, s)
				} else if iv, ok := m.constInt(a); ok {
					args = append(args, iv)
				} else {
					args = append(args, "x")
				}
			}
			return fmt.Sprintf(format, args...), true
		}
	case *ast.Ident:
		// package-level string variable with constant initialiser
		if v, ok := m.info.Uses[x].(*types.Var); ok && v.Parent() == m.Pkg.Types.Scope() {
			if init := pkgVarInit(m.Pkg, v.Name()); init != nil {
				return m.constString(init)
			}
		}
	}
	return "", false
}

func pkgVarInit(pk *packages.Package, name string) ast.Expr {
	for _, f := range pk.Syntax {
		for _, d := range f.Decls {
			gd, ok := d.(*ast.GenDecl)
			if !ok || gd.Tok != token.VAR {
				continue
			}
			for _, s := range gd.Specs {
				vs := s.(*ast.ValueSpec)
				for i, n := range vs.Names {
					if n.Name == name && i < len(vs.Values) {
						return vs.Values[i]
					}
				}
			}
		}
	}
	return nil
}

// RxGroupsOf resolves the group count of the regexp an expression denotes.
func (m *MayPanic) RxGroupsOf(e ast.Expr) (int, bool) {
	switch x := ast.Unparen(e).(type) {
	case *ast.Ident:
		if g, ok := m.rxGroups[m.info.Uses[x]]; ok {
			return g, true
		}
	case *ast.SelectorExpr:
		if g, ok := m.rxGroups[m.info.Uses[x.Sel]]; ok {
			return g, true
		}
	case *ast.CallExpr:
		return m.regexpGroups(x)
	}
	return 0, false
}

// SetRxGroups lets a client bind struct fields to group counts (resolved from constructors).
func (m *MayPanic) SetRxGroups(o types.Object, g int) { m.rxGroups[o] = g }

// summariseGuards: boolean functions `func f(x T) bool { return len(x) > 0 && … }` imply
// facts about their argument when true.
func (m *MayPanic) summariseGuards() {
	for _, fd := range allFuncs(m.Pkg) {
		if fd.Recv != nil || fd.Type.Results == nil || len(fd.Type.Results.List) != 1 || fd.Type.Params.NumFields() != 1 {
			continue
		}
		if id, ok := fd.Type.Results.List[0].Type.(*ast.Ident); !ok || id.Name != "bool" {
			continue
		}
		if len(fd.Body.List) != 1 {
			continue
		}
		ret, ok := fd.Body.List[0].(*ast.ReturnStmt)
		if !ok || len(ret.Results) != 1 {
			continue
		}
		if len(fd.Type.Params.List[0].Names) != 1 {
			continue
		}
		pname := fd.Type.Params.List[0].Names[0].Name
		facts := m.condFacts(ret.Results[0], true)
		var gfs []guardFact
		for k, v := range facts {
			for _, pre := range []string{"len:", "nn:"} {
				if strings.HasPrefix(k, pre) {
					rest := strings.TrimPrefix(k, pre)
					if rest == pname || strings.HasPrefix(rest, pname+".") {
						gfs = append(gfs, guardFact{0, pre + strings.TrimPrefix(rest, pname), v})
					}
				}
			}
		}
		if len(gfs) > 0 {
			if fn, ok := m.info.Defs[fd.Name].(*types.Func); ok {
				m.guardSummaries[fn] = gfs
			}
		}
	}
}

// condFacts: facts implied by cond evaluating to pol.
func (m *MayPanic) condFacts(e ast.Expr, pol bool) mpFacts {
	f := mpFacts{}
	if m.ExtraCondFacts != nil {
		for k, v := range m.ExtraCondFacts(m, e, pol) {
			f[k] = v
		}
	}
	switch x := e.(type) {
	case *ast.ParenExpr:
		return m.condFacts(x.X, pol)
	case *ast.UnaryExpr:
		if x.Op == token.NOT {
			return m.condFacts(x.X, !pol)
		}
	case *ast.CallExpr:
		if pol {
			if fn := Callee(m.info, x); fn != nil {
				if n := CalleeName(fn); (n == "strings.HasPrefix" || n == "strings.HasSuffix") && len(x.Args) == 2 {
					if c, ok := StringVal(m.info, x.Args[1]); ok && len(c) > 0 {
						f["len:"+es(x.Args[0])] = len(c)
					}
				}
				for _, gf := range m.guardSummaries[fn] {
					if gf.param < len(x.Args) {
						i := strings.IndexByte(gf.key, ':')
						f[gf.key[:i+1]+es(x.Args[gf.param])+gf.key[i+1:]] = gf.val
					}
				}
				// type-switch-based helpers (isArray(x) with x interface): handled by client hooks
			}
		}
	case *ast.Ident:
		// boolean local: `ok` of a comma-ok, or single definition
		if def := ResolveLocal(m.info, m.body(), x); def != ast.Expr(x) {
			return m.condFacts(def, pol)
		}
	case *ast.BinaryExpr:
		switch x.Op {
		case token.LAND:
			if pol {
				return m.condFacts(x.X, true).with(m.condFacts(x.Y, true))
			}
			return f
		case token.LOR:
			if !pol {
				return m.condFacts(x.X, false).with(m.condFacts(x.Y, false))
			}
			// a || b: facts common to both
			return intersect(m.condFacts(x.X, true), m.condFacts(x.Y, true))
		}
		op := x.Op
		if !pol {
			op = negOp(op)
		}
		X, Y := x.X, x.Y
		// normalise `k < len(x)` to `len(x) > k`
		if _, isLen := m.lenArg(Y); isLen {
			if _, isLenX := m.lenArg(X); !isLenX {
				X, Y = Y, X
				switch op {
				case token.LSS:
					op = token.GTR
				case token.LEQ:
					op = token.GEQ
				case token.GTR:
					op = token.LSS
				case token.GEQ:
					op = token.LEQ
				}
			}
		}
		if la, ok := m.lenArg(X); ok {
			if k, ok := m.constInt(Y); ok {
				switch op {
				case token.GTR:
					f["len:"+la] = k + 1
				case token.GEQ, token.EQL:
					if k > 0 {
						f["len:"+la] = k
					}
				case token.NEQ:
					if k == 0 {
						f["len:"+la] = 1
					}
				}
			}
			// i < len(x) style bounds: idx + off < len(x)
			if op == token.GTR || op == token.GEQ {
				m.boundFact(f, Y, la, op == token.GEQ)
			}
		}
		// len(x)-1 > i  /  i < len(x)-1
		if be, ok := ast.Unparen(X).(*ast.BinaryExpr); ok && be.Op == token.SUB {
			if la, ok := m.lenArg(be.X); ok {
				if k, ok := m.constInt(be.Y); ok && (op == token.GTR || op == token.GEQ) {
					// len(x) - k > i  ⇒ i + k < len(x)
					if id := es(Y); id != "" {
						kk := k
						if op == token.GEQ {
							kk = k - 1
						}
						if kk >= 0 {
							f["ub:"+la+":"+id] = kk + 1 // stored +1 so that 0 means absent
						}
					}
				}
			}
		}
		if be, ok := ast.Unparen(Y).(*ast.BinaryExpr); ok && be.Op == token.SUB && (op == token.LSS || op == token.LEQ) {
			if la, ok := m.lenArg(be.X); ok {
				if k, ok := m.constInt(be.Y); ok {
					kk := k
					if op == token.LEQ {
						kk = k - 1
					}
					if kk >= 0 {
						f["ub:"+la+":"+es(X)] = kk + 1
					}
				}
			}
		}
		if op == token.LEQ {
			if _, isC := m.constInt(Y); !isC {
				f["le:"+es(X)+":"+es(Y)] = 1
			}
		}
		if op == token.GEQ {
			if _, isC := m.constInt(X); !isC {
				f["le:"+es(Y)+":"+es(X)] = 1
			}
		}
		if IsNil(m.info, Y) {
			if op == token.NEQ {
				f["nn:"+es(X)] = 1
				f["clean:"+es(X)] = 1
			}
		} else if IsNil(m.info, X) && op == token.NEQ {
			f["nn:"+es(Y)] = 1
			f["clean:"+es(Y)] = 1
		}
		// lower bounds: i > 0, i >= 1
		if k, ok := m.constInt(Y); ok {
			if _, isLen := m.lenArg(X); !isLen {
				switch op {
				case token.GTR:
					f["lb:"+es(X)] = k + 1 + 1
				case token.GEQ:
					if k >= 0 {
						f["lb:"+es(X)] = k + 1
					}
				}
			}
		}
	}
	return f
}

// boundFact: len(x) > e (strict) or len(x) >= e: record idx+off < len(x).
func (m *MayPanic) boundFact(f mpFacts, e ast.Expr, slice string, geq bool) {
	e = ast.Unparen(e)
	off := 0
	if be, ok := e.(*ast.BinaryExpr); ok && be.Op == token.ADD {
		if k, ok := m.constInt(be.Y); ok {
			e, off = be.X, k
		}
	}
	if _, isConst := m.constInt(e); isConst {
		return
	}
	if geq {
		off--
	}
	if off >= 0 {
		f["ub:"+slice+":"+es(e)] = off + 1
	}
}

func (m *MayPanic) body() ast.Node {
	if m.fd != nil {
		return m.fd.Body
	}
	return nil
}

// producerLen: minimum length of a freshly produced slice/string.
func (m *MayPanic) producerLen(e ast.Expr) int {
	switch x := ast.Unparen(e).(type) {
	case *ast.CallExpr:
		if tv, ok := m.info.Types[x.Fun]; ok && tv.IsType() && len(x.Args) == 1 {
			return m.producerLen(x.Args[0]) // conversion
		}
		if fn := Callee(m.info, x); fn != nil && fn.Pkg() != nil {
			switch fn.Pkg().Path() + "." + fn.Name() {
			case "strings.Split", "strings.SplitN", "strings.SplitAfter", "strings.SplitAfterN":
				// Split(s, sep) returns at least one element when sep != "" (n != 0)
				return 1
			}
		}
		if IsBuiltinCall(m.info, x, "append") && len(x.Args) >= 2 && !x.Ellipsis.IsValid() {
			return len(x.Args) - 1
		}
		if IsBuiltinCall(m.info, x, "make") && len(x.Args) >= 2 {
			if k, ok := m.constInt(x.Args[1]); ok {
				return k
			}
		}
	case *ast.CompositeLit:
		if t := m.info.TypeOf(x); t != nil {
			if _, ok := t.Underlying().(*types.Slice); ok {
				return len(x.Elts)
			}
		}
	case *ast.BasicLit:
		if s, ok := StringVal(m.info, x); ok {
			return len(s)
		}
	}
	return 0
}

func (m *MayPanic) report(kind PanicKind, e ast.Expr, safe bool, why string, parm *types.Var, need int) {
	m.Sites = append(m.Sites, PanicSite{Kind: kind, Fn: m.fn, Expr: es(e), Pos: e.Pos(), Safe: safe, Why: why, OnParm: parm, Need: need})
}

// rootParam returns the parameter an expression is rooted in (x, x.F, x[i] … with x a
// parameter or receiver of the current function).
func (m *MayPanic) rootParam(e ast.Expr) *types.Var {
	for {
		switch x := ast.Unparen(e).(type) {
		case *ast.Ident:
			v, _ := m.info.Uses[x].(*types.Var)
			if v != nil && m.fd != nil && isParamOrRecv(m.info, m.fd, v) {
				return v
			}
			return nil
		case *ast.SelectorExpr:
			e = x.X
		case *ast.StarExpr:
			e = x.X
		case *ast.IndexExpr:
			e = x.X
		default:
			return nil
		}
	}
}

func isParamOrRecv(info *types.Info, fd *ast.FuncDecl, v *types.Var) bool {
	if isParamOf(info, fd, v) {
		return true
	}
	if fd.Recv != nil {
		for _, fl := range fd.Recv.List {
			for _, n := range fl.Names {
				if info.Defs[n] == v {
					return true
				}
			}
		}
	}
	return false
}

func (m *MayPanic) haveLen(f mpFacts, x ast.Expr) int {
	have := f["len:"+es(x)]
	if pl := m.producerLen(x); pl > have {
		have = pl
	}
	// regexp results are nil or have their full arity
	if rx := f["rx:"+es(x)]; rx > have && (have > 0 || f["nn:"+es(x)] > 0) {
		have = rx
	}
	// (*p)[i] and p facts
	if st, ok := ast.Unparen(x).(*ast.StarExpr); ok {
		if v := f["len:*"+es(st.X)]; v > have {
			have = v
		}
	}
	return have
}

func (m *MayPanic) checkExpr(e ast.Expr, f mpFacts) {
	if e == nil {
		return
	}
	switch x := e.(type) {
	case *ast.BinaryExpr:
		if x.Op == token.LAND {
			m.checkExpr(x.X, f)
			m.checkExpr(x.Y, f.with(m.condFacts(x.X, true)))
			return
		}
		if x.Op == token.LOR {
			m.checkExpr(x.X, f)
			m.checkExpr(x.Y, f.with(m.condFacts(x.X, false)))
			return
		}
		m.checkExpr(x.X, f)
		m.checkExpr(x.Y, f)
		if m.CheckIface && (x.Op == token.EQL || x.Op == token.NEQ) {
			tx, ty := m.info.TypeOf(x.X), m.info.TypeOf(x.Y)
			if tx != nil && ty != nil && isEmptyIface(tx) && isEmptyIface(ty) && !IsNil(m.info, x.X) && !IsNil(m.info, x.Y) {
				m.report(PKIfaceCmp, x, false, "== / != on two interface{} values panics at run time when both hold the same non-comparable dynamic type (slice or map decoded from JSON)", nil, 0)
			}
		}
	case *ast.IndexExpr:
		m.checkExpr(x.X, f)
		m.checkExpr(x.Index, f)
		m.checkIndex(x, f)
	case *ast.TypeAssertExpr:
		m.checkExpr(x.X, f)
		if x.Type != nil {
			// single-value form (comma-ok forms are handled at the assignment)
			safe := f["ta:"+es(x.X)+":"+es(x.Type)] > 0
			m.report(PKAssert, x, safe, map[bool]string{true: "type established by an enclosing type switch / comma-ok test", false: "single-value type assertion: panics when the dynamic type differs"}[safe], m.rootParam(x.X), 0)
		}
	case *ast.CallExpr:
		m.checkExpr(x.Fun, f)
		sorted := ""
		if fn := Callee(m.info, x); fn != nil && fn.Pkg() != nil && fn.Pkg().Path() == "sort" && (fn.Name() == "Slice" || fn.Name() == "SliceStable") && len(x.Args) == 2 {
			sorted = es(x.Args[0])
			m.sortClosure[sorted]++
		}
		for _, a := range x.Args {
			m.checkExpr(a, f)
		}
		if sorted != "" {
			m.sortClosure[sorted]--
		}
		if IsNoReturnCall(m.info, x) && IsBuiltinCall(m.info, x, "panic") {
			m.report(PKPanicCall, x, false, "explicit panic", nil, 0)
		}
		m.checkCallPreconds(x, f)
	case *ast.ParenExpr:
		m.checkExpr(x.X, f)
	case *ast.UnaryExpr:
		m.checkExpr(x.X, f)
	case *ast.StarExpr:
		m.checkExpr(x.X, f)
		m.checkDeref(x.X, x, f)
	case *ast.SelectorExpr:
		m.checkExpr(x.X, f)
		if sel, ok := m.info.Selections[x]; ok {
			// implicit dereference of a pointer base
			if _, isPtr := m.info.TypeOf(x.X).Underlying().(*types.Pointer); isPtr && (sel.Kind() == types.FieldVal || (sel.Kind() == types.MethodVal && !ptrRecv(sel))) {
				m.checkDeref(x.X, x, f)
			}
		}
	case *ast.SliceExpr:
		m.checkExpr(x.X, f)
		m.checkExpr(x.Low, f)
		m.checkExpr(x.High, f)
		m.checkSlice(x, f)
	case *ast.CompositeLit:
		for _, el := range x.Elts {
			m.checkExpr(el, f)
		}
	case *ast.KeyValueExpr:
		m.checkExpr(x.Value, f)
	case *ast.FuncLit:
		m.block(x.Body.List, f.clone())
	}
}

// assignedIn reports whether the parameter is reassigned in the current function.
func (m *MayPanic) assignedIn(v *types.Var) bool {
	return len(AssignmentsTo(m.info, m.fd.Body, v)) > 0
}

func ptrRecv(sel *types.Selection) bool {
	if fn, ok := sel.Obj().(*types.Func); ok {
		if sig, ok := fn.Type().(*types.Signature); ok && sig.Recv() != nil {
			_, isPtr := sig.Recv().Type().(*types.Pointer)
			return isPtr
		}
	}
	return false
}

func isEmptyIface(t types.Type) bool {
	it, ok := t.Underlying().(*types.Interface)
	return ok && it.NumMethods() == 0
}

// checkDeref: base is a pointer about to be dereferenced.
func (m *MayPanic) checkDeref(base ast.Expr, at ast.Expr, f mpFacts) {
	if !m.CheckNil {
		return
	}
	base = ast.Unparen(base)
	if f["nn:"+es(base)] > 0 {
		m.report(PKNilDeref, at, true, "non-nil fact for "+es(base), nil, 0)
		return
	}
	switch x := base.(type) {
	case *ast.SelectorExpr:
		sel, ok := m.info.Selections[x]
		if !ok || sel.Kind() != types.FieldVal {
			return
		}
		owner := NamedName(sel.Recv())
		if m.FieldAssumed != nil && m.FieldAssumed(m, x.X, x.Sel.Name, f) {
			m.report(PKNilDeref, at, true, "assumed non-nil by Swagger validity under the facts in force", nil, 0)
			return
		}
		if m.NilableField != nil && m.NilableField(owner, x.Sel.Name) {
			m.report(PKNilDeref, at, false, fmt.Sprintf("%s.%s may be nil and is dereferenced without a dominating nil test", owner, x.Sel.Name), m.rootParam(base), 0)
		}
	case *ast.Ident:
		v, _ := m.info.Uses[x].(*types.Var)
		if v == nil {
			return
		}
		if pv, ok := m.tsBound[v]; ok {
			// a pointer extracted from an interface parameter by a type switch: a typed nil
			// pointer passes `x != nil` on the interface; the callers must not pass one
			m.report(PKNilDeref, at, true, "pointer taken from interface parameter "+pv.Name()+": checked at call sites", pv, 0)
			if fn, ok := m.info.Defs[m.fd.Name].(*types.Func); ok && !m.frozen {
				idx := paramIdx(m.info, m.fd, pv)
				dup := false
				for _, p := range m.Preconds[fn] {
					if p.Param == idx && p.Kind == PKNilDeref {
						dup = true
					}
				}
				if !dup {
					m.Preconds[fn] = append(m.Preconds[fn], Precond{Param: idx, Kind: PKNilDeref, Expr: es(at), Pos: at.Pos()})
				}
			}
			return
		}
		if m.fd != nil && isParamOf(m.info, m.fd, v) {
			// a parameter re-assigned from a nil-able source before this point, on a path without a
			// nil test since, is no longer the caller's value
			for _, a := range AssignmentsTo(m.info, m.fd.Body, v) {
				if a.Rhs == nil || a.IsRange || a.Stmt == nil || a.Stmt.End() > at.Pos() || f["clean:"+x.Name] > 0 {
					continue
				}
				if m.maybeNil(a.Rhs, a.ResultIx) {
					m.report(PKNilDeref, at, false, fmt.Sprintf("%s is re-assigned from %s, which may be nil, and is dereferenced without a dominating nil test", x.Name, es(a.Rhs)), nil, 0)
					return
				}
			}
			// precondition on the parameter
			m.report(PKNilDeref, at, true, "parameter: checked at call sites", v, 0)
			if fn, ok := m.info.Defs[m.fd.Name].(*types.Func); ok {
				idx := paramIdx(m.info, m.fd, v)
				dup := false
				for _, p := range m.Preconds[fn] {
					if p.Param == idx && p.Kind == PKNilDeref {
						dup = true
					}
				}
				if !dup && !m.frozen {
					m.Preconds[fn] = append(m.Preconds[fn], Precond{Param: idx, Kind: PKNilDeref, Expr: es(at), Pos: at.Pos()})
				}
			}
			return
		}
		// local assigned from a nil-able source
		for _, a := range AssignmentsTo(m.info, m.fd.Body, v) {
			if a.Rhs == nil || a.IsRange {
				continue
			}
			if m.maybeNil(a.Rhs, a.ResultIx) {
				m.report(PKNilDeref, at, false, fmt.Sprintf("%s is assigned from %s, which may be nil, and is dereferenced without a dominating nil test", x.Name, es(a.Rhs)), nil, 0)
				return
			}
		}
	case *ast.CallExpr:
		if fn := Callee(m.info, x); fn != nil && m.NilOnlyForNilArg[fn.Name()] && len(x.Args) >= 1 && f["nn:"+es(ast.Unparen(x.Args[0]))] > 0 {
			m.report(PKNilDeref, at, true, "result of "+es(x.Fun)+" is nil only for a nil argument, and "+es(x.Args[0])+" is not nil here", nil, 0)
			return
		}
		if m.maybeNil(x, -1) {
			m.report(PKNilDeref, at, false, "result of "+es(x.Fun)+" may be nil", nil, 0)
		}
	}
}

func paramIdx(info *types.Info, fd *ast.FuncDecl, v *types.Var) int {
	if fd.Recv != nil {
		for _, fl := range fd.Recv.List {
			for _, n := range fl.Names {
				if info.Defs[n] == v {
					return -1
				}
			}
		}
	}
	i := 0
	for _, fl := range fd.Type.Params.List {
		for _, n := range fl.Names {
			if info.Defs[n] == v {
				return i
			}
			i++
		}
	}
	return -1
}

// maybeNil: expression of pointer type that may evaluate to nil.
func (m *MayPanic) maybeNil(e ast.Expr, resultIx int) bool {
	switch x := ast.Unparen(e).(type) {
	case *ast.SelectorExpr:
		if sel, ok := m.info.Selections[x]; ok && sel.Kind() == types.FieldVal {
			if _, isPtr := sel.Type().Underlying().(*types.Pointer); isPtr {
				return m.NilableField != nil && m.NilableField(NamedName(sel.Recv()), x.Sel.Name)
			}
		}
	case *ast.CallExpr:
		if fn := Callee(m.info, x); fn != nil && (resultIx <= 0) {
			return m.NilableResult[fn.Name()]
		}
		// a call through a value of a named function type (a callback parameter)
		if tv, ok := m.info.Types[x.Fun]; ok && resultIx <= 0 {
			if nt, ok := tv.Type.(*types.Named); ok {
				return m.NilableResult[nt.Obj().Name()]
			}
		}
	case *ast.Ident:
		return x.Name == "nil"
	}
	return false
}

// checkCallPreconds: arguments passed to a same-package callee that dereferences / indexes
// its parameter unguarded.
func (m *MayPanic) checkCallPreconds(c *ast.CallExpr, f mpFacts) {
	fn := Callee(m.info, c)
	if fn == nil {
		return
	}
	for _, p := range m.Preconds[fn] {
		if p.Param >= len(c.Args) {
			continue
		}
		var a ast.Expr
		if p.Param < 0 {
			se, ok := ast.Unparen(c.Fun).(*ast.SelectorExpr)
			if !ok {
				continue
			}
			a = ast.Unparen(se.X)
		} else {
			a = ast.Unparen(c.Args[p.Param])
		}
		switch p.Kind {
		case PKNilDeref:
			if !m.CheckNil {
				continue
			}
			if f["nn:"+es(a)] > 0 {
				m.report(PKNilDeref, a, true, "argument non-nil (callee "+fn.Name()+" dereferences it)", nil, 0)
				continue
			}
			if m.maybeNil(a, -1) {
				m.report(PKNilDeref, a, false, fmt.Sprintf("%s may be nil and %s dereferences this parameter unconditionally (%s)", es(a), fn.Name(), p.Expr), m.rootParam(a), 0)
			} else if id, ok := a.(*ast.Ident); ok {
				if v, _ := m.info.Uses[id].(*types.Var); v != nil && m.fd != nil && isParamOf(m.info, m.fd, v) && f["clean:"+id.Name] > 0 {
					// the caller's own parameter handed on: the obligation moves to this function's callers
					if cur, ok := m.info.Defs[m.fd.Name].(*types.Func); ok && !m.frozen {
						idx := paramIdx(m.info, m.fd, v)
						dup := false
						for _, q := range m.Preconds[cur] {
							if q.Param == idx && q.Kind == PKNilDeref {
								dup = true
							}
						}
						if !dup {
							m.Preconds[cur] = append(m.Preconds[cur], Precond{Param: idx, Kind: PKNilDeref, Expr: es(c.Fun) + "(" + id.Name + ")", Pos: a.Pos()})
						}
					}
				}
				if v, _ := m.info.Uses[id].(*types.Var); v != nil && m.fd != nil && !isParamOf(m.info, m.fd, v) {
					for _, as := range AssignmentsTo(m.info, m.fd.Body, v) {
						if as.Rhs != nil && !as.IsRange && m.maybeNil(as.Rhs, as.ResultIx) {
							m.report(PKNilDeref, a, false, fmt.Sprintf("%s is assigned from %s (may be nil) and %s dereferences this parameter unconditionally", id.Name, es(as.Rhs), fn.Name()), nil, 0)
							break
						}
					}
				}
			}
		case PKVarIndex:
			if p.Param2 < 0 || p.Param2 >= len(c.Args) {
				continue
			}
			ia := ast.Unparen(c.Args[p.Param2])
			ub := f["ub:"+es(a)+":"+es(ia)]
			if ub > 0 && p.Off <= ub-1 {
				m.report(PKVarIndex, c, true, fmt.Sprintf("%s + %d < len(%s) established for callee %s", es(ia), p.Off, es(a), fn.Name()), nil, 0)
			} else if p.Off == 0 && m.loopBounds(ia, es(a)) {
				m.report(PKVarIndex, c, true, "loop index over the same slice", nil, 0)
			} else if bid, ok := ia.(*ast.BinaryExpr); ok && bid.Op == token.ADD && p.Off == 0 {
				// f(x, i+1) under i+1 < len(x)
				if k, ok := m.constInt(bid.Y); ok && f["ub:"+es(a)+":"+es(bid.X)] > k {
					m.report(PKVarIndex, c, true, "bound established for the shifted index", nil, 0)
				} else {
					m.report(PKVarIndex, c, false, fmt.Sprintf("callee %s indexes %s[%s+%d] (%s); no bound on this same slice holds at the call", fn.Name(), es(a), es(ia), p.Off, p.Expr), nil, 0)
				}
			} else {
				m.report(PKVarIndex, c, false, fmt.Sprintf("callee %s indexes %s[%s+%d] (%s); no bound on this same slice holds at the call", fn.Name(), es(a), es(ia), p.Off, p.Expr), nil, 0)
			}
		case PKIndex:
			have := m.haveLen(f, a)
			if p.Suffix != "" {
				have = f["len:"+es(a)+p.Suffix]
				if u, ok := a.(*ast.UnaryExpr); ok && u.Op == token.AND {
					if v := f["len:"+es(u.X)+p.Suffix]; v > have {
						have = v
					}
				}
			}
			safe := have >= p.Need
			if !safe {
				m.report(PKIndex, a, false, fmt.Sprintf("callee %s indexes this parameter (%s) and needs len ≥ %d; no such fact holds here", fn.Name(), p.Expr, p.Need), m.rootParam(a), p.Need)
			} else {
				m.report(PKIndex, a, true, fmt.Sprintf("len ≥ %d established for callee %s", p.Need, fn.Name()), nil, 0)
			}
		}
	}
}

func (m *MayPanic) checkIndex(x *ast.IndexExpr, f mpFacts) {
	t := m.info.TypeOf(x.X)
	if t == nil {
		return
	}
	isStr := false
	switch u := t.Underlying().(type) {
	case *types.Slice:
	case *types.Basic:
		if u.Info()&types.IsString == 0 {
			return
		}
		isStr = true
	case *types.Pointer:
		if _, ok := u.Elem().Underlying().(*types.Array); !ok {
			return
		}
		return
	default:
		return // maps, arrays (constant indexes are checked by the compiler), generics
	}
	_ = isStr
	need := -1
	if k, ok := m.constInt(x.Index); ok {
		need = k + 1
	} else if b, ok := ast.Unparen(x.Index).(*ast.BinaryExpr); ok && b.Op == token.SUB {
		bx := ResolveLocal(m.info, m.body(), b.X)
		if la, ok := m.lenArg(bx); ok && la == es(x.X) {
			if k, ok := m.constInt(b.Y); ok {
				need = k
			}
		}
	}
	if need < 0 {
		if id, ok := ast.Unparen(x.Index).(*ast.Ident); ok && m.fd != nil {
			def := ResolveLocal(m.info, m.fd.Body, id)
			if b, ok := ast.Unparen(def).(*ast.BinaryExpr); ok && b.Op == token.SUB {
				if la, ok := m.lenArg(b.X); ok && la == es(x.X) {
					if k, ok := m.constInt(b.Y); ok {
						need = k
					}
				}
			}
		}
	}
	if need < 0 && m.sortClosure[es(x.X)] > 0 {
		m.report(PKVarIndex, x, true, "index supplied by sort.Slice for this same slice", nil, 0)
		return
	}
	if need >= 0 {
		have := m.haveLen(f, x.X)
		if have >= need {
			m.report(PKIndex, x, true, fmt.Sprintf("len ≥ %d established", have), nil, 0)
			return
		}
		parm := m.rootParam(x.X)
		if parm != nil && isParamOrRecv(m.info, m.fd, parm) && strings.HasPrefix(es(x.X), parm.Name()) && !m.assignedIn(parm) {
			// index of (a field path of) a parameter: precondition, checked at call sites
			if fn, ok := m.info.Defs[m.fd.Name].(*types.Func); ok {
				suffix := strings.TrimPrefix(es(x.X), parm.Name())
				isRecv := !isParamOf(m.info, m.fd, parm)
				if (suffix == "" || strings.HasPrefix(suffix, ".")) && !(isRecv && suffix != "") {
					if !m.frozen {
						m.Preconds[fn] = append(m.Preconds[fn], Precond{Param: paramIdx(m.info, m.fd, parm), Suffix: suffix, Kind: PKIndex, Need: need, Expr: es(x), Pos: x.Pos()})
					}
					m.report(PKIndex, x, true, "parameter: length checked at call sites", parm, need)
					return
				}
			}
		}
		m.report(PKIndex, x, false, fmt.Sprintf("index needs len(%s) ≥ %d, established %d", es(x.X), need, have), parm, need)
		return
	}
	// variable index: same-slice rule
	idx := ast.Unparen(x.Index)
	off := 0
	base := idx
	if b, ok := idx.(*ast.BinaryExpr); ok {
		if k, ok := m.constInt(b.Y); ok {
			switch b.Op {
			case token.ADD:
				base, off = b.X, k
			case token.SUB:
				base, off = b.X, -k
			}
		}
	}
	sl := es(x.X)
	// p - q with 0 ≤ q ≤ p: bounded like p
	if b, ok := idx.(*ast.BinaryExpr); ok && b.Op == token.SUB {
		if _, isConst := m.constInt(b.Y); !isConst && f["le:"+es(b.Y)+":"+es(b.X)] > 0 && m.nonNegCounter(b.Y) {
			base, off = b.X, 0
		}
	}
	// enclosing loops
	if id, ok := ast.Unparen(base).(*ast.Ident); ok {
		o := m.info.Uses[id]
		for _, lb := range m.loopVars {
			if lb.idx == o && lb.max > 0 && off == 0 && m.haveLen(f, x.X) >= lb.max {
				m.report(PKVarIndex, x, true, fmt.Sprintf("index < %d (exact length of the ranged literal) ≤ len of this slice", lb.max), nil, 0)
				return
			}
			if lb.idx == o && off == 0 && f["eqlen:"+sl+":"+lb.slice] > 0 {
				m.report(PKVarIndex, x, true, "slice made with the length of the ranged slice", nil, 0)
				return
			}
			if lb.idx == o && lb.slice == sl {
				if off <= lb.off && off >= 0 {
					m.report(PKVarIndex, x, true, "index is the key/counter of a loop over the same slice", nil, 0)
					return
				}
				if off < 0 && f["lb:"+es(base)] >= -off+1 {
					m.report(PKVarIndex, x, true, "loop index with established lower bound", nil, 0)
					return
				}
			}
		}
	}
	if ub := f["ub:"+sl+":"+es(base)]; ub > 0 && off <= ub-1 {
		if off >= 0 || f["lb:"+es(base)] >= -off+1 {
			m.report(PKVarIndex, x, true, "dominating bound on the same slice", nil, 0)
			return
		}
	}
	// both the slice and the index are unmodified parameters: a precondition for the callers
	if sid, ok := ast.Unparen(x.X).(*ast.Ident); ok && m.fd != nil {
		if bid, ok := ast.Unparen(base).(*ast.Ident); ok {
			sv, _ := m.info.Uses[sid].(*types.Var)
			bv, _ := m.info.Uses[bid].(*types.Var)
			if sv != nil && bv != nil && isParamOf(m.info, m.fd, sv) && isParamOf(m.info, m.fd, bv) && !m.assignedIn(sv) && !m.assignedIn(bv) && off >= 0 {
				if fn, ok := m.info.Defs[m.fd.Name].(*types.Func); ok {
					if !m.frozen {
						m.Preconds[fn] = append(m.Preconds[fn], Precond{Param: paramIdx(m.info, m.fd, sv), Param2: paramIdx(m.info, m.fd, bv), Off: off, Kind: PKVarIndex, Expr: es(x), Pos: x.Pos()})
					}
					m.report(PKVarIndex, x, true, "parameters: bound checked at call sites", sv, 0)
					return
				}
			}
		}
	}
	m.report(PKVarIndex, x, false, fmt.Sprintf("no bound `%s < len(%s)` on this same slice dominates the index", es(idx), sl), m.rootParam(x.X), 0)
}

func (m *MayPanic) checkSlice(x *ast.SliceExpr, f mpFacts) {
	t := m.info.TypeOf(x.X)
	if t == nil {
		return
	}
	switch t.Underlying().(type) {
	case *types.Slice, *types.Basic:
	default:
		return
	}
	need := 0
	sym := false
	for _, b := range []ast.Expr{x.Low, x.High} {
		if b == nil {
			continue
		}
		if k, ok := m.constInt(b); ok {
			if k > need {
				need = k
			}
			continue
		}
		// len(x)-k
		if be, ok := ast.Unparen(b).(*ast.BinaryExpr); ok && be.Op == token.SUB {
			if la, ok := m.lenArg(be.X); ok && la == es(x.X) {
				if k, ok := m.constInt(be.Y); ok {
					if k > need {
						need = k
					}
					continue
				}
			}
		}
		if la, ok := m.lenArg(b); ok && la == es(x.X) {
			continue
		}
		sym = true
	}
	if sym {
		// symbolic bounds: accept indexes produced by strings.Index*/loc pairs only when guarded; reported for review
		ok := false
		for _, b := range []ast.Expr{x.Low, x.High} {
			if b == nil {
				continue
			}
			bb := ast.Unparen(b)
			off := 0
			if be, isB := bb.(*ast.BinaryExpr); isB {
				if k, isK := m.constInt(be.Y); isK && (be.Op == token.ADD || be.Op == token.SUB) {
					bb = be.X
					if be.Op == token.ADD {
						off = k
					}
				}
			}
			if f["ub:"+es(x.X)+":"+es(bb)] > off || f["lb:"+es(bb)] > 0 || f["len:"+es(ast.Unparen(b))] > 0 {
				ok = true
			}
			if ie, isIdx := bb.(*ast.IndexExpr); isIdx {
				// loc[0], loc[1] of a FindStringIndex result: within bounds by regexp contract
				_ = ie
				ok = true
			}
			if id, isId := bb.(*ast.Ident); isId {
				o := m.info.Uses[id]
				for _, lb := range m.loopVars {
					if lb.idx == o && lb.slice == es(x.X) {
						ok = true
					}
				}
			}
		}
		m.report(PKSlice, x, ok, map[bool]string{true: "symbolic bound derived from the same slice", false: "slice bounds are not provably within the slice"}[ok], m.rootParam(x.X), 0)
		return
	}
	have := m.haveLen(f, x.X)
	m.report(PKSlice, x, have >= need, fmt.Sprintf("needs len ≥ %d, established %d", need, have), m.rootParam(x.X), need)
}

func (m *MayPanic) block(stmts []ast.Stmt, f mpFacts) mpFacts {
	for _, s := range stmts {
		f = m.stmt(s, f)
	}
	return f
}

func (m *MayPanic) stmt(s ast.Stmt, f mpFacts) mpFacts {
	switch x := s.(type) {
	case *ast.IfStmt:
		if x.Init != nil {
			f = m.stmt(x.Init, f)
		}
		m.checkExpr(x.Cond, f)
		if m.deadCond(x.Cond) {
			// then-branch unreachable (a parameter that is nil at every call site must be non-nil)
			if x.Else != nil {
				return m.stmt(x.Else, f)
			}
			return f
		}
		thenOut := m.block(x.Body.List, f.with(m.condFacts(x.Cond, true)))
		elseOut := f.with(m.condFacts(x.Cond, false))
		elseTerm := false
		if x.Else != nil {
			switch e := x.Else.(type) {
			case *ast.BlockStmt:
				elseOut = m.block(e.List, elseOut)
				elseTerm = Terminates(m.info, e.List)
			default:
				elseOut = m.stmt(e, elseOut)
				elseTerm = Terminates(m.info, []ast.Stmt{e})
			}
		}
		switch {
		case Terminates(m.info, x.Body.List) && elseTerm:
			f = mpFacts{}
		case Terminates(m.info, x.Body.List):
			f = elseOut
		case elseTerm:
			f = thenOut
		default:
			f = intersect(thenOut, elseOut)
		}
	case *ast.AssignStmt:
		for _, r := range x.Rhs {
			m.checkExpr(r, f)
		}
		f = f.clone()
		for _, l := range x.Lhs {
			if _, ok := l.(*ast.Ident); !ok {
				m.checkExpr(l, f)
			}
			m.killLhs(l, f)
		}
		if len(x.Lhs) == len(x.Rhs) {
			for i := range x.Lhs {
				m.assignFacts(x.Lhs[i], x.Rhs[i], f)
			}
		} else if len(x.Rhs) == 1 && len(x.Lhs) == 2 {
			// v, ok := x.(T)
			if ta, ok := ast.Unparen(x.Rhs[0]).(*ast.TypeAssertExpr); ok {
				_ = ta
			}
		}
	case *ast.ExprStmt:
		m.checkExpr(x.X, f)
	case *ast.ReturnStmt:
		for _, r := range x.Results {
			m.checkExpr(r, f)
		}
	case *ast.BlockStmt:
		return m.block(x.List, f)
	case *ast.RangeStmt:
		m.checkExpr(x.X, f)
		g := f.clone()
		m.killAssigned(x.Body, g)
		if x.Key != nil {
			m.killLhs(x.Key, g)
		}
		if x.Value != nil {
			m.killLhs(x.Value, g)
		}
		n := len(m.loopVars)
		if id, ok := x.Key.(*ast.Ident); ok && id.Name != "_" {
			if t := m.info.TypeOf(x.X); t != nil {
				switch t.Underlying().(type) {
				case *types.Slice, *types.Basic, *types.Array:
					o := m.info.Defs[id]
					if o == nil {
						o = m.info.Uses[id]
					}
					m.loopVars = append(m.loopVars, loopBound{o, es(x.X), 0, f["exact:"+es(x.X)]})
				}
			}
		}
		g["len:"+es(x.X)] = max(g["len:"+es(x.X)], 1)
		m.block(x.Body.List, g)
		m.loopVars = m.loopVars[:n]
		f = f.clone()
		m.killAssigned(x.Body, f)
	case *ast.ForStmt:
		if x.Init != nil {
			f = m.stmt(x.Init, f)
		}
		g := f.clone()
		m.killAssigned(x.Body, g)
		if x.Post != nil {
			m.killAssigned(x.Post, g)
		}
		n := len(m.loopVars)
		if x.Cond != nil {
			m.checkExpr(x.Cond, g)
			cf := m.condFacts(x.Cond, true)
			g = g.with(cf)
			// for i := …; i < len(x); i++  → loop bound
			for k, v := range cf {
				if strings.HasPrefix(k, "ub:") {
					parts := strings.SplitN(strings.TrimPrefix(k, "ub:"), ":", 2)
					if len(parts) == 2 {
						if o := m.lookupLocal(parts[1]); o != nil {
							m.loopVars = append(m.loopVars, loopBound{o, parts[0], v - 1, 0})
						}
					}
				}
			}
		}
		// counters start at their init value: i := k gives lb
		if as, ok := x.Init.(*ast.AssignStmt); ok && len(as.Lhs) == 1 && len(as.Rhs) == 1 {
			if k, ok := m.constInt(as.Rhs[0]); ok && k >= 0 && m.onlyIncremented(x, as.Lhs[0]) {
				g["lb:"+es(as.Lhs[0])] = k + 1
			}
		}
		m.block(x.Body.List, g)
		m.loopVars = m.loopVars[:n]
		f = f.clone()
		m.killAssigned(x.Body, f)
	case *ast.SwitchStmt:
		if x.Init != nil {
			f = m.stmt(x.Init, f)
		}
		m.checkExpr(x.Tag, f)
		neg := mpFacts{}
		for _, c := range x.Body.List {
			cc := c.(*ast.CaseClause)
			g := f.with(neg)
			if x.Tag == nil {
				if len(cc.List) == 1 {
					g = g.with(m.condFacts(cc.List[0], true))
				}
				for _, e := range cc.List {
					m.checkExpr(e, f.with(neg))
					neg = neg.with(m.condFacts(e, false))
				}
			} else {
				for _, e := range cc.List {
					m.checkExpr(e, f)
				}
				// switch len(x) { case k: }
				if la, ok := m.lenArg(x.Tag); ok && len(cc.List) == 1 {
					if k, ok := m.constInt(cc.List[0]); ok && k > 0 {
						g = g.with(mpFacts{"len:" + la: k})
					}
				}
			}
			m.block(cc.Body, g)
		}
		f = f.clone()
		m.killAssigned(x.Body, f)
	case *ast.TypeSwitchStmt:
		var subj ast.Expr
		var bound *ast.Ident
		switch a := x.Assign.(type) {
		case *ast.AssignStmt:
			if ta, ok := a.Rhs[0].(*ast.TypeAssertExpr); ok {
				subj = ta.X
				m.checkExpr(ta.X, f)
			}
			bound, _ = a.Lhs[0].(*ast.Ident)
		case *ast.ExprStmt:
			if ta, ok := a.X.(*ast.TypeAssertExpr); ok {
				subj = ta.X
				m.checkExpr(ta.X, f)
			}
		}
		_ = bound
		if subj != nil {
			if id, ok := ast.Unparen(subj).(*ast.Ident); ok {
				if pv, _ := m.info.Uses[id].(*types.Var); pv != nil && isParamOf(m.info, m.fd, pv) {
					for _, c := range x.Body.List {
						if o := m.info.Implicits[c]; o != nil {
							if m.tsBound == nil {
								m.tsBound = map[types.Object]*types.Var{}
							}
							m.tsBound[o] = pv
						}
					}
				}
			}
		}
		for _, c := range x.Body.List {
			cc := c.(*ast.CaseClause)
			g := f
			if subj != nil && len(cc.List) == 1 {
				g = f.with(mpFacts{"ta:" + es(subj) + ":" + es(cc.List[0]): 1})
			}
			m.block(cc.Body, g)
		}
		f = f.clone()
		m.killAssigned(x.Body, f)
	case *ast.DeclStmt:
		if gd, ok := x.Decl.(*ast.GenDecl); ok {
			for _, sp := range gd.Specs {
				if vs, ok := sp.(*ast.ValueSpec); ok {
					for _, v := range vs.Values {
						m.checkExpr(v, f)
					}
					if len(vs.Names) == len(vs.Values) {
						f = f.clone()
						for i := range vs.Names {
							m.assignFacts(vs.Names[i], vs.Values[i], f)
						}
					}
				}
			}
		}
	case *ast.DeferStmt:
		m.checkExpr(x.Call, f)
	case *ast.GoStmt:
		m.checkExpr(x.Call, f)
	case *ast.LabeledStmt:
		return m.stmt(x.Stmt, f)
	case *ast.IncDecStmt:
		f = f.clone()
		m.killLhs(x.X, f)
	case *ast.SendStmt:
		m.checkExpr(x.Value, f)
	case *ast.SelectStmt:
		for _, c := range x.Body.List {
			m.block(c.(*ast.CommClause).Body, f)
		}
	}
	return f
}

func (m *MayPanic) loopBounds(idx ast.Expr, slice string) bool {
	id, ok := ast.Unparen(idx).(*ast.Ident)
	if !ok {
		return false
	}
	o := m.info.Uses[id]
	for _, lb := range m.loopVars {
		if lb.idx == o && lb.slice == slice {
			return true
		}
	}
	return false
}

// nonNegCounter: a local whose only assignments are one `:= <const ≥ 0>` and increments.
func (m *MayPanic) nonNegCounter(e ast.Expr) bool {
	id, ok := ast.Unparen(e).(*ast.Ident)
	if !ok || m.fd == nil {
		return false
	}
	v, _ := m.info.Uses[id].(*types.Var)
	if v == nil {
		return false
	}
	inits := 0
	for _, a := range AssignmentsTo(m.info, m.fd.Body, v) {
		if a.Op == token.INC {
			continue
		}
		if a.Rhs != nil && !a.IsRange && a.ResultIx < 0 {
			if k, ok := m.constInt(a.Rhs); ok && k >= 0 {
				inits++
				continue
			}
		}
		return false
	}
	return inits == 1
}

func (m *MayPanic) onlyIncremented(loop *ast.ForStmt, v ast.Expr) bool {
	name := es(v)
	ok := true
	ast.Inspect(loop.Body, func(n ast.Node) bool {
		switch x := n.(type) {
		case *ast.AssignStmt:
			for _, l := range x.Lhs {
				if es(l) == name {
					ok = false
				}
			}
		case *ast.IncDecStmt:
			if es(x.X) == name && x.Tok == token.DEC {
				ok = false
			}
		}
		return true
	})
	return ok
}

func (m *MayPanic) lookupLocal(name string) types.Object {
	if m.fd == nil {
		return nil
	}
	var found types.Object
	ast.Inspect(m.fd, func(n ast.Node) bool {
		if id, ok := n.(*ast.Ident); ok && id.Name == name {
			if o := m.info.Defs[id]; o != nil {
				found = o
			}
		}
		return true
	})
	return found
}

func max(a, b int) int {
	if a > b {
		return a
	}
	return b
}

// killLhs removes facts mentioning the assigned variable (or the whole selector path).
func (m *MayPanic) killLhs(l ast.Expr, f mpFacts) {
	switch x := ast.Unparen(l).(type) {
	case *ast.Ident:
		if x.Name != "_" {
			f.kill(x.Name)
		}
	case *ast.SelectorExpr:
		// facts about exactly this path or extensions of it
		p := es(x)
		for k := range f {
			if strings.Contains(k, p) {
				delete(f, k)
			}
		}
	case *ast.IndexExpr:
		p := es(x.X)
		for k := range f {
			if strings.Contains(k, p+"[") {
				delete(f, k)
			}
		}
	case *ast.StarExpr:
		m.killLhs(x.X, f)
	}
}

func (m *MayPanic) killAssigned(n ast.Node, f mpFacts) {
	ast.Inspect(n, func(nn ast.Node) bool {
		switch x := nn.(type) {
		case *ast.AssignStmt:
			for _, l := range x.Lhs {
				m.killLhs(l, f)
			}
		case *ast.IncDecStmt:
			m.killLhs(x.X, f)
		case *ast.RangeStmt:
			if x.Key != nil {
				m.killLhs(x.Key, f)
			}
			if x.Value != nil {
				m.killLhs(x.Value, f)
			}
		}
		return true
	})
}

// assignFacts records facts established by `l = r`.
func (m *MayPanic) assignFacts(l, r ast.Expr, f mpFacts) {
	ls := es(l)
	if ls == "_" {
		return
	}
	if pl := m.producerLen(r); pl > 0 {
		f["len:"+ls] = pl
	}
	if _, isIdent := ast.Unparen(l).(*ast.Ident); isIdent && !m.maybeNil(r, -1) {
		f["clean:"+ls] = 1
	}
	r = ast.Unparen(r)
	if cl, ok := r.(*ast.CompositeLit); ok {
		if t := m.info.TypeOf(cl); t != nil {
			if _, isSlice := t.Underlying().(*types.Slice); isSlice && len(cl.Elts) > 0 {
				f["exact:"+ls] = len(cl.Elts)
			}
		}
	}
	// alias: l := x copies x's facts
	if id, ok := r.(*ast.Ident); ok {
		for k, v := range f {
			for _, pre := range []string{"len:", "nn:"} {
				if k == pre+id.Name {
					f[pre+ls] = v
				}
			}
		}
	}
	switch x := r.(type) {
	case *ast.UnaryExpr:
		if x.Op == token.AND {
			f["nn:"+ls] = 1
		}
	case *ast.CompositeLit:
		f["nn:"+ls] = 1
	case *ast.CallExpr:
		// regexp results: remember arity for the upgrade rule
		if se, ok := x.Fun.(*ast.SelectorExpr); ok {
			if fn := Callee(m.info, x); fn != nil && fn.Pkg() != nil && fn.Pkg().Path() == "regexp" {
				switch fn.Name() {
				case "FindStringSubmatch", "FindSubmatch":
					if g, ok := m.RxGroupsOf(se.X); ok {
						f["rx:"+ls] = g + 1
					} else {
						f["rx:"+ls] = 1
					}
				case "FindStringIndex", "FindIndex":
					f["rx:"+ls] = 2
				case "FindStringSubmatchIndex":
					if g, ok := m.RxGroupsOf(se.X); ok {
						f["rx:"+ls] = 2 * (g + 1)
					}
				}
			}
		}
		if IsBuiltinCall(m.info, x, "new") {
			f["nn:"+ls] = 1
		}
		if IsBuiltinCall(m.info, x, "make") && len(x.Args) >= 2 {
			if la, ok := m.lenArg(x.Args[1]); ok {
				f["eqlen:"+ls+":"+la] = 1
			}
		}
	}
}

// upgradeRx: a non-empty / non-nil fact on a regexp result upgrades to its full arity.
func upgradeRx(f mpFacts) mpFacts {
	var out mpFacts
	for k, v := range f {
		if !strings.HasPrefix(k, "rx:") {
			continue
		}
		name := strings.TrimPrefix(k, "rx:")
		if f["len:"+name] > 0 || f["nn:"+name] > 0 {
			if f["len:"+name] < v {
				if out == nil {
					out = f.clone()
				}
				out["len:"+name] = v
			}
		}
	}
	if out != nil {
		return out
	}
	return f
}

// Run analyses every function of the package (two rounds so that parameter preconditions
// discovered in round one are checked at call sites in round two).
func (m *MayPanic) Run() {
	const collect = 4 // rounds in which preconditions are collected (they travel one call level per round)
	for round := 0; round <= collect; round++ {
		m.Sites = nil
		if round == collect {
			for fn, ps := range m.Preconds {
				seen := map[string]bool{}
				var out []Precond
				for _, p := range ps {
					k := fmt.Sprint(p.Param, p.Suffix, p.Kind, p.Need)
					if !seen[k] {
						seen[k] = true
						out = append(out, p)
					}
				}
				m.Preconds[fn] = out
			}
			m.frozen = true
		}
		for _, fd := range allFuncs(m.Pkg) {
			m.fd = fd
			m.fn = fd.Name.Name
			if fd.Recv != nil {
				m.fn = recvBase(fd) + "." + fd.Name.Name
			}
			m.loopVars = nil
			// clean:p — the parameter still holds the caller's value, or a value tested non-nil
			entry := mpFacts{}
			for _, fl := range fd.Type.Params.List {
				for _, n := range fl.Names {
					entry["clean:"+n.Name] = 1
				}
			}
			m.block(fd.Body.List, entry)
		}
	}
	sort.SliceStable(m.Sites, func(i, j int) bool { return m.Sites[i].Pos < m.Sites[j].Pos })
}
