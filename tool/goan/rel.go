package goan

// Relational engine for the diff analyser (DESIGN E10): which of the two compared
// specifications does a value come from ("side"), where are differences emitted, and under
// which relational trigger between the two sides.

import (
	"fmt"
	"go/ast"
	"go/token"
	"go/types"
	"sort"
	"strings"

	"golang.org/x/tools/go/packages"
)

type Side int

const (
	SNone Side = iota
	S1
	S2
	SMixed
)

func (s Side) String() string { return [...]string{"-", "1", "2", "M"}[s] }

func joinSide(a, b Side) Side {
	if a == SNone {
		return b
	}
	if b == SNone || a == b {
		return a
	}
	return SMixed
}

type okInfo struct {
	mapSide, keySide Side
}

type diffsInfo struct {
	result   int // index of the DiffsTo result bound to this variable
	recv, to Side
}

// Rel is the relational model of one package.
type Rel struct {
	Pkg      *packages.Package
	info     *types.Info
	objSide  map[types.Object]Side
	okLookup map[types.Object]okInfo
	diffsRes map[types.Object]diffsInfo
	rangeDef map[types.Object]ast.Expr
	neutral  func(t types.Type) bool // receiver types that do not carry a side (the analyser object)
	changed  bool
	Passes   int
	codeType types.Type
	Sites    []*Site
	// orientation of DiffsTo results, derived from the function bodies: index of the result
	// holding "in argument, not in receiver" (added) and "in receiver, not in argument" (deleted)
	DiffsAdded, DiffsDeleted int
}

// NewRel builds the side model. seeds: function name -> sides of its parameters in order.
func NewRel(pk *packages.Package, codeTypeName string, neutralRecv []string, seeds map[string][]Side) (*Rel, error) {
	r := &Rel{Pkg: pk, info: pk.TypesInfo, objSide: map[types.Object]Side{}, okLookup: map[types.Object]okInfo{}, diffsRes: map[types.Object]diffsInfo{}, rangeDef: map[types.Object]ast.Expr{}, DiffsAdded: 0, DiffsDeleted: 1}
	for _, f := range pk.Syntax {
		ast.Inspect(f, func(n ast.Node) bool {
			if rs, ok := n.(*ast.RangeStmt); ok && rs.Tok == token.DEFINE {
				for _, kv := range []ast.Expr{rs.Key, rs.Value} {
					if id, ok := kv.(*ast.Ident); ok && id.Name != "_" {
						if o := pk.TypesInfo.Defs[id]; o != nil {
							r.rangeDef[o] = rs.X
						}
					}
				}
			}
			return true
		})
	}
	r.neutral = func(t types.Type) bool {
		n := NamedName(t)
		for _, x := range neutralRecv {
			if n == x {
				return true
			}
		}
		return false
	}
	tn, _ := pk.Types.Scope().Lookup(codeTypeName).(*types.TypeName)
	if tn == nil {
		return nil, fmt.Errorf("type %s not found", codeTypeName)
	}
	r.codeType = tn.Type()
	nSeeded := 0
	for _, f := range pk.Syntax {
		for _, d := range f.Decls {
			fd, ok := d.(*ast.FuncDecl)
			if !ok {
				continue
			}
			name := fd.Name.Name
			if fd.Recv != nil {
				name = recvBase(fd) + "." + name
			}
			sides, ok := seeds[name]
			if !ok {
				continue
			}
			i := 0
			for _, fl := range fd.Type.Params.List {
				for _, n := range fl.Names {
					if i < len(sides) && sides[i] != SNone {
						r.objSide[r.info.Defs[n]] = sides[i]
						nSeeded++
					}
					i++
				}
			}
		}
	}
	if nSeeded == 0 {
		return nil, fmt.Errorf("no seed parameters found (%v)", seeds)
	}
	for i := 0; i < 30; i++ {
		r.changed = false
		r.inferPass()
		r.Passes = i + 1
		if !r.changed {
			break
		}
	}
	return r, nil
}

func recvBase(fd *ast.FuncDecl) string {
	t := fd.Recv.List[0].Type
	if s, ok := t.(*ast.StarExpr); ok {
		t = s.X
	}
	if id, ok := t.(*ast.Ident); ok {
		return id.Name
	}
	return ""
}

func (r *Rel) setSide(o types.Object, s Side) {
	if o == nil || s == SNone {
		return
	}
	n := joinSide(r.objSide[o], s)
	if n != r.objSide[o] {
		r.objSide[o] = n
		r.changed = true
	}
}

func (r *Rel) ObjSide(o types.Object) Side { return r.objSide[o] }

func (r *Rel) objOf(id *ast.Ident) types.Object {
	if o := r.info.Uses[id]; o != nil {
		return o
	}
	return r.info.Defs[id]
}

// defSide is SideOf, except that an identifier bound by a range statement takes the side of
// the ranged collection at its definition (later reassignments of the variable — e.g.
// `extKey = prefix + extKey` after the lookup — do not count).
func (r *Rel) defSide(e ast.Expr) Side {
	if id, ok := ast.Unparen(e).(*ast.Ident); ok {
		if x, ok := r.rangeDef[r.objOf(id)]; ok {
			if s := r.SideOf(x); s != SNone {
				return s
			}
		}
	}
	return r.SideOf(e)
}

// SideOf computes the side an expression's value derives from.
func (r *Rel) SideOf(e ast.Expr) Side {
	switch x := e.(type) {
	case nil:
		return SNone
	case *ast.Ident:
		if o := r.objOf(x); o != nil {
			return r.objSide[o]
		}
	case *ast.SelectorExpr:
		if sel, ok := r.info.Selections[x]; ok {
			if s := r.objSide[sel.Obj()]; s != SNone {
				return s
			}
			if sel.Kind() == types.MethodVal {
				if r.neutral(sel.Recv()) {
					return SNone
				}
			}
		}
		return r.SideOf(x.X)
	case *ast.IndexExpr:
		if s := r.SideOf(x.X); s != SNone {
			return s
		}
		return r.SideOf(x.Index) // lookup in a side-less table (numberWideness[type1])
	case *ast.StarExpr:
		return r.SideOf(x.X)
	case *ast.ParenExpr:
		return r.SideOf(x.X)
	case *ast.UnaryExpr:
		return r.SideOf(x.X)
	case *ast.BinaryExpr:
		return joinSide(r.SideOf(x.X), r.SideOf(x.Y))
	case *ast.TypeAssertExpr:
		return r.SideOf(x.X)
	case *ast.SliceExpr:
		return r.SideOf(x.X)
	case *ast.KeyValueExpr:
		return r.SideOf(x.Value)
	case *ast.CallExpr:
		s := SNone
		if se, ok := x.Fun.(*ast.SelectorExpr); ok {
			if sel, isSel := r.info.Selections[se]; isSel && !r.neutral(sel.Recv()) {
				s = joinSide(s, r.SideOf(se.X))
			}
		}
		for _, a := range x.Args {
			s = joinSide(s, r.SideOf(a))
		}
		return s
	case *ast.CompositeLit:
		s := SNone
		for _, el := range x.Elts {
			s = joinSide(s, r.SideOf(el))
		}
		return s
	}
	return SNone
}

func (r *Rel) assign(l ast.Expr, s Side) {
	switch x := l.(type) {
	case *ast.Ident:
		if x.Name != "_" {
			r.setSide(r.objOf(x), s)
		}
	case *ast.SelectorExpr:
		if sel, ok := r.info.Selections[x]; ok && r.neutral(sel.Recv()) {
			r.setSide(sel.Obj(), s)
		}
	}
}

func (r *Rel) inferPass() {
	for _, f := range r.Pkg.Syntax {
		ast.Inspect(f, func(n ast.Node) bool {
			switch x := n.(type) {
			case *ast.AssignStmt:
				if len(x.Lhs) == len(x.Rhs) {
					for i, l := range x.Lhs {
						r.assign(l, r.SideOf(x.Rhs[i]))
					}
					return true
				}
				if len(x.Rhs) != 1 {
					return true
				}
				if ix, ok := x.Rhs[0].(*ast.IndexExpr); ok && len(x.Lhs) == 2 {
					if r.SideOf(ix.X) == SNone {
						// package-level table keyed by a sided value: value and ok are one-sided facts
						ks := r.defSide(ix.Index)
						r.assign(x.Lhs[0], ks)
						r.assign(x.Lhs[1], ks)
						return true
					}
					r.assign(x.Lhs[0], r.SideOf(ix.X))
					if id, ok := x.Lhs[1].(*ast.Ident); ok && id.Name != "_" {
						if o := r.objOf(id); o != nil {
							ni := okInfo{r.SideOf(ix.X), r.defSide(ix.Index)}
							if old, seen := r.okLookup[o]; seen && old != ni {
								// an `ok` variable reused for lookups of different orientation
								ni = okInfo{joinSide(old.mapSide, ni.mapSide), joinSide(old.keySide, ni.keySide)}
							}
							if r.okLookup[o] != ni {
								r.okLookup[o] = ni
								r.changed = true
							}
						}
					}
					return true
				}
				if c, ok := x.Rhs[0].(*ast.CallExpr); ok {
					if se, ok := c.Fun.(*ast.SelectorExpr); ok && se.Sel.Name == "DiffsTo" && len(c.Args) == 1 {
						recv, arg := r.SideOf(se.X), r.SideOf(c.Args[0])
						for i, l := range x.Lhs {
							if id, ok := l.(*ast.Ident); ok && id.Name != "_" {
								if o := r.objOf(id); o != nil {
									ni := diffsInfo{i, recv, arg}
									if old, seen := r.diffsRes[o]; seen && old != ni && old.result == i {
										ni = diffsInfo{i, joinSide(old.recv, recv), joinSide(old.to, arg)}
									}
									if r.diffsRes[o] != ni {
										r.diffsRes[o] = ni
										r.changed = true
									}
								}
							}
						}
						return true
					}
				}
				rs := r.SideOf(x.Rhs[0])
				for _, l := range x.Lhs {
					r.assign(l, rs)
				}
			case *ast.FuncDecl:
				// a $ref resolver (func(spec.Ref) (*spec.Schema, string)) belongs to the spec whose
				// definitions it returns: the function object takes the side of its results, so
				// that method values handed over as resolvers carry a side
				if x.Body != nil && x.Type.Results != nil && len(x.Type.Results.List) >= 1 && x.Type.Params != nil && len(x.Type.Params.List) == 1 {
					if pt := r.info.TypeOf(x.Type.Params.List[0].Type); pt != nil && NamedName(pt) == "Ref" {
						fs := SNone
						ast.Inspect(x.Body, func(m ast.Node) bool {
							if _, isLit := m.(*ast.FuncLit); isLit {
								return false
							}
							if rs, ok := m.(*ast.ReturnStmt); ok {
								for _, res := range rs.Results {
									fs = joinSide(fs, r.SideOf(res))
								}
							}
							return true
						})
						r.setSide(r.info.Defs[x.Name], fs)
					}
				}
			case *ast.ValueSpec:
				for i, nm := range x.Names {
					if i < len(x.Values) {
						r.setSide(r.info.Defs[nm], r.SideOf(x.Values[i]))
					}
				}
			case *ast.RangeStmt:
				s := r.SideOf(x.X)
				if id, ok := x.X.(*ast.Ident); ok {
					if _, isDiff := r.diffsRes[r.objOf(id)]; isDiff {
						s = SNone
					}
				}
				if x.Key != nil {
					r.assign(x.Key, s)
				}
				if x.Value != nil {
					r.assign(x.Value, s)
				}
			case *ast.TypeSwitchStmt:
				if as, ok := x.Assign.(*ast.AssignStmt); ok && len(as.Rhs) == 1 {
					if ta, ok := as.Rhs[0].(*ast.TypeAssertExpr); ok {
						s := r.SideOf(ta.X)
						for _, cl := range x.Body.List {
							if o := r.info.Implicits[cl]; o != nil {
								r.setSide(o, s)
							}
						}
					}
				}
			case *ast.CallExpr:
				fn := Callee(r.info, x)
				if fn == nil || fn.Pkg() != r.Pkg.Types {
					return true
				}
				sig := fn.Type().(*types.Signature)
				for i, a := range x.Args {
					if i < sig.Params().Len() {
						r.setSide(sig.Params().At(i), r.SideOf(a))
					}
				}
				if se, ok := x.Fun.(*ast.SelectorExpr); ok && sig.Recv() != nil {
					if t := r.info.TypeOf(se.X); t != nil && !r.neutral(t) {
						r.setSide(sig.Recv(), r.SideOf(se.X))
					}
				}
			}
			return true
		})
	}
}

// ParamSides renders the inferred sides of every function's parameters (evidence).
func (r *Rel) ParamSides() map[string]string {
	out := map[string]string{}
	for _, f := range r.Pkg.Syntax {
		for _, d := range f.Decls {
			fd, ok := d.(*ast.FuncDecl)
			if !ok || fd.Type.Params == nil {
				continue
			}
			var ps []string
			for _, fl := range fd.Type.Params.List {
				for _, n := range fl.Names {
					ps = append(ps, n.Name+":"+r.objSide[r.info.Defs[n]].String())
				}
			}
			name := fd.Name.Name
			if fd.Recv != nil {
				name = recvBase(fd) + "." + name
			}
			out[name] = strings.Join(ps, " ")
		}
	}
	return out
}

// ---------------------------------------------------------------------------------------
// atoms

type AtomKind string

const (
	ANeq      AtomKind = "neq"          // twin values differ
	AEq       AtomKind = "eq"           // twin values equal
	AGt       AtomKind = "gt(2>1)"      // side-2 value greater than side-1 twin
	ALt       AtomKind = "lt(2<1)"      // side-2 value smaller
	AMissing2 AtomKind = "missing-in-2" // key of side 1 absent from side-2 collection
	AMissing1 AtomKind = "missing-in-1" // key of side 2 absent from side-1 collection
	APresent  AtomKind = "present-both" // lookup succeeded
	AUnary    AtomKind = "unary"        // predicate over one side only
	AOther    AtomKind = "other"
)

// Atom is a classified guard literal.
type Atom struct {
	Kind AtomKind
	// for AUnary: which side, the twin-normalised predicate text, and its truth value
	Side Side
	Pred string
	Val  string // "true"/"false" or "nil"/"nonnil"
	Text string
	// Fields mentioned on each side (last selector names), for attribute attribution
	Fields []string
}

// twinKey renders an expression with every sided identifier replaced by a placeholder so
// that `type1.Maximum` and `type2.Maximum` compare equal.
func (r *Rel) twinKey(e ast.Expr) string {
	var b strings.Builder
	ast.Inspect(e, func(n ast.Node) bool {
		switch x := n.(type) {
		case *ast.Ident:
			if o := r.objOf(x); o != nil && (r.objSide[o] == S1 || r.objSide[o] == S2) {
				b.WriteString("§ ")
			} else {
				b.WriteString(x.Name + " ")
			}
		case *ast.BasicLit:
			b.WriteString(x.Value + " ")
		case *ast.SelectorExpr:
			b.WriteString(". ")
		case *ast.CallExpr:
			b.WriteString("call ")
		case *ast.IndexExpr:
			b.WriteString("idx ")
		case *ast.StarExpr:
			b.WriteString("* ")
		case *ast.UnaryExpr:
			b.WriteString(x.Op.String() + " ")
		case *ast.BinaryExpr:
			b.WriteString(x.Op.String() + " ")
		}
		return true
	})
	return b.String()
}

// namesIn lists the attribute names an expression mentions: selector names, callee names,
// package-level variables; local identifiers are followed to their defining expressions
// (one level, any form of assignment).
func (r *Rel) namesIn(e ast.Expr, body ast.Node, depth int) []string {
	var out []string
	seen := map[string]bool{}
	add := func(n string) {
		if !seen[n] {
			seen[n] = true
			out = append(out, n)
		}
	}
	ast.Inspect(e, func(n ast.Node) bool {
		switch x := n.(type) {
		case *ast.SelectorExpr:
			add(x.Sel.Name)
		case *ast.Ident:
			o := r.objOf(x)
			if o == nil {
				return true
			}
			if _, isFn := o.(*types.Func); isFn {
				add(x.Name)
			} else if v, ok := o.(*types.Var); ok {
				if v.Parent() == r.Pkg.Types.Scope() {
					add(x.Name)
				} else if depth < 2 && body != nil && !v.IsField() {
					as := AssignmentsTo(r.info, body, v)
					if len(as) != 1 {
						return true // only single-definition locals are followed
					}
					for _, a := range as {
						if a.Rhs != nil && !a.IsRange {
							for _, nn := range r.namesIn(a.Rhs, body, depth+1) {
								add(nn)
							}
						}
					}
				}
			}
		}
		return true
	})
	return out
}

func negOp(op token.Token) token.Token {
	switch op {
	case token.EQL:
		return token.NEQ
	case token.NEQ:
		return token.EQL
	case token.GTR:
		return token.LEQ
	case token.LSS:
		return token.GEQ
	case token.GEQ:
		return token.LSS
	case token.LEQ:
		return token.GTR
	}
	return op
}

// Classify turns a guard literal into an atom.
func (r *Rel) Classify(l Lit, body ast.Node) Atom {
	txt := l.String()
	mk := func(k AtomKind) Atom { return Atom{Kind: k, Text: txt, Fields: r.namesIn(l.E, body, 0)} }
	if l.NonEmpty {
		if a, ok := ast.Unparen(l.E).(*ast.Ident); ok {
			if dr, ok := r.diffsRes[r.objOf(a)]; ok {
				return r.diffsAtom(dr, txt)
			}
		}
		return mk(AOther)
	}
	if l.Tag != nil {
		// switch tag == case: a one-sided predicate at best
		s := joinSide(r.SideOf(l.Tag), r.SideOf(l.E))
		if s == S1 || s == S2 {
			a := mk(AUnary)
			a.Side, a.Pred = s, r.twinKey(l.Tag)+"=="+r.twinKey(l.E)
			a.Val = fmt.Sprint(l.Pos)
			return a
		}
		return mk(AOther)
	}
	e := ast.Unparen(l.E)
	// positive disjunction: neq if every disjunct is neq
	if be, ok := e.(*ast.BinaryExpr); ok && be.Op == token.LOR && l.Pos {
		var ds []ast.Expr
		var split func(e ast.Expr)
		split = func(e ast.Expr) {
			e = ast.Unparen(e)
			if b, ok := e.(*ast.BinaryExpr); ok && b.Op == token.LOR {
				split(b.X)
				split(b.Y)
				return
			}
			ds = append(ds, e)
		}
		split(e)
		all := true
		for _, d := range ds {
			if r.Classify(Lit{E: d, Pos: true}, body).Kind != ANeq {
				all = false
			}
		}
		if all {
			return mk(ANeq)
		}
		return mk(AOther)
	}
	// negated conjunction ¬(a && b): nothing definite
	if be, ok := e.(*ast.BinaryExpr); ok && be.Op == token.LAND && !l.Pos {
		return mk(AOther)
	}
	switch x := e.(type) {
	case *ast.Ident:
		if o := r.objOf(x); o != nil {
			if lk, ok := r.okLookup[o]; ok && (lk.mapSide == S1 || lk.mapSide == S2) && (lk.keySide == S1 || lk.keySide == S2) && lk.mapSide != lk.keySide {
				if !l.Pos {
					if lk.mapSide == S2 {
						return mk(AMissing2)
					}
					return mk(AMissing1)
				}
				return mk(APresent)
			}
			// boolean local defined from a one-sided or relational expression
			def := ResolveLocal(r.info, body, x)
			if def != ast.Expr(x) {
				return r.Classify(Lit{E: def, Pos: l.Pos}, body)
			}
		}
	case *ast.CallExpr:
		// reflect.DeepEqual(a1, a2)
		if fn := Callee(r.info, x); fn != nil && CalleeName(fn) == "reflect.DeepEqual" && len(x.Args) == 2 {
			sx, sy := r.SideOf(x.Args[0]), r.SideOf(x.Args[1])
			if (sx == S1 && sy == S2) || (sx == S2 && sy == S1) {
				if l.Pos {
					return mk(AEq)
				}
				return mk(ANeq)
			}
		}
	case *ast.BinaryExpr:
		op := x.Op
		if !l.Pos {
			op = negOp(op)
		}
		// len(diffsTo-result) > 0
		if c, ok := ast.Unparen(x.X).(*ast.CallExpr); ok && IsBuiltinCall(r.info, c, "len") && len(c.Args) == 1 {
			if a, ok := c.Args[0].(*ast.Ident); ok {
				if dr, ok := r.diffsRes[r.objOf(a)]; ok && (op == token.GTR || op == token.NEQ) {
					return r.diffsAtom(dr, txt)
				}
			}
		}
		lx, ly := ast.Expr(x.X), ast.Expr(x.Y)
		// follow locals to their definitions when that reveals the sides
		sx, sy := r.SideOf(lx), r.SideOf(ly)
		if sx == SNone {
			lx = ResolveLocal(r.info, body, lx)
			sx = r.SideOf(lx)
		}
		if sy == SNone {
			ly = ResolveLocal(r.info, body, ly)
			sy = r.SideOf(ly)
		}
		if (sx == S1 && sy == S2) || (sx == S2 && sy == S1) {
			twins := r.twinKey(lx) == r.twinKey(ly)
			a := mk(AOther)
			switch op {
			case token.NEQ:
				a.Kind = ANeq
			case token.EQL:
				a.Kind = AEq
			case token.GTR, token.LSS:
				gt := op == token.GTR // X > Y
				if sx == S1 {         // side1 > side2  ==  side2 < side1
					gt = !gt
				}
				if gt {
					a.Kind = AGt
				} else {
					a.Kind = ALt
				}
			}
			if !twins && a.Kind != AOther {
				a.Text += " [operands are not twins]"
			}
			a.Pred = r.twinKey(lx)
			return a
		}
		// one-sided nil / zero test
		if (sx == S1 || sx == S2) && sy == SNone {
			if IsNil(r.info, x.Y) && (op == token.EQL || op == token.NEQ) {
				a := mk(AUnary)
				a.Side, a.Pred = sx, "nil?"+r.twinKey(lx)
				a.Val = map[bool]string{true: "nil", false: "nonnil"}[op == token.EQL]
				return a
			}
		}
	}
	// generic one-sided predicate
	s := r.SideOf(l.E)
	if s == S1 || s == S2 {
		a := mk(AUnary)
		a.Side, a.Pred, a.Val = s, r.twinKey(l.E), fmt.Sprint(l.Pos)
		return a
	}
	return mk(AOther)
}

func (r *Rel) diffsAtom(dr diffsInfo, txt string) Atom {
	if dr.recv == S1 && dr.to == S2 {
		switch dr.result {
		case r.DiffsAdded:
			return Atom{Kind: AMissing1, Text: txt + " [DiffsTo.added]"}
		case r.DiffsDeleted:
			return Atom{Kind: AMissing2, Text: txt + " [DiffsTo.deleted]"}
		}
	}
	if dr.recv == S2 && dr.to == S1 {
		switch dr.result {
		case r.DiffsAdded:
			return Atom{Kind: AMissing2, Text: txt + " [DiffsTo.added, reversed receiver]"}
		case r.DiffsDeleted:
			return Atom{Kind: AMissing1, Text: txt + " [DiffsTo.deleted, reversed receiver]"}
		}
	}
	return Atom{Kind: AOther, Text: txt}
}

// ---------------------------------------------------------------------------------------
// emission sites

// Site is one place where a change code is attached to a reported difference.
type Site struct {
	Fn      *ast.FuncDecl
	FnName  string
	Pos     token.Pos
	Code    string     // constant name, or "" when parametric
	Param   *types.Var // when the code is a parameter of Fn
	Guards  []Lit
	Atoms   []Atom
	Derived []Trig // derived triggers (see Triggers)
	Via     string // "literal" | "assign" | "callarg"
	Inherit bool   // guards were extended with the call sites' common guards
}

func (s *Site) Key() string {
	var as []string
	for _, t := range s.Derived {
		as = append(as, t.Kind)
	}
	sort.Strings(as)
	code := s.Code
	if code == "" && s.Param != nil {
		code = "param:" + s.Param.Name()
	}
	return fmt.Sprintf("%s › %s [%s]", s.FnName, code, strings.Join(as, ","))
}

func (r *Rel) isCodeConst(e ast.Expr) (string, bool) {
	if c := ConstObj(r.info, e); c != nil && types.Identical(c.Type(), r.codeType) {
		return c.Name(), true
	}
	return "", false
}

// CollectSites finds every emission site: composite literals with a Code/Change field,
// and for code-typed locals, each reaching constant assignment. skipFuncs are excluded
// (init tables).
func (r *Rel) CollectSites(codeFields []string, skipFuncs map[string]bool) {
	isCodeField := func(n string) bool {
		for _, f := range codeFields {
			if f == n {
				return true
			}
		}
		return false
	}
	for _, fd := range allFuncs(r.Pkg) {
		name := fd.Name.Name
		if fd.Recv != nil {
			name = recvBase(fd) + "." + name
		}
		if skipFuncs[name] || skipFuncs[fd.Name.Name] {
			continue
		}
		fd := fd
		// guards of every assignment to code-typed locals
		type asg struct {
			code   string
			guards []Lit
			pos    token.Pos
		}
		localAsg := map[types.Object][]asg{}
		WalkGuards(r.info, fd.Body, func(n ast.Node, guards []Lit, _ []ast.Stmt) {
			as, ok := n.(*ast.AssignStmt)
			if !ok || len(as.Lhs) != len(as.Rhs) {
				return
			}
			for i, l := range as.Lhs {
				id, ok := l.(*ast.Ident)
				if !ok {
					continue
				}
				if code, ok := r.isCodeConst(as.Rhs[i]); ok {
					o := r.objOf(id)
					localAsg[o] = append(localAsg[o], asg{code, guards, as.Pos()})
				}
			}
		})
		WalkGuards(r.info, fd.Body, func(n ast.Node, guards []Lit, _ []ast.Stmt) {
			if _, ok := n.(ast.Stmt); !ok {
				return
			}
			if _, ok := n.(*ast.RangeStmt); ok {
				return
			}
			ast.Inspect(n, func(m ast.Node) bool {
				if _, ok := m.(*ast.FuncLit); ok {
					return false
				}
				cl, ok := m.(*ast.CompositeLit)
				if !ok {
					return true
				}
				for _, el := range cl.Elts {
					kv, ok := el.(*ast.KeyValueExpr)
					if !ok {
						continue
					}
					k, ok := kv.Key.(*ast.Ident)
					if !ok || !isCodeField(k.Name) {
						continue
					}
					if t := r.info.TypeOf(kv.Value); t == nil || !types.Identical(t, r.codeType) {
						continue
					}
					if code, ok := r.isCodeConst(kv.Value); ok {
						r.Sites = append(r.Sites, &Site{Fn: fd, FnName: name, Pos: kv.Value.Pos(), Code: code, Guards: guards, Via: "literal"})
						continue
					}
					id, ok := ast.Unparen(kv.Value).(*ast.Ident)
					if !ok {
						// e.g. diff.Change: a forwarded code, not a primary site
						continue
					}
					o := r.objOf(id)
					if v, ok := o.(*types.Var); ok && isParamOf(r.info, fd, v) {
						r.Sites = append(r.Sites, &Site{Fn: fd, FnName: name, Pos: kv.Value.Pos(), Param: v, Guards: guards, Via: "literal"})
						continue
					}
					asgs := localAsg[o]
					for i, a := range asgs {
						g := cp(guards)
						// literals of the assignment that are not already guards of the emission
						for _, l := range a.guards {
							if !hasLit(g, l) {
								g = append(g, l)
							}
						}
						// a later conditional overwrite did not happen: add the negation when the
						// overwrite has exactly one extra literal
						for _, later := range asgs[i+1:] {
							var extra []Lit
							for _, l := range later.guards {
								if !hasLit(a.guards, l) && !hasLit(guards, l) {
									extra = append(extra, l)
								}
							}
							if len(extra) == 1 && extra[0].Tag == nil {
								var neg []Lit
								Flatten(extra[0].E, !extra[0].Pos, &neg)
								g = append(g, neg...)
							}
						}
						r.Sites = append(r.Sites, &Site{Fn: fd, FnName: name, Pos: a.pos, Code: a.code, Guards: g, Via: "assign"})
					}
				}
				return true
			})
		})
	}
	sort.SliceStable(r.Sites, func(i, j int) bool { return r.Sites[i].Pos < r.Sites[j].Pos })
	for _, s := range r.Sites {
		r.classifySite(s)
	}
}

func hasLit(ls []Lit, l Lit) bool {
	for _, x := range ls {
		if x.E == l.E && x.Pos == l.Pos && x.Tag == l.Tag {
			return true
		}
	}
	return false
}

func isParamOf(info *types.Info, fd *ast.FuncDecl, v *types.Var) bool {
	for _, fl := range fd.Type.Params.List {
		for _, n := range fl.Names {
			if info.Defs[n] == v {
				return true
			}
		}
	}
	return false
}

func allFuncs(pk *packages.Package) []*ast.FuncDecl {
	var out []*ast.FuncDecl
	for _, f := range pk.Syntax {
		for _, d := range f.Decls {
			if fd, ok := d.(*ast.FuncDecl); ok && fd.Body != nil {
				out = append(out, fd)
			}
		}
	}
	return out
}

// propagate adds literals derivable by unit propagation: ¬(A ∧ B), A ⊢ ¬B.
func propagate(gs []Lit) []Lit {
	out := cp(gs)
	for _, g := range gs {
		be, ok := ast.Unparen(g.E).(*ast.BinaryExpr)
		if !ok || g.Pos || be.Op != token.LAND || g.Tag != nil || g.NonEmpty {
			continue
		}
		var conj []Lit
		Flatten(be, true, &conj)
		var unknown []Lit
		for _, c := range conj {
			held := false
			for _, h := range gs {
				if h.Tag == nil && !h.NonEmpty && h.Pos == c.Pos && types.ExprString(h.E) == types.ExprString(c.E) {
					held = true
				}
			}
			if !held {
				unknown = append(unknown, c)
			}
		}
		if len(unknown) == 1 {
			Flatten(unknown[0].E, !unknown[0].Pos, &out)
		}
	}
	return out
}

func (r *Rel) classifySite(s *Site) {
	s.Atoms = nil
	s.Guards = propagate(s.Guards)
	for _, g := range s.Guards {
		s.Atoms = append(s.Atoms, r.Classify(g, s.Fn.Body))
	}
	// a range over a DiffsTo result is a non-emptiness test of that result
	s.Derived = Triggers(s.Atoms)
}

// Triggers derives the relational triggers a conjunction of atoms establishes.
// Unary predicates over twins with opposite truth values combine into directed triggers:
// "true1-false2", "false1-true2", "nonnil1-nil2", "nil1-nonnil2".
// Trig is a derived relational trigger with the attribute names (fields, callees, tables)
// mentioned by the literals it was derived from.
type Trig struct {
	Kind  string
	Names []string
}

func (t Trig) String() string { return t.Kind }

// Has reports whether the trigger mentions the attribute name.
func (t Trig) Has(name string) bool {
	for _, n := range t.Names {
		if n == name {
			return true
		}
	}
	return false
}

// HasTrig reports whether a trigger of the given kind is present.
func HasTrig(ts []Trig, kinds ...string) bool {
	for _, t := range ts {
		for _, k := range kinds {
			if t.Kind == k {
				return true
			}
		}
	}
	return false
}

func Triggers(atoms []Atom) []Trig {
	set := map[string]bool{}
	names := map[string][]string{}
	addNames := func(k string, ns []string) {
		for _, n := range ns {
			dup := false
			for _, o := range names[k] {
				if o == n {
					dup = true
				}
			}
			if !dup {
				names[k] = append(names[k], n)
			}
		}
	}
	predNames := map[string][]string{}
	type uv struct{ v1, v2 string }
	un := map[string]*uv{}
	hasNeqPred := map[string]bool{}
	for _, a := range atoms {
		switch a.Kind {
		case ANeq, AGt, ALt, AMissing1, AMissing2:
			set[string(a.Kind)] = true
			addNames(string(a.Kind), a.Fields)
			if a.Kind == ANeq && a.Pred != "" {
				hasNeqPred[a.Pred] = true
			}
		case AEq, APresent:
			set[string(a.Kind)] = true
			addNames(string(a.Kind), a.Fields)
		case AUnary:
			predNames[a.Pred] = append(predNames[a.Pred], a.Fields...)
			u := un[a.Pred]
			if u == nil {
				u = &uv{}
				un[a.Pred] = u
			}
			if a.Side == S1 {
				u.v1 = a.Val
			} else {
				u.v2 = a.Val
			}
		}
	}
	opp := map[string]string{"true": "false", "false": "true", "nil": "nonnil", "nonnil": "nil"}
	for pred, u := range un {
		// p1 != p2 on pointer twins and p1 == nil gives p2 != nil
		if strings.HasPrefix(pred, "nil?") && hasNeqPred[strings.TrimPrefix(pred, "nil?")] {
			if u.v1 == "nil" && u.v2 == "" {
				u.v2 = "nonnil"
			} else if u.v2 == "nil" && u.v1 == "" {
				u.v1 = "nonnil"
			}
		}
		// x1 != x2 on boolean twins with one side known fixes the other
		if hasNeqPred[pred] {
			if u.v1 != "" && u.v2 == "" && (u.v1 == "true" || u.v1 == "false") {
				u.v2 = opp[u.v1]
			} else if u.v2 != "" && u.v1 == "" && (u.v2 == "true" || u.v2 == "false") {
				u.v1 = opp[u.v2]
			}
		}
		k := ""
		if u.v1 != "" && u.v2 != "" && u.v1 != u.v2 {
			k = u.v1 + "1-" + u.v2 + "2"
		} else if u.v1 != "" && u.v2 == "" {
			k = "only1:" + u.v1
		} else if u.v2 != "" && u.v1 == "" {
			k = "only2:" + u.v2
		} else if u.v1 != "" && u.v1 == u.v2 {
			k = "both:" + u.v1
		}
		if k != "" {
			set[k] = true
			addNames(k, predNames[pred])
		}
	}
	var out []Trig
	for k := range set {
		out = append(out, Trig{Kind: k, Names: names[k]})
	}
	sort.Slice(out, func(i, j int) bool { return out[i].Kind < out[j].Kind })
	return out
}

// CallSites returns the calls to fn within the package with their guards.
type CallSite struct {
	Fn     *ast.FuncDecl
	FnName string
	Call   *ast.CallExpr
	Guards []Lit
	Atoms  []Atom
}

func (r *Rel) CallSitesOf(callee *types.Func) []CallSite {
	var out []CallSite
	for _, fd := range allFuncs(r.Pkg) {
		fd := fd
		name := fd.Name.Name
		if fd.Recv != nil {
			name = recvBase(fd) + "." + name
		}
		WalkGuards(r.info, fd.Body, func(n ast.Node, guards []Lit, _ []ast.Stmt) {
			if rs, ok := n.(*ast.RangeStmt); ok {
				n = rs.X
			}
			ast.Inspect(n, func(m ast.Node) bool {
				if _, ok := m.(*ast.FuncLit); ok {
					return false
				}
				c, ok := m.(*ast.CallExpr)
				if !ok {
					return true
				}
				if Callee(r.info, c) == callee {
					cs := CallSite{Fn: fd, FnName: name, Call: c, Guards: guards}
					for _, g := range guards {
						cs.Atoms = append(cs.Atoms, r.Classify(g, fd.Body))
					}
					out = append(out, cs)
				}
				return true
			})
		})
	}
	return out
}

// FuncObj returns the types.Func of a declaration.
func (r *Rel) FuncObj(fd *ast.FuncDecl) *types.Func {
	f, _ := r.info.Defs[fd.Name].(*types.Func)
	return f
}

// Info exposes the type info.
func (r *Rel) Info() *types.Info { return r.info }

// Reclassify recomputes every site's atoms (after DiffsAdded/DiffsDeleted were derived).
func (r *Rel) Reclassify() {
	for _, s := range r.Sites {
		r.classifySite(s)
	}
}

// TwinKeyResolved renders an expression with sided identifiers replaced by a placeholder,
// after following single-definition locals, and with a trailing 1/2 of unsided names
// (getRefFn1/getRefFn2) dropped.
func (r *Rel) TwinKeyResolved(e ast.Expr, body ast.Node) string {
	e = ResolveLocal(r.info, body, e)
	k := r.twinKey(e)
	var parts []string
	for _, p := range strings.Fields(k) {
		if len(p) > 1 && (strings.HasSuffix(p, "1") || strings.HasSuffix(p, "2")) {
			p = p[:len(p)-1]
		}
		parts = append(parts, p)
	}
	return strings.Join(parts, " ")
}
