// Package goan holds the Go-side analysis engines (tables, def-use, dominance, order taint,
// may-panic guards, relational classification) used by the property checks.
package goan

import (
	"go/ast"
	"go/constant"
	"go/token"
	"go/types"
	"strings"

	"golang.org/x/tools/go/packages"
)

// Row is one key/value element of a composite literal.
type Row struct {
	Key, Val ast.Expr
}

// Rows returns the key/value rows of a composite literal (nil when e is not one).
func Rows(e ast.Expr) []Row {
	cl, ok := ast.Unparen(e).(*ast.CompositeLit)
	if !ok {
		return nil
	}
	var out []Row
	for _, el := range cl.Elts {
		if kv, ok := el.(*ast.KeyValueExpr); ok {
			out = append(out, Row{kv.Key, kv.Value})
		}
	}
	return out
}

// ConstObj resolves an expression to the package-level constant it names (nil otherwise).
func ConstObj(info *types.Info, e ast.Expr) *types.Const {
	switch x := ast.Unparen(e).(type) {
	case *ast.Ident:
		c, _ := info.Uses[x].(*types.Const)
		return c
	case *ast.SelectorExpr:
		c, _ := info.Uses[x.Sel].(*types.Const)
		return c
	}
	return nil
}

// ConstVal returns the constant value of an expression, if the type checker folded one.
func ConstVal(info *types.Info, e ast.Expr) constant.Value {
	if tv, ok := info.Types[e]; ok && tv.Value != nil {
		return tv.Value
	}
	return nil
}

// StringVal returns the constant string value of e.
func StringVal(info *types.Info, e ast.Expr) (string, bool) {
	v := ConstVal(info, e)
	if v == nil || v.Kind() != constant.String {
		return "", false
	}
	return constant.StringVal(v), true
}

// FindCompositeAssign finds, anywhere in the package, the composite literal assigned to the
// package-level variable or to the selector path given ("compatibility" or
// "compatibility.ForRequest" style: variable then field names of nested literals).
func FindCompositeAssign(pk *packages.Package, varName string) *ast.CompositeLit {
	var found *ast.CompositeLit
	for _, f := range pk.Syntax {
		ast.Inspect(f, func(n ast.Node) bool {
			switch x := n.(type) {
			case *ast.AssignStmt:
				for i, l := range x.Lhs {
					if id, ok := l.(*ast.Ident); ok && id.Name == varName && i < len(x.Rhs) {
						if obj := pk.TypesInfo.Uses[id]; obj != nil && obj.Parent() == pk.Types.Scope() {
							if cl, ok := ast.Unparen(x.Rhs[i]).(*ast.CompositeLit); ok {
								found = cl
							}
						}
					}
				}
			case *ast.ValueSpec:
				for i, nm := range x.Names {
					if nm.Name == varName && i < len(x.Values) {
						if obj := pk.TypesInfo.Defs[nm]; obj != nil && obj.Parent() == pk.Types.Scope() {
							if cl, ok := ast.Unparen(x.Values[i]).(*ast.CompositeLit); ok {
								found = cl
							}
						}
					}
				}
			}
			return true
		})
	}
	return found
}

// Field returns the value of the named field in a struct composite literal.
func Field(cl *ast.CompositeLit, name string) ast.Expr {
	if cl == nil {
		return nil
	}
	for _, el := range cl.Elts {
		if kv, ok := el.(*ast.KeyValueExpr); ok {
			if id, ok := kv.Key.(*ast.Ident); ok && id.Name == name {
				return kv.Value
			}
		}
	}
	return nil
}

// ExprString renders an expression compactly (types.ExprString elides literals' bodies only).
func ExprString(e ast.Expr) string { return types.ExprString(e) }

// IsIdent reports whether e is the identifier name.
func IsIdent(e ast.Expr, name string) bool {
	id, ok := ast.Unparen(e).(*ast.Ident)
	return ok && id.Name == name
}

// SelectorPath renders a.b.c selector chains ("" when e is not a pure chain).
func SelectorPath(e ast.Expr) string {
	switch x := ast.Unparen(e).(type) {
	case *ast.Ident:
		return x.Name
	case *ast.SelectorExpr:
		p := SelectorPath(x.X)
		if p == "" {
			return ""
		}
		return p + "." + x.Sel.Name
	case *ast.StarExpr:
		return SelectorPath(x.X)
	}
	return ""
}

// LastSel returns the final selector name of a chain (or the ident's name).
func LastSel(e ast.Expr) string {
	p := SelectorPath(e)
	if i := strings.LastIndexByte(p, '.'); i >= 0 {
		return p[i+1:]
	}
	return p
}

// StructTagJSON returns the json name and options of a struct field tag.
func StructTagJSON(tag string) (name string, opts []string, has bool) {
	const k = `json:"`
	i := strings.Index(tag, k)
	if i < 0 {
		return "", nil, false
	}
	rest := tag[i+len(k):]
	j := strings.IndexByte(rest, '"')
	if j < 0 {
		return "", nil, false
	}
	parts := strings.Split(rest[:j], ",")
	return parts[0], parts[1:], true
}

var _ = token.NoPos
