package goan

import (
	"go/ast"
	"go/token"
	"go/types"

	"golang.org/x/tools/go/types/typeutil"
)

// Assignments returns every expression assigned to obj inside body (definitions, plain
// assignments, one result of a multi-value call is reported as the call itself with the
// result index). Range keys/values are reported with the ranged expression and IsRange.
type Assign struct {
	Rhs      ast.Expr
	ResultIx int // index into a multi-value rhs, -1 for 1:1
	IsRange  bool
	RangeKey bool
	Stmt     ast.Stmt
	Op       token.Token
}

func AssignmentsTo(info *types.Info, body ast.Node, obj types.Object) []Assign {
	var out []Assign
	ast.Inspect(body, func(n ast.Node) bool {
		switch x := n.(type) {
		case *ast.AssignStmt:
			for i, l := range x.Lhs {
				id, ok := l.(*ast.Ident)
				if !ok {
					continue
				}
				o := info.Defs[id]
				if o == nil {
					o = info.Uses[id]
				}
				if o != obj {
					continue
				}
				if len(x.Lhs) == len(x.Rhs) {
					out = append(out, Assign{Rhs: x.Rhs[i], ResultIx: -1, Stmt: x, Op: x.Tok})
				} else if len(x.Rhs) == 1 {
					out = append(out, Assign{Rhs: x.Rhs[0], ResultIx: i, Stmt: x, Op: x.Tok})
				}
			}
		case *ast.ValueSpec:
			for i, nm := range x.Names {
				if info.Defs[nm] != obj {
					continue
				}
				if len(x.Values) == len(x.Names) {
					out = append(out, Assign{Rhs: x.Values[i], ResultIx: -1})
				} else if len(x.Values) == 1 {
					out = append(out, Assign{Rhs: x.Values[0], ResultIx: i})
				} else {
					out = append(out, Assign{Rhs: nil, ResultIx: -1}) // zero value
				}
			}
		case *ast.RangeStmt:
			if id, ok := x.Key.(*ast.Ident); ok && (info.Defs[id] == obj || info.Uses[id] == obj) {
				out = append(out, Assign{Rhs: x.X, IsRange: true, RangeKey: true, Stmt: x, ResultIx: -1})
			}
			if id, ok := x.Value.(*ast.Ident); ok && (info.Defs[id] == obj || info.Uses[id] == obj) {
				out = append(out, Assign{Rhs: x.X, IsRange: true, Stmt: x, ResultIx: -1})
			}
		case *ast.IncDecStmt:
			if id, ok := x.X.(*ast.Ident); ok && info.Uses[id] == obj {
				out = append(out, Assign{Rhs: x.X, ResultIx: -1, Stmt: x, Op: x.Tok})
			}
		}
		return true
	})
	return out
}

// ResolveLocal follows a local identifier to its unique defining expression (1:1
// assignment, not a range variable, not reassigned). Returns e itself otherwise.
func ResolveLocal(info *types.Info, body ast.Node, e ast.Expr) ast.Expr {
	for i := 0; i < 6; i++ {
		id, ok := ast.Unparen(e).(*ast.Ident)
		if !ok {
			return e
		}
		obj, _ := info.Uses[id].(*types.Var)
		if obj == nil || obj.IsField() {
			return e
		}
		as := AssignmentsTo(info, body, obj)
		if len(as) != 1 || as[0].IsRange || as[0].ResultIx >= 0 || as[0].Rhs == nil {
			return e
		}
		e = as[0].Rhs
	}
	return e
}

// Callee resolves the static callee of a call (nil for dynamic calls / builtins).
func Callee(info *types.Info, c *ast.CallExpr) *types.Func {
	fn, _ := typeutil.Callee(info, c).(*types.Func)
	return fn
}

// CalleeName renders pkgpath.Func or pkgpath.(Recv).Method for a resolved callee.
func CalleeName(fn *types.Func) string {
	if fn == nil {
		return ""
	}
	sig, _ := fn.Type().(*types.Signature)
	if sig != nil && sig.Recv() != nil {
		t := sig.Recv().Type()
		if p, ok := t.(*types.Pointer); ok {
			t = p.Elem()
		}
		if n, ok := t.(*types.Named); ok {
			pk := ""
			if n.Obj().Pkg() != nil {
				pk = n.Obj().Pkg().Path() + "."
			}
			return pk + n.Obj().Name() + "." + fn.Name()
		}
		return fn.Name()
	}
	if fn.Pkg() != nil {
		return fn.Pkg().Path() + "." + fn.Name()
	}
	return fn.Name()
}

// IsBuiltinCall reports whether c calls the named builtin.
func IsBuiltinCall(info *types.Info, c *ast.CallExpr, name string) bool {
	id, ok := ast.Unparen(c.Fun).(*ast.Ident)
	if !ok || id.Name != name {
		return false
	}
	_, ok = info.Uses[id].(*types.Builtin)
	return ok
}

// IsNil reports whether e is the predeclared nil.
func IsNil(info *types.Info, e ast.Expr) bool {
	id, ok := ast.Unparen(e).(*ast.Ident)
	if !ok || id.Name != "nil" {
		return false
	}
	_, ok = info.Uses[id].(*types.Nil)
	return ok
}

// Mentions reports whether expression e mentions obj (as a use).
func Mentions(info *types.Info, e ast.Node, obj types.Object) bool {
	found := false
	ast.Inspect(e, func(n ast.Node) bool {
		if id, ok := n.(*ast.Ident); ok && (info.Uses[id] == obj || info.Defs[id] == obj) {
			found = true
		}
		return !found
	})
	return found
}

// MentionsField reports whether e contains a selector of a field with this name whose
// receiver type's name is recvType ("" = any).
func MentionsField(info *types.Info, e ast.Node, recvType, field string) bool {
	found := false
	ast.Inspect(e, func(n ast.Node) bool {
		se, ok := n.(*ast.SelectorExpr)
		if !ok || se.Sel.Name != field {
			return !found
		}
		if sel, ok := info.Selections[se]; ok {
			if recvType == "" || NamedName(sel.Recv()) == recvType {
				found = true
			}
		}
		return !found
	})
	return found
}

// NamedName returns the name of the (pointer to) named type t, "" otherwise.
func NamedName(t types.Type) string {
	if t == nil {
		return ""
	}
	if p, ok := t.Underlying().(*types.Pointer); ok {
		t = p.Elem()
	}
	if p, ok := t.(*types.Pointer); ok {
		t = p.Elem()
	}
	if a, ok := t.(*types.Alias); ok {
		t = types.Unalias(a)
	}
	if n, ok := t.(*types.Named); ok {
		return n.Obj().Name()
	}
	return ""
}

// NamedPath returns pkgpath.Name of the (pointer to) named type t.
func NamedPath(t types.Type) string {
	if t == nil {
		return ""
	}
	if p, ok := t.(*types.Pointer); ok {
		t = p.Elem()
	}
	t = types.Unalias(t)
	if n, ok := t.(*types.Named); ok {
		if n.Obj().Pkg() != nil {
			return n.Obj().Pkg().Path() + "." + n.Obj().Name()
		}
		return n.Obj().Name()
	}
	return ""
}
