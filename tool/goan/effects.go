package goan

// Effects and who-may-call rules (DESIGN E8) on the typed AST: ambient (non-input) value
// sources, stores to package-level state, file-system mutators.

import (
	"go/ast"
	"go/token"
	"go/types"
	"sort"
	"strings"

	"golang.org/x/tools/go/packages"
)

// CallSiteRef is a call found by FindCalls.
type CallSiteRef struct {
	Pkg    *packages.Package
	Fn     *ast.FuncDecl // nil at package level (var initialisers)
	FnName string
	Call   *ast.CallExpr
	Callee string // pkgpath.Name or pkgpath.Type.Method
}

// FindCalls lists every static call whose callee name satisfies match.
func FindCalls(pkgs []*packages.Package, match func(callee string) bool) []CallSiteRef {
	var out []CallSiteRef
	for _, p := range pkgs {
		info := p.TypesInfo
		for _, f := range p.Syntax {
			var cur *ast.FuncDecl
			ast.Inspect(f, func(n ast.Node) bool {
				switch x := n.(type) {
				case *ast.FuncDecl:
					cur = x
				case *ast.CallExpr:
					fn := Callee(info, x)
					if fn == nil {
						return true
					}
					name := CalleeName(fn)
					if match(name) {
						fnName := "(package level)"
						var fd *ast.FuncDecl
						if cur != nil && x.Pos() >= cur.Pos() && x.End() <= cur.End() {
							fd = cur
							fnName = cur.Name.Name
							if cur.Recv != nil {
								fnName = recvBase(cur) + "." + fnName
							}
						}
						out = append(out, CallSiteRef{p, fd, fnName, x, name})
					}
				}
				return true
			})
		}
	}
	sort.SliceStable(out, func(i, j int) bool { return out[i].Call.Pos() < out[j].Call.Pos() })
	return out
}

// GlobalStore is an assignment whose target is (rooted in) a package-level variable.
type GlobalStore struct {
	Pkg    *packages.Package
	Fn     *ast.FuncDecl
	FnName string
	Var    *types.Var
	Target string
	Pos    token.Pos
	Kind   string // assign | index-store | method-call
}

// FindGlobalStores lists stores to package-level variables (of any package) made inside
// function bodies: direct assignment, element store into a global map/slice, field store.
func FindGlobalStores(pkgs []*packages.Package) []GlobalStore {
	var out []GlobalStore
	for _, p := range pkgs {
		info := p.TypesInfo
		for _, fd := range allFuncs(p) {
			name := fd.Name.Name
			if fd.Recv != nil {
				name = recvBase(fd) + "." + name
			}
			record := func(l ast.Expr, pos token.Pos) {
				root, kind := globalRoot(info, l)
				if root == nil {
					return
				}
				out = append(out, GlobalStore{p, fd, name, root, types.ExprString(l), pos, kind})
			}
			ast.Inspect(fd.Body, func(n ast.Node) bool {
				switch x := n.(type) {
				case *ast.AssignStmt:
					if x.Tok == token.DEFINE {
						return true
					}
					for _, l := range x.Lhs {
						record(l, x.Pos())
					}
				case *ast.IncDecStmt:
					record(x.X, x.Pos())
				case *ast.CallExpr:
					// delete(global, k)
					if IsBuiltinCall(info, x, "delete") && len(x.Args) == 2 {
						record(x.Args[0], x.Pos())
					}
					// storing methods of the synchronised containers (a sync.Map is safe to share, and
					// shared it is: what one run stores the next one finds)
					if se, ok := ast.Unparen(x.Fun).(*ast.SelectorExpr); ok {
						if fn := Callee(info, x); fn != nil && fn.Pkg() != nil && (fn.Pkg().Path() == "sync" || fn.Pkg().Path() == "sync/atomic") {
							switch fn.Name() {
							case "Store", "LoadOrStore", "LoadAndDelete", "Delete", "Swap", "CompareAndSwap", "CompareAndDelete", "Add", "Clear":
								if root, _ := globalRoot(info, se.X); root != nil {
									out = append(out, GlobalStore{p, fd, name, root, types.ExprString(se.X), x.Pos(), "method " + fn.Name()})
								}
							}
						}
					}
				}
				return true
			})
		}
	}
	sort.SliceStable(out, func(i, j int) bool { return out[i].Pos < out[j].Pos })
	return out
}

func globalRoot(info *types.Info, e ast.Expr) (*types.Var, string) {
	kind := "assign"
	for {
		switch x := ast.Unparen(e).(type) {
		case *ast.Ident:
			v, _ := objOf(info, x).(*types.Var)
			if v != nil && v.Pkg() != nil && v.Parent() == v.Pkg().Scope() {
				return v, kind
			}
			return nil, ""
		case *ast.SelectorExpr:
			if _, isSel := info.Selections[x]; isSel {
				e = x.X
				kind = "field-store"
				continue
			}
			// pkg.Var
			v, _ := info.Uses[x.Sel].(*types.Var)
			if v != nil && v.Pkg() != nil && v.Parent() == v.Pkg().Scope() {
				return v, kind
			}
			return nil, ""
		case *ast.IndexExpr:
			e = x.X
			kind = "index-store"
		case *ast.StarExpr:
			e = x.X
		default:
			return nil, ""
		}
	}
}

// InitOnly computes the set of functions that can only run during package initialisation:
// `init` itself and unexported functions all of whose static call sites are inside the set
// (function values referenced elsewhere disqualify).
func InitOnly(pkgs []*packages.Package) map[*types.Func]bool {
	type fnInfo struct {
		obj     *types.Func
		callers map[*types.Func]bool
		refd    bool // referenced as a value / called from a package-level initialiser
		pkgInit bool // called from a package-level var initialiser
	}
	infos := map[*types.Func]*fnInfo{}
	for _, p := range pkgs {
		for _, fd := range allFuncs(p) {
			if o, ok := p.TypesInfo.Defs[fd.Name].(*types.Func); ok {
				infos[o] = &fnInfo{obj: o, callers: map[*types.Func]bool{}}
			}
		}
	}
	for _, p := range pkgs {
		info := p.TypesInfo
		for _, f := range p.Syntax {
			for _, d := range f.Decls {
				var caller *types.Func
				if fd, ok := d.(*ast.FuncDecl); ok {
					caller, _ = info.Defs[fd.Name].(*types.Func)
				}
				calledIdents := map[*ast.Ident]bool{}
				ast.Inspect(d, func(n ast.Node) bool {
					if c, ok := n.(*ast.CallExpr); ok {
						switch fx := ast.Unparen(c.Fun).(type) {
						case *ast.Ident:
							calledIdents[fx] = true
						case *ast.SelectorExpr:
							calledIdents[fx.Sel] = true
						}
						if fn := Callee(info, c); fn != nil {
							if fi := infos[fn]; fi != nil {
								if caller != nil {
									fi.callers[caller] = true
								} else {
									fi.pkgInit = true
								}
							}
						}
					}
					return true
				})
				ast.Inspect(d, func(n ast.Node) bool {
					if id, ok := n.(*ast.Ident); ok && !calledIdents[id] {
						if fn, ok := info.Uses[id].(*types.Func); ok {
							if fi := infos[fn]; fi != nil {
								fi.refd = true
							}
						}
					}
					return true
				})
			}
		}
	}
	set := map[*types.Func]bool{}
	for o := range infos {
		if o.Name() == "init" && o.Type().(*types.Signature).Recv() == nil {
			set[o] = true
		}
	}
	for changed := true; changed; {
		changed = false
		for o, fi := range infos {
			if set[o] || o.Exported() || fi.refd {
				continue
			}
			if sig := o.Type().(*types.Signature); sig.Recv() != nil {
				// methods: exported receiver types may be used by clients; keep to unexported methods
				if o.Exported() {
					continue
				}
			}
			if len(fi.callers) == 0 && !fi.pkgInit {
				continue
			}
			all := true
			for c := range fi.callers {
				if !set[c] {
					all = false
				}
			}
			if all {
				set[o] = true
				changed = true
			}
		}
	}
	return set
}

// HeldMutex reports whether pos in fd is between a <x>.Lock() call statement and the
// matching Unlock (or a deferred Unlock) on the same receiver expression.
func HeldMutex(info *types.Info, fd *ast.FuncDecl, pos token.Pos) bool {
	type lk struct {
		recv     string
		lock     token.Pos
		unlock   token.Pos
		deferred bool
	}
	var locks []*lk
	ast.Inspect(fd.Body, func(n ast.Node) bool {
		var call *ast.CallExpr
		deferred := false
		switch x := n.(type) {
		case *ast.ExprStmt:
			call, _ = x.X.(*ast.CallExpr)
		case *ast.DeferStmt:
			call, deferred = x.Call, true
		}
		if call == nil {
			return true
		}
		se, ok := call.Fun.(*ast.SelectorExpr)
		if !ok {
			return true
		}
		fn := Callee(info, call)
		if fn == nil || fn.Pkg() == nil || fn.Pkg().Path() != "sync" {
			return true
		}
		recv := types.ExprString(se.X)
		switch fn.Name() {
		case "Lock", "RLock":
			locks = append(locks, &lk{recv: recv, lock: call.Pos()})
		case "Unlock", "RUnlock":
			for i := len(locks) - 1; i >= 0; i-- {
				if locks[i].recv == recv && locks[i].unlock == 0 {
					if deferred {
						locks[i].deferred = true
						locks[i].unlock = fd.Body.End()
					} else {
						locks[i].unlock = call.Pos()
					}
					break
				}
			}
		}
		return true
	})
	for _, l := range locks {
		if l.unlock == 0 {
			continue
		}
		if pos > l.lock && pos < l.unlock {
			return true
		}
	}
	return false
}

// IsAmbientSource reports callee names that yield values not determined by the inputs.
func IsAmbientSource(callee string) bool {
	switch callee {
	case "time.Now", "time.Since", "time.Until", "os.Getpid", "os.Getppid", "os.Hostname", "os.Environ", "os.Getuid", "os.Getwd", "os.TempDir":
		// os.TempDir: a fixed path under the shared temporary directory is state shared with every
		// concurrent or earlier run (os.MkdirTemp / os.CreateTemp give a fresh name and are fine)
		return callee != "os.Getwd" // the working directory is an input of path resolution
	}
	return strings.HasPrefix(callee, "math/rand.") || strings.HasPrefix(callee, "math/rand/v2.") || strings.HasPrefix(callee, "crypto/rand.")
}
