// Package patch applies a unified diff (git format) to file contents in memory. It is used
// by the thorough tier to analyse a mutated copy of /repo through overlays, without touching
// the working tree.
package patch

import (
	"fmt"
	"os"
	"path/filepath"
	"regexp"
	"strconv"
	"strings"
)

type hunk struct {
	oldStart int
	old, new []string
}

type filePatch struct {
	path  string
	hunks []hunk
}

var hunkRx = regexp.MustCompile(`^@@ -(\d+)(?:,(\d+))? \+(\d+)(?:,(\d+))? @@`)

func parse(diff string) ([]filePatch, error) {
	var out []filePatch
	var cur *filePatch
	var h *hunk
	lines := strings.Split(diff, "\n")
	for i := 0; i < len(lines); i++ {
		l := lines[i]
		switch {
		case strings.HasPrefix(l, "diff --git "):
			h = nil
			cur = nil
		case strings.HasPrefix(l, "+++ "):
			p := strings.TrimPrefix(l, "+++ ")
			p = strings.TrimPrefix(p, "b/")
			if i := strings.IndexByte(p, '\t'); i >= 0 {
				p = p[:i]
			}
			if p == "/dev/null" {
				return nil, fmt.Errorf("file deletion is not supported")
			}
			out = append(out, filePatch{path: p})
			cur = &out[len(out)-1]
			h = nil
		case strings.HasPrefix(l, "--- "):
			if strings.Contains(l, "/dev/null") {
				return nil, fmt.Errorf("file creation is not supported")
			}
		case hunkRx.MatchString(l) && cur != nil:
			m := hunkRx.FindStringSubmatch(l)
			n, _ := strconv.Atoi(m[1])
			cur.hunks = append(cur.hunks, hunk{oldStart: n})
			h = &cur.hunks[len(cur.hunks)-1]
		case h != nil && strings.HasPrefix(l, " "):
			h.old = append(h.old, l[1:])
			h.new = append(h.new, l[1:])
		case h != nil && strings.HasPrefix(l, "-"):
			h.old = append(h.old, l[1:])
		case h != nil && strings.HasPrefix(l, "+"):
			h.new = append(h.new, l[1:])
		case h != nil && l == "":
			// an empty context line whose leading blank was trimmed, or the end of the diff
			if i < len(lines)-1 {
				h.old = append(h.old, "")
				h.new = append(h.new, "")
			}
		case strings.HasPrefix(l, `\ No newline`):
		}
	}
	return out, nil
}

func matchAt(src []string, at int, want []string) bool {
	if at < 0 || at+len(want) > len(src) {
		return false
	}
	for i, w := range want {
		if src[at+i] != w {
			return false
		}
	}
	return true
}

// Apply returns, for every file the diff touches, its patched content (keyed by
// repository-relative path). Hunks are located by exact context match, searching outwards
// from the stated line. An error means the diff does not apply to the current files.
func Apply(repo, diffFile string) (map[string]string, error) {
	b, err := os.ReadFile(diffFile)
	if err != nil {
		return nil, err
	}
	fps, err := parse(string(b))
	if err != nil {
		return nil, err
	}
	if len(fps) == 0 {
		return nil, fmt.Errorf("no file patches found in %s", diffFile)
	}
	out := map[string]string{}
	for _, fp := range fps {
		srcB, err := os.ReadFile(filepath.Join(repo, fp.path))
		if err != nil {
			return nil, err
		}
		src := strings.Split(string(srcB), "\n")
		offset := 0
		for hi, h := range fp.hunks {
			// trailing empty context lines added by the parser at the very end are dropped if they do not match
			old, nw := h.old, h.new
			start := h.oldStart - 1 + offset
			found := -1
			for try := 0; try < 2 && found < 0; try++ {
				for d := 0; d <= len(src); d++ {
					if matchAt(src, start+d, old) {
						found = start + d
						break
					}
					if matchAt(src, start-d, old) {
						found = start - d
						break
					}
				}
				if found < 0 && len(old) > 0 && old[len(old)-1] == "" && len(nw) > 0 && nw[len(nw)-1] == "" {
					old, nw = old[:len(old)-1], nw[:len(nw)-1]
				} else {
					break
				}
			}
			if found < 0 {
				return nil, fmt.Errorf("%s: hunk %d does not apply", fp.path, hi+1)
			}
			res := append([]string{}, src[:found]...)
			res = append(res, nw...)
			res = append(res, src[found+len(old):]...)
			offset += len(nw) - len(old)
			src = res
		}
		out[fp.path] = strings.Join(src, "\n")
	}
	return out, nil
}
