// Package core holds the obligation / evidence / known-findings plumbing shared by
// every property check.
package core

import (
	"encoding/json"
	"fmt"
	"os"
	"path/filepath"
	"sort"
	"strconv"
	"strings"
	"time"
)

type Status string

const (
	Discharged Status = "discharged"
	Violated   Status = "violated"
	Undecided  Status = "undecided"
)

// Obligation is one decided (or undecidable) instance of a rule.
type Obligation struct {
	Property  string `json:"property"`
	Rule      string `json:"rule"`
	Construct string `json:"construct"` // line-free key
	Pos       string `json:"pos"`       // file:line, informational
	Status    Status `json:"status"`
	Why       string `json:"why"`
	Variant   string `json:"variant,omitempty"` // build variant the obligation was decided under (thorough tier)
}

func (o Obligation) Key() string { return o.Rule + " :: " + o.Construct }

type KnownFinding struct {
	Property string `json:"property"`
	Key      string `json:"key"`
	Status   string `json:"status"` // known | fixed
	Commit   string `json:"commit,omitempty"`
	Input    string `json:"input,omitempty"`
	What     string `json:"what"`
}

type Run struct {
	Property    string
	Tier        string
	Seed        int
	VerifDir    string
	RepoDir     string
	start       time.Time
	obs         []Obligation
	floors      map[string]int
	ruleDoc     map[string]string
	ruleOrder   []string
	analysed    map[string]int
	notes       []string
	assumptions []string
	explanation string
	replay      string
	variant     string
	extra       map[string]any
}

// SetVariant tags the obligations added from now on with a build variant (e.g. GOOS=windows).
func (r *Run) SetVariant(v string) { r.variant = v }

// Extra records a structured block in the evidence's coverage section.
func (r *Run) Extra(key string, v any) {
	if r.extra == nil {
		r.extra = map[string]any{}
	}
	r.extra[key] = v
}

func NewRun(property, tier string) *Run {
	seed := 0
	if s := os.Getenv("VERIF_SEED"); s != "" {
		seed, _ = strconv.Atoi(s)
	}
	vd := os.Getenv("VERIF_DIR")
	if vd == "" {
		vd = "/verif"
	}
	rd := os.Getenv("VERIF_REPO")
	if rd == "" {
		rd = "/repo"
	}
	return &Run{Property: property, Tier: tier, Seed: seed, VerifDir: vd, RepoDir: rd, start: time.Now(),
		floors: map[string]int{}, ruleDoc: map[string]string{}, analysed: map[string]int{}}
}

func (r *Run) SetReplay(p string)          { r.replay = p }
func (r *Run) Explain(s string)            { r.explanation = s }
func (r *Run) Assume(s ...string)          { r.assumptions = append(r.assumptions, s...) }
func (r *Run) Note(f string, a ...any)     { r.notes = append(r.notes, fmt.Sprintf(f, a...)) }
func (r *Run) Analysed(what string, n int) { r.analysed[what] += n }

// Rule declares a rule, its documentation and its floor (minimum number of instances
// the rule has to match on this tree; fewer = vacuous = failure).
func (r *Run) Rule(rule, doc string, floor int) {
	if _, ok := r.ruleDoc[rule]; !ok {
		r.ruleOrder = append(r.ruleOrder, rule)
	}
	r.ruleDoc[rule] = doc
	r.floors[rule] = floor
}

func (r *Run) add(rule, construct, pos string, st Status, why string) {
	if _, ok := r.ruleDoc[rule]; !ok {
		panic("undeclared rule " + rule)
	}
	r.obs = append(r.obs, Obligation{r.Property, rule, construct, r.rel(pos), st, why, r.variant})
}

func (r *Run) rel(pos string) string {
	return strings.TrimPrefix(pos, r.RepoDir+"/")
}

func (r *Run) Ok(rule, construct, pos, why string)  { r.add(rule, construct, pos, Discharged, why) }
func (r *Run) Bad(rule, construct, pos, why string) { r.add(rule, construct, pos, Violated, why) }
func (r *Run) Unk(rule, construct, pos, why string) { r.add(rule, construct, pos, Undecided, why) }

// Check is a convenience: discharged when cond, violated otherwise.
func (r *Run) Check(cond bool, rule, construct, pos, okWhy, badWhy string) bool {
	if cond {
		r.Ok(rule, construct, pos, okWhy)
	} else {
		r.Bad(rule, construct, pos, badWhy)
	}
	return cond
}

// Anchor reports an anchor (function, table, template) the rule depends on that could not
// be resolved: fails loudly.
func (r *Run) Anchor(rule, construct, why string) {
	r.add(rule, "anchor › "+construct, "", Undecided, "anchor unresolved: "+why)
}

func loadKnown(path string) ([]KnownFinding, error) {
	b, err := os.ReadFile(path)
	if err != nil {
		if os.IsNotExist(err) {
			return nil, nil
		}
		return nil, err
	}
	var kf struct {
		Findings []KnownFinding `json:"findings"`
	}
	if err := json.Unmarshal(b, &kf); err != nil {
		return nil, err
	}
	return kf.Findings, nil
}

// Finish writes the evidence file, prints KNOWN-FINDING / VIOLATION lines and returns the
// exit code.
func (r *Run) Finish() int {
	known, err := loadKnown(filepath.Join(r.VerifDir, "known_findings.json"))
	if err != nil {
		fmt.Printf("ERROR: known_findings.json unreadable: %v\n", err)
		return 2
	}
	knownSet := map[string]KnownFinding{}
	for _, k := range known {
		if k.Property == r.Property && k.Status == "known" {
			knownSet[k.Key] = k
		}
	}
	// de-duplicate obligations by key+status (same construct reached twice)
	seen := map[string]bool{}
	var obs []Obligation
	for _, o := range r.obs {
		k := o.Key() + "|" + string(o.Status) + "|" + o.Variant
		if seen[k] {
			continue
		}
		seen[k] = true
		obs = append(obs, o)
	}
	sort.SliceStable(obs, func(i, j int) bool {
		if obs[i].Rule != obs[j].Rule {
			return obs[i].Rule < obs[j].Rule
		}
		return obs[i].Construct < obs[j].Construct
	})
	perRule := map[string]int{}
	discharged := 0
	constructs := map[string]bool{}
	var viol, knownHit, und []Obligation
	for _, o := range obs {
		perRule[o.Rule]++
		if o.Pos != "" {
			constructs[o.Pos] = true
		} else {
			constructs[o.Construct] = true
		}
		switch o.Status {
		case Discharged:
			discharged++
		case Violated:
			if _, ok := knownSet[o.Key()]; ok {
				knownHit = append(knownHit, o)
			} else {
				viol = append(viol, o)
			}
		case Undecided:
			und = append(und, o)
		}
	}
	// floors
	var vacuous []Obligation
	for _, rule := range r.ruleOrder {
		if perRule[rule] < r.floors[rule] {
			vacuous = append(vacuous, Obligation{r.Property, rule, "floor", "", Undecided,
				fmt.Sprintf("rule matched %d instances, hand-confirmed floor is %d: the rule would pass vacuously", perRule[rule], r.floors[rule]), ""})
		}
	}
	und = append(und, vacuous...)

	printed := map[string]bool{}
	for _, o := range knownHit {
		if printed[o.Key()] {
			continue // the same finding under another build variant
		}
		printed[o.Key()] = true
		k := knownSet[o.Key()]
		fmt.Printf("KNOWN-FINDING: property=%s %s [%s] %s\n", r.Property, k.What, o.Key(), o.Pos)
	}
	// known entries that no longer fire are reported informally (never fail)
	hit := map[string]bool{}
	for _, o := range knownHit {
		hit[o.Key()] = true
	}
	for k := range knownSet {
		if !hit[k] {
			fmt.Printf("note: known finding %q did not fire on this tree\n", k)
		}
	}
	vdir := filepath.Join(r.VerifDir, "evidence", "violations", r.Property)
	fail := append(append([]Obligation{}, viol...), und...)
	if r.replay == "" {
		os.RemoveAll(vdir)
	}
	for i, o := range fail {
		if r.replay != "" {
			break
		}
		os.MkdirAll(vdir, 0o755)
		p := filepath.Join(vdir, fmt.Sprintf("%d.json", i+1))
		b, _ := json.MarshalIndent(o, "", "  ")
		os.WriteFile(p, b, 0o644)
		vs := ""
		if o.Variant != "" {
			vs = " [" + o.Variant + "]"
		}
		fmt.Printf("  %s %s%s\n    at %s\n    %s\n", strings.ToUpper(string(o.Status)), o.Key(), vs, o.Pos, o.Why)
		fmt.Printf("VIOLATION property=%s replay=%s\n", r.Property, p)
	}

	// evidence
	type ruleEv struct {
		Rule      string `json:"rule"`
		Doc       string `json:"doc"`
		Instances int    `json:"instances"`
		Floor     int    `json:"floor"`
	}
	var rules []ruleEv
	for _, rule := range r.ruleOrder {
		rules = append(rules, ruleEv{rule, r.ruleDoc[rule], perRule[rule], r.floors[rule]})
	}
	// samples: up to 3 per rule, plus all non-discharged
	var samples []Obligation
	cnt := map[string]int{}
	for _, o := range obs {
		if o.Status != Discharged || cnt[o.Rule] < 3 {
			samples = append(samples, o)
			cnt[o.Rule]++
		}
	}
	if len(samples) > 400 {
		samples = samples[:400]
	}
	expl := r.explanation
	if expl == "" {
		expl = "static rules over /repo's current source"
	}
	ev := map[string]any{
		"property_id": r.Property,
		"tier":        r.Tier,
		"seed":        r.Seed,
		"level":       "other",
		"coverage": map[string]any{
			"explanation":         expl,
			"obligations":         len(obs),
			"discharged":          discharged + len(knownHit),
			"evaluations":         len(obs),
			"distinct_nontrivial": len(constructs),
			"rule":                "one obligation per (rule, construct) matched in /repo's current source; distinct_nontrivial = distinct source sites (file:line, or the construct key for whole-program obligations) at which an obligation was generated; non-trivial = the rule's extractor matched a real site (floors guard against vacuous passes)",
			"samples":             samples,
			"rules":               rules,
			"analysed":            r.analysed,
			"known_findings_hit":  len(knownHit),
			"undecided":           len(und),
			"notes":               r.notes,
			"exhaustive":          false,
		},
		"assumptions": r.assumptions,
		"wall_s":      time.Since(r.start).Seconds(),
		"violations":  len(viol) + len(und),
	}
	for k, v := range r.extra {
		ev["coverage"].(map[string]any)[k] = v
	}
	if r.replay == "" && os.Getenv("VERIF_NO_EVIDENCE") == "" {
		os.MkdirAll(filepath.Join(r.VerifDir, "evidence"), 0o755)
		b, _ := json.MarshalIndent(ev, "", " ")
		if err := os.WriteFile(filepath.Join(r.VerifDir, "evidence", r.Property+".json"), b, 0o644); err != nil {
			fmt.Printf("ERROR: cannot write evidence: %v\n", err)
			return 2
		}
	}
	fmt.Printf("%s tier=%s: %d obligations, %d discharged, %d known findings, %d violations, %d undecided/vacuous; %d rules; %.1fs\n",
		r.Property, r.Tier, len(obs), discharged, len(knownHit), len(viol), len(und), len(r.ruleOrder), time.Since(r.start).Seconds())
	for _, re := range rules {
		fmt.Printf("  rule %-28s instances=%-5d floor=%-5d %s\n", re.Rule, re.Instances, re.Floor, firstLine(re.Doc))
	}
	if r.replay != "" {
		return r.finishReplay(viol, und)
	}
	if len(fail) > 0 {
		return 1
	}
	return 0
}

func firstLine(s string) string {
	if i := strings.IndexByte(s, '\n'); i >= 0 {
		s = s[:i]
	}
	if r := []rune(s); len(r) > 110 {
		s = string(r[:110]) + "…"
	}
	return s
}

func (r *Run) finishReplay(viol, und []Obligation) int {
	b, err := os.ReadFile(r.replay)
	if err != nil {
		fmt.Printf("replay: cannot read %s: %v\n", r.replay, err)
		return 2
	}
	var want Obligation
	if err := json.Unmarshal(b, &want); err != nil {
		fmt.Printf("replay: %v\n", err)
		return 2
	}
	for _, o := range append(viol, und...) {
		if o.Key() == want.Key() {
			fmt.Printf("replay: obligation still fails: %s\n  at %s\n  %s\n", o.Key(), o.Pos, o.Why)
			fmt.Printf("VIOLATION property=%s replay=%s\n", r.Property, r.replay)
			return 1
		}
	}
	fmt.Printf("replay: obligation %s no longer fails\n", want.Key())
	return 0
}
