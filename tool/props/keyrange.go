package props

import (
	"go/ast"
	"go/types"

	"verif/tool/goan"
)

// keyRange recognises a loop over the keys of a map, in either of its spellings, and returns the
// map and the variable that holds the key:
//
//	for k := range M                       (k, _ := …; k, v := …)
//	for _, k := range sorted(M)            a call whose single argument is the map
//	for _, k := range names                names filled by `for n := range M { names = append(names, n) }`
func keyRange(info *types.Info, body ast.Node, rs *ast.RangeStmt) (coll ast.Expr, key types.Object) {
	t := info.TypeOf(rs.X)
	if t == nil {
		return nil, nil
	}
	if _, isMap := t.Underlying().(*types.Map); isMap {
		if kid, ok := rs.Key.(*ast.Ident); ok && kid.Name != "_" {
			return rs.X, info.Defs[kid]
		}
		return nil, nil
	}
	if _, isSlice := t.Underlying().(*types.Slice); !isSlice || rs.Value == nil {
		return nil, nil
	}
	vid, ok := rs.Value.(*ast.Ident)
	if !ok || vid.Name == "_" {
		return nil, nil
	}
	isMapExpr := func(e ast.Expr) bool {
		mt := info.TypeOf(e)
		if mt == nil {
			return false
		}
		_, ok := mt.Underlying().(*types.Map)
		return ok
	}
	switch x := ast.Unparen(rs.X).(type) {
	case *ast.CallExpr:
		if len(x.Args) == 1 && isMapExpr(x.Args[0]) {
			return x.Args[0], info.Defs[vid]
		}
	case *ast.Ident:
		obj := info.Uses[x]
		if obj == nil || body == nil {
			return nil, nil
		}
		var src ast.Expr
		ast.Inspect(body, func(n ast.Node) bool {
			inner, ok := n.(*ast.RangeStmt)
			if !ok || inner == rs || src != nil || !isMapExpr(inner.X) {
				return true
			}
			kid, ok := inner.Key.(*ast.Ident)
			if !ok || kid.Name == "_" {
				return true
			}
			kobj := info.Defs[kid]
			for _, st := range inner.Body.List {
				as, ok := st.(*ast.AssignStmt)
				if !ok || len(as.Lhs) != 1 || len(as.Rhs) != 1 || !identIs(info, as.Lhs[0], obj) {
					continue
				}
				call, ok := ast.Unparen(as.Rhs[0]).(*ast.CallExpr)
				if !ok || !goan.IsBuiltinCall(info, call, "append") || len(call.Args) != 2 {
					continue
				}
				if identIs(info, call.Args[0], obj) && identIs(info, call.Args[1], kobj) {
					src = inner.X
				}
			}
			return true
		})
		if src != nil {
			return src, info.Defs[vid]
		}
	}
	return nil, nil
}
