package props

import (
	"fmt"

	"verif/tool/goan"
)

// DumpPanic prints the unproven may-panic sites of a package (debugging aid).
func DumpPanic(c *Ctx, pattern string) {
	prog := c.Prog(pattern)
	for _, pk := range prog.Roots {
		m := goan.NewMayPanic(pk)
		m.CheckNil = false
		m.CheckIface = true
		m.Run()
		safe := 0
		byKind := map[goan.PanicKind][2]int{}
		for _, s := range m.Sites {
			k := byKind[s.Kind]
			if s.Safe {
				safe++
				k[0]++
			} else {
				k[1]++
				fmt.Printf("%-12s %-40s %s  %s\n      %s\n", s.Kind, s.Fn, c.posOf(pk, s.Pos), s.Expr, s.Why)
			}
			byKind[s.Kind] = k
		}
		fmt.Println(pk.PkgPath, "sites:", len(m.Sites), "safe:", safe, byKind)
	}
}
