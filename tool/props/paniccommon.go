package props

import (
	"fmt"
	"go/ast"
	"go/types"
	"sort"
	"strings"

	"golang.org/x/tools/go/packages"

	"verif/tool/goan"
	"verif/tool/load"
)

// checkMethodExhaustive: a function that touches at least three of PathItem's seven
// operation fields enumerates the HTTP methods; it must touch all seven.
func checkMethodExhaustive(c *Ctx, rule string, pk *packages.Package, floor int) {
	c.Rule(rule, "functions enumerating the operations of a path item (≥ 3 of Get/Put/Post/Delete/Options/Head/Patch) mention all seven methods", floor)
	info := pk.TypesInfo
	all := []string{"Delete", "Get", "Head", "Options", "Patch", "Post", "Put"}
	for _, fd := range load.AllFuncs(pk) {
		seen := map[string]bool{}
		ast.Inspect(fd.Body, func(n ast.Node) bool {
			se, ok := n.(*ast.SelectorExpr)
			if !ok {
				return true
			}
			sel, ok := info.Selections[se]
			if !ok || sel.Kind() != types.FieldVal {
				return true
			}
			if v, ok := sel.Obj().(*types.Var); ok && v.Pkg() != nil && strings.HasSuffix(v.Pkg().Path(), "go-openapi/spec") {
				for _, m := range all {
					if se.Sel.Name == m && goan.NamedName(v.Type()) == "Operation" {
						seen[m] = true
					}
				}
			}
			return true
		})
		if len(seen) < 3 {
			continue
		}
		var missing []string
		for _, m := range all {
			if !seen[m] {
				missing = append(missing, m)
			}
		}
		sort.Strings(missing)
		c.Check(len(missing) == 0, rule, pk.Name+"."+load.FuncName(fd)+" › all seven HTTP methods", c.posOf(pk, fd.Pos()), "Get, Put, Post, Delete, Options, Head, Patch all handled",
			fmt.Sprintf("the function handles %d of the seven operation fields of a path item but not %v: operations with that method are silently dropped", len(seen), missing))
	}
}

// DumpPanic prints the unproven may-panic sites of a package (debugging aid).
func DumpPanic(c *Ctx, pattern string) {
	prog := c.Prog(pattern)
	for _, pk := range prog.Roots {
		m := goan.NewMayPanic(pk)
		m.CheckNil = false
		m.CheckIface = true
		m.Run()
		safe := 0
		byKind := map[goan.PanicKind][2]int{}
		for _, s := range m.Sites {
			k := byKind[s.Kind]
			if s.Safe {
				safe++
				k[0]++
			} else {
				k[1]++
				fmt.Printf("%-12s %-40s %s  %s\n      %s\n", s.Kind, s.Fn, c.posOf(pk, s.Pos), s.Expr, s.Why)
			}
			byKind[s.Kind] = k
		}
		fmt.Println(pk.PkgPath, "sites:", len(m.Sites), "safe:", safe, byKind)
	}
}
