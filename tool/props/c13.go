package props

import (
	"fmt"
	"go/ast"
	"go/constant"
	"go/token"
	"go/types"
	"regexp"
	"sort"
	"strings"

	"golang.org/x/tools/go/packages"

	"verif/tool/goan"
	"verif/tool/load"
)

func init() { register("C13", checkC13) }

// Frozen expectation (DESIGN appendix A.3; source: property C13's statement and
// docs/reference/transform/diff.md): rows that must not be NonBreaking / Warning.
var mustBreak = map[string][]string{
	"ForRequest": {"NarrowedType", "ChangedType", "AddedRequiredParam", "AddedRequiredProperty", "ChangedOptionalToRequired",
		"DeletedEnumValue", "AddedConstraint", "ChangedCollectionFormat", "DeletedProperty"},
	"ForResponse": {"DeletedResponse", "DeletedProperty", "DeletedResponseHeader", "ChangedResponseHeader", "AddedEnumValue", "ChangedType", "AddedRequiredProperty"},
	"ForChange":   {"DeletedEndpoint", "DeletedConsumesFormat", "DeletedProducesFormat", "DeletedSchemes", "ChangedHostURL", "ChangedBasePath", "RefTargetChanged"},
}

// constraint attributes the statement lists
var constraintFields = []string{"Type", "Format", "Enum", "Maximum", "Minimum", "ExclusiveMaximum", "ExclusiveMinimum", "MaxLength", "MinLength", "Pattern", "MaxItems", "MinItems", "Required", "CollectionFormat"}

// baseField strips len(), *, [i] and returns (field name, side) of `x.F`.
func baseField(r *goan.Rel, e ast.Expr) (string, goan.Side) {
	info := r.Info()
	for {
		e = ast.Unparen(e)
		switch x := e.(type) {
		case *ast.StarExpr:
			e = x.X
			continue
		case *ast.IndexExpr:
			e = x.X
			continue
		case *ast.CallExpr:
			if goan.IsBuiltinCall(info, x, "len") && len(x.Args) == 1 {
				e = x.Args[0]
				continue
			}
		case *ast.SelectorExpr:
			if sel, ok := info.Selections[x]; ok && sel.Kind() == types.FieldVal {
				return x.Sel.Name, r.SideOf(x.X)
			}
		}
		return "", goan.SNone
	}
}

type cmpSite struct {
	field  string
	fn     string
	pos    token.Pos
	guards []goan.Lit
	body   ast.Node
	how    string
}

// twoSidedComparisons finds every place where the same field of the two sides is compared.
func twoSidedComparisons(r *goan.Rel) []cmpSite {
	var out []cmpSite
	info := r.Info()
	for _, fd := range load.AllFuncs(r.Pkg) {
		fd := fd
		name := load.FuncName(fd)
		goan.WalkGuards(info, fd.Body, func(n ast.Node, guards []goan.Lit, _ []ast.Stmt) {
			if rs, ok := n.(*ast.RangeStmt); ok {
				n = rs.X
			}
			ast.Inspect(n, func(m ast.Node) bool {
				if _, ok := m.(*ast.FuncLit); ok {
					return false
				}
				switch x := m.(type) {
				case *ast.BinaryExpr:
					switch x.Op {
					case token.EQL, token.NEQ, token.LSS, token.GTR, token.LEQ, token.GEQ:
						fa, sa := baseField(r, x.X)
						fb, sb := baseField(r, x.Y)
						if fa != "" && fa == fb && sa != sb && (sa == goan.S1 || sa == goan.S2) && (sb == goan.S1 || sb == goan.S2) {
							out = append(out, cmpSite{fa, name, x.Pos(), guards, fd.Body, x.Op.String()})
						}
					}
				case *ast.CallExpr:
					for i := 0; i+1 < len(x.Args); i++ {
						fa, sa := baseField(r, x.Args[i])
						fb, sb := baseField(r, x.Args[i+1])
						if fa != "" && fa == fb && sa == goan.S1 && sb == goan.S2 {
							how := "call"
							if fn := goan.Callee(info, x); fn != nil {
								how = fn.Name()
							}
							out = append(out, cmpSite{fa, name, x.Pos(), guards, fd.Body, how})
						}
					}
				}
				return true
			})
		})
	}
	return out
}

func checkC13(c *Ctx) {
	c.Explain("diff under-reporting: (R1) the compatibility policy never maps a request-narrowing / response-removing code to NonBreaking or Warning, and the policy is always applied; (R2/R3) Compare*Values call sites compare the attribute their label names, from opposite sides, with the sense that attribute requires; " +
		"(R4) every constraint attribute of the statement is compared between the two sides somewhere, is not pre-filtered by a one-sided test of the same attribute, and bound comparisons are not gated by the format; (R5) the parameter/header/items adapters copy every validation field; " +
		"(R6) exit status; (R7) all five parameter locations are analysed and operation-level parameters override path-level ones; (R8) $ref resolution precedes the reads of the resolved schema's fields. Decides these structural conditions, not completeness of the analyser against request semantics.")
	c.Assume("Breaking is the zero value of Compatibility, so a missing policy row is Breaking", "the property statement's list of breaking changes (frozen table mustBreak, DESIGN A.3)")
	r := c.diffRel()
	checkDiffsTo(c, r)
	pk := r.Pkg
	info := pk.TypesInfo
	prog := c.Prog("./cmd/swagger/commands/diff", "./cmd/swagger/commands")
	cmds := prog.Pkg(load.PkgCommands)

	// ---- R1 policy table
	c.Rule("C13.R1.policy", "compatibility policy: listed codes are never NonBreaking/Warning; getCompatibilityForChange consults ForChange then the direction table; addDiff always applies it; direction is Response iff Response > 0", 26)
	cl := goan.FindCompositeAssign(pk, "compatibility")
	if cl == nil {
		c.Anchor("C13.R1.policy", "diff.compatibility", "policy literal not found")
	} else {
		for _, tbl := range []string{"ForRequest", "ForResponse", "ForChange"} {
			rows := goan.Rows(goan.Field(cl, tbl))
			if len(rows) == 0 {
				c.Anchor("C13.R1.policy", "diff.compatibility."+tbl, "table not found")
				continue
			}
			got := map[string]string{}
			for _, row := range rows {
				k, v := goan.ConstObj(info, row.Key), goan.ConstObj(info, row.Val)
				if k == nil || v == nil {
					c.Unk("C13.R1.policy", "diff.compatibility."+tbl+" › row "+goan.ExprString(row.Key), c.posOf(pk, row.Key.Pos()), "row is not constant: constant")
					continue
				}
				if old, dup := got[k.Name()]; dup && old != v.Name() {
					c.Bad("C13.R1.policy", "diff.compatibility."+tbl+" › duplicate "+k.Name(), c.posOf(pk, row.Key.Pos()), "two rows for the same code")
				}
				got[k.Name()] = v.Name()
			}
			for _, code := range mustBreak[tbl] {
				v, present := got[code]
				c.Check(!present || v == "Breaking", "C13.R1.policy", fmt.Sprintf("diff.compatibility.%s › %s", tbl, code), c.posOf(pk, cl.Pos()),
					"Breaking (explicitly or by the zero value)", fmt.Sprintf("%s[%s] = %s: the statement lists this change as breaking, the report would classify it as compatible and exit 0", tbl, code, v))
			}
			// a ForChange row shadows both direction tables: no must-break direction code may sit there as non-breaking
			if tbl == "ForChange" {
				for _, dir := range []string{"ForRequest", "ForResponse"} {
					for _, code := range mustBreak[dir] {
						if v, ok := got[code]; ok && v != "Breaking" {
							c.Bad("C13.R1.policy", fmt.Sprintf("diff.compatibility.ForChange › shadows %s[%s]", dir, code), c.posOf(pk, cl.Pos()), "ForChange is consulted first and maps "+code+" to "+v)
						}
					}
				}
			}
		}
	}
	checkPolicyApplication(c, pk)

	// ---- R2/R3 label, sides, sense at Compare*Values call sites
	c.Rule("C13.R2.label", "Compare{Int,Float}Values(label, a.F, b.G, up, down): F = G = label, a from spec 1 and b from spec 2", 6)
	c.Rule("C13.R4.ungated-bounds", "no Compare{Int,Float}Values call sits under a condition on a local flag that is raised where another difference was found", 6)
	c.Rule("C13.R3.sense", "upper bounds: (greater, smaller) = (Widened, Narrowed); lower bounds: (Narrowed, Widened)", 6)
	upper := map[string]bool{"Maximum": true, "MaxLength": true, "MaxItems": true, "MaxProperties": true}
	lower := map[string]bool{"Minimum": true, "MinLength": true, "MinItems": true, "MinProperties": true}
	for _, helper := range []string{"CompareIntValues", "CompareFloatValues"} {
		fd := load.FuncDecl(pk, helper)
		if fd == nil {
			c.Anchor("C13.R2.label", helper, "not found")
			continue
		}
		// inside the helper: greater ⇒ 4th param, smaller ⇒ 5th param (checked via the sites' triggers)
		for _, s := range r.Sites {
			if s.Fn != fd || s.Param == nil {
				continue
			}
			idx := paramIndex(info, fd, s.Param)
			want := map[int]string{3: "gt(2>1)", 4: "lt(2<1)"}[idx]
			c.Check(want != "" && goan.HasTrig(s.Derived, want), "C13.R3.sense", fmt.Sprintf("diff.%s › %s emitted under %s", helper, s.Param.Name(), want), c.posOf(pk, s.Pos),
				"parameter bound to the matching ordering", fmt.Sprintf("%s (parameter %d) is emitted under [%s], expected %s", s.Param.Name(), idx, trigStr(s.Derived), want))
		}
		for _, cs := range r.CallSitesOf(r.FuncObj(fd)) {
			if len(cs.Call.Args) != 5 {
				continue
			}
			label, _ := goan.StringVal(info, cs.Call.Args[0])
			fa, sa := baseField(r, cs.Call.Args[1])
			fb, sb := baseField(r, cs.Call.Args[2])
			key := fmt.Sprintf("diff.%s › %s(%q)", cs.FnName, helper, label)
			c.Check(label != "" && fa == label && fb == label && sa == goan.S1 && sb == goan.S2, "C13.R2.label", key, c.posOf(pk, cs.Call.Pos()),
				"label, fields and sides agree", fmt.Sprintf("label %q but operands are side%s.%s and side%s.%s: the %s constraint is not compared (or compared against the wrong side)", label, sa, fa, sb, fb, label))
			// the comparison of a bound does not wait for the outcome of other comparisons: a condition
			// around it that reads a local flag raised where another difference was found hides the
			// change of the bound whenever the other attribute changes with it
			{
				flag := outcomeFlagAround(info, cs.Fn, cs.Call)
				c.Check(flag == "", "C13.R4.ungated-bounds", key, c.posOf(pk, cs.Call.Pos()), "not conditioned by a flag that other comparisons raise",
					fmt.Sprintf("the %s comparison runs only when the local flag `%s` is still false, and the flag is raised where another difference is reported: a %s that changes together with that other attribute (maximum 100 exclusive → maximum 50) is not reported, and a narrowing passes for compatible", label, flag, label))
			}
			up, down := goan.ConstObj(info, cs.Call.Args[3]), goan.ConstObj(info, cs.Call.Args[4])
			if up == nil || down == nil {
				c.Unk("C13.R3.sense", key, c.posOf(pk, cs.Call.Pos()), "codes are not constants")
				continue
			}
			switch {
			case upper[label]:
				c.Check(up.Name() == "WidenedType" && down.Name() == "NarrowedType", "C13.R3.sense", key, c.posOf(pk, cs.Call.Pos()), "upper bound: ↑ widened, ↓ narrowed",
					fmt.Sprintf("%s is an upper bound: a greater value must be WidenedType and a smaller one NarrowedType, got (%s, %s) — a narrowed %s would be reported as compatible", label, up.Name(), down.Name(), label))
			case lower[label]:
				c.Check(up.Name() == "NarrowedType" && down.Name() == "WidenedType", "C13.R3.sense", key, c.posOf(pk, cs.Call.Pos()), "lower bound: ↑ narrowed, ↓ widened",
					fmt.Sprintf("%s is a lower bound: a greater value must be NarrowedType and a smaller one WidenedType, got (%s, %s)", label, up.Name(), down.Name()))
			default:
				c.Unk("C13.R3.sense", key, c.posOf(pk, cs.Call.Pos()), "label is not a known bound")
			}
		}
	}

	// ---- R4 coverage of constraint attributes
	c.Rule("C13.R4.coverage", "each constraint attribute of the statement is compared between spec 1 and spec 2 somewhere in the analyser", 14)
	c.Rule("C13.R4.prefilter", "a two-sided comparison of attribute F is not guarded by a test of F on one side only (that would hide the change when the other side alone has F)", 10)
	c.Rule("C13.R4.format-gate", "bound/length/item-count comparisons are gated by the type only, never by the format", 6)
	cmps := twoSidedComparisons(r)
	covered := map[string][]cmpSite{}
	for _, cs := range cmps {
		covered[cs.field] = append(covered[cs.field], cs)
	}
	// boolean flags compared as a pair of opposite unary predicates
	for _, s := range r.Sites {
		for _, t := range s.Derived {
			if t.Kind == "true1-false2" || t.Kind == "false1-true2" {
				for _, n := range t.Names {
					covered[n] = append(covered[n], cmpSite{field: n, fn: s.FnName, pos: s.Pos, how: t.Kind})
				}
			}
		}
	}
	c.Analysed("two-sided field comparisons", len(cmps))
	for _, f := range constraintFields {
		var where []string
		for _, cs := range covered[f] {
			where = append(where, cs.fn)
		}
		sort.Strings(where)
		c.Check(len(covered[f]) > 0, "C13.R4.coverage", "diff › attribute "+f, "", "compared in "+strings.Join(uniq(where), ", "),
			"no comparison of "+f+" between the two specs exists: a narrowed "+f+" is never reported")
	}
	for _, cs := range cmps {
		if !contains(constraintFields, cs.field) {
			continue
		}
		var atoms []goan.Atom
		for _, g := range cs.guards {
			atoms = append(atoms, r.Classify(g, cs.body))
		}
		trigs := goan.Triggers(atoms)
		oneSided := ""
		for _, t := range trigs {
			if (strings.HasPrefix(t.Kind, "only1") || strings.HasPrefix(t.Kind, "only2")) && t.Has(cs.field) {
				oneSided = t.Kind
			}
		}
		key := fmt.Sprintf("diff.%s › %s compared (%s)", cs.fn, cs.field, cs.how)
		c.Check(oneSided == "", "C13.R4.prefilter", key, c.posOf(pk, cs.pos), "no one-sided pre-filter on "+cs.field,
			fmt.Sprintf("the comparison of %s runs only when %s holds for one side (%s): when only the other side has %s the change is never reported", cs.field, cs.field, oneSided, cs.field))
		switch cs.field {
		case "Maximum", "Minimum", "MaxLength", "MinLength", "MaxItems", "MinItems":
			gated := false
			for _, a := range atoms {
				for _, n := range a.Fields {
					if n == "Format" {
						gated = true
					}
				}
			}
			c.Check(!gated, "C13.R4.format-gate", key, c.posOf(pk, cs.pos), "guards mention the type only",
				"the comparison of "+cs.field+" is guarded by a condition on the format: bounds of values with other formats are never compared")
		}
	}

	// ---- R5 adapters
	checkAdapters(c, pk)

	// ---- R6 exit status
	checkExitStatus(c, "C13.R6.exit-status", pk, cmds)

	// ---- R7 presence: locations, precedence
	checkLocations(c, "C13.R7.presence", pk)

	// ---- R8 ref resolution before field reads
	checkRefResolution(c, r)

	// ---- R9 every HTTP method is indexed (an unlisted method's endpoints are never compared)
	checkMethodExhaustive(c, "C13.R9.methods", pk, 1)
	checkSharedGuards(c, "C13.R4.shared-guards", r, bindSites(c, r, "C13.R4.shared-guards"))
	checkMemoKey(c, "C13.R4.memo-key", r)
	checkDifferenceExits(c, "C13.R4.difference-exits", pk)
	checkKindExits(c, "C13.R4.kind-exits", pk)
	c.Rule("C13.R4.location-key", "every location a shared schema is referenced from is compared: the visited-set key reads every field of the location", 4)
	checkLocationKey(c, "C13.R4.location-key", pk)
	// a definition is marked as referenced (hence skipped by the definitions pass) only by a
	// comparison that really runs: the visited test precedes the $ref resolution
	checkRecursionGuard(c, "C13.R8.visited-order", pk)
	checkLoopTotality(c, "C13.R10.loop-totality", pk, "diff", 30, diffLoopExits)
	checkNoComparisonState(c, "C13.R8.no-shared-state", pk)
	checkWidenessInclusion(c, "C13.R4.wideness-inclusion", pk)
	checkPresencePure(c, "C13.R7.presence-pure", pk)
	checkEnumAnyType(c, "C13.R4.enum-any-type", pk)
	checkItemsCompared(c, "C13.R4.items-compared", pk)
	checkAccumulation(c, pk)
	checkTwinShortcuts(c, "C13.R4.twin-shortcuts", r)
	checkBothPresent(c, "C13.R4.both-present", r)
	checkDeprecatedDowngrade(c, "C13.R1.deprecated-own-flag", pk)
	checkMediaCoverage(c, "C13.R4.media-coverage", pk)
	// an ignore entry must only swallow the difference it was written from (otherwise a later, different
	// narrowing at the same place is filtered out of the report and of the exit status)
	checkMatchFields(c, "C13.R6.match-fields", pk)
	checkComparedAsDeclared(c, pk)
	// comparisons that every parameter pair goes through
	c.Rule("C13.R4.unconditional", "in compareParams the description, property, required-ness and simple-schema comparisons run for every parameter pair: no condition and no earlier return guards them", 4)
	if fd := load.FuncDecl(pk, "SpecAnalyser.compareParams"); fd == nil {
		c.Anchor("C13.R4.unconditional", "diff.SpecAnalyser.compareParams", "not found")
	} else {
		want := map[string]bool{"compareDescripton": false, "CompareProps": false, "CheckToFromRequired": false, "compareSimpleSchema": false}
		goan.WalkGuards(info, fd.Body, func(n ast.Node, guards []goan.Lit, _ []ast.Stmt) {
			ast.Inspect(n, func(m ast.Node) bool {
				call, ok := m.(*ast.CallExpr)
				if !ok {
					return true
				}
				name := goan.LastSel(call.Fun)
				if id, ok := call.Fun.(*ast.Ident); ok {
					name = id.Name
				}
				if _, tracked := want[name]; !tracked || want[name] {
					return true
				}
				var gs []string
				for _, g := range guards {
					if !g.NonEmpty {
						gs = append(gs, g.String())
					}
				}
				if len(gs) == 0 {
					want[name] = true
					c.Ok("C13.R4.unconditional", "diff.SpecAnalyser.compareParams › "+name+" runs for every pair", c.posOf(pk, call.Pos()), "no guard")
				}
				return true
			})
		})
		for name, ok := range want {
			if !ok {
				c.Bad("C13.R4.unconditional", "diff.SpecAnalyser.compareParams › "+name+" runs for every pair", c.posOf(pk, fd.Pos()), "every call to "+name+" in compareParams is guarded by a condition or follows a return: for some parameter pairs (e.g. body parameters) the comparison is skipped and a breaking change of that attribute is not reported")
			}
		}
	}
}

func paramIndex(info *types.Info, fd *ast.FuncDecl, v *types.Var) int {
	i := 0
	for _, fl := range fd.Type.Params.List {
		for _, n := range fl.Names {
			if info.Defs[n] == v {
				return i
			}
			i++
		}
	}
	return -1
}

func uniq(s []string) []string {
	var out []string
	for i, x := range s {
		if i == 0 || x != s[i-1] {
			out = append(out, x)
		}
	}
	return out
}

func contains(s []string, x string) bool {
	for _, y := range s {
		if y == x {
			return true
		}
	}
	return false
}

// checkPolicyApplication: getCompatibilityForChange and addDiff shapes.
func checkPolicyApplication(c *Ctx, pk *packages.Package) {
	rule := "C13.R1.policy"
	info := pk.TypesInfo
	fd := load.FuncDecl(pk, "getCompatibilityForChange")
	if fd == nil {
		c.Anchor(rule, "getCompatibilityForChange", "not found")
	} else {
		// every return is a lookup in compatibility.{ForChange|ForRequest|ForResponse}[diffCode] (or its comma-ok value);
		// ForRequest under where == Request
		code := info.Defs[fd.Type.Params.List[0].Names[0]]
		var tables []string
		okAll := true
		reqGuarded, respSeen := false, false
		goan.WalkGuards(info, fd.Body, func(n ast.Node, guards []goan.Lit, _ []ast.Stmt) {
			ret, ok := n.(*ast.ReturnStmt)
			if !ok || len(ret.Results) != 1 {
				return
			}
			e := goan.ResolveLocal(info, fd.Body, ret.Results[0])
			if id, ok := ret.Results[0].(*ast.Ident); ok {
				// comma-ok value
				if v, ok := info.Uses[id].(*types.Var); ok {
					for _, a := range goan.AssignmentsTo(info, fd.Body, v) {
						if a.ResultIx == 0 {
							e = a.Rhs
						}
					}
				}
			}
			ix, ok := ast.Unparen(e).(*ast.IndexExpr)
			if !ok || !identIs(info, ix.Index, code) {
				okAll = false
				return
			}
			t := goan.LastSel(ix.X)
			tables = append(tables, t)
			if t == "ForRequest" {
				for _, g := range guards {
					if be, ok := ast.Unparen(g.E).(*ast.BinaryExpr); ok && g.Pos && be.Op == token.EQL && (goan.IsIdent(be.Y, "Request") || goan.IsIdent(be.X, "Request")) {
						reqGuarded = true
					}
				}
			}
			if t == "ForResponse" {
				respSeen = true
			}
		})
		sort.Strings(tables)
		c.Check(okAll && strings.Join(tables, ",") == "ForChange,ForRequest,ForResponse" && reqGuarded && respSeen, rule, "diff.getCompatibilityForChange › lookup order", c.posOf(pk, fd.Pos()),
			"ForChange first, then ForRequest iff where == Request, else ForResponse", fmt.Sprintf("unexpected shape: returns look up %v (request arm guarded by where == Request: %v)", tables, reqGuarded))
	}
	ad := load.FuncDecl(pk, "SpecDifferences.addDiff")
	if ad == nil {
		c.Anchor(rule, "SpecDifferences.addDiff", "not found")
		return
	}
	// diff.Compatibility = getCompatibilityForChange(diff.Code, context) unconditionally; context := Request; if diff.DifferenceLocation.Response > 0 { context = Response }
	applied, ctxOK := false, false
	goan.WalkGuards(info, ad.Body, func(n ast.Node, guards []goan.Lit, _ []ast.Stmt) {
		as, ok := n.(*ast.AssignStmt)
		if !ok || len(as.Lhs) != 1 || len(as.Rhs) != 1 {
			return
		}
		if goan.LastSel(as.Lhs[0]) == "Compatibility" && len(guards) == 0 {
			if call, ok := as.Rhs[0].(*ast.CallExpr); ok {
				if fn := goan.Callee(info, call); fn != nil && fn.Name() == "getCompatibilityForChange" && len(call.Args) == 2 && goan.LastSel(call.Args[0]) == "Code" {
					applied = true
				}
			}
		}
		if goan.IsIdent(as.Rhs[0], "Response") && len(guards) == 1 {
			if be, ok := ast.Unparen(guards[0].E).(*ast.BinaryExpr); ok && guards[0].Pos && be.Op == token.GTR && goan.LastSel(be.X) == "Response" {
				if v := goan.ConstVal(info, be.Y); v != nil && v.String() == "0" {
					ctxOK = true
				}
			}
		}
	})
	c.Check(applied, rule, "diff.SpecDifferences.addDiff › policy always applied", c.posOf(pk, ad.Pos()), "diff.Compatibility is overwritten from the policy unconditionally", "addDiff does not unconditionally set Compatibility from getCompatibilityForChange(diff.Code, …): a site's own Compatibility value would decide the classification")
	c.Check(ctxOK, rule, "diff.SpecDifferences.addDiff › direction", c.posOf(pk, ad.Pos()), "Response iff DifferenceLocation.Response > 0", "the direction passed to the policy is not `Response iff DifferenceLocation.Response > 0`")
	// every append to sd.Diffs goes through addDiff
	viaAdd := 0
	for _, fd := range load.AllFuncs(pk) {
		ast.Inspect(fd.Body, func(n ast.Node) bool {
			as, ok := n.(*ast.AssignStmt)
			if !ok || len(as.Lhs) != 1 || len(as.Rhs) != 1 || goan.LastSel(as.Lhs[0]) != "Diffs" {
				return true
			}
			if _, isSel := as.Lhs[0].(*ast.SelectorExpr); !isSel {
				return true
			}
			call, ok := as.Rhs[0].(*ast.CallExpr)
			if ok {
				if fn := goan.Callee(info, call); fn != nil && fn.Name() == "addDiff" {
					viaAdd++
					return true
				}
			}
			if cl, ok := as.Rhs[0].(*ast.CompositeLit); ok && len(cl.Elts) == 0 {
				return true // reset to empty
			}
			c.Bad(rule, "diff."+load.FuncName(fd)+" › sd.Diffs written without addDiff", c.posOf(pk, as.Pos()), "a difference is stored without passing through the compatibility policy")
			return true
		})
	}
	c.Check(viaAdd >= 20, rule, "diff › all stores to Diffs go through addDiff", "", fmt.Sprintf("%d stores, all through addDiff", viaAdd), fmt.Sprintf("only %d stores through addDiff found", viaAdd))
}

// checkAdapters: forParam/forHeader/forItems copy every validation field from the same-named source field.
func checkAdapters(c *Ctx, pk *packages.Package) {
	rule := "C13.R5.adapters"
	c.Rule(rule, "forParam/forHeader/forItems set every SchemaProps validation field from the same-named field of their source (siblings agree)", 39)
	info := pk.TypesInfo
	want := []string{"Format", "Maximum", "ExclusiveMaximum", "Minimum", "ExclusiveMinimum", "MaxLength", "MinLength", "Pattern", "MaxItems", "MinItems", "UniqueItems", "MultipleOf", "Enum"}
	for _, fn := range []string{"forParam", "forHeader", "forItems"} {
		fd := load.FuncDecl(pk, fn)
		if fd == nil {
			c.Anchor(rule, fn, "not found")
			continue
		}
		src := info.Defs[fd.Type.Params.List[0].Names[0]]
		var lit *ast.CompositeLit
		ast.Inspect(fd.Body, func(n ast.Node) bool {
			if cl, ok := n.(*ast.CompositeLit); ok {
				if goan.NamedName(info.TypeOf(cl)) == "SchemaProps" {
					lit = cl
				}
			}
			return true
		})
		if lit == nil {
			c.Anchor(rule, fn, "SchemaProps literal not found")
			continue
		}
		for _, f := range want {
			v := goan.Field(lit, f)
			ok := false
			why := "field " + f + " is not set: the constraint is dropped before comparison and a narrowed " + f + " is never reported"
			if v != nil {
				e := goan.ResolveLocal(info, fd.Body, v)
				// accept src.F, src.X.F, local.F where local := src.X
				name := goan.LastSel(e)
				root := e
				for {
					if se, isSel := ast.Unparen(root).(*ast.SelectorExpr); isSel {
						root = se.X
						continue
					}
					break
				}
				root = goan.ResolveLocal(info, fd.Body, root)
				for {
					if se, isSel := ast.Unparen(root).(*ast.SelectorExpr); isSel {
						root = se.X
						continue
					}
					break
				}
				if name == f && identIs(info, root, src) {
					ok = true
				} else {
					why = fmt.Sprintf("field %s is set from %s, not from the source's %s", f, goan.ExprString(v), f)
				}
			}
			c.Check(ok, rule, fmt.Sprintf("diff.%s › SchemaProps.%s", fn, f), c.posOf(pk, lit.Pos()), "copied from the same-named source field", why)
		}
		// Type: []string{src.Type}
		tv := goan.Field(lit, "Type")
		okT := false
		if cl, ok := tv.(*ast.CompositeLit); ok && len(cl.Elts) == 1 && goan.LastSel(cl.Elts[0]) == "Type" {
			okT = true
		}
		c.Check(okT, rule, fmt.Sprintf("diff.%s › SchemaProps.Type", fn), c.posOf(pk, lit.Pos()), "[]string{source.Type}", "Type is not []string{source.Type}")
	}
}

// checkLocations: analyseRequestParams iterates all five `in` values; getParams applies
// operation-level parameters after path-level ones.
func checkLocations(c *Ctx, rule string, pk *packages.Package) {
	c.Rule(rule, "analyseRequestParams ranges over all five parameter locations; getParams lets operation-level parameters override path-level ones; deleted endpoints / responses / properties are looked up by missing-in-2 triggers", 3)
	info := pk.TypesInfo
	want := []string{"body", "formData", "header", "path", "query"}
	for _, fn := range []string{"SpecAnalyser.analyseRequestParams", "SpecAnalyser.checkParamExtensions"} {
		fd := load.FuncDecl(pk, fn)
		if fd == nil {
			c.Anchor(rule, fn, "not found")
			continue
		}
		var got []string
		var locObj types.Object
		ast.Inspect(fd.Body, func(n ast.Node) bool {
			as, ok := n.(*ast.AssignStmt)
			if !ok || len(as.Lhs) != 1 || len(as.Rhs) != 1 {
				return true
			}
			id, ok := as.Lhs[0].(*ast.Ident)
			if !ok || id.Name != "locations" {
				return true
			}
			if cl, ok := as.Rhs[0].(*ast.CompositeLit); ok {
				for _, el := range cl.Elts {
					if s, ok := goan.StringVal(info, el); ok {
						got = append(got, s)
					}
				}
				locObj = info.Defs[id]
			}
			return true
		})
		sort.Strings(got)
		ranged := false
		ast.Inspect(fd.Body, func(n ast.Node) bool {
			if rs, ok := n.(*ast.RangeStmt); ok && identIs(info, rs.X, locObj) {
				ranged = true
			}
			return true
		})
		c.Check(strings.Join(got, ",") == strings.Join(want, ",") && ranged, rule, "diff."+fn+" › locations", c.posOf(pk, fd.Pos()),
			"ranges over query, path, body, header, formData", fmt.Sprintf("parameter locations analysed are %v (ranged: %v), expected all five", got, ranged))
	}
	// getParams: two range loops, pathParams first then opParams, both store params[name] under In == location
	if fd := load.FuncDecl(pk, "getParams"); fd == nil {
		c.Anchor(rule, "getParams", "not found")
	} else {
		p0 := info.Defs[fd.Type.Params.List[0].Names[0]]
		var p1 types.Object
		if len(fd.Type.Params.List[0].Names) > 1 {
			p1 = info.Defs[fd.Type.Params.List[0].Names[1]]
		} else if len(fd.Type.Params.List) > 1 {
			p1 = info.Defs[fd.Type.Params.List[1].Names[0]]
		}
		var order []string
		for _, st := range fd.Body.List {
			rs, ok := st.(*ast.RangeStmt)
			if !ok {
				continue
			}
			who := "?"
			if identIs(info, rs.X, p0) {
				who = "path"
			} else if identIs(info, rs.X, p1) {
				who = "op"
			}
			stores := false
			goan.WalkGuards(info, rs.Body, func(n ast.Node, guards []goan.Lit, _ []ast.Stmt) {
				as, ok := n.(*ast.AssignStmt)
				if !ok || len(as.Lhs) != 1 {
					return
				}
				if _, ok := as.Lhs[0].(*ast.IndexExpr); !ok {
					return
				}
				for _, g := range guards {
					if be, ok := ast.Unparen(g.E).(*ast.BinaryExpr); ok && g.Pos && be.Op == token.EQL && goan.LastSel(be.X) == "In" {
						stores = true
					}
				}
			})
			if stores {
				order = append(order, who)
			}
		}
		c.Check(strings.Join(order, ",") == "path,op", rule, "diff.getParams › operation parameters override path parameters", c.posOf(pk, fd.Pos()),
			"path-level parameters stored first, operation-level ones after (last writer wins)", fmt.Sprintf("store order is %v: an operation-level override would not take effect and changes made only in the override are missed", order))
	}
}

// checkRefResolution: in a function that replaces a schema variable by its $ref target under
// isRefType(v), every read of v's fields (other than Ref) comes after that replacement.
func checkRefResolution(c *Ctx, r *goan.Rel) {
	rule := "C13.R8.ref-resolution"
	c.Rule(rule, "when a function resolves `v` through its $ref (v = resolve(v.Ref) under isRefType(v)), reads of v's other fields come after the resolution", 3)
	pk := r.Pkg
	info := pk.TypesInfo
	for _, fd := range load.AllFuncs(pk) {
		fd := fd
		goan.WalkGuards(info, fd.Body, func(n ast.Node, guards []goan.Lit, _ []ast.Stmt) {
			as, ok := n.(*ast.AssignStmt)
			if !ok || as.Tok != token.ASSIGN || len(as.Rhs) != 1 {
				return
			}
			id, ok := as.Lhs[0].(*ast.Ident)
			if !ok {
				return
			}
			v, _ := info.Uses[id].(*types.Var)
			if v == nil {
				return
			}
			guarded := false
			for _, g := range guards {
				if call, ok := ast.Unparen(g.E).(*ast.CallExpr); ok && g.Pos && len(call.Args) == 1 && identIs(info, call.Args[0], v) {
					if fn := goan.Callee(info, call); fn != nil && fn.Name() == "isRefType" {
						guarded = true
					}
				}
			}
			if !guarded {
				return
			}
			// reads of v.F (F != Ref) positioned before the assignment, in the same function
			var early []string
			ast.Inspect(fd.Body, func(m ast.Node) bool {
				se, ok := m.(*ast.SelectorExpr)
				if !ok || se.Pos() >= as.Pos() {
					return true
				}
				if identIs(info, se.X, v) && se.Sel.Name != "Ref" {
					if sel, ok := info.Selections[se]; ok && sel.Kind() == types.FieldVal {
						early = append(early, se.Sel.Name)
					}
				}
				return true
			})
			c.Check(len(early) == 0, rule, fmt.Sprintf("diff.%s › %s resolved before its fields are read", load.FuncName(fd), v.Name()), c.posOf(pk, as.Pos()),
				"no field of the unresolved reference is read", fmt.Sprintf("fields %v of %s are read before the $ref is resolved: for a referenced schema they are the (empty) fields of the reference object", early, v.Name()))
		})
	}
}

// checkAccumulation: in CompareProps the type-hierarchy change, the string constraint checks
// and the numeric constraint checks accumulate into one result: no return separates them (a
// format change is compatible with a simultaneous change of bounds or lengths).
func checkAccumulation(c *Ctx, pk *packages.Package) {
	rule := "C13.R4.accumulate"
	c.Rule(rule, "CompareProps: the type-hierarchy change, the string checks and the numeric checks are all evaluated once the primitive-type gate is passed", 1)
	fd := load.FuncDecl(pk, "SpecAnalyser.CompareProps")
	if fd == nil {
		c.Anchor(rule, "diff.SpecAnalyser.CompareProps", "not found")
		return
	}
	var first, last token.Pos
	n := 0
	ast.Inspect(fd.Body, func(nd ast.Node) bool {
		call, ok := nd.(*ast.CallExpr)
		if !ok {
			return true
		}
		name := goan.LastSel(call.Fun)
		if id, ok := call.Fun.(*ast.Ident); ok {
			name = id.Name
		}
		switch name {
		case "getTypeHierarchyChange", "CheckStringTypeChanges", "checkNumericTypeChanges":
			n++
			if !first.IsValid() || call.Pos() < first {
				first = call.Pos()
			}
			if call.Pos() > last {
				last = call.Pos()
			}
		}
		return true
	})
	if n < 3 {
		c.Unk(rule, "diff.SpecAnalyser.CompareProps › hierarchy / string / numeric checks", c.posOf(pk, fd.Pos()), fmt.Sprintf("%d of the 3 checks found", n))
		return
	}
	bad := ""
	ast.Inspect(fd.Body, func(nd ast.Node) bool {
		if rs, ok := nd.(*ast.ReturnStmt); ok && rs.Pos() > first && rs.Pos() < last {
			bad = c.posOf(pk, rs.Pos())
		}
		return true
	})
	c.Check(bad == "", rule, "diff.SpecAnalyser.CompareProps › no return between the hierarchy change and the last constraint check", c.posOf(pk, fd.Pos()), "differences accumulate",
		"CompareProps returns at "+bad+" before all of the hierarchy, string and numeric checks ran: when the format (or type) changed in a compatible way, a narrowed bound, length, pattern or enum in the same edit is not reported")
}

var twinAbsentRx = regexp.MustCompile(`^(.+)\.([A-Z]\w*) == nil$|^len\((.+)\.([A-Z]\w*)\) == 0$`)

// checkTwinShortcuts: a shortcut (early return) guarded by the absence of the same attribute
// on both specs may only fire when it is absent from both: absent on one side and present on
// the other is precisely a difference to report.
func checkTwinShortcuts(c *Ctx, rule string, r *goan.Rel) {
	c.Rule(rule, "an early return guarded by the absence of one attribute in spec 1 and in spec 2 fires only when it is absent from both", 1)
	pk := r.Pkg
	info := pk.TypesInfo
	n := 0
	for _, fd := range load.AllFuncs(pk) {
		fd := fd
		ast.Inspect(fd.Body, func(nd ast.Node) bool {
			is, ok := nd.(*ast.IfStmt)
			if !ok || len(is.Body.List) == 0 || !goan.Terminates(info, is.Body.List) {
				return true
			}
			atoms := map[string]bool{}
			boolAtoms(is.Cond, atoms)
			type at struct {
				text string
				side goan.Side
			}
			byField := map[string][]at{}
			var collect func(e ast.Expr)
			collect = func(e ast.Expr) {
				switch x := ast.Unparen(e).(type) {
				case *ast.BinaryExpr:
					if x.Op == token.LAND || x.Op == token.LOR {
						collect(x.X)
						collect(x.Y)
						return
					}
					txt := goan.ExprString(x)
					if m := twinAbsentRx.FindStringSubmatch(txt); m != nil {
						field := m[2] + m[4]
						byField[field] = append(byField[field], at{txt, r.SideOf(x.X)})
					}
				case *ast.UnaryExpr:
					if x.Op == token.NOT {
						collect(x.X)
					}
				}
			}
			collect(is.Cond)
			for field, as := range byField {
				var a1, a2 string
				for _, a := range as {
					if a.side == goan.S1 {
						a1 = a.text
					}
					if a.side == goan.S2 {
						a2 = a.text
					}
				}
				if a1 == "" || a2 == "" {
					continue
				}
				n++
				bad := ""
				for _, v := range [][2]bool{{true, false}, {false, true}} {
					env := map[string]bool{}
					for a := range atoms {
						env[a] = false
					}
					env[a1], env[a2] = v[0], v[1]
					if boolEval(is.Cond, env) {
						bad = fmt.Sprintf("absent in spec 1=%v, absent in spec 2=%v", v[0], v[1])
					}
				}
				c.Check(bad == "", rule, fmt.Sprintf("diff.%s › shortcut on .%s absent on both sides", load.FuncName(fd), field), c.posOf(pk, is.Pos()), "fires only when absent from both specs",
					fmt.Sprintf("`%s` returns early with %s: an attribute present in one spec only — an addition or a removal — is never compared", goan.ExprString(is.Cond), bad))
			}
			return true
		})
	}
	if n == 0 {
		c.Unk(rule, "diff › twin absence shortcuts", "", "no shortcut testing one attribute on both sides found (anchor: CompareProperties)")
	}
}

// checkComparedAsDeclared: the lists handed to DiffsTo are the documents' own lists: no
// function is applied to them on the way (a normalisation that merges two declared values
// hides the removal of one of them).
func checkComparedAsDeclared(c *Ctx, pk *packages.Package) {
	rule := "C13.R4.as-declared"
	c.Rule(rule, "the lists compared by DiffsTo (consumes, produces, schemes, tags, enums) are the declared ones, not the result of a normalising call", 5)
	info := pk.TypesInfo
	plain := func(e ast.Expr) bool {
		ok := true
		ast.Inspect(e, func(n ast.Node) bool {
			if call, isCall := n.(*ast.CallExpr); isCall {
				// conversions to the package's own array/map adapters are the receiver idiom
				if id, isId := call.Fun.(*ast.Ident); isId && (id.Name == "fromStringArray" || id.Name == "fromStringMap" || id.Name == "fromMap") {
					return true
				}
				if tv, isT := info.Types[call.Fun]; isT && tv.IsType() {
					return true
				}
				ok = false
			}
			return true
		})
		return ok
	}
	for _, fd := range load.AllFuncs(pk) {
		fd := fd
		ast.Inspect(fd.Body, func(n ast.Node) bool {
			call, ok := n.(*ast.CallExpr)
			if !ok || len(call.Args) != 1 {
				return true
			}
			se, ok := call.Fun.(*ast.SelectorExpr)
			if !ok || se.Sel.Name != "DiffsTo" {
				return true
			}
			okP := plain(se.X) && plain(call.Args[0])
			c.Check(okP, rule, fmt.Sprintf("diff.%s › %s", load.FuncName(fd), goan.ExprString(call)), c.posOf(pk, call.Pos()), "declared lists compared as they are",
				fmt.Sprintf("`%s` compares the result of a function applied to the declared lists: values the function maps to the same result (media types differing by a parameter…) are merged, so removing one of them is not reported", goan.ExprString(call)))
			return true
		})
	}
}

// diffLoopExits: the reviewed early exits and conditional collections of the diff package's loops over spec collections.
var diffLoopExits = map[string]string{
	"diff.SpecAnalyser.analyzeSchemaExtensions › loop over spec.Schema #1 › break #1":                    "‹int› >= len(‹*spec.Schema›.Items.Schemas) ⇒ tuple items are compared position by position: the other tuple is shorter, the remaining items have no counterpart to compare extensions with",
	"diff.SpecAnalyser.analyzeOperationExtensions › loop over diff.PathItemOp #1 › conditional store #1": "‹bool› ∧ !‹bool› ⇒ path-level extensions are compared once per path: the set of paths already done, filled under its own presence test",
	"diff.SpecAnalyser.analyzeOperationExtensions › loop over diff.PathItemOp #2 › conditional store #1": "‹bool› ∧ !‹bool› ⇒ same, for deleted extensions",
	"diff.getParams › loop over spec.Parameter #1 › conditional store #1":                                "‹spec.Parameter›.In == ‹string› ⇒ parameters of the location being compared (the caller loops over the five locations)",
	"diff.getParams › loop over spec.Parameter #2 › conditional store #1":                                "‹spec.Parameter›.In == ‹string› ⇒ same, operation-level parameters",
}

// checkBothPresent: a difference that is only looked for when the attribute is present (non-nil,
// non-empty, true) on BOTH sides leaves the one-sided cases — attribute added, attribute removed,
// default spelled out — to someone else: the same function must emit something under a one-sided
// trigger over that attribute, otherwise those changes are reported by nobody.
func checkBothPresent(c *Ctx, rule string, r *goan.Rel) {
	c.Rule(rule, "an emission triggered by a difference of attribute A under 'A present on both sides' has a sibling emission in the same function under a one-sided trigger over A", 1)
	pk := r.Pkg
	directed := func(k string) bool {
		switch k {
		case "true1-false2", "false1-true2", "nil1-nonnil2", "nonnil1-nil2", "missing-in-1", "missing-in-2":
			return true
		}
		return strings.HasPrefix(k, "only1:") || strings.HasPrefix(k, "only2:")
	}
	inter := func(a, b []string) bool {
		for _, x := range a {
			for _, y := range b {
				if x == y {
					return true
				}
			}
		}
		return false
	}
	presence := regexp.MustCompile(`^(!=|==) .* (""|nil) $|^nil\?|^(>|==|!=) call len .* 0 $`)
	// expected count on a correct tree is zero: keep a positive control of the predicate recogniser
	ctl := presence.MatchString(`!= . § CollectionFormat "" `) && presence.MatchString("nil?. § Default ") && presence.MatchString("> call len § 0 ") && !presence.MatchString("call isArray § ")
	c.Check(ctl, rule, "positive control › presence predicates are recognised", "", "non-empty / non-nil / len tests match, kind predicates do not", "the recogniser of presence predicates no longer matches the engine's rendering: the rule would pass vacuously")
	for _, s := range r.Sites {
		var diffNames, bothNames []string
		for _, t := range s.Derived {
			if t.Kind == "neq" || t.Kind == "gt(2>1)" || t.Kind == "lt(2<1)" {
				diffNames = append(diffNames, t.Names...)
			}
		}
		// presence predicates (nil / empty tests) that hold the same value on both sides
		type pv struct {
			v1, v2 string
			fields []string
		}
		preds := map[string]*pv{}
		for _, a := range s.Atoms {
			if a.Kind != goan.AUnary || !presence.MatchString(a.Pred) {
				continue
			}
			p := preds[a.Pred]
			if p == nil {
				p = &pv{}
				preds[a.Pred] = p
			}
			if a.Side == goan.S1 {
				p.v1 = a.Val
			} else if a.Side == goan.S2 {
				p.v2 = a.Val
			}
			p.fields = append(p.fields, a.Fields...)
		}
		for _, p := range preds {
			if p.v1 != "" && p.v1 == p.v2 {
				bothNames = append(bothNames, p.fields...)
			}
		}
		if len(diffNames) == 0 || len(bothNames) == 0 || !inter(diffNames, bothNames) {
			continue
		}
		var attr []string
		for _, n := range diffNames {
			for _, m := range bothNames {
				if n == m {
					attr = append(attr, n)
				}
			}
		}
		ok := false
		for _, o := range r.Sites {
			if o.Fn != s.Fn || o == s {
				continue
			}
			for _, t := range o.Derived {
				if directed(t.Kind) && inter(t.Names, attr) {
					ok = true
				}
			}
		}
		code := s.Code
		if code == "" && s.Param != nil {
			code = "param:" + s.Param.Name()
		}
		c.Check(ok, rule, fmt.Sprintf("diff.%s › %s compared only when present on both sides", s.FnName, strings.Join(attr, ",")), c.posOf(pk, s.Pos), "a sibling emission covers the one-sided cases",
			fmt.Sprintf("%s is emitted for a difference of %s only when it is present on both sides, and nothing in %s is emitted when it is present on one side only: an attribute that appears, disappears or replaces its default goes unreported", code, strings.Join(attr, ","), s.FnName))
	}
}

// checkDeprecatedDowngrade: deleting an endpoint is downgraded to a non-breaking change when the
// endpoint was deprecated — which is a fact about that operation, read from its own Deprecated
// flag, never from a sibling operation of the same path item.
func checkDeprecatedDowngrade(c *Ctx, rule string, pk *packages.Package) {
	c.Rule(rule, "the condition that selects DeletedDeprecatedEndpoint reads the Deprecated flag of the deleted operation only", 1)
	fd := load.FuncDecl(pk, "SpecAnalyser.findDeletedEndpoints")
	if fd == nil {
		c.Anchor(rule, "diff.SpecAnalyser.findDeletedEndpoints", "not found")
		return
	}
	n := 0
	ast.Inspect(fd.Body, func(nd ast.Node) bool {
		ifs, ok := nd.(*ast.IfStmt)
		if !ok {
			return true
		}
		selects := false
		ast.Inspect(ifs.Body, func(m ast.Node) bool {
			if id, ok := m.(*ast.Ident); ok && id.Name == "DeletedDeprecatedEndpoint" {
				selects = true
			}
			return true
		})
		if !selects {
			return true
		}
		n++
		var foreign []string
		own := 0
		ast.Inspect(ifs.Cond, func(m ast.Node) bool {
			se, ok := m.(*ast.SelectorExpr)
			if !ok || se.Sel.Name != "Deprecated" {
				return true
			}
			if inner, ok := ast.Unparen(se.X).(*ast.SelectorExpr); ok && inner.Sel.Name == "Operation" {
				own++
			} else {
				foreign = append(foreign, goan.ExprString(se))
			}
			return true
		})
		c.Check(own >= 1 && len(foreign) == 0, rule, "diff.SpecAnalyser.findDeletedEndpoints › deprecated means this operation was deprecated", c.posOf(pk, ifs.Pos()), "reads <op>.Operation.Deprecated only",
			fmt.Sprintf("the downgrade to DeletedDeprecatedEndpoint also reads %v: deleting a live operation is reported as non-breaking because another operation of the path is deprecated", foreign))
		return true
	})
	if n == 0 {
		c.Unk(rule, "diff.SpecAnalyser.findDeletedEndpoints › selection of DeletedDeprecatedEndpoint", c.posOf(pk, fd.Pos()), "no condition selecting DeletedDeprecatedEndpoint found")
	}
}

// checkMediaCoverage: "a consumed media type is removed" can happen in the document's list and in an
// operation's own list; both must be handed to DiffsTo.
func checkMediaCoverage(c *Ctx, rule string, pk *packages.Package) {
	c.Rule(rule, "the functions that diff string lists read the consumes and produces lists of the document and of the operations", 4)
	info := pk.TypesInfo
	owners := map[string]bool{}
	for _, fd := range load.AllFuncs(pk) {
		fd := fd
		usesDiffsTo := false
		ast.Inspect(fd.Body, func(n ast.Node) bool {
			if call, ok := n.(*ast.CallExpr); ok {
				if fn := goan.Callee(info, call); fn != nil && fn.Name() == "DiffsTo" {
					usesDiffsTo = true
				}
			}
			return true
		})
		if !usesDiffsTo {
			continue
		}
		ast.Inspect(fd.Body, func(n ast.Node) bool {
			se, ok := n.(*ast.SelectorExpr)
			if !ok || (se.Sel.Name != "Consumes" && se.Sel.Name != "Produces") {
				return true
			}
			if sel := info.Selections[se]; sel != nil {
				if v, ok := sel.Obj().(*types.Var); ok && v.IsField() {
					// the struct that declares the field: SwaggerProps or OperationProps
					owner := ""
					for _, tn := range []string{"SwaggerProps", "OperationProps"} {
						if o := v.Pkg().Scope().Lookup(tn); o != nil {
							if st, ok := o.Type().Underlying().(*types.Struct); ok {
								for i := 0; i < st.NumFields(); i++ {
									if st.Field(i) == v {
										owner = tn
									}
								}
							}
						}
					}
					if owner != "" {
						owners[owner+"."+se.Sel.Name] = true
					}
				}
			}
			return true
		})
	}
	for _, want := range []string{"SwaggerProps.Consumes", "SwaggerProps.Produces", "OperationProps.Consumes", "OperationProps.Produces"} {
		c.Check(owners[want], rule, "diff › "+want+" is diffed", "", "read in a function that calls DiffsTo",
			want+" is never handed to the list comparison: a media type removed from that list is not reported")
	}
}

// checkNoComparisonState: what the analyser learns about one spec must not outlive the
// comparison or be shared between the two specs. A package-level variable written while
// comparing (a cache keyed by $ref, by name) answers for spec 2 with what was computed for
// spec 1 — the same $ref names a definition in both — and hides every change inside it.
func checkNoComparisonState(c *Ctx, rule string, pk *packages.Package) {
	c.Rule(rule, "the diff package writes no package-level variable outside initialisation (no cache shared between the two specs or between comparisons)", 1)
	pkgs := []*packages.Package{pk}
	initOnly := goan.InitOnly(pkgs)
	n := 0
	for _, gs := range goan.FindGlobalStores(pkgs) {
		fn, _ := gs.Pkg.TypesInfo.Defs[gs.Fn.Name].(*types.Func)
		n++
		key := fmt.Sprintf("diff.%s › store to %s", gs.FnName, gs.Var.Name())
		c.Check(fn != nil && initOnly[fn], rule, key, c.posOf(pk, gs.Pos), "runs only during package initialisation",
			fmt.Sprintf("%s writes the package-level variable %s (%s) while comparing: the two specs (and successive comparisons) share it, so a lookup for the new spec can be answered with what was stored for the old one and the change between them is not seen", gs.FnName, gs.Var.Name(), gs.Kind))
	}
	if n == 0 {
		c.Ok(rule, "diff › no store to package-level variables", "", "none found")
	}
}

// Value ranges of the numeric type.format names of Swagger 2.0 (and of the aliases the table
// uses): lo/hi as powers of two (sign, exponent) are enough to compare them.
var numericRanges = map[string]struct {
	lo, hi  float64
	integer bool
}{
	"integer":        {-2.2e9, 2.2e9, true}, // no format: the table's own convention ranks it with int32 (the narrowest reading)
	"long":           {-9.3e18, 9.3e18, true},
	"integer.int64":  {-9.3e18, 9.3e18, true},
	"integer.int32":  {-2.2e9, 2.2e9, true},
	"integer.int16":  {-32768, 32767, true},
	"integer.int8":   {-128, 127, true},
	"integer.uint64": {0, 1.9e19, true},
	"integer.uint32": {0, 4.3e9, true},
	"integer.uint16": {0, 65535, true},
	"integer.uint8":  {0, 255, true},
	"number":         {-1.7e308, 1.7e308, false},
	"double":         {-1.7e308, 1.7e308, false},
	"number.double":  {-1.7e308, 1.7e308, false},
	"float":          {-3.5e38, 3.5e38, false},
	"number.float":   {-3.5e38, 3.5e38, false},
}

// checkWidenessInclusion: numberWideness ranks numeric types so that "rank did not decrease" can
// be reported as compatible. That is sound only if the ranks respect inclusion of value sets: a
// type ranked no higher than another accepts nothing the other rejects.
func checkWidenessInclusion(c *Ctx, rule string, pk *packages.Package) {
	c.Rule(rule, "numberWideness: rank(a) ≤ rank(b) only if every value of a is a value of b (ranges of the Swagger numeric formats); every row names a known format", 9)
	rows := goan.Rows(load.PkgVarValue(pk, "numberWideness"))
	if len(rows) == 0 {
		c.Anchor(rule, "diff.numberWideness", "package-level map literal not found")
		return
	}
	info := pk.TypesInfo
	type row struct {
		name string
		rank int64
		pos  token.Pos
	}
	var rs []row
	for _, r := range rows {
		k, ok := goan.StringVal(info, r.Key)
		v := goan.ConstVal(info, r.Val)
		if !ok || v == nil {
			c.Unk(rule, "diff.numberWideness › row "+goan.ExprString(r.Key), c.posOf(pk, r.Key.Pos()), "row is not a constant")
			continue
		}
		n, _ := constant.Int64Val(v)
		rs = append(rs, row{k, n, r.Key.Pos()})
	}
	for _, a := range rs {
		ra, known := numericRanges[a.name]
		if !known {
			c.Bad(rule, "diff.numberWideness › "+a.name, c.posOf(pk, a.pos), "the row names a type.format whose value range is not in the reference table: decide which types it includes and is included in")
			continue
		}
		var bad []string
		for _, b := range rs {
			rb, ok := numericRanges[b.name]
			if !ok || a.name == b.name || a.rank > b.rank {
				continue
			}
			// a is ranked no wider than b: a ⊆ b must hold
			if ra.lo < rb.lo || ra.hi > rb.hi || (!ra.integer && rb.integer) {
				bad = append(bad, fmt.Sprintf("%s (rank %d)", b.name, b.rank))
			}
		}
		c.Check(len(bad) == 0, rule, "diff.numberWideness › "+a.name, c.posOf(pk, a.pos), fmt.Sprintf("rank %d respects inclusion", a.rank),
			fmt.Sprintf("%s has rank %d, not above %v, but accepts values those types reject: a change from %s to one of them narrows what a client may send and is reported as an equivalent or widened type (non-breaking)", a.name, a.rank, bad, a.name))
	}
}

// checkPresencePure: "is this key of one spec present in the other" is answered by the lookup
// alone. A second condition next to `!ok` (the new operation has a default response, the item is
// optional, …) decides that some deletions or additions do not count, and those are not reported.
func checkPresencePure(c *Ctx, rule string, pk *packages.Package) {
	c.Rule(rule, "`if _, ok := M[k]; …` (value discarded) in the diff package is decided by ok alone (`ok` or `!ok`, no further condition)", 10)
	info := pk.TypesInfo
	for _, fd := range load.AllFuncs(pk) {
		if fd.Body == nil {
			continue
		}
		ord := 0
		ast.Inspect(fd.Body, func(n ast.Node) bool {
			ifs, ok := n.(*ast.IfStmt)
			if !ok || ifs.Init == nil {
				return true
			}
			as, ok := ifs.Init.(*ast.AssignStmt)
			if !ok || len(as.Lhs) != 2 || len(as.Rhs) != 1 {
				return true
			}
			ix, ok := ast.Unparen(as.Rhs[0]).(*ast.IndexExpr)
			if !ok {
				return true
			}
			if mt := info.TypeOf(ix.X); mt == nil {
				return true
			} else if _, isMap := mt.Underlying().(*types.Map); !isMap {
				return true
			}
			okID, _ := as.Lhs[1].(*ast.Ident)
			if okID == nil || okID.Name == "_" {
				return true
			}
			if v, _ := as.Lhs[0].(*ast.Ident); v == nil || v.Name != "_" {
				return true // the value is used: a comparison of values, not a presence test
			}
			okObj := info.ObjectOf(okID)
			ord++
			cond := ast.Unparen(ifs.Cond)
			if ue, isNot := cond.(*ast.UnaryExpr); isNot && ue.Op == token.NOT {
				cond = ast.Unparen(ue.X)
			}
			pure := identIs(info, cond, okObj)
			c.Check(pure, rule, fmt.Sprintf("diff.%s › presence test #%d (%s) decided by the lookup alone", load.FuncName(fd), ord, types.TypeString(info.TypeOf(ix.X), func(*types.Package) string { return "" })), c.posOf(pk, ifs.Pos()), "condition "+goan.ExprString(ifs.Cond),
				fmt.Sprintf("the presence test `%s` carries a second condition (%s): keys that are missing on the other side but fail it are treated as present, and their deletion or addition is not reported", goan.ExprString(as.Rhs[0]), goan.ExprString(ifs.Cond)))
			return true
		})
	}
}

// checkEnumAnyType: an enum narrows the values of a parameter or property of any primitive
// type. The comparison of the two enums must not sit behind a test for the string type.
func checkEnumAnyType(c *Ctx, rule string, pk *packages.Package) {
	c.Rule(rule, "CompareEnums over the schema properties of the two specs is not guarded by a test on the string type", 1)
	info := pk.TypesInfo
	n := 0
	for _, fd := range load.AllFuncs(pk) {
		if fd.Body == nil {
			continue
		}
		goan.WalkGuards(info, fd.Body, func(leaf ast.Node, guards []goan.Lit, _ []ast.Stmt) {
			ast.Inspect(leaf, func(m ast.Node) bool {
				if _, isLit := m.(*ast.FuncLit); isLit {
					return false
				}
				call, ok := m.(*ast.CallExpr)
				if !ok {
					return true
				}
				fn := goan.Callee(info, call)
				if fn == nil || fn.Name() != "CompareEnums" || fn.Pkg() != pk.Types {
					return true
				}
				n++
				var bad []string
				for _, g := range guards {
					if strings.Contains(goan.ExprString(g.E), "StringType") && g.Pos {
						bad = append(bad, g.String())
					}
				}
				c.Check(len(bad) == 0, rule, fmt.Sprintf("diff.%s › CompareEnums for every type", load.FuncName(fd)), c.posOf(pk, call.Pos()), "no string-type guard",
					fmt.Sprintf("the enums are compared only under %v: an integer, number or boolean enum that loses a value is reported as unchanged", bad))
				return true
			})
		})
	}
	if n == 0 {
		c.Anchor(rule, "diff › CompareEnums call", "not found")
	}
}

// checkItemsCompared: forParam / forHeader describe the array itself; what its items accept is
// in Items, which CompareProps does not descend into. Wherever a parameter or a header of one
// spec is compared with its twin, their items are compared too.
func checkItemsCompared(c *Ctx, rule string, pk *packages.Package) {
	c.Rule(rule, "every function that compares forParam(…) or forHeader(…) of the two specs also compares their Items (compareItems)", 2)
	info := pk.TypesInfo
	n := 0
	for _, fd := range load.AllFuncs(pk) {
		if fd.Body == nil {
			continue
		}
		uses := map[string]bool{}
		itemsArgs := map[string]bool{}
		ast.Inspect(fd.Body, func(m ast.Node) bool {
			call, ok := m.(*ast.CallExpr)
			if !ok {
				return true
			}
			fn := goan.Callee(info, call)
			if fn == nil || fn.Pkg() != pk.Types {
				return true
			}
			switch fn.Name() {
			case "forParam", "forHeader":
				uses[fn.Name()] = true
			case "compareItems":
				for _, a := range call.Args {
					if goan.LastSel(a) == "Items" {
						itemsArgs[goan.ExprString(a)] = true
					}
				}
			}
			return true
		})
		for which := range uses {
			n++
			c.Check(len(itemsArgs) >= 2, rule, fmt.Sprintf("diff.%s › %s twins have their items compared", load.FuncName(fd), which), c.posOf(pk, fd.Pos()), fmt.Sprintf("compareItems(%d Items arguments)", len(itemsArgs)),
				fmt.Sprintf("%s compares the two %s values but not their Items: narrowing what the items of an array parameter or header accept (enum, lengths, bounds, pattern) is reported as no change", load.FuncName(fd), strings.TrimPrefix(which, "for")))
		}
	}
	if n == 0 {
		c.Anchor(rule, "diff › forParam / forHeader comparisons", "none found")
	}
}

// outcomeFlagAround: the name of a local boolean variable read by a condition around the call
// and assigned the constant true somewhere in the function ("" when there is none).
func outcomeFlagAround(info *types.Info, fd *ast.FuncDecl, call *ast.CallExpr) string {
	if fd == nil || fd.Body == nil {
		return ""
	}
	raised := map[types.Object]bool{}
	ast.Inspect(fd.Body, func(n ast.Node) bool {
		as, ok := n.(*ast.AssignStmt)
		if !ok || len(as.Lhs) != len(as.Rhs) {
			return true
		}
		for i, l := range as.Lhs {
			id, ok := l.(*ast.Ident)
			if !ok || !goan.IsIdent(as.Rhs[i], "true") {
				continue
			}
			if v, ok := info.ObjectOf(id).(*types.Var); ok && !v.IsField() && v.Pkg() != nil && v.Parent() != v.Pkg().Scope() {
				raised[v] = true
			}
		}
		return true
	})
	flag := ""
	ast.Inspect(fd.Body, func(n ast.Node) bool {
		ifs, ok := n.(*ast.IfStmt)
		if !ok || !(ifs.Body.Pos() <= call.Pos() && call.End() <= ifs.Body.End()) {
			return true
		}
		ast.Inspect(ifs.Cond, func(m ast.Node) bool {
			if id, ok := m.(*ast.Ident); ok && raised[info.Uses[id]] {
				flag = id.Name
			}
			return true
		})
		return true
	})
	return flag
}

// Returns of the analyser taken because a comparison found a difference. Each one ends the
// comparison of everything the function has not looked at yet, so it needs a reason why nothing
// further can be said.
var differenceExitsReviewed = map[string]string{
	"SpecAnalyser.compareSchema › after CheckRefChange":            "the two schemas point to different definitions: the change of reference is the difference, the definitions are compared on their own",
	"SpecAnalyser.CompareProps › after CheckToFromPrimitiveType":   "one schema is a primitive and the other is not: no attribute of the one has a counterpart in the other",
	"SpecAnalyser.CompareProps › after CompareIntValues(MinItems)": "both are arrays: what follows in this function (reference, primitive type, string and numeric attributes) does not apply to an array, and the items are compared by the caller",
	"SpecAnalyser.CompareProps › after CheckRefChange":             "the two schemas point to different definitions: the change of reference is the difference",
}

// checkDifferenceExits: "a difference was found" is not a reason to stop comparing. A return
// under `len(diffs) > 0` alone — diffs being the list a comparison just returned — leaves out
// the attributes compared further down (items, properties) whenever an earlier one changed too.
func checkDifferenceExits(c *Ctx, rule string, pk *packages.Package) {
	c.Rule(rule, "no function of the analyser returns merely because a comparison reported differences (`if len(diffs) > 0 { …; return }`) while it has further comparisons to make, except at reviewed sites", 1)
	info := pk.TypesInfo
	isDiffList := func(t types.Type) bool {
		sl, ok := t.Underlying().(*types.Slice)
		if !ok {
			return false
		}
		n := goan.NamedName(sl.Elem())
		return n == "TypeDiff" || n == "SpecDifference"
	}
	seen := map[string]bool{}
	for _, fd := range load.AllFuncs(pk) {
		if fd.Body == nil {
			continue
		}
		for i, st := range fd.Body.List {
			ifs, ok := st.(*ast.IfStmt)
			if !ok || len(ifs.Body.List) == 0 || ifs.Else != nil {
				continue
			}
			if _, ok := ifs.Body.List[len(ifs.Body.List)-1].(*ast.ReturnStmt); !ok {
				continue
			}
			be, ok := ast.Unparen(ifs.Cond).(*ast.BinaryExpr)
			if !ok || be.Op != token.GTR {
				continue
			}
			call, ok := ast.Unparen(be.X).(*ast.CallExpr)
			if !ok || len(call.Args) != 1 || !goan.IsIdent(call.Fun, "len") || !isDiffList(info.TypeOf(call.Args[0])) {
				continue
			}
			id, ok := ast.Unparen(call.Args[0]).(*ast.Ident)
			if !ok {
				continue
			}
			// the comparison that filled the list: the last assignment before the test
			from := ""
			for _, a := range goan.AssignmentsTo(info, fd.Body, info.ObjectOf(id)) {
				if a.Rhs == nil || a.Rhs.Pos() > ifs.Pos() {
					continue
				}
				if rc, ok := ast.Unparen(a.Rhs).(*ast.CallExpr); ok {
					if fn := goan.Callee(info, rc); fn != nil {
						from = fn.Name()
					} else if goan.IsIdent(rc.Fun, "append") && len(rc.Args) == 2 {
						// diffs = append(diffs, part...): the comparison that made the part
						from = "append"
						if pid, ok := ast.Unparen(rc.Args[1]).(*ast.Ident); ok {
							if pe, ok := ast.Unparen(goan.ResolveLocal(info, fd.Body, pid)).(*ast.CallExpr); ok {
								if fn := goan.Callee(info, pe); fn != nil {
									from = fn.Name()
									if lab, ok := goan.StringVal(info, pe.Args[0]); ok {
										from += "(" + lab + ")"
									}
								}
							}
						}
					}
				}
			}
			// anything left to compare?
			more := false
			for _, later := range fd.Body.List[i+1:] {
				ast.Inspect(later, func(n ast.Node) bool {
					if rc, ok := n.(*ast.CallExpr); ok {
						if fn := goan.Callee(info, rc); fn != nil && fn.Pkg() == pk.Types && (strings.HasPrefix(strings.ToLower(fn.Name()), "compare") || strings.HasPrefix(strings.ToLower(fn.Name()), "check")) {
							more = true
						}
					}
					return true
				})
			}
			if !more {
				continue
			}
			key := load.FuncName(fd) + " › after " + from
			seen[key] = true
			why, ok := differenceExitsReviewed[key]
			c.Check(ok, rule, "diff."+key, c.posOf(pk, ifs.Pos()), "reviewed: "+why,
				"the function returns as soon as "+from+" reports a difference, before the comparisons that follow (items, properties …): when two attributes change together only the first is reported — maxItems 5→10 hides the items' maxLength 50→5, and a narrowing passes for compatible")
		}
	}
	for k := range differenceExitsReviewed {
		if !seen[k] {
			c.Anchor(rule, "diff."+k, "reviewed exit not found")
		}
	}
}

// checkKindExits: where the analyser stops comparing two schemas after it has recorded differences
// (`if len(diffs) > 0 { record; if COND { return } }` with comparisons still to come), COND may tell
// schemas of another kind apart and nothing else: it reads the Type of the two schemas through
// functions of other packages only. A rendering helper of the analyser (getSchemaTypeStr spells the
// item type and the format into the string) makes an array whose items changed "another kind", and
// the items are never compared.
func checkKindExits(c *Ctx, rule string, pk *packages.Package) {
	c.Rule(rule, "a return nested under a found-differences test, with comparisons still to come, is conditioned on the Type of the two schemas only (no helper of the analyser, no other field)", 1)
	info := pk.TypesInfo
	n := 0
	for _, fd := range load.AllFuncs(pk) {
		if fd.Body == nil {
			continue
		}
		params := map[types.Object]bool{}
		if fd.Type.Params != nil {
			for _, f := range fd.Type.Params.List {
				for _, nm := range f.Names {
					params[info.ObjectOf(nm)] = true
				}
			}
		}
		for i, st := range fd.Body.List {
			outer, ok := st.(*ast.IfStmt)
			if !ok || outer.Else != nil {
				continue
			}
			be, ok := ast.Unparen(outer.Cond).(*ast.BinaryExpr)
			if !ok || be.Op != token.GTR {
				continue
			}
			lc, ok := ast.Unparen(be.X).(*ast.CallExpr)
			if !ok || !goan.IsIdent(lc.Fun, "len") || len(lc.Args) != 1 {
				continue
			}
			if sl, ok := info.TypeOf(lc.Args[0]).Underlying().(*types.Slice); !ok || (goan.NamedName(sl.Elem()) != "TypeDiff" && goan.NamedName(sl.Elem()) != "SpecDifference") {
				continue
			}
			more := false
			for _, later := range fd.Body.List[i+1:] {
				ast.Inspect(later, func(m ast.Node) bool {
					if rc, ok := m.(*ast.CallExpr); ok {
						if fn := goan.Callee(info, rc); fn != nil && fn.Pkg() == pk.Types && (strings.HasPrefix(strings.ToLower(fn.Name()), "compare") || strings.HasPrefix(strings.ToLower(fn.Name()), "check")) {
							more = true
						}
					}
					return true
				})
			}
			if !more {
				continue
			}
			for _, in := range outer.Body.List {
				inner, ok := in.(*ast.IfStmt)
				if !ok || len(inner.Body.List) == 0 {
					continue
				}
				if _, ok := inner.Body.List[len(inner.Body.List)-1].(*ast.ReturnStmt); !ok {
					continue
				}
				n++
				bad := ""
				reads := map[string]bool{}
				var visit func(m ast.Node) bool
				depth := 0
				visit = func(m ast.Node) bool {
					switch x := m.(type) {
					case *ast.CallExpr:
						if fn := goan.Callee(info, x); fn != nil && fn.Pkg() == pk.Types {
							bad = "it calls " + fn.Name() + ", a helper of the analyser, whose result depends on more than the kind of the schema"
						}
					case *ast.SelectorExpr:
						if root, ok := ast.Unparen(x.X).(*ast.Ident); ok && params[info.ObjectOf(root)] {
							reads[root.Name+"."+x.Sel.Name] = true
							if x.Sel.Name != "Type" {
								bad = "it reads " + goan.ExprString(x)
							}
							return false
						}
					case *ast.Ident:
						if params[info.ObjectOf(x)] {
							bad = "it hands the whole of " + x.Name + " to the test"
						} else if v, ok := info.ObjectOf(x).(*types.Var); ok && v.Pkg() == pk.Types && v.Parent() != pk.Types.Scope() && !v.IsField() && depth < 4 {
							// a local: what it was computed from
							if def := goan.ResolveLocal(info, fd.Body, x); def != nil && def != ast.Expr(x) {
								depth++
								ast.Inspect(def, visit)
								depth--
							}
						}
					}
					return true
				}
				ast.Inspect(inner.Cond, visit)
				if bad == "" && len(reads) != 2 {
					bad = "it does not read the Type of both schemas"
				}
				key := "diff." + load.FuncName(fd) + " › kind exit after " + goan.ExprString(lc.Args[0])
				c.Check(bad == "", rule, key, c.posOf(pk, inner.Pos()), "conditioned on "+goan.ExprString(inner.Cond),
					"the comparison stops under `"+goan.ExprString(inner.Cond)+"`: "+bad+" — an array whose maxItems and item type change together is taken for a schema of another kind, its items are not compared and the narrowing of the items is reported by nothing")
			}
		}
	}
	if n == 0 {
		c.Anchor(rule, "diff › kind exit of compareSchema", "not found")
	}
}
