package props

import (
	"fmt"
	"go/ast"
	"path"
	"regexp"
	"sort"
	"strings"

	"golang.org/x/tools/go/packages"

	"verif/tool/goan"
	"verif/tool/load"
	"verif/tool/tmpl"
)

var (
	rxImportBlock = regexp.MustCompile(`(?m)^import \(\n([\s\S]*?)\n\)`)
	rxImportLine  = regexp.MustCompile(`(?m)^\s*(?:([A-Za-z_]\w*)\s+)?"([^"]+)"`)
	rxQualifier   = regexp.MustCompile(`([A-Za-z_]\w*)\.([A-Z]\w*)`)
	rxLineComment = regexp.MustCompile(`(?m)//.*$`)
	rxStringLit   = regexp.MustCompile("\"(?:[^\"\\\\\n]|\\\\.)*\"|`[^`]*`")
	rxVersionElem = regexp.MustCompile(`^v[0-9]+$`)
)

// checkImportsExplicit: a generated file whose template writes its own import block names, in
// that block, every package its literal text refers to. A qualifier left to goimports is
// resolved by looking around the target (module, vendor, GOPATH): the file then depends on
// what is already on disk, and differs from a fresh generation.
func checkImportsExplicit(c *Ctx, rule string, gen *packages.Package) {
	c.Rule(rule, "every package qualifier written literally in a template (or in the templates it calls) is imported literally by the template's own import block — nothing is left for goimports to resolve from the target's surroundings", 10)
	f := c.Forest(gen, "")
	// the universe of package names: what the generator depends on, plus every package of the
	// libraries the templates import (the code they generate may use any of them)
	lin := map[string]*tmpl.Linear{}
	get := func(n string) *tmpl.Linear {
		if l, ok := lin[n]; ok {
			return l
		}
		t := f.Trees[n]
		if t == nil || t.Tree == nil || t.Tree.Root == nil {
			lin[n] = nil
			return nil
		}
		lin[n] = tmpl.Linearise(t)
		return lin[n]
	}
	patterns := map[string]bool{"./generator": true}
	for _, name := range f.Names() {
		if l := get(name); l != nil {
			if m := rxImportBlock.FindStringSubmatch(l.Text); m != nil {
				for _, im := range rxImportLine.FindAllStringSubmatch(m[1], -1) {
					if parts := strings.Split(im[2], "/"); len(parts) >= 3 && strings.Contains(parts[0], ".") {
						patterns[strings.Join(parts[:3], "/")+"/..."] = true
					}
				}
			}
		}
	}
	var pats []string
	for p := range patterns {
		pats = append(pats, p)
	}
	sort.Strings(pats)
	nameOf, err := load.PackageNames(c.RepoDir, pats...)
	if err != nil || len(nameOf) == 0 {
		c.Unk(rule, "package names", "", fmt.Sprintf("cannot list the packages of %v: %v", pats, err))
		return
	}
	// the packages a generation writes next to each other (their default names): a template that names one
	// of them literally must be handed its import too
	universe := map[string]bool{"cli": true, "client": true, "models": true, "operations": true, "restapi": true}
	for _, n := range nameOf {
		if n != "main" {
			universe[n] = true
		}
	}
	c.Analysed("package names known to the build (qualifier universe)", len(universe))
	// aliases the generator hands to the templates under constant keys: X.DefaultImports["k"] = …
	dataAliases := map[string]bool{}
	for _, fd := range load.AllFuncs(gen) {
		if fd.Body == nil {
			continue
		}
		ast.Inspect(fd.Body, func(n ast.Node) bool {
			as, ok := n.(*ast.AssignStmt)
			if !ok || len(as.Lhs) != 1 {
				return true
			}
			ix, ok := ast.Unparen(as.Lhs[0]).(*ast.IndexExpr)
			if !ok || goan.LastSel(ix.X) != "DefaultImports" {
				return true
			}
			if k, ok := goan.StringVal(gen.TypesInfo, ix.Index); ok && k != "" {
				dataAliases[k] = true
			}
			return true
		})
	}
	rxAction := regexp.MustCompile(`⟦[^⟧]*⟧`)
	strip := func(s string) string {
		// template actions are not Go text (their arguments look like declarations: `(json .Default)`)
		s = rxAction.ReplaceAllString(s, "⟦⟧")
		s = rxStringLit.ReplaceAllString(s, `""`)
		return rxLineComment.ReplaceAllString(s, "")
	}
	roots := 0
	for _, name := range f.Names() {
		l := get(name)
		if l == nil || strings.HasPrefix(l.Tree.Asset, "contrib/") {
			continue
		}
		m := rxImportBlock.FindStringSubmatch(l.Text)
		if m == nil {
			continue
		}
		roots++
		imported := map[string]bool{}
		for _, im := range rxImportLine.FindAllStringSubmatch(m[1], -1) {
			switch {
			case im[1] != "":
				imported[im[1]] = true
			case nameOf[im[2]] != "":
				imported[nameOf[im[2]]] = true
			default:
				base := path.Base(im[2])
				if rxVersionElem.MatchString(base) {
					base = path.Base(path.Dir(im[2]))
				}
				imported[base] = true
			}
		}
		if strings.Contains(l.Text, "imports .DefaultImports") {
			for k := range dataAliases {
				imported[k] = true
			}
		}
		// closure over template calls
		closure := []string{name}
		seen := map[string]bool{name: true}
		for i := 0; i < len(closure); i++ {
			if cl := get(closure[i]); cl != nil {
				for _, call := range cl.Calls {
					if !seen[call.Name] && f.Trees[call.Name] != nil {
						seen[call.Name] = true
						closure = append(closure, call.Name)
					}
				}
			}
		}
		var all strings.Builder
		for _, n := range closure {
			if cl := get(n); cl != nil {
				all.WriteString(strip(cl.Text))
				all.WriteString("\n")
			}
		}
		text := all.String()
		declared := func(id string) bool {
			q := regexp.QuoteMeta(id)
			for _, pat := range []string{
				`(?:^|[^\w.])` + q + `\s*(?:,\s*[\w.\[\]]+\s*)*:=`, // id := / id, x :=
				`,\s*` + q + `\s*(?:,\s*\w+\s*)*:=`,                // x, id :=
				`\bvar\s+` + q + `\b`,
				`[(,]\s*` + q + `\s+[*\[\]\w.]+\s*[,)]`, // parameter
				`\bfunc\s*\(\s*` + q + `\s`,              // receiver
				`\bfor\s+(?:\w+\s*,\s*)?` + q + `\b`,
				`\b` + q + `\s+[*\[\]\w.{}]+\s*\n`, // struct field / var line
			} {
				if regexp.MustCompile(`(?m)` + pat).MatchString(text) {
					return true
				}
			}
			return false
		}
		missing := map[string]bool{}
		for _, q := range rxQualifier.FindAllStringSubmatchIndex(text, -1) {
			id := text[q[2]:q[3]]
			if q[0] > 0 {
				prev := text[q[0]-1]
				if prev == '.' || prev == ')' || prev == ']' || prev == '_' || (prev >= 'a' && prev <= 'z') || (prev >= 'A' && prev <= 'Z') || (prev >= '0' && prev <= '9') || prev == '\xa7' {
					continue
				}
				if strings.HasSuffix(text[:q[0]], "⟧") {
					continue // continues an action: {{ .Pkg }}name.X is not a qualifier of its own
				}
			}
			if !universe[id] || imported[id] || missing[id] {
				continue
			}
			if declared(id) {
				continue
			}
			missing[id] = true
		}
		var ms []string
		for id := range missing {
			ms = append(ms, id)
		}
		sort.Strings(ms)
		c.Check(len(ms) == 0, rule, l.Tree.Asset+" › "+name+" › qualifiers imported", l.Tree.File, fmt.Sprintf("%d literal imports, %d templates in the closure", len(imported), len(closure)),
			fmt.Sprintf("the generated code refers to package(s) %v which the template's import block does not import: goimports resolves the name from what it finds around the target, so the file depends on the content of the target and differs from a fresh generation (or does not compile)", ms))
	}
	c.Analysed("templates with an import block", roots)
}

// checkExtraSchemaImports: the anonymous objects of a definition that are given a type of their
// own (ExtraSchemas) are written into the definition's file. The imports of that file are
// collected by findImports: it must be applied to the extra schemas as well as to the
// definition, or a package only they refer to (x-go-type with an import) is missing.
func checkExtraSchemaImports(c *Ctx, rule string, gen *packages.Package) {
	c.Rule(rule, "where a GenDefinition is assembled, findImports is applied to the definition's schema and to each of its extra schemas", 1)
	info := gen.TypesInfo
	n := 0
	for _, fd := range load.AllFuncs(gen) {
		if fd.Body == nil {
			continue
		}
		var lit *ast.CompositeLit
		ast.Inspect(fd.Body, func(m ast.Node) bool {
			if cl, ok := m.(*ast.CompositeLit); ok && goan.NamedName(info.TypeOf(cl)) == "GenDefinition" {
				for _, el := range cl.Elts {
					if kv, ok := el.(*ast.KeyValueExpr); ok && goan.IsIdent(kv.Key, "Imports") {
						lit = cl
					}
				}
			}
			return true
		})
		if lit == nil {
			continue
		}
		n++
		overExtras := false
		ast.Inspect(fd.Body, func(m ast.Node) bool {
			rs, ok := m.(*ast.RangeStmt)
			if !ok {
				return true
			}
			if se, ok := ast.Unparen(rs.X).(*ast.SelectorExpr); !ok || se.Sel.Name != "ExtraSchemas" {
				return true
			}
			ast.Inspect(rs.Body, func(k ast.Node) bool {
				if call, ok := k.(*ast.CallExpr); ok {
					if fn := goan.Callee(info, call); fn != nil && fn.Name() == "findImports" {
						overExtras = true
					}
				}
				return true
			})
			return true
		})
		c.Check(overExtras, rule, "generator."+load.FuncName(fd)+" › imports of the extra schemas", c.posOf(gen, lit.Pos()), "findImports inside a range over ExtraSchemas",
			"the imports of a definition's file are collected from the definition's own schema only: an anonymous object lifted into a type of its own (items of an array of objects) that refers to an imported package (x-go-type with an import) leaves the file without that import, and the generated model does not build (`undefined: <alias>`)")
	}
	if n == 0 {
		c.Anchor(rule, "generator › GenDefinition{… Imports: …}", "not found")
	}
}
