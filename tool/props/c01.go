package props

import (
	"go/constant"
	"fmt"
	"go/ast"
	"go/token"
	"go/types"
	"os"
	"path/filepath"
	"regexp"
	"sort"
	"strings"

	"golang.org/x/tools/go/packages"

	"verif/tool/goan"
	"verif/tool/load"
	"verif/tool/tmpl"
)

func init() { register("C01", checkC01) }

// Reviewed conditional typing findings: (define, type, field) with the reason.
var c01TypingAllow = map[string]string{
	"slicequeryparambuilder|GenItems|ID":   "guarded by `if not .Child.Parent`: Parent is set only on nested items (MakeParameterItem), so the branch runs with the top-level GenParameter, which has ID",
	"slicepathparambuilder|GenItems|ID":    "same guard as slicequeryparambuilder",
	"sliceserverheaderbuilder|GenItems|ID": "guarded by `if not .Child.Parent`: runs with the top-level GenHeader only (MakeHeaderItem sets Parent on nested items)",
}

func checkC01(c *Ctx) {
	c.Explain("generated code builds — structural necessary conditions: (R1) every field/method access of every template, in every instantiation (template × static type of dot, derived from the section tables and render functions), resolves against the Go view-model with go/types; (R2) template closure: every called template is defined, every function used is registered (DefaultFuncMap ∪ sprig ∪ builtins), registered assets ↔ files, section sources exist; (R3) name→Go-symbol tables: stringConverters/stringFormatters have equal key sets and name swag functions of the right signature, every Go type named in typeMapping/formatMapping exists in the dependency it names, zeroes has a row for each that type-checks to that type, customFormatters ⊇ the strfmt types formatMapping can produce, producer/consumer expressions resolve in runtime/yamlpc; (R4) the reserved-word list contains every Go keyword and feeds the mangler's set; (R6) setKind sets exactly one shape flag per kind; (R7) local string-keyed maps are read and written with the same key normalisation. " +
		"Decides these conditions, not compilability of the emitted text for every spec and option combination.")
	c.Assume("a field access that does not resolve makes text/template fail at run time; unknown (interface-typed) values are never flagged")
	ev, roots, gen := c.evalTemplates("")
	info := gen.TypesInfo

	// ---- R1 typing
	c.Rule("C01.R1.template-typing", "every field/method access in every (template, dot type) instantiation resolves against the view-model", 200)
	c.Check(ev.Accesses >= 9000 && len(ev.Instantiations) >= 200 && len(roots) >= 22, "C01.R1.template-typing", "coverage: accesses/instantiations/roots", "",
		fmt.Sprintf("%d accesses in %d instantiations from %d roots, %d unknown-typed", ev.Accesses, len(ev.Instantiations), len(roots), ev.Unknown),
		fmt.Sprintf("coverage fell: %d accesses (floor 9000), %d instantiations (floor 200), %d roots (floor 22)", ev.Accesses, len(ev.Instantiations), len(roots)))
	for inst := range ev.Instantiations {
		c.Ok("C01.R1.template-typing", "instantiation "+inst, "", "walked")
	}
	seenF := map[string]bool{}
	for _, f := range ev.Findings {
		onType := f.OnType
		if i := strings.LastIndexByte(onType, '.'); i >= 0 {
			onType = onType[i+1:]
		}
		k := f.Define + "|" + onType + "|" + f.Field
		key := fmt.Sprintf("%s › %s › %s on %s", f.Tree.Asset, f.Define, f.Chain, f.OnType)
		if seenF[key] {
			continue
		}
		seenF[key] = true
		if why, ok := c01TypingAllow[k]; ok && !f.Definite {
			c.Ok("C01.R1.template-typing", key, f.Tree.PosStr(f.Pos), "reviewed conditional access: "+why)
			continue
		}
		c.Bad("C01.R1.template-typing", key, f.Tree.PosStr(f.Pos), fmt.Sprintf("%s has no field or method %q (instantiation %s, definite=%v): template execution fails with \"can't evaluate field\" when this branch runs", f.OnType, f.Field, f.Inst, f.Definite))
	}
	for _, r := range roots {
		c.Check(r.Type != nil && ev.F.Trees[r.Asset] != nil, "C01.R1.template-typing", "root "+r.Asset+" ("+r.Section+")", "", "data type "+typeStr(r.Type), "section source "+r.Asset+" has no template or no data type could be derived from the render function")
	}

	// ---- R2 closure
	c.Rule("C01.R2.template-closure", "called templates defined; functions registered; assets ↔ files; protected templates exist", 60)
	for _, u := range ev.Undefined {
		c.Bad("C01.R2.template-closure", "undefined template "+u, "", "template is called but defined nowhere: generation fails at run time")
	}
	var ufs []string
	for f := range ev.UnknownFuncs {
		ufs = append(ufs, f)
	}
	sort.Strings(ufs)
	for _, f := range ufs {
		c.Bad("C01.R2.template-closure", "unknown function "+f, ev.UnknownFuncs[f], "function is not in DefaultFuncMap, sprig or the builtins: the template does not parse at start-up")
	}
	var fns []string
	for f := range ev.FuncUses {
		fns = append(fns, f)
	}
	sort.Strings(fns)
	for _, f := range fns {
		if _, bad := ev.UnknownFuncs[f]; !bad {
			c.Ok("C01.R2.template-closure", "function "+f, "", fmt.Sprintf("registered (%d uses)", ev.FuncUses[f]))
		}
	}
	for _, m := range ev.F.Missing {
		c.Bad("C01.R2.template-closure", "asset "+m, "", "registered asset has no file: MustAsset panics at start-up")
	}
	for _, u := range ev.F.Unlisted {
		c.Bad("C01.R2.template-closure", "file "+u, "", "template file is not registered in defaultAssets: its defines are never loaded")
	}
	for _, pe := range ev.F.ParseErrs {
		c.Bad("C01.R2.template-closure", "parse "+pe, "", "template does not parse")
	}
	for _, d := range ev.F.Duplicates {
		c.Bad("C01.R2.template-closure", "duplicate "+d, "", "template defined twice: the later file silently overrides the earlier")
	}
	for a := range ev.F.Assets {
		c.Ok("C01.R2.template-closure", "asset "+a, "", "file present and parsed")
	}
	stale := 0
	for p := range ev.F.Protected {
		if ev.F.Trees[p] == nil {
			stale++
		}
	}
	c.Note("%d protected-template names have no template in the forest (stale protection rows; harmless, not a rule)", stale)

	// ---- R3 tables
	checkFormatTables(c, "C01.R3.symbol-tables", gen)

	// ---- R4 reserved words
	checkReservedWords(c, gen)

	// ---- R6 setKind
	checkSetKind(c, gen, info)

	// ---- R7 key normalisation
	checkKeyNormalisation(c, "C01.R7.map-keys", gen)

	// ---- R8 platform suffixes
	checkPlatformSuffixes(c, "C01.R8.file-suffixes", gen)
	checkStreamingFlag(c, gen)
	c.Rule("C01.R10.conditional-decls", "an identifier of the generated code whose declarations are all conditional is used only under conditions that imply one of them", 5)
	checkConditionalDecls(c, "C01.R10.conditional-decls", ev, ev.F.Names())

	if c.Contrib == "" {
		// the contributed template sets replace the client and server templates only: the CLI templates are
		// written against the standard client (`generate cli --template stratoscale` is not a supported pairing)
		checkCallSignature(c, "C01.R12.call-signature", ev)
	}
	checkFoldedPatterns(c, "C01.R13.folded-names", gen)
	checkValidationLifts(c, "C01.R15.validation-lifts", gen)
	if c.Contrib == "" {
		checkGeneratedCalls(c, "C01.R12.generated-calls", ev)
		checkPointerMarkers(c, "C01.R12.pointer-markers", ev)
		// a package the generated code refers to and nothing imports compiles only if goimports finds it
		checkImportsExplicit(c, "C01.R16.imports-explicit", gen)
		checkKeyedStores(c, "C01.R17.keyed-stores", gen, 1)
		checkFallbackSource(c, "C01.R18.fallback-source", gen, 1)
		// text that ends its comment or string too early leaves code the formatter rejects: generation fails
		checkContextKinds(c, "C01.R19.context-kind", ev, checkExampleIsJSON(c, "C01.R19.example-json", gen))
		checkIdentifierHeads(c, "C01.R20.identifier-heads", ev)
		checkExtraSchemaImports(c, "C01.R16.extra-schema-imports", gen)
		checkReceiverArgs(c, "C01.R20.receiver-args", ev)
		checkParamMethodNames(c, "C01.R12.param-method-names", ev)
		checkAliasQualifiers(c, "C01.R12.alias-qualifiers", ev)
		checkDeclaredUsed(c, "C01.R10.declared-used", ev)
		checkSiblingFlagDefinitions(c, "C01.R10.sibling-flags", gen, "GenItems", "NeedsIndex", 3)
	}
	checkVersionedImports(c, "C01.R14.versioned-imports", gen)
	checkEnumVariantTable(c, "C01.R20.enum-variant-table", gen)

	// ---- R9 code swallowed by a comment
	c.Rule("C01.R9.commented-code", "no template text holding Go statement tokens (`:=`, `err != nil`, `if err`, `func (`, `); err`) is lexed inside a comment in any instantiation (whitespace trimming that glues code onto a comment line)", 1)
	if got := tmpl.MarkersInComments(tmpl.LLine, "C := f()\n"); len(got) != 1 {
		c.Unk("C01.R9.commented-code", "positive control", "", "the detector does not flag `:=` on a comment line")
	} else {
		c.Ok("C01.R9.commented-code", "positive control", "", "detector flags `:=` continuing a comment line")
	}
	seenCC := map[string]bool{}
	for _, cc := range ev.CommentedCode {
		key := fmt.Sprintf("%s › %s › %q in a %s", cc.Tree.Asset, cc.Inst[:strings.IndexByte(cc.Inst, '|')], cc.Marker, cc.Entry)
		if seenCC[key+cc.Tree.PosStr(cc.Pos)] {
			continue
		}
		seenCC[key+cc.Tree.PosStr(cc.Pos)] = true
		c.Bad("C01.R9.commented-code", key, cc.Tree.PosStr(cc.Pos), fmt.Sprintf("template text containing %q is emitted while the output is inside a %s: the statement becomes part of the comment and the declaration it makes is missing from the generated code", cc.Marker, cc.Entry))
	}
	c.Analysed("text nodes lexed", len(ev.Emits))
}

// strTable reads a package-level map[string]string literal.
func strTable(pk *packages.Package, name string) (map[string]string, token.Pos) {
	v := load.PkgVarValue(pk, name)
	out := map[string]string{}
	if v == nil {
		return nil, token.NoPos
	}
	for _, r := range goan.Rows(v) {
		k, ok1 := goan.StringVal(pk.TypesInfo, r.Key)
		val, ok2 := goan.StringVal(pk.TypesInfo, r.Val)
		if ok1 && ok2 {
			out[k] = val
		} else if ok1 {
			out[k] = ""
		}
	}
	return out, v.Pos()
}

// depScope builds a scope in which `strfmt.X`, `swag.X`, `runtime.X`, `io.X`, `yamlpc.X`
// expressions can be type-checked.
func depScope(prog *load.Program) *types.Package {
	fake := types.NewPackage("verif/fake", "fake")
	add := func(name, path string) {
		if pk := prog.ByPath[path]; pk != nil && pk.Types != nil {
			fake.Scope().Insert(types.NewPkgName(token.NoPos, fake, name, pk.Types))
		}
	}
	add("strfmt", "github.com/go-openapi/strfmt")
	add("swag", "github.com/go-openapi/swag")
	add("runtime", "github.com/go-openapi/runtime")
	add("yamlpc", "github.com/go-openapi/runtime/yamlpc")
	add("io", "io")
	return fake
}

func evalIn(scope *types.Package, expr string) (types.TypeAndValue, error) {
	return types.Eval(token.NewFileSet(), scope, token.NoPos, expr)
}

func checkFormatTables(c *Ctx, rule string, gen *packages.Package) {
	c.Rule(rule, "format/converter/zero/producer tables name existing Go symbols of the right type and agree with each other", 150)
	prog := c.ProgDeps("./generator", "github.com/go-openapi/runtime/yamlpc")
	scope := depScope(prog)
	conv, cpos := strTable(gen, "stringConverters")
	form, _ := strTable(gen, "stringFormatters")
	zero, zpos := strTable(gen, "zeroes")
	tmap, _ := strTable(gen, "typeMapping")
	if conv == nil || form == nil || zero == nil || tmap == nil {
		c.Anchor(rule, "generator format tables", "stringConverters/stringFormatters/zeroes/typeMapping not found as map literals")
		return
	}
	// converters / formatters
	for k := range conv {
		_, ok := form[k]
		c.Check(ok, rule, "stringFormatters › key "+k, c.posOf(gen, cpos), "present in both tables", "type "+k+" has a converter but no formatter: the client cannot render a value the server parses")
	}
	for k := range form {
		_, ok := conv[k]
		c.Check(ok, rule, "stringConverters › key "+k, c.posOf(gen, cpos), "present in both tables", "type "+k+" has a formatter but no converter")
	}
	for k, v := range conv {
		tv, err := evalIn(scope, v)
		okSig := false
		if err == nil {
			if sig, ok := tv.Type.(*types.Signature); ok && sig.Params().Len() == 1 && sig.Results().Len() == 2 &&
				sig.Params().At(0).Type().String() == "string" && sig.Results().At(0).Type().String() == k && sig.Results().At(1).Type().String() == "error" {
				okSig = true
			}
		}
		suffixOK := strings.EqualFold(strings.TrimPrefix(v, "swag.Convert"), k)
		c.Check(okSig && suffixOK, rule, fmt.Sprintf("stringConverters[%s] = %s", k, v), c.posOf(gen, cpos), "func(string) ("+k+", error)", fmt.Sprintf("%s is not a swag function of type func(string) (%s, error) named after the type (err=%v)", v, k, err))
	}
	for k, v := range form {
		tv, err := evalIn(scope, v)
		okSig := false
		if err == nil {
			if sig, ok := tv.Type.(*types.Signature); ok && sig.Params().Len() == 1 && sig.Results().Len() == 1 &&
				sig.Params().At(0).Type().String() == k && sig.Results().At(0).Type().String() == "string" {
				okSig = true
			}
		}
		suffixOK := strings.EqualFold(strings.TrimPrefix(v, "swag.Format"), k)
		c.Check(okSig && suffixOK, rule, fmt.Sprintf("stringFormatters[%s] = %s", k, v), c.posOf(gen, cpos), "func("+k+") string", fmt.Sprintf("%s is not a swag function of type func(%s) string named after the type (err=%v)", v, k, err))
	}
	// Go types named by typeMapping / formatMapping
	goTypes := map[string]string{} // type expr -> where
	for k, v := range tmap {
		goTypes[v] = "typeMapping[" + k + "]"
	}
	fm := load.PkgVarValue(gen, "formatMapping")
	strfmtTypes := map[string]bool{}
	for _, outer := range goan.Rows(fm) {
		ok, _ := goan.StringVal(gen.TypesInfo, outer.Key)
		for _, r := range goan.Rows(outer.Val) {
			ik, _ := goan.StringVal(gen.TypesInfo, r.Key)
			v, isStr := goan.StringVal(gen.TypesInfo, r.Val)
			if !isStr {
				continue
			}
			goTypes[v] = fmt.Sprintf("formatMapping[%s][%s]", ok, ik)
			if strings.HasPrefix(v, "strfmt.") {
				strfmtTypes[v] = true
			}
		}
	}
	if len(goTypes) < 30 {
		c.Anchor(rule, "generator.formatMapping", fmt.Sprintf("only %d Go types extracted", len(goTypes)))
	}
	var gts []string
	for t := range goTypes {
		gts = append(gts, t)
	}
	sort.Strings(gts)
	for _, t := range gts {
		tv, err := evalIn(scope, "(*"+t+")(nil)")
		c.Check(err == nil && tv.Type != nil, rule, goTypes[t]+" = "+t, "", "names an existing Go type", fmt.Sprintf("%s does not name a Go type in the dependency it refers to (%v): generated code would not compile", t, err))
		// zero value row
		if t == "io.ReadCloser" || t == "runtime.File" || t == "rune" {
			continue
		}
		z, has := zero[t]
		if !c.Check(has, rule, "zeroes › row "+t, c.posOf(gen, zpos), "row present", "no zero-value expression for "+t+": the generated code compares/initialises with an empty expression") {
			continue
		}
		ztv, zerr := evalIn(scope, z)
		okZ := zerr == nil
		if okZ {
			want, werr := evalIn(scope, "(*"+t+")(nil)")
			if werr == nil {
				elem := want.Type.(*types.Pointer).Elem()
				okZ = types.AssignableTo(ztv.Type, elem) || (ztv.Value != nil && types.ConvertibleTo(ztv.Type, elem))
			}
		}
		c.Check(okZ, rule, fmt.Sprintf("zeroes[%s] = %s", t, z), c.posOf(gen, zpos), "type-checks to "+t, fmt.Sprintf("zero expression %s does not type-check as a %s (%v)", z, t, zerr))
	}
	// customFormatters ⊇ strfmt types
	cf := load.PkgVarValue(gen, "customFormatters")
	cfKeys := map[string]bool{}
	for _, r := range goan.Rows(cf) {
		if k, ok := goan.StringVal(gen.TypesInfo, r.Key); ok {
			cfKeys[k] = true
		}
	}
	if len(cfKeys) == 0 {
		c.Anchor(rule, "generator.customFormatters", "not found")
	}
	var sts []string
	for t := range strfmtTypes {
		sts = append(sts, t)
	}
	sort.Strings(sts)
	for _, t := range sts {
		c.Check(cfKeys[t], rule, "customFormatters › "+t, "", "listed", t+" can be produced by formatMapping but is not a customFormatter: parameters of that format are bound as plain strings (type mismatch in the generated binder) and get no format validation")
	}
	// producers / consumers
	for _, tbl := range []struct{ name, iface string }{{"knownProducers", "Producer"}, {"knownConsumers", "Consumer"}} {
		m, pos := strTable(gen, tbl.name)
		if m == nil {
			c.Anchor(rule, "generator."+tbl.name, "not found")
			continue
		}
		want, _ := evalIn(scope, "(*runtime."+tbl.iface+")(nil)")
		for k, v := range m {
			tv, err := evalIn(scope, v)
			ok := err == nil && want.Type != nil && types.AssignableTo(tv.Type, want.Type.(*types.Pointer).Elem())
			c.Check(ok, rule, fmt.Sprintf("%s[%s] = %s", tbl.name, k, v), c.posOf(gen, pos), "a runtime."+tbl.iface, fmt.Sprintf("%s is not an expression of type runtime.%s (%v)", v, tbl.iface, err))
		}
	}
}

func checkReservedWords(c *Ctx, gen *packages.Package) {
	rule := "C01.R4.reserved-words"
	c.Rule(rule, "GoLangOpts().ReservedWords contains all 25 Go keywords; Init builds the lookup set from that slice; MangleVarName / MangleName consult it", 27)
	info := gen.TypesInfo
	fd := load.FuncDecl(gen, "GoLangOpts")
	if fd == nil {
		c.Anchor(rule, "GoLangOpts", "not found")
		return
	}
	words := map[string]bool{}
	ast.Inspect(fd.Body, func(n ast.Node) bool {
		as, ok := n.(*ast.AssignStmt)
		if !ok || len(as.Lhs) != 1 || goan.LastSel(as.Lhs[0]) != "ReservedWords" {
			return true
		}
		if cl, ok := as.Rhs[0].(*ast.CompositeLit); ok {
			for _, el := range cl.Elts {
				if s, ok := goan.StringVal(info, el); ok {
					words[s] = true
				}
			}
		}
		return true
	})
	for t := token.BREAK; t <= token.VAR; t++ {
		if !t.IsKeyword() {
			continue
		}
		c.Check(words[t.String()], rule, "ReservedWords › "+t.String(), c.posOf(gen, fd.Pos()), "listed", "Go keyword "+t.String()+" is not reserved: a parameter or property with that name becomes a Go identifier that does not compile")
	}
	// Init: for _, rw := range l.ReservedWords { l.reservedWordsSet[rw] = struct{}{} }
	if id := load.FuncDecl(gen, "LanguageOpts.Init"); id != nil {
		ok := false
		ast.Inspect(id.Body, func(n ast.Node) bool {
			rs, isR := n.(*ast.RangeStmt)
			if !isR || goan.LastSel(rs.X) != "ReservedWords" {
				return true
			}
			ast.Inspect(rs.Body, func(m ast.Node) bool {
				if as, isA := m.(*ast.AssignStmt); isA && len(as.Lhs) == 1 {
					if ix, isI := as.Lhs[0].(*ast.IndexExpr); isI && goan.LastSel(ix.X) == "reservedWordsSet" && sameIdentObj(info, ix.Index, rs.Value) {
						ok = true
					}
				}
				return true
			})
			return true
		})
		c.Check(ok, rule, "LanguageOpts.Init › reservedWordsSet built from ReservedWords", c.posOf(gen, id.Pos()), "every listed word enters the lookup set", "Init does not insert every ReservedWords element into reservedWordsSet")
	} else {
		c.Anchor(rule, "LanguageOpts.Init", "not found")
	}
	for _, fn := range []string{"LanguageOpts.MangleName", "LanguageOpts.MangleVarName"} {
		d := load.FuncDecl(gen, fn)
		if d == nil {
			c.Anchor(rule, fn, "not found")
			continue
		}
		uses := false
		ast.Inspect(d.Body, func(n ast.Node) bool {
			if se, ok := n.(*ast.SelectorExpr); ok && se.Sel.Name == "reservedWordsSet" {
				uses = true
			}
			if call, ok := n.(*ast.CallExpr); ok {
				if f := goan.Callee(info, call); f != nil && f.Name() == "MangleName" {
					uses = true
				}
			}
			return true
		})
		c.Check(uses, rule, fn+" › consults the reserved set", c.posOf(gen, d.Pos()), "looks the name up in reservedWordsSet (directly or through MangleName)", fn+" no longer consults the reserved-word set")
		// the word that is looked up is the identifier that is handed out: `_, ok := set[K]; !ok { return R }`
		// needs K to be R or a normalisation of R — never R a transformation of K (the transformed
		// spelling is the one that reaches the generated code)
		ast.Inspect(d.Body, func(n ast.Node) bool {
			ifs, ok := n.(*ast.IfStmt)
			if !ok || ifs.Init == nil {
				return true
			}
			as, ok := ifs.Init.(*ast.AssignStmt)
			if !ok || len(as.Rhs) != 1 {
				return true
			}
			ix, ok := ast.Unparen(as.Rhs[0]).(*ast.IndexExpr)
			if !ok || goan.LastSel(ix.X) != "reservedWordsSet" {
				return true
			}
			var ret ast.Expr
			for _, st := range ifs.Body.List {
				if rs, ok := st.(*ast.ReturnStmt); ok && len(rs.Results) == 1 {
					ret = rs.Results[0]
				}
			}
			if ret == nil {
				c.Unk(rule, fn+" › the looked-up word is the returned one", c.posOf(gen, ifs.Pos()), "the lookup is not of the form `if _, ok := set[K]; !ok { return R }`")
				return true
			}
			want := goan.ExprString(ret)
			contains := false
			ast.Inspect(ix.Index, func(m ast.Node) bool {
				if e, ok := m.(ast.Expr); ok && goan.ExprString(e) == want {
					contains = true
				}
				return true
			})
			c.Check(contains, rule, fn+" › the looked-up word is the returned one", c.posOf(gen, ifs.Pos()), "key "+goan.ExprString(ix.Index)+" is derived from the returned "+want,
				"the reserved-word lookup tests "+goan.ExprString(ix.Index)+" but the function hands out "+want+": the spelling that reaches the generated code (e.g. `Type` → `type`) is not the one that was tested")
			return true
		})
	}
}

func checkSetKind(c *Ctx, gen *packages.Package, info *types.Info) {
	rule := "C01.R6.kind-one-hot"
	c.Rule(rule, "resolvedType.setKind: each case sets exactly one of the seven shape flags to true and the other six to false", 6)
	fd := load.FuncDecl(gen, "resolvedType.setKind")
	if fd == nil {
		c.Anchor(rule, "resolvedType.setKind", "not found")
		return
	}
	flags := []string{"IsMap", "IsArray", "IsComplexObject", "IsInterface", "IsStream", "IsTuple", "IsPrimitive"}
	ast.Inspect(fd.Body, func(n ast.Node) bool {
		cc, ok := n.(*ast.CaseClause)
		if !ok || len(cc.List) == 0 {
			return true
		}
		var labels []string
		for _, e := range cc.List {
			if s, ok := goan.StringVal(info, e); ok {
				labels = append(labels, s)
			}
		}
		if len(labels) == 1 && labels[0] == "" {
			return true // `case "": break` — no override requested
		}
		set := map[string]string{}
		for _, st := range cc.Body {
			if as, ok := st.(*ast.AssignStmt); ok && len(as.Lhs) == 1 && len(as.Rhs) == 1 {
				if id, ok := as.Rhs[0].(*ast.Ident); ok && (id.Name == "true" || id.Name == "false") {
					set[goan.LastSel(as.Lhs[0])] = id.Name
				}
			}
		}
		trues, missing := 0, []string{}
		for _, f := range flags {
			switch set[f] {
			case "true":
				trues++
			case "":
				missing = append(missing, f)
			}
		}
		c.Check(trues == 1 && len(missing) == 0, rule, "generator.resolvedType.setKind › case "+strings.Join(labels, ","), c.posOf(gen, cc.Pos()), "one flag true, six false",
			fmt.Sprintf("case sets %d flags to true and leaves %v untouched: two shape flags can be true at once and select incompatible template branches", trues, missing))
		return true
	})
}

// checkKeyNormalisation: for a local map[string]… variable, if any index site (in the function
// or in a same-package callee receiving the map) keys it with strings.ToLower(…), all do.
func checkKeyNormalisation(c *Ctx, rule string, pk *packages.Package) {
	c.Rule(rule, "a local string-keyed map is read and written with the same key normalisation (strings.ToLower on every access or on none), including accesses in callees it is passed to", 1)
	info := pk.TypesInfo
	isLower := func(fd *ast.FuncDecl, e ast.Expr) bool {
		e = goan.ResolveLocal(info, fd.Body, e)
		found := false
		ast.Inspect(e, func(n ast.Node) bool {
			if call, ok := n.(*ast.CallExpr); ok {
				if fn := goan.Callee(info, call); fn != nil && goan.CalleeName(fn) == "strings.ToLower" {
					found = true
				}
			}
			return true
		})
		return found
	}
	type site struct {
		fn    string
		pos   token.Pos
		lower bool
		text  string
	}
	collect := func(fd *ast.FuncDecl, obj types.Object) []site {
		var out []site
		ast.Inspect(fd.Body, func(n ast.Node) bool {
			ix, ok := n.(*ast.IndexExpr)
			if !ok || !identIs(info, ix.X, obj) {
				return true
			}
			if tv, ok := info.Types[ix.Index]; ok && tv.Value != nil {
				return true // constant key
			}
			out = append(out, site{load.FuncName(fd), ix.Pos(), isLower(fd, ix.Index), goan.ExprString(ix)})
			return true
		})
		return out
	}
	n := 0
	for _, fd := range load.AllFuncs(pk) {
		fd := fd
		// local maps with string keys defined in this function
		locals := map[types.Object]bool{}
		ast.Inspect(fd.Body, func(nd ast.Node) bool {
			as, ok := nd.(*ast.AssignStmt)
			if !ok || as.Tok != token.DEFINE {
				return true
			}
			for _, l := range as.Lhs {
				if id, ok := l.(*ast.Ident); ok {
					if o := info.Defs[id]; o != nil {
						if m, ok := o.Type().Underlying().(*types.Map); ok {
							if b, ok := m.Key().Underlying().(*types.Basic); ok && b.Kind() == types.String {
								locals[o] = true
							}
						}
					}
				}
			}
			return true
		})
		for obj := range locals {
			sites := collect(fd, obj)
			// callees receiving the map
			ast.Inspect(fd.Body, func(nd ast.Node) bool {
				call, ok := nd.(*ast.CallExpr)
				if !ok {
					return true
				}
				fn := goan.Callee(info, call)
				if fn == nil || fn.Pkg() != pk.Types {
					return true
				}
				for i, a := range call.Args {
					if !identIs(info, a, obj) {
						continue
					}
					cd := load.FuncDecl(pk, fn.Name())
					if cd == nil || cd.Recv != nil {
						continue
					}
					j := 0
					for _, fl := range cd.Type.Params.List {
						for _, nm := range fl.Names {
							if j == i {
								sites = append(sites, collect(cd, info.Defs[nm])...)
							}
							j++
						}
					}
				}
				return true
			})
			lower, raw := 0, 0
			for _, s := range sites {
				if s.lower {
					lower++
				} else {
					raw++
				}
			}
			if lower == 0 {
				continue
			}
			n++
			var rawSites []string
			for _, s := range sites {
				if !s.lower {
					rawSites = append(rawSites, s.text+" in "+s.fn)
				}
			}
			c.Check(raw == 0, rule, fmt.Sprintf("%s.%s › map %s", pk.Name, load.FuncName(fd), obj.Name()), c.posOf(pk, obj.Pos()),
				fmt.Sprintf("%d accesses, all lower-cased", lower), fmt.Sprintf("%d accesses use a lower-cased key but %v do not: entries stored under one form are never found under the other", lower, rawSites))
		}
	}
	if n == 0 {
		c.Unk(rule, "no lower-cased map found", "", "the rule matched no map: anchor lost")
	}
}

// checkPlatformSuffixes: file names ending in a GOOS / GOARCH / test suffix are excluded from
// the build by the go tool; the generator's suffix table must list every such suffix known to
// the Go release in use.
func checkPlatformSuffixes(c *Ctx, rule string, gen *packages.Package) {
	c.Rule(rule, "the reserved file-name suffix tables list every GOOS and GOARCH known to the go tool (a generated file named *_<suffix>.go is silently left out of the build) and `test`", 20)
	info := gen.TypesInfo
	have := map[string]bool{}
	fdL := load.FuncDecl(gen, "GoLangOpts")
	if fdL == nil {
		c.Anchor(rule, "GoLangOpts", "not found")
		return
	}
	ast.Inspect(fdL.Body, func(n ast.Node) bool {
		as, ok := n.(*ast.AssignStmt)
		if !ok || len(as.Lhs) != 1 || len(as.Rhs) != 1 || !goan.IsIdent(as.Lhs[0], "goOtherReservedSuffixes") {
			return true
		}
		for _, r := range goan.Rows(as.Rhs[0]) {
			if s, ok := goan.StringVal(info, r.Key); ok && goan.IsIdent(r.Val, "true") {
				have[s] = true
			}
		}
		return true
	})
	if len(have) == 0 {
		c.Anchor(rule, "GoLangOpts › goOtherReservedSuffixes", "suffix table not found")
		return
	}
	// the go tool's list: go/build/syslist.go of the running toolchain
	known := goKnownOSArch()
	if len(known) < 30 {
		c.Unk(rule, "go/build known OS/arch list", "", fmt.Sprintf("only %d names read from GOROOT/src/go/build/syslist.go", len(known)))
		return
	}
	for _, k := range known {
		c.Check(have[k], rule, "goOtherReservedSuffixes › "+k, "", "listed", "the go tool treats *_"+k+".go as platform-specific, but the generator does not rename such files: a definition or operation named …_"+k+" is generated into a file that is never compiled")
	}
	c.Check(have["test"], rule, "goOtherReservedSuffixes › test", "", "listed", "*_test.go files are not part of the package build")
}

func goKnownOSArch() []string {
	prog, err := load.GoRoot()
	if err != nil {
		return nil
	}
	b, err := os.ReadFile(filepath.Join(prog, "src", "go", "build", "syslist.go"))
	if err != nil {
		return nil
	}
	var out []string
	src := string(b)
	for _, marker := range []string{"var knownOS = map[string]bool{", "var knownArch = map[string]bool{"} {
		i := strings.Index(src, marker)
		if i < 0 {
			continue
		}
		rest := src[i+len(marker):]
		j := strings.Index(rest, "\n}")
		if j < 0 {
			continue
		}
		for _, line := range strings.Split(rest[:j], "\n") {
			line = strings.TrimSpace(line)
			if strings.HasPrefix(line, "\"") {
				if k := strings.Index(line[1:], "\""); k > 0 {
					out = append(out, line[1:1+k])
				}
			}
		}
	}
	sort.Strings(out)
	return out
}

// checkStreamingFlag: the client reader declares its `writer` field under .HasStreamingResponse
// and uses it for every response whose schema is a stream; the Go side must therefore raise the
// flag when any response — default, success or any other status code — streams.
func checkStreamingFlag(c *Ctx, gen *packages.Package) {
	rule := "C01.R11.streaming-flag"
	c.Rule(rule, "HasStreamingResponse is raised from the default response, the success responses and every status-code response", 2)
	fd := load.FuncDecl(gen, "codeGenOpBuilder.MakeOperation")
	if fd == nil {
		c.Anchor(rule, "generator.codeGenOpBuilder.MakeOperation", "not found")
		return
	}
	info := gen.TypesInfo
	// the local that feeds GenOperation.HasStreamingResponse
	var flag types.Object
	ast.Inspect(fd.Body, func(n ast.Node) bool {
		if kv, ok := n.(*ast.KeyValueExpr); ok && goan.IsIdent(kv.Key, "HasStreamingResponse") {
			if id, ok := ast.Unparen(kv.Value).(*ast.Ident); ok {
				flag = info.Uses[id]
			}
		}
		return true
	})
	if flag == nil {
		c.Anchor(rule, "generator.codeGenOpBuilder.MakeOperation › HasStreamingResponse", "the field is not fed from a local")
		return
	}
	// variables tested on the way to `flag = true`, by role: the default response is the only
	// *GenResponse, the success list and the full list are the two []GenResponse / GenResponses
	ptrs, lists := map[types.Object]bool{}, map[types.Object]bool{}
	goan.WalkGuards(info, fd.Body, func(n ast.Node, guards []goan.Lit, loops []ast.Stmt) {
		as, ok := n.(*ast.AssignStmt)
		if !ok || len(as.Lhs) != 1 || !identIs(info, as.Lhs[0], flag) || !goan.IsIdent(as.Rhs[0], "true") {
			return
		}
		note := func(e ast.Node) {
			ast.Inspect(e, func(m ast.Node) bool {
				id, ok := m.(*ast.Ident)
				if !ok {
					return true
				}
				v, ok := info.Uses[id].(*types.Var)
				if !ok || v.IsField() {
					return true
				}
				switch t := v.Type().(type) {
				case *types.Pointer:
					if goan.NamedName(t.Elem()) == "GenResponse" {
						ptrs[v] = true
					}
				case *types.Slice:
					if goan.NamedName(t.Elem()) == "GenResponse" {
						lists[v] = true
					}
				case *types.Named:
					if sl, ok := t.Underlying().(*types.Slice); ok && goan.NamedName(sl.Elem()) == "GenResponse" {
						lists[v] = true
					}
				}
				return true
			})
		}
		for _, g := range guards {
			note(g.E)
		}
		for _, lp := range loops {
			if rs, ok := lp.(*ast.RangeStmt); ok {
				note(rs.X)
			}
		}
	})
	c.Check(len(ptrs) >= 1, rule, "generator.codeGenOpBuilder.MakeOperation › HasStreamingResponse considers the default response", c.posOf(gen, fd.Pos()), "raised under a test of the *GenResponse",
		"HasStreamingResponse is never raised from the default response: a streamed default response makes the generated client reader use a `writer` field its struct does not declare")
	c.Check(len(lists) >= 2, rule, "generator.codeGenOpBuilder.MakeOperation › HasStreamingResponse considers the success responses and every status-code response", c.posOf(gen, fd.Pos()), fmt.Sprintf("raised under tests of %d response lists", len(lists)),
		fmt.Sprintf("HasStreamingResponse is raised from %d of the 2 response lists (success responses, all status-code responses): a streamed (type: file) response on a code outside the list makes the generated client reader use a `writer` field that its struct does not declare — the client does not compile", len(lists)))
}

// optionalSegments lists, in order of emission, the guards (relative to the guards in force at
// start) of the conditionally emitted pieces of l.Text[start:end].
func optionalSegments(l *tmpl.Linear, start, end int) []string {
	base := len(l.GuardsAt(start))
	var out []string
	last := ""
	for off := start; off < end && off < len(l.Text); off++ {
		gs := l.GuardsAt(off)
		sig := ""
		if len(gs) > base {
			sig = tmpl.GuardString(gs[base:])
		}
		if sig != last {
			if sig != "" {
				out = append(out, sig)
			}
			last = sig
		}
	}
	return out
}

// checkCallSignature: the generated client method takes optional parameters (auth writer, stream
// writer) under view-model flags; its interface entry, its declaration and the call the CLI
// template emits must list the same optional pieces under the same flags in the same order —
// otherwise the generated CLI does not compile for the operations that raise two flags.
func checkCallSignature(c *Ctx, rule string, ev *tmpl.Evaluator) {
	c.Rule(rule, "the optional parameters of the generated client method are declared (interface, method) and passed (CLI call) under the same flags in the same order", 3)
	type site struct {
		what string
		pos  string
		segs []string
	}
	var sites []site
	collect := func(what, assetPrefix string, rx *regexp.Regexp) {
		for _, tn := range ev.F.Names() {
			l := linearOf(c, ev, tn)
			if l == nil || !strings.HasPrefix(l.Tree.Asset, assetPrefix) {
				continue
			}
			for _, oc := range l.Find(rx) {
				open := oc.End - 1
				args := l.CallArgs(open)
				sites = append(sites, site{fmt.Sprintf("%s › %s › %s", l.Tree.Asset, tn, what), l.Tree.PosStr(oc.Pos), optionalSegments(l, open, open+len(args)+1)})
			}
		}
	}
	collect("ClientService interface entry", "client/", regexp.MustCompile(`(?m)^\s*⟦pascalize \.Name⟧\(`))
	nIface := len(sites)
	collect("client method", "client/", regexp.MustCompile(`func \(\w+ \*Client\) ⟦pascalize \.Name⟧\(`))
	nDecl := len(sites) - nIface
	collect("CLI call", "cli/", regexp.MustCompile(`\.⟦-? ?pascalize \.Package ?⟧\.⟦pascalize \.Name⟧\(`))
	nCall := len(sites) - nIface - nDecl
	if nDecl == 0 || nCall == 0 {
		c.Unk(rule, "client method / CLI call", "", fmt.Sprintf("%d interface entries, %d declarations, %d calls found", nIface, nDecl, nCall))
		return
	}
	var ref *site
	for i := range sites {
		if strings.HasSuffix(sites[i].what, "client method") {
			ref = &sites[i]
			break
		}
	}
	for _, s := range sites {
		same := strings.Join(s.segs, " ; ") == strings.Join(ref.segs, " ; ")
		c.Check(same, rule, s.what, s.pos, "optional pieces: "+strings.Join(s.segs, " ; "),
			fmt.Sprintf("optional pieces are emitted as [%s] but the client method declares [%s]: for an operation raising both flags the generated code passes the arguments in the wrong positions and does not compile", strings.Join(s.segs, " ; "), strings.Join(ref.segs, " ; ")))
	}
}

// checkFoldedPatterns: ManglePackageName lower-cases what it is given (swag.ToFileName), so a
// pattern that classifies a name before it is mangled (the vN → versionN rename) must see the
// name as it will be written: case-insensitive pattern, or lower-cased argument.
func checkFoldedPatterns(c *Ctx, rule string, gen *packages.Package) {
	c.Rule(rule, "a regular expression that classifies a name which the same function then hands to ManglePackageName (lower-casing) is case-insensitive or is applied to the lower-cased name", 1)
	info := gen.TypesInfo
	// package-level regexps compiled from a literal
	lits := map[types.Object]string{}
	for _, f := range gen.Syntax {
		for _, d := range f.Decls {
			gd, ok := d.(*ast.GenDecl)
			if !ok || gd.Tok != token.VAR {
				continue
			}
			for _, sp := range gd.Specs {
				vs := sp.(*ast.ValueSpec)
				for i, nm := range vs.Names {
					if i >= len(vs.Values) {
						continue
					}
					if call, ok := vs.Values[i].(*ast.CallExpr); ok && len(call.Args) == 1 {
						if fn := goan.Callee(info, call); fn != nil && goan.CalleeName(fn) == "regexp.MustCompile" {
							if lit, ok := goan.StringVal(info, call.Args[0]); ok {
								lits[info.Defs[nm]] = lit
							}
						}
					}
				}
			}
		}
	}
	n := 0
	for _, fd := range load.AllFuncs(gen) {
		fd := fd
		// variables handed to ManglePackageName in this function
		mangled := map[types.Object]bool{}
		ast.Inspect(fd.Body, func(nd ast.Node) bool {
			if call, ok := nd.(*ast.CallExpr); ok {
				if fn := goan.Callee(info, call); fn != nil && fn.Name() == "ManglePackageName" && len(call.Args) > 0 {
					ast.Inspect(call.Args[0], func(m ast.Node) bool {
						if id, ok := m.(*ast.Ident); ok {
							if o := info.Uses[id]; o != nil {
								mangled[o] = true
							}
						}
						return true
					})
				}
			}
			return true
		})
		if len(mangled) == 0 {
			continue
		}
		ast.Inspect(fd.Body, func(nd ast.Node) bool {
			call, ok := nd.(*ast.CallExpr)
			if !ok || len(call.Args) != 1 {
				return true
			}
			se, ok := call.Fun.(*ast.SelectorExpr)
			if !ok {
				return true
			}
			rid, ok := se.X.(*ast.Ident)
			if !ok {
				return true
			}
			pat, isRx := lits[info.Uses[rid]]
			if !isRx {
				return true
			}
			arg, ok := ast.Unparen(call.Args[0]).(*ast.Ident)
			if !ok || !mangled[info.Uses[arg]] {
				return true // applied to a derived value (e.g. strings.ToLower(tag)): not this rule's shape
			}
			n++
			hasLetters := regexp.MustCompile(`[A-Za-z]`).MatchString(regexp.MustCompile(`\\.|\(\?[a-z]+\)`).ReplaceAllString(pat, ""))
			c.Check(!hasLetters || strings.Contains(pat, "(?i)"), rule, fmt.Sprintf("generator.%s › %s applied to %s", load.FuncName(fd), rid.Name, arg.Name), c.posOf(gen, call.Pos()), "pattern "+pat+" is case-insensitive",
				fmt.Sprintf("pattern %s is case-sensitive but %s is lower-cased by ManglePackageName afterwards: a tag spelled in the other case (V2) escapes the rename and yields the package name the rename exists to avoid (a /vN import path, whose package name goimports does not resolve)", pat, arg.Name))
			return true
		})
	}
	if n == 0 {
		c.Unk(rule, "patterns applied before ManglePackageName", "", "no instance found (expected versionedPkgRex in analyzeTags)")
	}
}

// checkVersionedImports: the go tools assume that the package behind an import path ending in
// /vN is named after the element before it, unless they can read the package from disk. The
// generated import block must therefore spell the alias out for such paths: what goimports
// makes of a bare import would otherwise depend on what a previous run left in the target.
func checkVersionedImports(c *Ctx, rule string, gen *packages.Package) {
	c.Rule(rule, "GoLangOpts().ImportsFunc emits the bare form of an import only when the alias is the last path element and that element is not a major-version suffix (vN)", 1)
	info := gen.TypesInfo
	fd := load.FuncDecl(gen, "GoLangOpts")
	if fd == nil {
		c.Anchor(rule, "generator.GoLangOpts", "not found")
		return
	}
	var lit *ast.FuncLit
	ast.Inspect(fd.Body, func(n ast.Node) bool {
		if as, ok := n.(*ast.AssignStmt); ok && len(as.Lhs) == 1 && goan.LastSel(as.Lhs[0]) == "ImportsFunc" {
			lit, _ = as.Rhs[0].(*ast.FuncLit)
		}
		return true
	})
	if lit == nil {
		c.Anchor(rule, "generator.GoLangOpts › ImportsFunc", "not assigned a function literal")
		return
	}
	found, ok := false, false
	ast.Inspect(lit.Body, func(n ast.Node) bool {
		ifs, isIf := n.(*ast.IfStmt)
		if !isIf || ifs.Else == nil {
			return true
		}
		// the else branch emits the bare form: a Sprintf whose format has a single %q verb
		bare := false
		ast.Inspect(ifs.Else, func(m ast.Node) bool {
			if call, isC := m.(*ast.CallExpr); isC && len(call.Args) >= 1 {
				if f, okS := goan.StringVal(info, call.Args[0]); okS && strings.Count(f, "%") == 1 && strings.Contains(f, "%q") {
					bare = true
				}
			}
			return true
		})
		if !bare {
			return true
		}
		found = true
		// the aliased branch is taken when a version-like last element is seen
		ast.Inspect(ifs.Cond, func(m ast.Node) bool {
			call, isC := m.(*ast.CallExpr)
			if !isC || len(call.Args) != 1 {
				return true
			}
			se, isS := call.Fun.(*ast.SelectorExpr)
			if !isS || se.Sel.Name != "MatchString" {
				return true
			}
			if pat, okL := packageRegexpLiteral(gen, se.X); okL {
				if rx, err := regexp.Compile(pat); err == nil && rx.MatchString("v2") && rx.MatchString("v10") && !rx.MatchString("models") && !rx.MatchString("v") {
					ok = true
				}
			}
			return true
		})
		return true
	})
	c.Check(found && ok, rule, "generator.GoLangOpts › ImportsFunc › …/vN imports are aliased", c.posOf(gen, lit.Pos()), "the bare form is not used when the last path element matches the version pattern",
		"ImportsFunc emits a bare import for a path ending in /vN: goimports resolves its package name from the target directory, so the first generation into an empty target drops the import (code that does not compile) and a second run differs")
}

// checkValidationLifts: HasValidations makes the templates emit a Validate call on the member.
// io.ReadCloser aliases (streams) and interface{} have no Validate method: every condition that
// lifts HasValidations for a $ref'ed / aliased / complex member and excludes interfaces must exclude
// streams in the same breath (12 of 12 sites do on the reviewed tree).
func checkValidationLifts(c *Ctx, rule string, gen *packages.Package) {
	c.Rule(rule, "a condition under which HasValidations is set to true and that excludes IsInterface also excludes IsStream", 6)
	n := 0
	ord := map[string]int{}
	for _, fd := range load.AllFuncs(gen) {
		fd := fd
		ast.Inspect(fd.Body, func(nd ast.Node) bool {
			ifs, ok := nd.(*ast.IfStmt)
			if !ok {
				return true
			}
			sets := false
			for _, st := range ifs.Body.List {
				if as, ok := st.(*ast.AssignStmt); ok && len(as.Lhs) == 1 && len(as.Rhs) == 1 {
					if ln := goan.LastSel(as.Lhs[0]); (ln == "HasValidations" || ln == "hasValidations" || ln == "hasValidation" || ln == "hv") && goan.IsIdent(as.Rhs[0], "true") {
						sets = true
					}
				}
			}
			if !sets {
				return true
			}
			// the condition excludes interfaces (a negation whose operand mentions IsInterface)
			excludes := false
			ast.Inspect(ifs.Cond, func(m ast.Node) bool {
				if un, ok := m.(*ast.UnaryExpr); ok && un.Op == token.NOT && strings.Contains(goan.ExprString(un.X), "IsInterface") {
					excludes = true
				}
				return true
			})
			if !excludes {
				return true
			}
			n++
			streams := false
			ast.Inspect(ifs.Cond, func(m ast.Node) bool {
				if un, ok := m.(*ast.UnaryExpr); ok && un.Op == token.NOT && strings.Contains(goan.ExprString(un.X), "IsStream") {
					streams = true
				}
				return true
			})
			ord[load.FuncName(fd)]++
			c.Check(streams, rule, fmt.Sprintf("generator.%s › HasValidations lift #%d excludes streams with interfaces", load.FuncName(fd), ord[load.FuncName(fd)]), c.posOf(gen, ifs.Pos()), "streams excluded together with interfaces",
				"the lift of HasValidations under `"+goan.ExprString(ifs.Cond)+"` excludes interface{} members but not streams: a member that is (an alias of) io.ReadCloser gets a Validate call that does not compile")
			return true
		})
	}
	if n < 6 {
		c.Unk(rule, "generator › HasValidations lifts", "", fmt.Sprintf("%d conditions found", n))
	}
}

// checkEnumVariantTable: cleanupEnumVariant spells the characters a Go identifier cannot hold, and that the
// name mangler would drop, into words before an enum value becomes the name of a constant: values that differ
// by such a character only (`A` / `A+`, `C` / `C++`, `v1.0` / `v10`, `a-b` / `ab`, `#1` / `1`) must not end up
// as one name declared twice. Reviewed set: . + - # — each present, with a replacement of its own.
func checkEnumVariantTable(c *Ctx, rule string, gen *packages.Package) {
	c.Rule(rule, "replaceSpecialChar has a row for each of . + - # and no two rows give the same word", 4)
	info := gen.TypesInfo
	rows := map[rune]string{}
	var at token.Pos
	for _, fd := range load.AllFuncs(gen) {
		if fd.Body == nil || fd.Recv != nil || fd.Name.Name != "replaceSpecialChar" {
			continue
		}
		at = fd.Pos()
		ast.Inspect(fd.Body, func(m ast.Node) bool {
			cc, ok := m.(*ast.CaseClause)
			if !ok {
				return true
			}
			word := ""
			for _, st := range cc.Body {
				if rs, ok := st.(*ast.ReturnStmt); ok && len(rs.Results) == 1 {
					word, _ = goan.StringVal(info, rs.Results[0])
				}
			}
			for _, e := range cc.List {
				if tv, ok := info.Types[e]; ok && tv.Value != nil {
					if v, ok := constant.Int64Val(constant.ToInt(tv.Value)); ok {
						rows[rune(v)] = word
					}
				}
			}
			return true
		})
	}
	if at == token.NoPos {
		c.Anchor(rule, "generator.replaceSpecialChar", "not found")
		return
	}
	words := map[string]rune{}
	for _, r := range []rune{'.', '+', '-', '#'} {
		key := "generator.replaceSpecialChar › row '" + string(r) + "'"
		w, ok := rows[r]
		switch {
		case !ok || strings.Trim(w, "-") == "":
			c.Bad(rule, key, c.posOf(gen, at), "no word for '"+string(r)+"': the mangler drops the character, so two enum values that differ by it only (`A` and `A"+string(r)+"`) get the same constant name and the generated package declares it twice")
		case words[w] != 0:
			c.Bad(rule, key, c.posOf(gen, at), "'"+string(r)+"' and '"+string(words[w])+"' are both spelled "+w+": enum values that differ by one for the other get the same constant name")
		default:
			words[w] = r
			c.Ok(rule, key, c.posOf(gen, at), w)
		}
	}
}
