package props

import (
	"go/ast"
	"go/types"
	"strconv"

	"golang.org/x/tools/go/packages"

	"verif/tool/goan"
	"verif/tool/load"
)

// checkIndexOrigin: where a function walks nested slices with several running indices, an
// element is written (or read) at an index that was obtained from the same slice: the key of a
// range over it, or a variable that only ever received such keys and constants. An index taken
// from another slice addresses whatever happens to stand there — in WithAutoXOrder, a constraint
// of the property (maxLength, minimum …) replaced by a second x-order key.
func checkIndexOrigin(c *Ctx, rule string, pk *packages.Package, fn string, floor int) {
	c.Rule(rule, "in "+fn+", a slice is indexed by a variable only with keys of a range over that same slice (or a variable that received nothing but such keys and constants)", floor)
	fd := load.FuncDecl(pk, fn)
	if fd == nil || fd.Body == nil {
		c.Anchor(rule, pk.Name+"."+fn, "not found")
		return
	}
	info := pk.TypesInfo
	// range keys: object → the ranged collection
	keyOf := map[types.Object]types.Object{}
	ast.Inspect(fd.Body, func(n ast.Node) bool {
		rs, ok := n.(*ast.RangeStmt)
		if !ok {
			return true
		}
		k, ok := rs.Key.(*ast.Ident)
		if !ok || k.Name == "_" {
			return true
		}
		if x, ok := ast.Unparen(rs.X).(*ast.Ident); ok {
			if ko, xo := info.ObjectOf(k), info.ObjectOf(x); ko != nil && xo != nil {
				keyOf[ko] = xo
			}
		}
		return true
	})
	// origin(v): the collections whose keys v may hold; "" entry for an unknown source
	var origin func(v types.Object, depth int) (map[types.Object]bool, bool)
	origin = func(v types.Object, depth int) (map[types.Object]bool, bool) {
		out := map[types.Object]bool{}
		if x, ok := keyOf[v]; ok {
			out[x] = true
			return out, true
		}
		if depth > 3 {
			return out, false
		}
		as := goan.AssignmentsTo(info, fd.Body, v)
		if len(as) == 0 {
			return out, false
		}
		known := true
		for _, a := range as {
			if a.Rhs == nil || a.ResultIx >= 0 {
				known = false
				continue
			}
			if goan.ConstVal(info, a.Rhs) != nil {
				continue
			}
			if un, ok := ast.Unparen(a.Rhs).(*ast.UnaryExpr); ok && goan.ConstVal(info, un.X) != nil {
				continue
			}
			id, ok := ast.Unparen(a.Rhs).(*ast.Ident)
			if !ok {
				known = false
				continue
			}
			o, k := origin(info.ObjectOf(id), depth+1)
			if !k {
				known = false
			}
			for x := range o {
				out[x] = true
			}
		}
		return out, known
	}
	n := 0
	ast.Inspect(fd.Body, func(m ast.Node) bool {
		ix, ok := m.(*ast.IndexExpr)
		if !ok {
			return true
		}
		if _, isSlice := info.TypeOf(ix.X).Underlying().(*types.Slice); !isSlice {
			return true
		}
		s, ok := ast.Unparen(ix.X).(*ast.Ident)
		if !ok {
			return true
		}
		i, ok := ast.Unparen(ix.Index).(*ast.Ident)
		if !ok {
			return true
		}
		so, io := info.ObjectOf(s), info.ObjectOf(i)
		if so == nil || io == nil {
			return true
		}
		if _, isConst := io.(*types.Const); isConst {
			return true
		}
		n++
		from, known := origin(io, 0)
		foreign := ""
		for x := range from {
			if x != so {
				foreign = x.Name()
			}
		}
		key := pk.Name + "." + fn + " › element of a " + types.TypeString(info.TypeOf(ix.X), func(p *types.Package) string { return p.Name() }) + " #" + strconv.Itoa(n)
		switch {
		case foreign != "":
			c.Bad(rule, key, c.posOf(pk, ix.Pos()), "`"+goan.ExprString(ix)+"`: the index may hold a key of a range over `"+foreign+"`, another slice than the one indexed: the element addressed is whatever stands at that position (with --keep-spec-order, a key of the property's schema — maxLength, minimum, type … — is replaced by a second x-order), or the index is out of range")
		case !known:
			c.Unk(rule, key, c.posOf(pk, ix.Pos()), "`"+goan.ExprString(ix)+"`: the index is not a range key nor made of range keys and constants")
		default:
			c.Ok(rule, key, c.posOf(pk, ix.Pos()), "index obtained from a range over the indexed slice")
		}
		return true
	})
}
