package props

import (
	"fmt"
	"go/ast"
	"go/constant"
	"go/token"
	"go/types"
	"sort"
	"strings"

	"golang.org/x/tools/go/packages"

	"verif/tool/goan"
	"verif/tool/load"
)

func init() { register("C15", checkC15) }

// enumTable checks a map[Enum]string table: total over the constants of the enum type,
// injective, and no row's string equal to the identifier of a different constant.
func enumTable(c *Ctx, rulePrefix string, pk *packages.Package, table, enumType string, needInjective bool) map[string]string {
	info := pk.TypesInfo
	rule := rulePrefix + "." + table
	val := load.PkgVarValue(pk, table)
	rows := goan.Rows(val)
	consts := load.ConstsOfType(pk, enumType)
	if val == nil || len(rows) == 0 || len(consts) == 0 {
		c.Anchor(rule, "diff."+table, "package-level map literal keyed by "+enumType+" not found")
		return nil
	}
	byKey := map[string]string{}
	keyPos := map[string]token.Pos{}
	for _, r := range rows {
		k := goan.ConstObj(info, r.Key)
		v, ok := goan.StringVal(info, r.Val)
		if k == nil || !ok {
			c.Unk(rule, "diff."+table+" › row "+goan.ExprString(r.Key), c.posOf(pk, r.Key.Pos()), "row is not <constant>: <constant string>")
			continue
		}
		byKey[k.Name()] = v
		keyPos[k.Name()] = r.Key.Pos()
	}
	names := map[string]bool{}
	for _, k := range consts {
		names[k.Name()] = true
	}
	for _, k := range consts {
		v, ok := byKey[k.Name()]
		c.Check(ok && v != "", rule, fmt.Sprintf("diff.%s › total › %s", table, k.Name()), c.posOf(pk, val.Pos()),
			"constant has a non-empty row", "constant "+k.Name()+" of type "+enumType+" has no (or an empty) row: it serialises to the empty string and cannot be read back")
	}
	rev := map[string][]string{}
	for k, v := range byKey {
		rev[v] = append(rev[v], k)
	}
	for k, v := range byKey {
		if needInjective {
			ks := rev[v]
			sort.Strings(ks)
			c.Check(len(ks) == 1, rule, fmt.Sprintf("diff.%s › injective › %s", table, k), c.posOf(pk, keyPos[k]),
				"string is unique in the table", fmt.Sprintf("string %q is shared by %v: the reverse table cannot tell them apart", v, ks))
		}
		other := names[v] && v != k
		c.Check(!other, rule, fmt.Sprintf("diff.%s › cross-wired › %s", table, k), c.posOf(pk, keyPos[k]),
			"row's string is not another constant's identifier", fmt.Sprintf("%s is rendered as %q, the identifier of a different %s constant", k, v, enumType))
	}
	return byKey
}

func (c *Ctx) posOf(pk *packages.Package, p token.Pos) string {
	if !p.IsValid() {
		return ""
	}
	ps := pk.Fset.Position(p)
	return fmt.Sprintf("%s:%d", strings.TrimPrefix(ps.Filename, c.RepoDir+"/"), ps.Line)
}

func checkC15(c *Ctx) {
	c.Explain("diff: (R1) the code/compatibility string tables are total over their constants, injective and not cross-wired, and the reverse tables and JSON (un)marshallers use the paired tables; " +
		"(R2) SpecDifference.Matches compares exactly the JSON-visible fields of SpecDifference/DifferenceLocation/Node; (R3) FilterIgnores keeps an element iff the ignore list does not contain it and Execute filters before reporting; " +
		"(R4) the text report reaches reportChanges for every Compatibility constant; (R5) every exit-0 return of the report functions is control-dependent on 'no breaking change'. " +
		"Decides the table/shape part of C15, not JSON decode∘encode identity for arbitrary info strings.")
	c.Assume("encoding/json round-trips strings; go-flags maps a non-nil error from Execute to a non-zero exit status (cmd/swagger/swagger.go)")
	prog := c.Prog("./cmd/swagger/commands/diff", "./cmd/swagger/commands")
	pk := prog.Pkg(load.PkgDiff)
	cmds := prog.Pkg(load.PkgCommands)
	info := pk.TypesInfo

	// ---- R1 tables
	c.Rule("C15.R1.toStringSpecChangeCode", "toStringSpecChangeCode total over SpecChangeCode, injective, no row equal to another constant's identifier", 150)
	c.Rule("C15.R1.toLongStringSpecChangeCode", "toLongStringSpecChangeCode total, injective (the text report tells codes apart), not cross-wired", 150)
	c.Rule("C15.R1.toStringCompatibility", "toStringCompatibility total over Compatibility, injective, not cross-wired", 9)
	enumTable(c, "C15.R1", pk, "toStringSpecChangeCode", "SpecChangeCode", true)
	enumTable(c, "C15.R1", pk, "toLongStringSpecChangeCode", "SpecChangeCode", true)
	enumTable(c, "C15.R1", pk, "toStringCompatibility", "Compatibility", true)

	// reverse tables are filled only from their paired forward table, and (un)marshal use the pair
	c.Rule("C15.R1.pairing", "reverse tables are built in init from the paired forward table only; MarshalJSON/UnmarshalJSON use the paired tables", 8)
	pairs := [][3]string{{"toIDSpecChangeCode", "toStringSpecChangeCode", "SpecChangeCode"}, {"toIDCompatibility", "toStringCompatibility", "Compatibility"}}
	for _, p := range pairs {
		rev, fwd, typ := p[0], p[1], p[2]
		revObj := pk.Types.Scope().Lookup(rev)
		fwdObj := pk.Types.Scope().Lookup(fwd)
		if revObj == nil || fwdObj == nil {
			c.Anchor("C15.R1.pairing", rev+"/"+fwd, "table variables not found")
			continue
		}
		// every store into rev
		stores := 0
		for _, f := range pk.Syntax {
			for _, d := range f.Decls {
				fd, ok := d.(*ast.FuncDecl)
				if !ok || fd.Body == nil {
					continue
				}
				ast.Inspect(fd.Body, func(n ast.Node) bool {
					rs, ok := n.(*ast.RangeStmt)
					if ok {
						// for key, val := range fwd { rev[val] = key }
						ast.Inspect(rs.Body, func(m ast.Node) bool {
							as, ok := m.(*ast.AssignStmt)
							if !ok || len(as.Lhs) != 1 {
								return true
							}
							ix, ok := as.Lhs[0].(*ast.IndexExpr)
							if !ok {
								return true
							}
							if id, ok := ix.X.(*ast.Ident); !ok || info.Uses[id] != revObj {
								return true
							}
							stores++
							rid, _ := rs.X.(*ast.Ident)
							okShape := rid != nil && info.Uses[rid] == fwdObj && fd.Name.Name == "init" && fd.Recv == nil &&
								sameIdentObj(info, ix.Index, rs.Value) && sameIdentObj(info, as.Rhs[0], rs.Key)
							c.Check(okShape, "C15.R1.pairing", "diff."+rev+" › filled from "+fwd, c.posOf(pk, as.Pos()),
								"rev[val] = key under `for key, val := range "+fwd+"` in init",
								"store into "+rev+" is not `"+rev+"[val] = key` under a range over "+fwd+" inside init")
							return true
						})
					}
					return true
				})
			}
		}
		// stores outside a range statement
		for _, f := range pk.Syntax {
			ast.Inspect(f, func(n ast.Node) bool {
				as, ok := n.(*ast.AssignStmt)
				if !ok {
					return true
				}
				for _, l := range as.Lhs {
					if ix, ok := l.(*ast.IndexExpr); ok {
						if id, ok := ix.X.(*ast.Ident); ok && info.Uses[id] == revObj {
							stores--
						}
					}
					if id, ok := l.(*ast.Ident); ok && info.Uses[id] == revObj {
						c.Bad("C15.R1.pairing", "diff."+rev+" › reassigned", c.posOf(pk, as.Pos()), "reverse table reassigned outside its init loop")
					}
				}
				return true
			})
		}
		c.Check(stores == 0, "C15.R1.pairing", "diff."+rev+" › only store", "", "the init loop is the only store", "there are stores into "+rev+" outside the init loop over "+fwd)
		// Marshal uses fwd, Unmarshal uses rev
		for _, m := range [][2]string{{"MarshalJSON", fwd}, {"UnmarshalJSON", rev}} {
			fd := load.FuncDecl(pk, typ+"."+m[0])
			if fd == nil {
				c.Anchor("C15.R1.pairing", typ+"."+m[0], "method not found")
				continue
			}
			want := pk.Types.Scope().Lookup(m[1])
			uses, others := 0, []string{}
			ast.Inspect(fd.Body, func(n ast.Node) bool {
				ix, ok := n.(*ast.IndexExpr)
				if !ok {
					return true
				}
				if id, ok := ix.X.(*ast.Ident); ok {
					if o := info.Uses[id]; o != nil && o.Parent() == pk.Types.Scope() {
						if o == want {
							uses++
						} else {
							others = append(others, id.Name)
						}
					}
				}
				return true
			})
			c.Check(uses >= 1 && len(others) == 0, "C15.R1.pairing", "diff."+typ+"."+m[0]+" › table", c.posOf(pk, fd.Pos()),
				"looks the value up in "+m[1]+" only", fmt.Sprintf("expected a lookup in %s only; found %d such lookups and lookups in %v", m[1], uses, others))
		}
	}

	// ---- R2 Matches == serialisation
	checkMatchFields(c, "C15.R2.match-fields", pk)

	// ---- R3 FilterIgnores and its place in Execute
	c.Rule("C15.R3.filter", "FilterIgnores keeps an element iff !ignores.Contains(element); Contains is an existential over Matches; Execute filters before every report", 3)
	if fd := load.FuncDecl(pk, "SpecDifferences.FilterIgnores"); fd == nil {
		c.Anchor("C15.R3.filter", "SpecDifferences.FilterIgnores", "not found")
	} else {
		recv := info.Defs[fd.Recv.List[0].Names[0]]
		param := info.Defs[fd.Type.Params.List[0].Names[0]]
		okShape := false
		why := "no `for _, e := range <receiver>` loop with `if !<param>.Contains(e) { keep e }` found"
		ast.Inspect(fd.Body, func(n ast.Node) bool {
			rs, ok := n.(*ast.RangeStmt)
			if !ok {
				return true
			}
			if id, ok := rs.X.(*ast.Ident); !ok || info.Uses[id] != recv {
				return true
			}
			if len(rs.Body.List) != 1 {
				why = "loop body has other statements than the single keep-if"
				return true
			}
			ifs, ok := rs.Body.List[0].(*ast.IfStmt)
			if !ok || ifs.Else != nil || ifs.Init != nil {
				return true
			}
			un, ok := ast.Unparen(ifs.Cond).(*ast.UnaryExpr)
			if !ok || un.Op != token.NOT {
				why = "keep condition is not a negated Contains"
				return true
			}
			call, ok := ast.Unparen(un.X).(*ast.CallExpr)
			if !ok || len(call.Args) != 1 || !sameIdentObj(info, call.Args[0], rs.Value) {
				return true
			}
			se, ok := call.Fun.(*ast.SelectorExpr)
			if !ok || se.Sel.Name != "Contains" {
				return true
			}
			if id, ok := se.X.(*ast.Ident); !ok || info.Uses[id] != param {
				return true
			}
			// body keeps the element: appends/addDiff with the range value
			keeps := false
			ast.Inspect(ifs.Body, func(m ast.Node) bool {
				if cc, ok := m.(*ast.CallExpr); ok {
					for _, a := range cc.Args {
						if sameIdentObj(info, a, rs.Value) {
							keeps = true
						}
					}
				}
				return true
			})
			okShape = keeps
			return true
		})
		c.Check(okShape, "C15.R3.filter", "diff.SpecDifferences.FilterIgnores › keep iff not contained", c.posOf(pk, fd.Pos()), "shape confirmed", why)
	}
	if fd := load.FuncDecl(pk, "SpecDifferences.Contains"); fd == nil {
		c.Anchor("C15.R3.filter", "SpecDifferences.Contains", "not found")
	} else {
		// for _, e := range sd { if e.Matches(diff) { return true } } ; return false
		okShape := false
		recv := info.Defs[fd.Recv.List[0].Names[0]]
		param := info.Defs[fd.Type.Params.List[0].Names[0]]
		ast.Inspect(fd.Body, func(n ast.Node) bool {
			rs, ok := n.(*ast.RangeStmt)
			if !ok {
				return true
			}
			if id, ok := rs.X.(*ast.Ident); !ok || info.Uses[id] != recv {
				return true
			}
			if len(rs.Body.List) != 1 {
				return true
			}
			ifs, ok := rs.Body.List[0].(*ast.IfStmt)
			if !ok {
				return true
			}
			call, ok := ast.Unparen(ifs.Cond).(*ast.CallExpr)
			if !ok || len(call.Args) != 1 {
				return true
			}
			se, ok := call.Fun.(*ast.SelectorExpr)
			if !ok || se.Sel.Name != "Matches" {
				return true
			}
			a, b := se.X, call.Args[0]
			pair := (sameIdentObj(info, a, rs.Value) && identIs(info, b, param)) || (sameIdentObj(info, b, rs.Value) && identIs(info, a, param))
			if pair && len(ifs.Body.List) == 1 {
				if r, ok := ifs.Body.List[0].(*ast.ReturnStmt); ok && len(r.Results) == 1 && goan.IsIdent(r.Results[0], "true") {
					okShape = true
				}
			}
			return true
		})
		// final return false
		if n := len(fd.Body.List); n > 0 {
			if r, ok := fd.Body.List[n-1].(*ast.ReturnStmt); !ok || len(r.Results) != 1 || !goan.IsIdent(r.Results[0], "false") {
				okShape = false
			}
		}
		c.Check(okShape, "C15.R3.filter", "diff.SpecDifferences.Contains › exists e. e.Matches(x)", c.posOf(pk, fd.Pos()), "shape confirmed", "Contains is not `for e in sd { if e.Matches(x) { return true } }; return false`")
	}
	checkExecuteOrdering(c, cmds, pk)
	checkEntriesVerbatim(c, "C15.R3.entries-verbatim", cmds, pk)
	checkInputsBeforeOutput(c, "C15.R3.inputs-before-output", cmds)
	checkIgnoresAlwaysRead(c, "C15.R3.ignores-always-read", cmds)
	checkConstantFormats(c, "C15.R4.constant-formats", []*packages.Package{pk, cmds})
	checkReportLinesKept(c, "C15.R4.lines-kept", pk)
	checkLocatedByKey(c, "C15.R2.located-by-key", pk)
	// a report fed back as an ignore file cancels the next run only if the same difference is located the same way in every run
	checkVisitedOrder(c, "C15.R3.visited-order", pk, false)
	// an entry copied from one run's report cancels the same difference of the next run only if
	// the text of the difference is a function of the two specs: no map iteration order in it
	c.Rule("C15.R3.stable-entries", "order taint over the diff package: the location and info of a difference never depend on map iteration order (ranges are order-insensitive, sorted before they escape, or reviewed)", 30)
	emitOrderTaint(c, c.orderAnalysis(), "C15.R3.stable-entries", "C15.R3.stable-entries", func(p *packages.Package) bool { return p == pk || p.PkgPath == pk.PkgPath })
	checkFormatChannel(c, cmds)

	// ---- R4 sections
	checkSections(c, "C15.R4.sections", pk)

	// ---- R5 exit status
	checkExitStatus(c, "C15.R5.exit-status", pk, cmds)
}

func sameIdentObj(info *types.Info, a, b ast.Expr) bool {
	ia, ok1 := ast.Unparen(a).(*ast.Ident)
	ib, ok2 := ast.Unparen(b).(*ast.Ident)
	if !ok1 || !ok2 {
		return false
	}
	oa := info.Uses[ia]
	if oa == nil {
		oa = info.Defs[ia]
	}
	ob := info.Uses[ib]
	if ob == nil {
		ob = info.Defs[ib]
	}
	return oa != nil && oa == ob
}

func identIs(info *types.Info, e ast.Expr, obj types.Object) bool {
	id, ok := ast.Unparen(e).(*ast.Ident)
	if !ok {
		return false
	}
	return obj != nil && (info.Uses[id] == obj || info.Defs[id] == obj)
}

// fieldOf: expression `x.F` with x an identifier → (F, object of x).
func fieldOf(info *types.Info, e ast.Expr) (string, types.Object) {
	se, ok := ast.Unparen(e).(*ast.SelectorExpr)
	if !ok {
		return "", nil
	}
	id, ok := se.X.(*ast.Ident)
	if !ok {
		return "", nil
	}
	if sel, ok := info.Selections[se]; !ok || sel.Kind() != types.FieldVal {
		return "", nil
	}
	return se.Sel.Name, info.Uses[id]
}

// checkExecuteOrdering: in DiffCommand.Execute, the value the reports are rendered from is
// the result of FilterIgnores (applied to the result of getDiffs).
func checkExecuteOrdering(c *Ctx, cmds, diffpk *packages.Package) {
	rule := "C15.R3.filter"
	fd := load.FuncDecl(cmds, "DiffCommand.Execute")
	if fd == nil {
		c.Anchor(rule, "commands.DiffCommand.Execute", "not found")
		return
	}
	info := cmds.TypesInfo
	// find `X = X.FilterIgnores(ignores)` and all Report* calls on X after it
	var filterPos token.Pos
	var diffsObj types.Object
	ast.Inspect(fd.Body, func(n ast.Node) bool {
		as, ok := n.(*ast.AssignStmt)
		if !ok || len(as.Lhs) != 1 || len(as.Rhs) != 1 {
			return true
		}
		call, ok := as.Rhs[0].(*ast.CallExpr)
		if !ok {
			return true
		}
		se, ok := call.Fun.(*ast.SelectorExpr)
		if !ok || se.Sel.Name != "FilterIgnores" {
			return true
		}
		lid, ok1 := as.Lhs[0].(*ast.Ident)
		rid, ok2 := se.X.(*ast.Ident)
		if ok1 && ok2 && info.Uses[lid] != nil && info.Uses[lid] == info.Uses[rid] {
			filterPos = as.Pos()
			diffsObj = info.Uses[lid]
		}
		return true
	})
	if diffsObj == nil {
		c.Bad(rule, "commands.DiffCommand.Execute › diffs = diffs.FilterIgnores(ignores)", c.posOf(cmds, fd.Pos()), "no in-place filtering of the computed differences found")
		return
	}
	// the filter is applied whatever the differences are: a top-level statement of Execute
	topLevel := false
	for _, st := range fd.Body.List {
		if st.Pos() == filterPos {
			topLevel = true
		}
	}
	c.Check(topLevel, rule, "commands.DiffCommand.Execute › the ignore file is applied unconditionally", c.posOf(cmds, filterPos), "top-level statement",
		"FilterIgnores runs under a condition: for some comparisons (e.g. without breaking differences) the ignore file is not applied and a report fed back as ignore file does not empty the next one")
	// the filter itself cannot panic on its sizes
	if nm := checkMakeSizes(c, rule, diffpk); nm == 0 {
		c.Ok(rule, "diff › make(…) sizes", "", "no make with a computed difference as size")
	}
	reports := 0
	bad := false
	ast.Inspect(fd.Body, func(n ast.Node) bool {
		call, ok := n.(*ast.CallExpr)
		if !ok {
			return true
		}
		se, ok := call.Fun.(*ast.SelectorExpr)
		if !ok || !strings.HasPrefix(se.Sel.Name, "Report") {
			return true
		}
		reports++
		id, ok := se.X.(*ast.Ident)
		if !ok || info.Uses[id] != diffsObj || call.Pos() < filterPos {
			bad = true
		}
		return true
	})
	// no other assignment to diffs after the filter
	for _, a := range goan.AssignmentsTo(info, fd.Body, diffsObj) {
		if a.Stmt != nil && a.Stmt.Pos() > filterPos {
			bad = true
		}
	}
	c.Check(reports >= 2 && !bad, rule, "commands.DiffCommand.Execute › reports render the filtered list", c.posOf(cmds, filterPos),
		fmt.Sprintf("%d report calls, all on the filtered value and after the filter", reports), "a report is rendered from a value other than the filtered list, or before filtering")
}

// checkFormatChannel: with -f json only the JSON renderer may run (the output is fed back as an
// ignore file), and the destination file is truncated before the report is written.
func checkFormatChannel(c *Ctx, cmds *packages.Package) {
	rule := "C15.R3.format-channel"
	c.Rule(rule, "in DiffCommand.Execute the text-only report runs only when the format is not JSON, ReportAllDiffs is told `Format == JSONFormat`, and a destination file is opened truncated", 3)
	fd := load.FuncDecl(cmds, "DiffCommand.Execute")
	if fd == nil {
		c.Anchor(rule, "commands.DiffCommand.Execute", "not found")
		return
	}
	info := cmds.TypesInfo
	isFormatTest := func(e ast.Expr, op token.Token) bool {
		be, ok := ast.Unparen(e).(*ast.BinaryExpr)
		return ok && be.Op == op && goan.LastSel(be.X) == "Format" && goan.IsIdent(be.Y, "JSONFormat")
	}
	seenCompat, seenAll := false, false
	goan.WalkGuards(info, fd.Body, func(n ast.Node, guards []goan.Lit, _ []ast.Stmt) {
		ast.Inspect(n, func(m ast.Node) bool {
			call, ok := m.(*ast.CallExpr)
			if !ok {
				return true
			}
			switch goan.LastSel(call.Fun) {
			case "ReportCompatibility":
				seenCompat = true
				ok := false
				for _, g := range guards {
					if g.Pos && isFormatTest(g.E, token.NEQ) || !g.Pos && isFormatTest(g.E, token.EQL) {
						ok = true
					}
				}
				c.Check(ok, rule, "commands.DiffCommand.Execute › ReportCompatibility only for non-JSON formats", c.posOf(cmds, call.Pos()), "under Format != JSONFormat",
					"the text-only compatibility report can run with -f json: the JSON channel carries text that cannot be parsed or fed back as an ignore file")
			case "ReportAllDiffs":
				seenAll = true
				ok := len(call.Args) == 1 && isFormatTest(call.Args[0], token.EQL)
				c.Check(ok, rule, "commands.DiffCommand.Execute › ReportAllDiffs(Format == JSONFormat)", c.posOf(cmds, call.Pos()), "renderer selected by the format flag",
					"ReportAllDiffs is not told `c.Format == JSONFormat`: the report is rendered in a format the user did not ask for")
			}
			return true
		})
	})
	if !seenCompat || !seenAll {
		c.Unk(rule, "commands.DiffCommand.Execute › report calls", c.posOf(cmds, fd.Pos()), "ReportCompatibility / ReportAllDiffs calls not found")
	}
	checkOpenTruncates(c, rule, cmds, []string{"DiffCommand.Execute"}, 1)
}

// checkOpenTruncates: every os.OpenFile for writing with O_CREATE (and neither O_APPEND nor
// O_EXCL) in the named functions (all functions when nil) carries O_TRUNC: an existing longer
// file must not keep its tail.
func checkOpenTruncates(c *Ctx, rule string, pk *packages.Package, funcs []string, floor int) int {
	info := pk.TypesInfo
	n := 0
	for _, fd := range load.AllFuncs(pk) {
		if funcs != nil && !contains(funcs, load.FuncName(fd)) {
			continue
		}
		fd := fd
		ast.Inspect(fd.Body, func(nd ast.Node) bool {
			call, ok := nd.(*ast.CallExpr)
			if !ok || len(call.Args) != 3 {
				return true
			}
			fn := goan.Callee(info, call)
			if fn == nil || goan.CalleeName(fn) != "os.OpenFile" {
				return true
			}
			tv, ok := info.Types[call.Args[1]]
			if !ok || tv.Value == nil {
				c.Unk(rule, fmt.Sprintf("%s › os.OpenFile flags", load.FuncName(fd)), c.posOf(pk, call.Pos()), "flags are not a constant expression")
				return true
			}
			flags, _ := constant.Int64Val(tv.Value)
			const (
				oWRONLY, oRDWR, oAPPEND, oCREATE, oEXCL, oTRUNC = 0x1, 0x2, 0x400, 0x40, 0x80, 0x200
			)
			if flags&(oWRONLY|oRDWR) == 0 || flags&oCREATE == 0 || flags&(oAPPEND|oEXCL) != 0 {
				return true
			}
			n++
			c.Check(flags&oTRUNC != 0, rule, fmt.Sprintf("%s.%s › os.OpenFile(%s) truncates", pk.Name, load.FuncName(fd), goan.ExprString(call.Args[0])), c.posOf(pk, call.Pos()), "O_TRUNC set",
				fmt.Sprintf("the output file is opened with %s, without O_TRUNC: when it already holds a longer document, the old tail survives the new content", goan.ExprString(call.Args[1])))
			return true
		})
	}
	if n < floor {
		c.Unk(rule, "os.OpenFile for output", "", fmt.Sprintf("%d output opens found, expected at least %d", n, floor))
	}
	return n
}

// checkExitStatus implements C13.R6 / C15.R5.
func checkExitStatus(c *Ctx, rule string, pk, cmds *packages.Package) {
	c.Rule(rule, "every `return …, nil` (nil compatibility error) of ReportAllDiffs/ReportCompatibility is control-dependent on 'breaking count == 0' (or an error exit); Execute returns that error after the report is written", 5)
	info := pk.TypesInfo
	for _, fn := range []string{"SpecDifferences.ReportAllDiffs", "SpecDifferences.ReportCompatibility"} {
		fd := load.FuncDecl(pk, fn)
		if fd == nil {
			c.Anchor(rule, fn, "not found")
			continue
		}
		if fd.Type.Results == nil || fd.Type.Results.NumFields() != 3 {
			c.Anchor(rule, fn, "expected 3 results (reader, error, compatibility error)")
			continue
		}
		recv := info.Defs[fd.Recv.List[0].Names[0]]
		goan.WalkGuards(info, fd.Body, func(n ast.Node, guards []goan.Lit, _ []ast.Stmt) {
			r, ok := n.(*ast.ReturnStmt)
			if !ok || len(r.Results) != 3 {
				return
			}
			var gs []string
			for _, g := range guards {
				gs = append(gs, g.String())
			}
			construct := fmt.Sprintf("diff.%s › return %s under [%s]", fn, goan.ExprString(r.Results[2]), strings.Join(gs, " && "))
			third := r.Results[2]
			if !goan.IsNil(info, third) {
				// must be a value coming from ReportCompatibility or a constructed error
				c.Ok(rule, construct, c.posOf(pk, r.Pos()), "third result is not the nil literal (propagated compatibility error)")
				return
			}
			// error exit: second result is a constructed, non-nil error
			if call, ok := ast.Unparen(r.Results[1]).(*ast.CallExpr); ok {
				if cal := goan.Callee(info, call); cal != nil && (goan.CalleeName(cal) == "fmt.Errorf" || goan.CalleeName(cal) == "errors.New") {
					c.Ok(rule, construct, c.posOf(pk, r.Pos()), "error exit: the second result is a constructed error, Execute returns it")
					return
				}
			}
			if noBreakingGuard(info, fd, recv, guards) {
				c.Ok(rule, construct, c.posOf(pk, r.Pos()), "dominated by a 'breaking count == 0' / 'no differences' test")
				return
			}
			c.Bad(rule, construct, c.posOf(pk, r.Pos()), "returns a nil compatibility error on a path that is not guarded by 'no breaking change': the command exits 0 although Breaking differences may be reported")
		})
	}
	// BreakingChangeCount counts exactly the elements with Compatibility == Breaking
	if bd := load.FuncDecl(pk, "SpecDifferences.BreakingChangeCount"); bd == nil {
		c.Anchor(rule, "SpecDifferences.BreakingChangeCount", "not found")
	} else {
		okCount := false
		brk := pk.Types.Scope().Lookup("Breaking")
		goan.WalkGuards(info, bd.Body, func(n ast.Node, guards []goan.Lit, loops []ast.Stmt) {
			inc, ok := n.(*ast.IncDecStmt)
			var gs []goan.Lit
			for _, g := range guards {
				if !g.NonEmpty {
					gs = append(gs, g)
				}
			}
			if !ok || inc.Tok != token.INC || len(loops) != 1 || len(gs) != 1 {
				return
			}
			be, ok := ast.Unparen(gs[0].E).(*ast.BinaryExpr)
			if !ok || !gs[0].Pos || be.Op != token.EQL {
				return
			}
			isB := func(e ast.Expr) bool { id, ok := e.(*ast.Ident); return ok && info.Uses[id] == brk }
			if (goan.LastSel(be.X) == "Compatibility" && isB(be.Y)) || (goan.LastSel(be.Y) == "Compatibility" && isB(be.X)) {
				okCount = true
			}
		})
		c.Check(okCount, rule, "diff.SpecDifferences.BreakingChangeCount › counts Compatibility == Breaking", c.posOf(pk, bd.Pos()),
			"count++ under `d.Compatibility == Breaking` for every element", "BreakingChangeCount is not a count of the elements whose Compatibility equals Breaking")
	}
	// Execute: after the report call every return yields err (under err != nil) or warn
	fd := load.FuncDecl(cmds, "DiffCommand.Execute")
	if fd == nil {
		c.Anchor(rule, "commands.DiffCommand.Execute", "not found")
		return
	}
	ci := cmds.TypesInfo
	var warnObj types.Object
	var reportPos token.Pos
	nAssign := 0
	ast.Inspect(fd.Body, func(n ast.Node) bool {
		as, ok := n.(*ast.AssignStmt)
		if !ok || len(as.Lhs) != 3 || len(as.Rhs) != 1 {
			return true
		}
		call, ok := as.Rhs[0].(*ast.CallExpr)
		if !ok {
			return true
		}
		se, ok := call.Fun.(*ast.SelectorExpr)
		if !ok || !strings.HasPrefix(se.Sel.Name, "Report") {
			return true
		}
		if id, ok := as.Lhs[2].(*ast.Ident); ok {
			o := ci.Uses[id]
			if o == nil {
				o = ci.Defs[id]
			}
			if warnObj == nil || warnObj == o {
				warnObj = o
				nAssign++
			} else {
				warnObj = nil
			}
			if as.End() > reportPos {
				reportPos = as.End()
			}
		}
		return true
	})
	if warnObj == nil || nAssign < 2 {
		c.Bad(rule, "commands.DiffCommand.Execute › compatibility error captured", c.posOf(cmds, fd.Pos()), "the third result of the Report* calls is not captured in one variable on every arm")
		return
	}
	// other assignments to warn?
	if as := goan.AssignmentsTo(ci, fd.Body, warnObj); len(as) != nAssign {
		extra := 0
		for _, a := range as {
			if a.Rhs != nil {
				extra++
			}
		}
		if extra != nAssign {
			c.Bad(rule, "commands.DiffCommand.Execute › compatibility error overwritten", c.posOf(cmds, fd.Pos()), "the captured compatibility error is assigned elsewhere")
		}
	}
	okAll := true
	why := ""
	nret := 0
	goan.WalkGuards(ci, fd.Body, func(n ast.Node, guards []goan.Lit, _ []ast.Stmt) {
		r, ok := n.(*ast.ReturnStmt)
		if !ok || r.Pos() < reportPos || len(r.Results) != 1 {
			return
		}
		nret++
		if identIs(ci, r.Results[0], warnObj) {
			return
		}
		// return err under err != nil
		if id, ok := r.Results[0].(*ast.Ident); ok {
			for _, g := range guards {
				if be, ok := ast.Unparen(g.E).(*ast.BinaryExpr); ok && g.Pos && be.Op == token.NEQ && goan.IsNil(ci, be.Y) && sameIdentObj(ci, be.X, id) {
					return
				}
			}
		}
		okAll = false
		why = "return " + goan.ExprString(r.Results[0]) + " after the report is neither the captured compatibility error nor a non-nil error"
	})
	c.Check(okAll && nret >= 2, rule, "commands.DiffCommand.Execute › exit value after report", c.posOf(cmds, reportPos),
		fmt.Sprintf("%d returns after the report: non-nil err, or the compatibility error", nret), why)
}

// noBreakingGuard: some guard literal implies that the receiver has no Breaking difference:
// ¬(n > 0), n == 0, n <= 0 with n = recv.BreakingChangeCount() or n = len(recv).
func noBreakingGuard(info *types.Info, fd *ast.FuncDecl, recv types.Object, guards []goan.Lit) bool {
	isCount := func(e ast.Expr) bool {
		e = goan.ResolveLocal(info, fd.Body, e)
		call, ok := ast.Unparen(e).(*ast.CallExpr)
		if !ok {
			return false
		}
		if goan.IsBuiltinCall(info, call, "len") && len(call.Args) == 1 {
			a := ast.Unparen(call.Args[0])
			if st, ok := a.(*ast.StarExpr); ok {
				a = st.X
			}
			return identIs(info, a, recv)
		}
		if se, ok := call.Fun.(*ast.SelectorExpr); ok && se.Sel.Name == "BreakingChangeCount" && identIs(info, se.X, recv) {
			return true
		}
		return false
	}
	isZero := func(e ast.Expr) bool {
		v := goan.ConstVal(info, e)
		return v != nil && v.String() == "0"
	}
	for _, g := range guards {
		be, ok := ast.Unparen(g.E).(*ast.BinaryExpr)
		if !ok || g.Tag != nil {
			continue
		}
		if !isCount(be.X) || !isZero(be.Y) {
			continue
		}
		switch {
		case g.Pos && (be.Op == token.EQL || be.Op == token.LEQ):
			return true
		case !g.Pos && (be.Op == token.GTR || be.Op == token.NEQ):
			return true
		}
	}
	return false
}

// countEnv is a small model of a difference list: how many entries of each class.
type countEnv struct{ b, nb, w int }

// evalCount abstractly evaluates an integer/boolean expression of a report function over a
// small model of the receiver: len(recv), recv.BreakingChangeCount(), recv.WarningChangeCount(),
// locals with a single definition, integer literals, + - comparisons and boolean connectives.
func evalCount(info *types.Info, fd *ast.FuncDecl, recv types.Object, e ast.Expr, env countEnv, boolParams map[string]bool) (iv int, bv bool, isBool bool, ok bool) {
	e = ast.Unparen(e)
	switch x := e.(type) {
	case *ast.BasicLit:
		if v := goan.ConstVal(info, x); v != nil {
			var n int
			if _, err := fmt.Sscanf(v.String(), "%d", &n); err == nil {
				return n, false, false, true
			}
		}
	case *ast.Ident:
		if x.Name == "true" || x.Name == "false" {
			return 0, x.Name == "true", true, true
		}
		if v, isP := boolParams[x.Name]; isP {
			return 0, v, true, true
		}
		def := goan.ResolveLocal(info, fd.Body, x)
		if def != ast.Expr(x) {
			return evalCount(info, fd, recv, def, env, boolParams)
		}
	case *ast.StarExpr:
		return evalCount(info, fd, recv, x.X, env, boolParams)
	case *ast.UnaryExpr:
		if x.Op == token.NOT {
			_, b, isB, ok := evalCount(info, fd, recv, x.X, env, boolParams)
			return 0, !b, isB, ok && isB
		}
	case *ast.CallExpr:
		if goan.IsBuiltinCall(info, x, "len") && len(x.Args) == 1 {
			a := ast.Unparen(x.Args[0])
			if st, ok := a.(*ast.StarExpr); ok {
				a = st.X
			}
			if identIs(info, a, recv) {
				return env.b + env.nb + env.w, false, false, true
			}
		}
		if se, ok := x.Fun.(*ast.SelectorExpr); ok && identIs(info, se.X, recv) && len(x.Args) == 0 {
			switch se.Sel.Name {
			case "BreakingChangeCount":
				return env.b, false, false, true
			case "WarningChangeCount":
				return env.w, false, false, true
			}
		}
	case *ast.BinaryExpr:
		li, lb, lIsB, ok1 := evalCount(info, fd, recv, x.X, env, boolParams)
		ri, rb, rIsB, ok2 := evalCount(info, fd, recv, x.Y, env, boolParams)
		if !ok1 || !ok2 || lIsB != rIsB {
			return 0, false, false, false
		}
		if lIsB {
			switch x.Op {
			case token.LAND:
				return 0, lb && rb, true, true
			case token.LOR:
				return 0, lb || rb, true, true
			case token.EQL:
				return 0, lb == rb, true, true
			case token.NEQ:
				return 0, lb != rb, true, true
			}
			return 0, false, false, false
		}
		switch x.Op {
		case token.ADD:
			return li + ri, false, false, true
		case token.SUB:
			return li - ri, false, false, true
		case token.EQL:
			return 0, li == ri, true, true
		case token.NEQ:
			return 0, li != ri, true, true
		case token.GTR:
			return 0, li > ri, true, true
		case token.LSS:
			return 0, li < ri, true, true
		case token.GEQ:
			return 0, li >= ri, true, true
		case token.LEQ:
			return 0, li <= ri, true, true
		}
	}
	return 0, false, false, false
}

// checkSections: in text mode, the section of class K is rendered whenever the list holds a
// difference of class K. The guards of each reportChanges(K) call (and of the call to
// ReportCompatibility) are evaluated over every small model (0..3 entries per class).
func checkSections(c *Ctx, rule string, pk *packages.Package) {
	c.Rule(rule, "text report: for every Compatibility constant K the guards of reportChanges(K) hold in every model of the list with a K entry (models: 0..3 entries per class); the breaking-only report lists Breaking; reportChanges selects on equality", 5)
	info := pk.TypesInfo
	type callGuard struct {
		k      string
		guards []goan.Lit
		pos    token.Pos
	}
	collect := func(fn string) (*ast.FuncDecl, types.Object, []callGuard) {
		fd := load.FuncDecl(pk, fn)
		if fd == nil {
			c.Anchor(rule, fn, "not found")
			return nil, nil, nil
		}
		recv := info.Defs[fd.Recv.List[0].Names[0]]
		var out []callGuard
		goan.WalkGuards(info, fd.Body, func(n ast.Node, guards []goan.Lit, _ []ast.Stmt) {
			if _, isStmt := n.(ast.Stmt); !isStmt {
				return
			}
			ast.Inspect(n, func(m ast.Node) bool {
				call, ok := m.(*ast.CallExpr)
				if !ok {
					return true
				}
				se, ok := call.Fun.(*ast.SelectorExpr)
				if !ok || !identIs(info, se.X, recv) {
					return true
				}
				switch se.Sel.Name {
				case "reportChanges":
					if len(call.Args) == 1 {
						if k := goan.ConstObj(info, call.Args[0]); k != nil {
							out = append(out, callGuard{k.Name(), guards, call.Pos()})
						}
					}
				case "ReportCompatibility":
					out = append(out, callGuard{"→ReportCompatibility", guards, call.Pos()})
				}
				return true
			})
		})
		return fd, recv, out
	}
	holds := func(fd *ast.FuncDecl, recv types.Object, guards []goan.Lit, class string, params map[string]bool) (bool, string) {
		for b := 0; b <= 3; b++ {
			for nb := 0; nb <= 3; nb++ {
				for w := 0; w <= 3; w++ {
					env := countEnv{b, nb, w}
					n := map[string]int{"Breaking": b, "NonBreaking": nb, "Warning": w}[class]
					if n == 0 {
						continue
					}
					for _, g := range guards {
						if g.Tag != nil || g.NonEmpty {
							return false, "guard " + g.String() + " is not an arithmetic/boolean condition over the list's counts"
						}
						_, v, isB, ok := evalCount(info, fd, recv, g.E, env, params)
						if !ok || !isB {
							return false, "guard " + g.String() + " cannot be evaluated over the list's counts"
						}
						if v != g.Pos {
							return false, fmt.Sprintf("with %d Breaking, %d NonBreaking and %d Warning differences the guard %s is false: the %s section is skipped although the list holds %s differences", b, nb, w, g.String(), class, class)
						}
					}
				}
			}
		}
		return true, ""
	}
	rfd, rrecv, rcalls := collect("SpecDifferences.ReportAllDiffs")
	cfd, crecv, ccalls := collect("SpecDifferences.ReportCompatibility")
	if rfd == nil || cfd == nil {
		return
	}
	text := map[string]bool{"fmtJSON": false}
	for _, p := range rfd.Type.Params.List {
		for _, n := range p.Names {
			text[n.Name] = false // the (single, boolean) parameter selects JSON; text mode = false
		}
	}
	for _, k := range load.ConstsOfType(pk, "Compatibility") {
		okK, why := false, "reportChanges("+k.Name()+") is not reachable from the text report"
		for _, cg := range rcalls {
			if cg.k == k.Name() {
				okK, why = holds(rfd, rrecv, cg.guards, k.Name(), text)
			}
			if cg.k == "→ReportCompatibility" && !okK {
				// section rendered by ReportCompatibility
				for _, cc := range ccalls {
					if cc.k == k.Name() {
						ok1, why1 := holds(rfd, rrecv, cg.guards, k.Name(), text)
						ok2, why2 := holds(cfd, crecv, cc.guards, k.Name(), nil)
						okK, why = ok1 && ok2, why1+why2
					}
				}
			}
		}
		c.Check(okK, rule, "diff.SpecDifferences.ReportAllDiffs › section "+k.Name(), c.posOf(pk, rfd.Pos()), "rendered in every model holding a "+k.Name()+" difference", why)
	}
	okB, whyB := false, "reportChanges(Breaking) not called"
	for _, cc := range ccalls {
		if cc.k == "Breaking" {
			okB, whyB = holds(cfd, crecv, cc.guards, "Breaking", nil)
		}
	}
	c.Check(okB, rule, "diff.SpecDifferences.ReportCompatibility › section Breaking", c.posOf(pk, cfd.Pos()), "rendered whenever a Breaking difference exists", whyB)
	// reportChanges filters on equality with its parameter
	if fd := load.FuncDecl(pk, "SpecDifferences.reportChanges"); fd != nil {
		param := info.Defs[fd.Type.Params.List[0].Names[0]]
		found := false
		ast.Inspect(fd.Body, func(n ast.Node) bool {
			if be, ok := n.(*ast.BinaryExpr); ok && be.Op == token.EQL {
				if (goan.LastSel(be.X) == "Compatibility" && identIs(info, be.Y, param)) || (goan.LastSel(be.Y) == "Compatibility" && identIs(info, be.X, param)) {
					found = true
				}
			}
			return true
		})
		c.Check(found, rule, "diff.SpecDifferences.reportChanges › selects diff.Compatibility == compat", c.posOf(pk, fd.Pos()), "selection by equality with the parameter", "reportChanges does not select on `diff.Compatibility == compat`")
	} else {
		c.Anchor(rule, "SpecDifferences.reportChanges", "not found")
	}
}

// checkMatchFields: what identifies a difference (Matches / equalLocations / equalNodes) is what is
// serialised for it — an ignore entry matches exactly the difference it was written from.
func checkMatchFields(c *Ctx, rule string, pk *packages.Package) {
	info := pk.TypesInfo
	_ = info
	// ---- R2 Matches == serialisation
	c.Rule(rule, "fields compared by Matches/equalLocations/equalNodes are exactly the JSON-visible fields of the struct compared; omitempty only on fields whose zero value decodes to itself", 14)
	type cmpSpec struct{ fn, typ string }
	for _, cs := range []cmpSpec{{"SpecDifference.Matches", "SpecDifference"}, {"equalLocations", "DifferenceLocation"}, {"equalNodes", "Node"}} {
		fd := load.FuncDecl(pk, cs.fn)
		tn, _ := pk.Types.Scope().Lookup(cs.typ).(*types.TypeName)
		if fd == nil || tn == nil {
			c.Anchor(rule, cs.fn, "function or type not found")
			continue
		}
		st, _ := tn.Type().Underlying().(*types.Struct)
		if st == nil {
			c.Anchor(rule, cs.typ, "not a struct")
			continue
		}
		// the two operands: receiver/param 0 and param 1 (or params 0 and 1)
		var ops []types.Object
		if fd.Recv != nil {
			for _, n := range fd.Recv.List[0].Names {
				ops = append(ops, info.Defs[n])
			}
		}
		for _, fl := range fd.Type.Params.List {
			for _, n := range fl.Names {
				ops = append(ops, info.Defs[n])
			}
		}
		if len(ops) != 2 {
			c.Anchor(rule, cs.fn, "expected exactly two operands")
			continue
		}
		// collect fields F such that the function's returned boolean expression contains a
		// conjunct  a.F == b.F  or  helper(a.F, b.F)
		compared := map[string]bool{}
		var collect func(e ast.Expr)
		collect = func(e ast.Expr) {
			switch x := ast.Unparen(e).(type) {
			case *ast.BinaryExpr:
				if x.Op == token.LAND {
					collect(x.X)
					collect(x.Y)
					return
				}
				if x.Op == token.EQL {
					fa, oa := fieldOf(info, x.X)
					fb, ob := fieldOf(info, x.Y)
					if fa != "" && fa == fb && oa != ob && (oa == ops[0] || oa == ops[1]) && (ob == ops[0] || ob == ops[1]) {
						compared[fa] = true
					}
				}
			case *ast.CallExpr:
				if len(x.Args) == 2 {
					fa, oa := fieldOf(info, x.Args[0])
					fb, ob := fieldOf(info, x.Args[1])
					callee := goan.Callee(info, x)
					if fa != "" && fa == fb && oa != ob && callee != nil && callee.Pkg() == pk.Types && strings.HasPrefix(callee.Name(), "equal") {
						compared[fa] = true
					}
				}
			}
		}
		// the comparison is the operand of the last return statement
		var last *ast.ReturnStmt
		for _, s := range fd.Body.List {
			if r, ok := s.(*ast.ReturnStmt); ok {
				last = r
			}
		}
		if last == nil || len(last.Results) != 1 {
			c.Anchor(rule, cs.fn, "final `return <conjunction>` not found")
			continue
		}
		collect(last.Results[0])
		for i := 0; i < st.NumFields(); i++ {
			f := st.Field(i)
			name, opts, has := goan.StructTagJSON(st.Tag(i))
			visible := f.Exported() && !(has && name == "-")
			construct := fmt.Sprintf("diff.%s › %s.%s", cs.fn, cs.typ, f.Name())
			if visible {
				c.Check(compared[f.Name()], rule, construct, c.posOf(pk, fd.Pos()),
					"serialised field is compared", "field "+f.Name()+" is written to the JSON report but not compared by "+cs.fn+": ignoring one entry also ignores entries that differ only in this field")
			} else {
				c.Check(!compared[f.Name()], rule, construct, c.posOf(pk, fd.Pos()),
					"non-serialised field is not compared", "field "+f.Name()+" is compared but never serialised: an ignore file read back can never match")
			}
			// omitempty only where zero value round-trips to zero: string, bool, int, pointer, slice, map
			for _, o := range opts {
				if o == "omitempty" {
					switch u := f.Type().Underlying().(type) {
					case *types.Basic, *types.Pointer, *types.Slice, *types.Map:
						_ = u
						c.Ok(rule, construct+" › omitempty", c.posOf(pk, f.Pos()), "zero value omitted and decoded back to the zero value")
					default:
						c.Bad(rule, construct+" › omitempty", c.posOf(pk, f.Pos()), "omitempty on a struct-typed field has no effect / is not symmetric")
					}
				}
			}
		}
	}

}

// checkEntriesVerbatim: ignore entries are matched field by field against the computed
// differences (C15.R2). Feeding a report back as ignore file cancels every difference only if
// neither side is touched between decoding / computing and matching: the command never stores
// to a field of a value whose type is declared in the diff package.
func checkEntriesVerbatim(c *Ctx, rule string, cmds, diffpk *packages.Package) {
	c.Rule(rule, "the diff command never rewrites a field of a computed difference or of a decoded ignore entry (values of types declared in the diff package): both sides reach Matches as computed / as decoded", 3)
	info := cmds.TypesInfo
	declaredInDiff := func(t types.Type) bool {
		for {
			switch x := t.(type) {
			case *types.Pointer:
				t = x.Elem()
				continue
			case *types.Named:
				return x.Obj().Pkg() == diffpk.Types
			}
			return false
		}
	}
	for _, fd := range load.AllFuncs(cmds) {
		if fd.Body == nil || load.RecvName(fd) != "DiffCommand" {
			continue
		}
		var bad []string
		var badPos token.Pos
		store := func(lhs ast.Expr) {
			se, ok := ast.Unparen(lhs).(*ast.SelectorExpr)
			for ok {
				if tv, found := info.Types[se.X]; found && declaredInDiff(tv.Type) {
					bad = append(bad, types.ExprString(lhs))
					if badPos == token.NoPos {
						badPos = lhs.Pos()
					}
					return
				}
				se, ok = ast.Unparen(se.X).(*ast.SelectorExpr)
			}
		}
		ast.Inspect(fd.Body, func(n ast.Node) bool {
			switch x := n.(type) {
			case *ast.AssignStmt:
				for _, l := range x.Lhs {
					store(l)
				}
			case *ast.IncDecStmt:
				store(x.X)
			}
			return true
		})
		pos := fd.Pos()
		if badPos != token.NoPos {
			pos = badPos
		}
		c.Check(len(bad) == 0, rule, "commands."+load.FuncName(fd)+" › no store to a field of a difference", c.posOf(cmds, pos), "no such store",
			fmt.Sprintf("%s stores to %v: one side of the comparison between reported differences and ignore entries is rewritten after it was computed / decoded, so an entry copied from the report no longer matches the difference it was copied from", load.FuncName(fd), bad))
	}
}

// checkInputsBeforeOutput: the report destination may name the ignore file (feeding a report
// back in place): it is created / truncated only after the specs and the ignore file were read.
func checkInputsBeforeOutput(c *Ctx, rule string, cmds *packages.Package) {
	c.Rule(rule, "DiffCommand.Execute opens (truncates) the destination after getDiffs and readIgnores have returned", 1)
	fd := load.FuncDecl(cmds, "DiffCommand.Execute")
	if fd == nil {
		c.Anchor(rule, "commands.DiffCommand.Execute", "not found")
		return
	}
	info := cmds.TypesInfo
	var open, diffs, ignores token.Pos
	ast.Inspect(fd.Body, func(n ast.Node) bool {
		call, ok := n.(*ast.CallExpr)
		if !ok {
			return true
		}
		fn := goan.Callee(info, call)
		if fn == nil {
			return true
		}
		switch {
		case goan.CalleeName(fn) == "os.OpenFile" || goan.CalleeName(fn) == "os.Create":
			if !open.IsValid() {
				open = call.Pos()
			}
		case fn.Name() == "getDiffs":
			diffs = call.Pos()
		case fn.Name() == "readIgnores":
			ignores = call.Pos()
		}
		return true
	})
	if !open.IsValid() || !diffs.IsValid() || !ignores.IsValid() {
		c.Anchor(rule, "commands.DiffCommand.Execute › open / getDiffs / readIgnores", "one of the three calls was not found")
		return
	}
	c.Check(open > diffs && open > ignores, rule, "commands.DiffCommand.Execute › destination opened after the inputs are read", c.posOf(cmds, open), "getDiffs, readIgnores, then the destination",
		"the destination is created and truncated before the ignore file is read: with the report used as ignore file and written in place (-i X -d X) the entries are lost before they are read, and the run fails instead of giving an empty report")
}

// checkConstantFormats: whatever is printed through a Printf-family function with the data as the
// format has its `%` read as verbs. Every format of the diff package and of the diff command is a
// constant.
func checkConstantFormats(c *Ctx, rule string, pkgs []*packages.Package) {
	c.Rule(rule, "every Printf-family call of the diff package and command has a constant format string", 10)
	formatArg := map[string]int{"fmt.Printf": 0, "fmt.Sprintf": 0, "fmt.Errorf": 0, "fmt.Fprintf": 1, "log.Printf": 0, "log.Fatalf": 0, "log.Panicf": 0, "fmt.Appendf": 1}
	for _, pk := range pkgs {
		info := pk.TypesInfo
		for _, fd := range load.AllFuncs(pk) {
			if fd.Body == nil {
				continue
			}
			if pk.Name == "commands" && load.RecvName(fd) != "DiffCommand" {
				continue
			}
			ord := 0
			ast.Inspect(fd.Body, func(n ast.Node) bool {
				call, ok := n.(*ast.CallExpr)
				if !ok {
					return true
				}
				fn := goan.Callee(info, call)
				if fn == nil {
					return true
				}
				ix, isPrintf := formatArg[goan.CalleeName(fn)]
				if !isPrintf || ix >= len(call.Args) {
					return true
				}
				ord++
				_, isConst := goan.StringVal(info, call.Args[ix])
				c.Check(isConst, rule, fmt.Sprintf("%s.%s › %s #%d has a constant format", pk.Name, load.FuncName(fd), goan.CalleeName(fn), ord), c.posOf(pk, call.Pos()), "constant format",
					fmt.Sprintf("%s is called with the format %s, which is data: a `%%` in a difference (an enum value `25%%`, a pattern) is read as a verb, the line is garbled and the next one glued to it — the text report no longer says what the JSON report says", goan.CalleeName(fn), goan.ExprString(call.Args[ix])))
				return true
			})
		}
	}
}

// checkReportLinesKept: the text report lists one line per difference of the class. Between
// collecting the lines and writing them the list is only sorted: nothing re-assigns it (a
// de-duplication drops differences that render alike, a filter drops some).
func checkReportLinesKept(c *Ctx, rule string, pk *packages.Package) {
	c.Rule(rule, "in reportChanges the list of lines is only appended to and sorted: no other assignment to it", 1)
	fd := load.FuncDecl(pk, "SpecDifferences.reportChanges")
	if fd == nil {
		c.Anchor(rule, "diff.SpecDifferences.reportChanges", "not found")
		return
	}
	info := pk.TypesInfo
	// the list: the []string local that is ranged when writing
	var list types.Object
	ast.Inspect(fd.Body, func(n ast.Node) bool {
		if rs, ok := n.(*ast.RangeStmt); ok {
			if id, ok := ast.Unparen(rs.X).(*ast.Ident); ok {
				if v, ok := info.Uses[id].(*types.Var); ok {
					if sl, ok := v.Type().Underlying().(*types.Slice); ok && types.Identical(sl.Elem(), types.Typ[types.String]) {
						list = v
					}
				}
			}
		}
		return true
	})
	if list == nil {
		c.Anchor(rule, "diff.SpecDifferences.reportChanges › list of lines", "no ranged []string local found")
		return
	}
	var bad []string
	for _, a := range goan.AssignmentsTo(info, fd.Body, list) {
		if a.Rhs == nil {
			continue
		}
		switch x := ast.Unparen(a.Rhs).(type) {
		case *ast.CallExpr:
			if goan.IsBuiltinCall(info, x, "append") && len(x.Args) >= 1 && identIs(info, x.Args[0], list) {
				continue
			}
			if goan.IsBuiltinCall(info, x, "make") {
				continue
			}
			bad = append(bad, goan.ExprString(a.Rhs))
		case *ast.CompositeLit:
			continue
		default:
			bad = append(bad, goan.ExprString(a.Rhs))
		}
	}
	c.Check(len(bad) == 0, rule, "diff.SpecDifferences.reportChanges › lines are only appended and sorted", c.posOf(pk, fd.Pos()), "append / make only",
		fmt.Sprintf("the list of report lines is re-assigned from %v: differences that render as the same line (two headers changed alike, an array and its items) are listed once while the count and the JSON report keep them all", bad))
}

// checkIgnoresAlwaysRead: readIgnores answers without reading the file only when no file was named.
func checkIgnoresAlwaysRead(c *Ctx, rule string, cmds *packages.Package) {
	c.Rule(rule, "DiffCommand.readIgnores returns successfully before decoding the file only under a test of the option's value against constants (no file named)", 1)
	fd := load.FuncDecl(cmds, "DiffCommand.readIgnores")
	if fd == nil {
		c.Anchor(rule, "commands.DiffCommand.readIgnores", "not found")
		return
	}
	info := cmds.TypesInfo
	var decodePos token.Pos
	ast.Inspect(fd.Body, func(n ast.Node) bool {
		if call, ok := n.(*ast.CallExpr); ok {
			if fn := goan.Callee(info, call); fn != nil && (goan.CalleeName(fn) == "encoding/json.Unmarshal" || strings.HasSuffix(goan.CalleeName(fn), "Decoder.Decode")) {
				decodePos = call.Pos()
			}
		}
		return true
	})
	if !decodePos.IsValid() {
		c.Anchor(rule, "commands.DiffCommand.readIgnores › decode", "no json.Unmarshal / Decode call")
		return
	}
	n := 0
	goan.WalkGuards(info, fd.Body, func(leaf ast.Node, guards []goan.Lit, _ []ast.Stmt) {
		rs, ok := leaf.(*ast.ReturnStmt)
		if !ok || len(rs.Results) != 2 || !goan.IsNil(info, rs.Results[1]) || rs.Pos() > decodePos {
			return
		}
		n++
		// every atom of the (non-early) guards compares a string with a constant
		okGuard, seen := true, false
		for _, g := range guards {
			if g.Early {
				continue
			}
			seen = true
			ast.Inspect(g.E, func(m ast.Node) bool {
				if m == nil {
					return true
				}
				switch x := m.(type) {
				case *ast.BinaryExpr:
					if x.Op == token.LOR || x.Op == token.LAND {
						return true
					}
					if x.Op == token.EQL {
						if _, isConst := goan.StringVal(info, x.Y); isConst {
							return false
						}
					}
					okGuard = false
					return false
				case *ast.ParenExpr:
					return true
				default:
					okGuard = false
					return false
				}
			})
		}
		c.Check(seen && okGuard, rule, fmt.Sprintf("commands.DiffCommand.readIgnores › success return #%d before the file is decoded", n), c.posOf(cmds, rs.Pos()), "only when no ignore file is named",
			"readIgnores answers an empty list without decoding the file under a condition that is not a test of the option's value: an ignore list that does not look like a regular non-empty file (a pipe, /dev/stdin, a FIFO) is dropped and nothing is ignored")
	})
}

// checkLocatedByKey: two differences that the reader (and the ignore file) must tell apart
// need different locations. Inside a loop over a map of named things of a spec (headers,
// parameters, responses, properties), every difference is located under the key of the iteration.
func checkLocatedByKey(c *Ctx, rule string, pk *packages.Package) {
	c.Rule(rule, "inside a range over a string-keyed map of a spec, every DifferenceLocation handed to an emission derives from the key of the iteration", 3)
	info := pk.TypesInfo
	isLoc := func(t types.Type) bool { return t != nil && strings.HasSuffix(goan.NamedPath(t), "/diff.DifferenceLocation") }
	for _, fd := range load.AllFuncs(pk) {
		if fd.Body == nil {
			continue
		}
		fd := fd
		ord := map[string]int{}
		ast.Inspect(fd.Body, func(nd ast.Node) bool {
			rs, ok := nd.(*ast.RangeStmt)
			if !ok {
				return true
			}
			mt, ok := info.TypeOf(rs.X).Underlying().(*types.Map)
			if !ok || specCollectionElem(info.TypeOf(rs.X)) == "" {
				return true
			}
			if b, ok := mt.Key().Underlying().(*types.Basic); !ok || b.Info()&types.IsString == 0 {
				return true
			}
			kid, ok := rs.Key.(*ast.Ident)
			if !ok || kid.Name == "_" {
				return true
			}
			key := info.Defs[kid]
			// locations declared inside the loop body that mention the key (directly or through another such local)
			keyed := map[types.Object]bool{}
			for changed := true; changed; {
				changed = false
				ast.Inspect(rs.Body, func(m ast.Node) bool {
					as, ok := m.(*ast.AssignStmt)
					if !ok || len(as.Lhs) != 1 || len(as.Rhs) != 1 {
						return true
					}
					id, ok := as.Lhs[0].(*ast.Ident)
					if !ok {
						return true
					}
					o := info.ObjectOf(id)
					if o == nil || keyed[o] || !isLoc(o.Type()) {
						return true
					}
					if goan.Mentions(info, as.Rhs[0], key) {
						keyed[o] = true
						changed = true
						return true
					}
					for ko := range keyed {
						if goan.Mentions(info, as.Rhs[0], ko) {
							keyed[o] = true
							changed = true
						}
					}
					return true
				})
			}
			ast.Inspect(rs.Body, func(m ast.Node) bool {
				if inner, ok := m.(*ast.RangeStmt); ok && inner != rs {
					return false // an inner loop locates under its own key (checked for itself)
				}
				call, ok := m.(*ast.CallExpr)
				if !ok {
					return true
				}
				fn := goan.Callee(info, call)
				if fn == nil || fn.Pkg() != pk.Types {
					return true
				}
				switch fn.Name() {
				case "addDiffs", "addTypeDiff", "compareSchema", "compareItems", "compareSimpleSchema", "compareDescripton":
				default:
					return true
				}
				for _, a := range call.Args {
					if !isLoc(info.TypeOf(a)) {
						continue
					}
					okArg := goan.Mentions(info, a, key)
					for ko := range keyed {
						if goan.Mentions(info, a, ko) {
							okArg = true
						}
					}
					base := fmt.Sprintf("diff.%s › range %s › %s(%s)", load.FuncName(fd), goan.ExprString(rs.X), fn.Name(), goan.ExprString(a))
					ord[base]++
					k := base
					if ord[base] > 1 {
						k = fmt.Sprintf("%s #%d", base, ord[base])
					}
					c.Check(okArg, rule, k, c.posOf(pk, call.Pos()), "located under "+kid.Name,
						fmt.Sprintf("inside the loop over %s the differences are reported at %s, which does not depend on %s: two entries of the map changed in the same way give identical report lines and identical JSON entries, so ignoring one ignores the other", goan.ExprString(rs.X), goan.ExprString(a), kid.Name))
				}
				return true
			})
			return true
		})
	}
}
