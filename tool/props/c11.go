package props

import (
	"fmt"
	"go/ast"
	"go/token"
	"go/types"
	"sort"
	"strings"

	"golang.org/x/tools/go/packages"

	"verif/tool/goan"
	"verif/tool/load"
)

func init() { register("C11", checkC11) }

// file-system mutators (by callee name) and the functions allowed to call them
var fsMutators = map[string]bool{
	"os.WriteFile": true, "os.Create": true, "os.OpenFile": true, "os.Remove": true, "os.RemoveAll": true, "os.Rename": true, "os.Truncate": true,
	"os.Mkdir": true, "os.MkdirAll": true, "os.MkdirTemp": true, "os.Chmod": true, "os.Chtimes": true, "os.Symlink": true, "os.Link": true, "os.CreateTemp": true,
	"io/ioutil.WriteFile": true, "io/ioutil.TempDir": true, "io/ioutil.TempFile": true,
}

var c11AllowedMutators = map[string]string{
	"generator.GenOpts.write › os.WriteFile":       "the single writer of generated files, behind the SkipExists test (R1)",
	"generator.GenOpts.write › os.MkdirAll":        "creates the target directory of a file about to be written",
	"generator.WithAutoXOrder › os.MkdirTemp":      "temporary copy of the spec with x-order (outside the target)",
	"generator.WithAutoXOrder › os.WriteFile":      "temporary copy of the spec with x-order (outside the target)",
	"generator.WithAutoXOrder › os.CreateTemp":     "temporary copy of the spec with x-order (outside the target)",
	"generator.AddXOrderOnProperty › os.WriteFile": "x-order pre-processing of a temporary spec copy",
}

func checkC11(c *Ctx) {
	c.Explain("regeneration never destroys user code: (R1) in GenOpts.write the branch `t.SkipExists && fileExists(dir, fname)` with an immediate return dominates every file-system write, and the name tested is the very name written (same variables, not reassigned in between); (R2) the configure template's SkipExists is `!gen.RegenerateConfigureAPI`, wired un-negated from the --regenerate-configureapi flag, and every configurator that sets a GenOpts field read by DefaultSectionOpts runs before opts.EnsureDefaults() in createSwagger; (R3) the only file-system mutators reachable in the generator are the audited ones (no Remove/Rename/Truncate); (R4) the generator reads the target only through fileExists and the os.Stat before MkdirAll. " +
		"Decides these mechanisms, not byte identity of regenerated files with a fresh generation (goimports resolves missing imports from sibling files: templates rely on it) nor stale files of removed operations.")
	c.Assume("golang.org/x/tools/imports (goimports) is deterministic for a given target directory content")
	prog := c.Prog("./generator", "./cmd/swagger/commands/generate")
	gen := prog.Pkg(load.PkgGenerator)
	cmd := prog.Pkg(load.PkgGenerate)
	info := gen.TypesInfo

	// ---- R1 write guard
	c.Rule("C11.R1.skip-exists", "GenOpts.write: `SkipExists && fileExists(dir, fname)` → return nil precedes every os.WriteFile/MkdirAll; tested name == written name", 4)
	fd := load.FuncDecl(gen, "GenOpts.write")
	if fd == nil {
		c.Anchor("C11.R1.skip-exists", "GenOpts.write", "not found")
	} else {
		var guardPos token.Pos
		var dirObj, nameObj types.Object
		for _, st := range fd.Body.List {
			ifs, ok := st.(*ast.IfStmt)
			if !ok {
				continue
			}
			var lits []goan.Lit
			goan.Flatten(ifs.Cond, true, &lits)
			skip, exists := false, false
			for _, l := range lits {
				if l.Pos && goan.LastSel(l.E) == "SkipExists" {
					skip = true
				}
				if call, ok := ast.Unparen(l.E).(*ast.CallExpr); ok && l.Pos && len(call.Args) == 2 {
					if fn := goan.Callee(info, call); fn != nil && fn.Name() == "fileExists" {
						exists = true
						if a, ok := ast.Unparen(call.Args[0]).(*ast.Ident); ok {
							dirObj = info.Uses[a]
						}
						if b, ok := ast.Unparen(call.Args[1]).(*ast.Ident); ok {
							nameObj = info.Uses[b]
						}
					}
				}
			}
			if skip && exists && len(lits) == 2 && len(ifs.Body.List) > 0 {
				if ret, ok := ifs.Body.List[len(ifs.Body.List)-1].(*ast.ReturnStmt); ok && len(ret.Results) == 1 && goan.IsNil(info, ret.Results[0]) {
					guardPos = ifs.Pos()
				}
			}
		}
		c.Check(guardPos.IsValid() && dirObj != nil && nameObj != nil, "C11.R1.skip-exists", "generator.GenOpts.write › guard", c.posOf(gen, fd.Pos()),
			"top-level `if t.SkipExists && fileExists(dir, fname) { …; return nil }`", "the SkipExists/fileExists guard with an immediate `return nil` is not a top-level statement of write any more: an existing user-editable file can be overwritten")
		// every mutator call comes after the guard, with the same dir/name variables
		nWrites := 0
		ast.Inspect(fd.Body, func(n ast.Node) bool {
			call, ok := n.(*ast.CallExpr)
			if !ok {
				return true
			}
			fn := goan.Callee(info, call)
			if fn == nil || !fsMutators[goan.CalleeName(fn)] {
				return true
			}
			nWrites++
			okPos := guardPos.IsValid() && call.Pos() > guardPos
			okName := true
			if goan.CalleeName(fn) == "os.WriteFile" {
				okName = false
				if jc, isCall := ast.Unparen(call.Args[0]).(*ast.CallExpr); isCall && len(jc.Args) == 2 {
					if identIs(info, jc.Args[0], dirObj) && identIs(info, jc.Args[1], nameObj) {
						okName = true
					}
				}
			}
			c.Check(okPos && okName, "C11.R1.skip-exists", fmt.Sprintf("generator.GenOpts.write › %s after the guard, same path", goan.CalleeName(fn)), c.posOf(gen, call.Pos()),
				"after the guard; writes filepath.Join(dir, fname) of the tested variables", "a write happens before the SkipExists guard or to a path other than the one tested")
			return true
		})
		if nWrites < 2 {
			c.Unk("C11.R1.skip-exists", "generator.GenOpts.write › writes", "", "expected the WriteFile/MkdirAll calls")
		}
		// dir / fname are not reassigned between the test and the writes
		for _, o := range []types.Object{dirObj, nameObj} {
			if o == nil {
				continue
			}
			as := goan.AssignmentsTo(info, fd.Body, o)
			c.Check(len(as) == 1, "C11.R1.skip-exists", "generator.GenOpts.write › "+o.Name()+" assigned once", c.posOf(gen, fd.Pos()),
				"the tested name is the written name", fmt.Sprintf("%s is assigned %d times in write: the file name tested by fileExists is not the name that is written, so SkipExists never matches the file produced by the previous run", o.Name(), len(as)))
		}
	}

	checkWriteUnconditional(c, "C11.R1.skip-exists", gen)

	// ---- R2 configure template and flag wiring
	checkConfigureWiring(c, gen, cmd)

	// ---- R3 / R4 file-system effects
	c.Rule("C11.R3.fs-mutators", "file-system mutators in the generator package are only the audited ones; no Remove/Rename/Truncate anywhere", 3)
	for _, cs := range goan.FindCalls([]*packages.Package{gen}, func(n string) bool { return fsMutators[n] }) {
		k := fmt.Sprintf("generator.%s › %s", cs.FnName, cs.Callee)
		why, ok := c11AllowedMutators[k]
		c.Check(ok, "C11.R3.fs-mutators", k, c.posOf(gen, cs.Call.Pos()), "audited: "+why, "file-system mutation at an unaudited site: generation may modify or remove files it did not produce")
	}
	c.Rule("C11.R4.target-reads", "the generator tests the target only through fileExists (os.Stat) and the os.Stat before MkdirAll; it never reads target file content", 2)
	readers := map[string]bool{"os.Stat": true, "os.Lstat": true, "os.ReadFile": true, "os.Open": true, "os.ReadDir": true, "io/ioutil.ReadFile": true, "io/ioutil.ReadDir": true, "path/filepath.Walk": true, "path/filepath.WalkDir": true, "path/filepath.Glob": true}
	allowedReaders := map[string]string{
		"fileExists › os.Stat":                      "the SkipExists test",
		"GenOpts.render › os.ReadFile":              "reads a custom template file named by the layout configuration (input)",
		"ReadConfig › os.Open":                      "config file (input)",
		"GenOpts.write › os.Stat":                   "directory existence before MkdirAll",
		"Repository.LoadDir › os.ReadFile":          "custom templates (input)",
		"Repository.LoadDir › path/filepath.Walk":   "custom templates (input)",
		"GenOpts.CheckOpts › os.Stat":               "existence of the spec / template dir / target (inputs)",
		"GenOpts.EnsureDefaults › os.Stat":          "inputs",
		"findSwaggerSpec › os.Stat":                 "locating the input spec",
		"ReadConfig › os.Stat":                      "config file (input)",
		"WithAutoXOrder › os.ReadFile":              "reads the input spec",
		"golangResolveBaseImport › os.Stat":         "module/GOPATH resolution walks parent directories",
		"tryResolveModule › os.ReadFile":            "reads go.mod of the target module to compute import paths (input of import-path resolution)",
		"tryResolveModule › os.Stat":                "module resolution",
		"checkPrefixAndFetchRelativePath › os.Stat": "GOPATH resolution",
		"GoLangOpts › os.Stat":                      "GOPATH/module resolution",
		"GoLangOpts › os.ReadFile":                  "go.mod of the target module",
		"resolveGoModFile › os.Stat":                "go.mod lookup in parent directories",
		"resolveGoModFile › os.Open":                "go.mod lookup in parent directories",
		"resolveGoModFile › os.ReadFile":            "go.mod lookup in parent directories",
	}
	for _, cs := range goan.FindCalls([]*packages.Package{gen}, func(n string) bool { return readers[n] }) {
		k := cs.FnName + " › " + cs.Callee
		why, ok := allowedReaders[k]
		if cs.FnName == "GenOpts.write" {
			// inside the writer only the directory may be examined: anything that looks at the
			// target file itself (beyond fileExists) makes the output depend on a previous run
			ok = ok && len(cs.Call.Args) == 1 && goan.ExprString(cs.Call.Args[0]) == "dir"
			k += "(" + goan.ExprString(cs.Call.Args[0]) + ")"
		}
		c.Check(ok, "C11.R4.target-reads", "generator."+k, c.posOf(gen, cs.Call.Pos()), "audited: "+why, "file-system read at an unaudited site: generated output may depend on existing target content")
	}
	// goimports resolves an un-aliased import of a …/vN path by reading the target directory: the
	// vN → versionN rename keeps the generated content independent of what is already on disk
	checkFoldedPatterns(c, "C11.R5.versioned-packages", gen)
	checkVersionedImports(c, "C11.R5.versioned-imports", gen)
	checkExternalRecognised(c, "C11.R6.external-recognised", gen)
	// a run converges to what a fresh generation writes only if it starts from the same state: nothing one
	// generation learns (a cached copy, a remembered path) is kept in a package-level variable for the next
	c.Rule("C11.R3.no-run-state", "the generator writes its package-level variables only at initialisation or under the template repository's lock (reviewed exceptions)", 5)
	checkGlobalStores(c, "C11.R3.no-run-state", []*packages.Package{gen})
	checkCompleteCopies(c, "C11.R2.complete-copies", gen)
	checkImportsExplicit(c, "C11.R4.imports-explicit", gen)
}

func checkConfigureWiring(c *Ctx, gen, cmd *packages.Package) {
	rule := "C11.R2.configure"
	c.Rule(rule, "configure template: SkipExists = !gen.RegenerateConfigureAPI; the CLI flag is copied un-negated; configurators of fields read by DefaultSectionOpts run before EnsureDefaults", 5)
	info := gen.TypesInfo
	// (a) TemplateOpts with Source asset:serverConfigureapi
	fd := load.FuncDecl(gen, "DefaultSectionOpts")
	if fd == nil {
		c.Anchor(rule, "DefaultSectionOpts", "not found")
		return
	}
	genParam := info.Defs[fd.Type.Params.List[0].Names[0]]
	found := false
	ast.Inspect(fd.Body, func(n ast.Node) bool {
		cl, ok := n.(*ast.CompositeLit)
		if !ok || goan.NamedName(info.TypeOf(cl)) != "TemplateOpts" {
			return true
		}
		src := goan.Field(cl, "Source")
		s, _ := goan.StringVal(info, src)
		skip := goan.Field(cl, "SkipExists")
		if s == "asset:serverConfigureapi" {
			found = true
			ok := false
			if un, isUn := ast.Unparen(skip).(*ast.UnaryExpr); isUn && un.Op == token.NOT {
				if se, isSel := ast.Unparen(un.X).(*ast.SelectorExpr); isSel && se.Sel.Name == "RegenerateConfigureAPI" && identIs(info, se.X, genParam) {
					ok = true
				}
			}
			c.Check(ok, rule, "generator.DefaultSectionOpts › serverConfigureapi.SkipExists", c.posOf(gen, cl.Pos()), "!gen.RegenerateConfigureAPI",
				"the user-editable configure file is not protected by `SkipExists: !gen.RegenerateConfigureAPI`: it is rewritten on every run (or never regenerated when requested)")
		} else if skip != nil {
			// no other default template may skip existing files silently… nor must it: record
			c.Note("template %s sets SkipExists = %s", s, goan.ExprString(skip))
		}
		return true
	})
	if !found {
		c.Anchor(rule, "DefaultSectionOpts › asset:serverConfigureapi", "template option not found")
	}
	// a TemplateOpts value that carries SkipExists is final: re-targeting it afterwards (Source,
	// Name, FileName, Target assigned through its variable) would make another template inherit
	// the "never overwrite" protection and go stale
	ast.Inspect(fd.Body, func(n ast.Node) bool {
		as, ok := n.(*ast.AssignStmt)
		if !ok || len(as.Lhs) != 1 || len(as.Rhs) != 1 {
			return true
		}
		cl, ok := ast.Unparen(as.Rhs[0]).(*ast.CompositeLit)
		if !ok || goan.NamedName(info.TypeOf(cl)) != "TemplateOpts" || goan.Field(cl, "SkipExists") == nil {
			return true
		}
		id, ok := as.Lhs[0].(*ast.Ident)
		if !ok {
			return true
		}
		obj := info.Defs[id]
		if obj == nil {
			obj = info.Uses[id]
		}
		var stores []string
		ast.Inspect(fd.Body, func(m ast.Node) bool {
			if st, ok := m.(*ast.AssignStmt); ok {
				for _, l := range st.Lhs {
					if se, ok := ast.Unparen(l).(*ast.SelectorExpr); ok && identIs(info, se.X, obj) && se.Sel.Name != "SkipExists" {
						stores = append(stores, se.Sel.Name)
					}
				}
			}
			return true
		})
		c.Check(len(stores) == 0, rule, "generator.DefaultSectionOpts › "+id.Name+" (carries SkipExists) is not re-targeted", c.posOf(gen, as.Pos()), "no field store through the variable",
			fmt.Sprintf("fields %v of a TemplateOpts that carries SkipExists are reassigned afterwards: another template inherits `SkipExists` and is never regenerated once its file exists", stores))
		return true
	})
	// (b) fields read by DefaultSectionOpts (not written by it)
	readSet := map[string]bool{}
	written := map[string]bool{}
	ast.Inspect(fd.Body, func(n ast.Node) bool {
		if as, ok := n.(*ast.AssignStmt); ok {
			for _, l := range as.Lhs {
				if se, ok := ast.Unparen(l).(*ast.SelectorExpr); ok && identIs(info, se.X, genParam) {
					written[se.Sel.Name] = true
				}
			}
		}
		if se, ok := n.(*ast.SelectorExpr); ok && identIs(info, se.X, genParam) {
			readSet[se.Sel.Name] = true
		}
		return true
	})
	for w := range written {
		delete(readSet, w)
	}
	var rs []string
	for r := range readSet {
		rs = append(rs, r)
	}
	sort.Strings(rs)
	c.Check(readSet["RegenerateConfigureAPI"] && len(rs) >= 5, rule, "generator.DefaultSectionOpts › option fields read", c.posOf(gen, fd.Pos()), strings.Join(rs, ", "), "could not extract the GenOpts fields DefaultSectionOpts depends on")
	// (c) configurators in the generate command package: functions storing to a *generator.GenOpts field of readSet
	ci := cmd.TypesInfo
	configurators := map[string]bool{} // by function name (methods by bare name: called through the sharedCommand interface)
	for _, f := range load.AllFuncs(cmd) {
		f := f
		ast.Inspect(f.Body, func(n ast.Node) bool {
			as, ok := n.(*ast.AssignStmt)
			if !ok {
				return true
			}
			for _, l := range as.Lhs {
				se, ok := ast.Unparen(l).(*ast.SelectorExpr)
				if !ok {
					continue
				}
				sel, ok := ci.Selections[se]
				if !ok || !readSet[se.Sel.Name] {
					continue
				}
				if n := goan.NamedName(sel.Recv()); n == "GenOpts" || n == "GenOptsCommon" {
					configurators[f.Name.Name] = true
				}
			}
			return true
		})
	}
	// (d) in createSwagger: calls to configurators precede opts.EnsureDefaults()
	cs := load.FuncDecl(cmd, "createSwagger")
	if cs == nil {
		c.Anchor(rule, "generate.createSwagger", "not found")
		return
	}
	var ensurePos token.Pos
	ast.Inspect(cs.Body, func(n ast.Node) bool {
		if call, ok := n.(*ast.CallExpr); ok {
			if se, ok := call.Fun.(*ast.SelectorExpr); ok && se.Sel.Name == "EnsureDefaults" {
				ensurePos = call.Pos()
			}
		}
		return true
	})
	if !ensurePos.IsValid() {
		c.Anchor(rule, "generate.createSwagger › opts.EnsureDefaults()", "call not found")
		return
	}
	n := 0
	ast.Inspect(cs.Body, func(nd ast.Node) bool {
		call, ok := nd.(*ast.CallExpr)
		if !ok {
			return true
		}
		name := ""
		switch f := call.Fun.(type) {
		case *ast.Ident:
			name = f.Name
		case *ast.SelectorExpr:
			name = f.Sel.Name
		}
		if !configurators[name] {
			return true
		}
		n++
		c.Check(call.Pos() < ensurePos, rule, "generate.createSwagger › "+name+"(opts) before EnsureDefaults", c.posOf(cmd, call.Pos()), "runs before the section defaults are computed",
			name+" sets options that DefaultSectionOpts reads (e.g. RegenerateConfigureAPI) but runs after opts.EnsureDefaults(): the defaults were already snapshotted, the option is silently lost")
		return true
	})
	if n < 2 {
		c.Unk(rule, "generate.createSwagger › configurator calls", "", fmt.Sprintf("found %d configurator calls (expected s.apply and contribOptionsOverride)", n))
	}
	// (e) flag wiring: opts.RegenerateConfigureAPI = s.RegenerateConfigureAPI (field tagged long:"regenerate-configureapi")
	okWire := false
	for _, f := range load.AllFuncs(cmd) {
		ast.Inspect(f.Body, func(nd ast.Node) bool {
			as, ok := nd.(*ast.AssignStmt)
			if !ok || len(as.Lhs) != 1 || len(as.Rhs) != 1 {
				return true
			}
			if goan.LastSel(as.Lhs[0]) != "RegenerateConfigureAPI" {
				return true
			}
			if rse, ok := ast.Unparen(as.Rhs[0]).(*ast.SelectorExpr); ok && rse.Sel.Name == "RegenerateConfigureAPI" {
				if sel, ok := ci.Selections[rse]; ok {
					if st, ok := derefStruct(sel.Recv()); ok {
						for i := 0; i < st.NumFields(); i++ {
							if st.Field(i).Name() == "RegenerateConfigureAPI" && strings.Contains(st.Tag(i), `long:"regenerate-configureapi"`) {
								okWire = true
							}
						}
					}
				}
			}
			return true
		})
	}
	c.Check(okWire, rule, "generate › --regenerate-configureapi → opts.RegenerateConfigureAPI", "", "copied un-negated from the flag field", "the --regenerate-configureapi flag is not copied (un-negated) into GenOpts.RegenerateConfigureAPI")
}

func derefStruct(t types.Type) (*types.Struct, bool) {
	for {
		if p, ok := t.Underlying().(*types.Pointer); ok {
			t = p.Elem()
			continue
		}
		break
	}
	st, ok := t.Underlying().(*types.Struct)
	if !ok {
		return nil, false
	}
	// search embedded structs too
	return flattenStruct(st), true
}

func flattenStruct(st *types.Struct) *types.Struct {
	var fields []*types.Var
	var tags []string
	var walk func(s *types.Struct)
	walk = func(s *types.Struct) {
		for i := 0; i < s.NumFields(); i++ {
			f := s.Field(i)
			fields = append(fields, f)
			tags = append(tags, s.Tag(i))
			if f.Embedded() {
				if es, ok := f.Type().Underlying().(*types.Struct); ok {
					walk(es)
				}
			}
		}
	}
	walk(st)
	return types.NewStruct(fields, tags)
}

// checkWriteUnconditional: in GenOpts.write the only success return that precedes the final
// os.WriteFile is the SkipExists guard: every other object that resolves to a target is
// (re)written on every generation, whatever the target held before.
func checkWriteUnconditional(c *Ctx, rule string, gen *packages.Package) {
	fd := load.FuncDecl(gen, "GenOpts.write")
	if fd == nil {
		c.Anchor(rule, "GenOpts.write", "not found")
		return
	}
	info := gen.TypesInfo
	var lastWrite token.Pos
	ast.Inspect(fd.Body, func(n ast.Node) bool {
		if call, ok := n.(*ast.CallExpr); ok {
			if fn := goan.Callee(info, call); fn != nil && goan.CalleeName(fn) == "os.WriteFile" && call.Pos() > lastWrite {
				lastWrite = call.Pos()
			}
		}
		return true
	})
	var early []string
	goan.WalkGuards(info, fd.Body, func(n ast.Node, guards []goan.Lit, _ []ast.Stmt) {
		rs, ok := n.(*ast.ReturnStmt)
		if !ok || rs.Pos() > lastWrite || len(rs.Results) != 1 || !goan.IsIdent(rs.Results[0], "nil") {
			return
		}
		skip := false
		for _, g := range guards {
			if g.Pos && !g.Early && goan.LastSel(g.E) == "SkipExists" {
				skip = true
			}
		}
		if !skip {
			early = append(early, c.posOf(gen, rs.Pos()))
		}
	})
	c.Check(lastWrite.IsValid() && len(early) == 0, rule, "generator.GenOpts.write › the SkipExists guard is the only success return before the file is written", c.posOf(gen, fd.Pos()), "every other target is rewritten on every run",
		fmt.Sprintf("write() returns nil before writing at %v outside the SkipExists guard: a file left by a previous run (e.g. the embedded spec) survives a regeneration from a changed spec", early))
}

// checkExternalRecognised: a definition carrying x-go-type designates a type the user wrote;
// the generator leaves its file alone only as long as the extension is recognised. The
// recognition is the lenient decode of the extension: hasExternalType gives up only when the
// extension is absent or the lenient decoder fails, and isExternal adds only the embedded test.
func checkExternalRecognised(c *Ctx, rule string, gen *packages.Package) {
	c.Rule(rule, "x-go-type is recognised by a lenient decode: hasExternalType answers false only when the extension is absent or mapstructure.Decode fails; no strict decoder configuration; isExternal = recognised ∧ not embedded", 4)
	info := gen.TypesInfo
	fd := load.FuncDecl(gen, "hasExternalType")
	if fd == nil {
		c.Anchor(rule, "generator.hasExternalType", "not found")
		return
	}
	// the decode call
	var decodes []string
	ast.Inspect(fd.Body, func(n ast.Node) bool {
		if call, ok := n.(*ast.CallExpr); ok {
			if fn := goan.Callee(info, call); fn != nil && fn.Pkg() != nil && strings.Contains(fn.Pkg().Path(), "mapstructure") {
				decodes = append(decodes, fn.Name())
			}
		}
		return true
	})
	lenient := len(decodes) > 0
	for _, d := range decodes {
		// a configured decoder is as lenient as Decode unless it sets a strict option (below)
		lenient = lenient && (d == "Decode" || d == "WeakDecode" || d == "NewDecoder")
	}
	c.Check(lenient, rule, "generator.hasExternalType › decoder", c.posOf(gen, fd.Pos()), "mapstructure."+strings.Join(decodes, ","),
		fmt.Sprintf("hasExternalType decodes x-go-type through %v rather than the lenient mapstructure decoder: an extension the lenient decoder accepts (an extra key, a loosely typed value) is no longer recognised, the definition is planned like any other model and the file the user wrote for it is overwritten", decodes))
	// strict decoder options anywhere in the package
	strict := 0
	for _, f := range gen.Syntax {
		ast.Inspect(f, func(n ast.Node) bool {
			cl, ok := n.(*ast.CompositeLit)
			if !ok {
				return true
			}
			tv, ok := info.Types[cl]
			if !ok || !strings.HasSuffix(tv.Type.String(), "mapstructure/v2.DecoderConfig") && !strings.HasSuffix(tv.Type.String(), "mapstructure.DecoderConfig") {
				return true
			}
			for _, el := range cl.Elts {
				if kv, ok := el.(*ast.KeyValueExpr); ok {
					if k, ok := kv.Key.(*ast.Ident); ok && (k.Name == "ErrorUnused" || k.Name == "ErrorUnset") {
						if v, ok := info.Types[kv.Value]; !ok || v.Value == nil || v.Value.String() != "false" {
							strict++
							c.Bad(rule, "generator › strict decoder option "+k.Name, c.posOf(gen, kv.Pos()),
								"a decoder of the generator package sets "+k.Name+": input the lenient decoder accepts is rejected, and what the rejected extension protected (an x-go-type model file written by the user) is generated over")
						}
					}
				}
			}
			return true
		})
	}
	if strict == 0 {
		c.Ok(rule, "generator › no strict decoder option", "", "no DecoderConfig literal sets ErrorUnused / ErrorUnset")
	}
	// every `false` answer of hasExternalType
	n := 0
	goan.WalkGuards(info, fd.Body, func(leaf ast.Node, guards []goan.Lit, _ []ast.Stmt) {
		ret, ok := leaf.(*ast.ReturnStmt)
		if !ok || len(ret.Results) != 2 {
			return
		}
		if tv, ok := info.Types[ret.Results[1]]; !ok || tv.Value == nil || tv.Value.String() != "false" {
			return
		}
		n++
		var conds []string
		for _, g := range guards {
			if !g.Early {
				conds = append(conds, g.String())
			}
		}
		sort.Strings(conds)
		got := strings.Join(conds, " ∧ ")
		okCond := got == "!(ok)" || got == "err != nil"
		c.Check(okCond, rule, fmt.Sprintf("generator.hasExternalType › answers false #%d", n), c.posOf(gen, ret.Pos()), "under "+got,
			fmt.Sprintf("hasExternalType answers false under [%s]: beyond an absent extension and a failed lenient decode, a definition with x-go-type is treated as a model to generate and the user's file is overwritten", got))
	})
	// the single-definition entry point renders only what is not external
	if dg := load.FuncDecl(gen, "definitionGenerator.Generate"); dg == nil {
		c.Anchor(rule, "generator.definitionGenerator.Generate", "not found")
	} else {
		found := false
		goan.WalkGuards(info, dg.Body, func(leaf ast.Node, guards []goan.Lit, _ []ast.Stmt) {
			ast.Inspect(leaf, func(n ast.Node) bool {
				call, ok := n.(*ast.CallExpr)
				if !ok {
					return true
				}
				fn := goan.Callee(info, call)
				if fn == nil || (fn.Name() != "generateModel" && fn.Name() != "renderDefinition") {
					return true
				}
				found = true
				guarded := false
				for _, g := range guards {
					if g.Tag == nil && !g.NonEmpty && !g.Pos && goan.LastSel(g.E) == "External" {
						guarded = true
					}
				}
				c.Check(guarded, rule, "generator.definitionGenerator.Generate › renders only when not External", c.posOf(gen, call.Pos()), "under !External",
					"GenerateDefinition renders a definition without testing GenDefinition.External: a definition with x-go-type is written over the file the user provides for it")
				return true
			})
		})
		if !found {
			c.Anchor(rule, "generator.definitionGenerator.Generate › render call", "no call to generateModel / renderDefinition")
		}
	}
	// isExternal
	if ie := load.FuncDecl(gen, "isExternal"); ie == nil {
		c.Anchor(rule, "generator.isExternal", "not found")
	} else {
		okRet := false
		for _, st := range ie.Body.List {
			if ret, ok := st.(*ast.ReturnStmt); ok && len(ret.Results) == 1 {
				var lits []goan.Lit
				goan.Flatten(ret.Results[0], true, &lits)
				var ss []string
				for _, l := range lits {
					ss = append(ss, l.String())
				}
				sort.Strings(ss)
				okRet = strings.Join(ss, " ∧ ") == "!(extType.Embedded) ∧ ok"
			}
		}
		c.Check(okRet, rule, "generator.isExternal › result", c.posOf(gen, ie.Pos()), "ok ∧ !extType.Embedded",
			"isExternal is no longer `recognised and not embedded`: a definition with x-go-type is planned as a generated model and overwrites the user's file")
	}
}
