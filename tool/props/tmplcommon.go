package props

import (
	"fmt"
	"go/ast"
	"go/types"
	"sort"
	"strconv"
	"strings"

	"golang.org/x/tools/go/packages"

	"verif/tool/goan"
	"verif/tool/load"
	"verif/tool/tmpl"
)

// TemplateRoot is one (asset, data type) pair rendered by the generator.
type TemplateRoot struct {
	Asset    string // template name, e.g. "serverParameter"
	Section  string
	Type     types.Type
	Markdown bool
}

// templateRoots derives the roots from DefaultSectionOpts / MarkdownSectionOpts (which asset
// belongs to which section) and the render* functions (which data type a section is
// rendered with).
func templateRoots(c *Ctx, gen *packages.Package) []TemplateRoot {
	info := gen.TypesInfo
	// section -> data type
	secType := map[string]types.Type{}
	for _, fd := range load.AllFuncs(gen) {
		fd := fd
		ast.Inspect(fd.Body, func(n ast.Node) bool {
			rs, ok := n.(*ast.RangeStmt)
			if !ok {
				return true
			}
			se, ok := ast.Unparen(rs.X).(*ast.SelectorExpr)
			if !ok {
				return true
			}
			inner, ok := ast.Unparen(se.X).(*ast.SelectorExpr)
			if !ok || inner.Sel.Name != "Sections" {
				return true
			}
			sec := se.Sel.Name
			ast.Inspect(rs.Body, func(m ast.Node) bool {
				call, ok := m.(*ast.CallExpr)
				if !ok || len(call.Args) != 2 {
					return true
				}
				if fn := goan.Callee(info, call); fn != nil && fn.Name() == "write" {
					if t := info.TypeOf(call.Args[1]); t != nil {
						secType[sec] = t
					}
				}
				return true
			})
			return true
		})
	}
	var roots []TemplateRoot
	seen := map[string]bool{}
	for _, fname := range []string{"DefaultSectionOpts", "MarkdownSectionOpts"} {
		fd := load.FuncDecl(gen, fname)
		if fd == nil {
			continue
		}
		// literals with a Source: "asset:X", attributed to the section named by the nearest
		// enclosing `if len(sec.S) == 0` or assignment `….Sections.S = …` / `sec.S = …`
		var visit func(n ast.Node, sec string)
		visit = func(n ast.Node, sec string) {
			ast.Inspect(n, func(m ast.Node) bool {
				if m == n {
					return true
				}
				switch x := m.(type) {
				case *ast.IfStmt:
					s := sec
					ast.Inspect(x.Cond, func(k ast.Node) bool {
						if se, ok := k.(*ast.SelectorExpr); ok {
							if id, ok := se.X.(*ast.Ident); ok && id.Name == "sec" {
								s = se.Sel.Name
							}
						}
						return true
					})
					visit(x.Body, s)
					if x.Else != nil {
						visit(x.Else, s)
					}
					return false
				case *ast.AssignStmt:
					s := sec
					for _, l := range x.Lhs {
						if se, ok := ast.Unparen(l).(*ast.SelectorExpr); ok {
							if goan.LastSel(se.X) == "Sections" || goan.IsIdent(se.X, "sec") {
								s = se.Sel.Name
							}
						}
					}
					for _, r := range x.Rhs {
						visit(r, s)
					}
					return false
				case *ast.CompositeLit:
					if goan.NamedName(info.TypeOf(x)) == "TemplateOpts" {
						if v := goan.Field(x, "Source"); v != nil {
							if s, ok := goan.StringVal(info, v); ok && strings.HasPrefix(s, "asset:") {
								asset := strings.TrimPrefix(s, "asset:")
								k := asset + "|" + sec
								if !seen[k] && sec != "" {
									seen[k] = true
									roots = append(roots, TemplateRoot{Asset: asset, Section: sec, Type: secType[sec], Markdown: fname == "MarkdownSectionOpts"})
								}
							}
						}
					}
				}
				return true
			})
		}
		visit(fd.Body, "")
	}
	sort.Slice(roots, func(i, j int) bool { return roots[i].Asset < roots[j].Asset })
	return roots
}

// sprigFuncNames reads the function names registered by sprig's generic function map from the
// type-checked dependency (keys of the genericMap literal).
func sprigFuncNames(c *Ctx) map[string]bool {
	prog := c.ProgDeps("./generator", "github.com/go-openapi/runtime/yamlpc")
	out := map[string]bool{}
	for path, pk := range prog.ByPath {
		if !strings.HasPrefix(path, "github.com/Masterminds/sprig") {
			continue
		}
		for _, f := range pk.Syntax {
			ast.Inspect(f, func(n ast.Node) bool {
				vs, ok := n.(*ast.ValueSpec)
				if !ok {
					return true
				}
				for i, nm := range vs.Names {
					if (nm.Name == "genericMap" || nm.Name == "nonhermeticFunctions") && i < len(vs.Values) {
						if cl, ok := vs.Values[i].(*ast.CompositeLit); ok {
							for _, el := range cl.Elts {
								if kv, ok := el.(*ast.KeyValueExpr); ok {
									if bl, ok := kv.Key.(*ast.BasicLit); ok {
										if s, err := strconv.Unquote(bl.Value); err == nil {
											out[s] = true
										}
									}
								}
							}
						}
					}
				}
				return true
			})
		}
	}
	return out
}

// evalTemplates runs the abstract evaluation over all roots (cached per contrib overlay).
func (c *Ctx) evalTemplates(contrib string) (*tmpl.Evaluator, []TemplateRoot, *packages.Package) {
	if contrib == "" {
		contrib = c.Contrib
	}
	if ev, ok := c.evals[contrib]; ok {
		return ev.ev, ev.roots, ev.gen
	}
	prog := c.ProgDeps("./generator", "github.com/go-openapi/runtime/yamlpc")
	gen := prog.Pkg(load.PkgGenerator)
	forest := c.Forest(gen, contrib)
	ev := tmpl.NewEvaluator(forest, gen, sprigFuncNames(c))
	roots := templateRoots(c, gen)
	for _, r := range roots {
		if r.Type == nil {
			continue
		}
		if r.Markdown {
			ev.RootIn(r.Asset, r.Type, "markdown")
		} else {
			ev.Root(r.Asset, r.Type)
		}
	}
	if c.evals == nil {
		c.evals = map[string]*evalCache{}
	}
	c.evals[contrib] = &evalCache{ev, roots, gen}
	c.Analysed("template instantiations", len(ev.Instantiations))
	c.Analysed("template field accesses", ev.Accesses)
	c.Analysed("template emissions", len(ev.Emits))
	return ev, roots, gen
}

type evalCache struct {
	ev    *tmpl.Evaluator
	roots []TemplateRoot
	gen   *packages.Package
}

// DumpTemplates prints a summary of the template evaluation (debugging aid).
func DumpTemplates(c *Ctx, what string) {
	ev, roots, _ := c.evalTemplates("")
	fmt.Println("roots:", len(roots))
	for _, r := range roots {
		fmt.Printf("  %-24s %-16s %s md=%v\n", r.Asset, r.Section, typeStr(r.Type), r.Markdown)
	}
	fmt.Println("trees:", len(ev.F.Trees), "instantiations:", len(ev.Instantiations), "accesses:", ev.Accesses, "unknown-typed:", ev.Unknown, "emissions:", len(ev.Emits))
	fmt.Println("undefined templates:", ev.Undefined)
	fmt.Println("unknown funcs:", ev.UnknownFuncs)
	fmt.Println("unlisted files:", ev.F.Unlisted, "missing:", ev.F.Missing, "parse errors:", ev.F.ParseErrs, "dups:", ev.F.Duplicates)
	if what == "quals" {
		var rs []string
		for r := range ev.Qualifiers {
			rs = append(rs, r)
		}
		sort.Strings(rs)
		for _, r := range rs {
			imp := importedNames(ev.F.Trees[r])
			var missing []string
			for q, pos := range ev.Qualifiers[r] {
				if !imp[q] {
					missing = append(missing, q+"@"+pos)
				}
			}
			sort.Strings(missing)
			fmt.Printf("QUALS %-24s imports=%d used=%d missing=%v\n", r, len(imp), len(ev.Qualifiers[r]), missing)
		}
	}
	for _, cc := range ev.CommentedCode {
		fmt.Printf("COMMENTED-CODE %s [%s] marker %q entered in %s\n", cc.Tree.PosStr(cc.Pos), cc.Inst, cc.Marker, cc.Entry)
	}
	for _, f := range ev.Findings {
		fmt.Printf("TYPE %v %s [%s] %s: no field/method %q on %s\n", f.Definite, f.Tree.PosStr(f.Pos), f.Inst, f.Chain, f.Field, f.OnType)
	}
	if what == "emits" {
		for _, e := range ev.Emits {
			if len(e.Val.Origins) == 0 {
				continue
			}
			var os []string
			for _, o := range e.Val.Origins {
				os = append(os, o.Owner+"."+o.Field)
			}
			fmt.Printf("EMIT %-26s %-10s %s [%s] {{%s}} from %v\n", strings.Join(e.Context, "+"), e.Val.Kind, e.Tree.PosStr(e.Pos), e.Inst, e.Pipe, os)
		}
	}
}

func typeStr(t types.Type) string {
	if t == nil {
		return "?"
	}
	return types.TypeString(t, func(p *types.Package) string { return p.Name() })
}

// importedNames: names made available by the import block(s) written literally in the
// template text: the alias when given, else the last path element.
func importedNames(t *tmpl.Tree) map[string]bool {
	out := map[string]bool{}
	if t == nil {
		return out
	}
	src := t.Src
	for {
		i := strings.Index(src, "import (")
		if i < 0 {
			break
		}
		rest := src[i+len("import ("):]
		j := strings.Index(rest, "\n)")
		if j < 0 {
			break
		}
		for _, line := range strings.Split(rest[:j], "\n") {
			line = strings.TrimSpace(line)
			// strip template actions
			for strings.Contains(line, "{{") && strings.Contains(line, "}}") {
				a, b := strings.Index(line, "{{"), strings.Index(line, "}}")
				if b < a {
					break
				}
				line = strings.TrimSpace(line[:a] + " " + line[b+2:])
			}
			q1 := strings.IndexByte(line, '"')
			if q1 < 0 {
				continue
			}
			q2 := strings.IndexByte(line[q1+1:], '"')
			if q2 < 0 {
				continue
			}
			path := line[q1+1 : q1+1+q2]
			alias := strings.TrimSpace(line[:q1])
			name := path
			if k := strings.LastIndexByte(path, '/'); k >= 0 {
				name = path[k+1:]
			}
			if alias != "" && alias != "_" {
				name = alias
			}
			out[name] = true
		}
		src = rest[j:]
	}
	return out
}
