// Package props holds one file per property: which rules, with which frozen tables and
// floors, decide the structural part of that property.
package props

import (
	"fmt"
	"os"
	"sort"
	"strings"

	"golang.org/x/tools/go/packages"

	"verif/tool/core"
	"verif/tool/goan"
	"verif/tool/load"
	"verif/tool/tmpl"
)

type Ctx struct {
	*core.Run
	progs   map[string]*load.Program
	forests map[string]*tmpl.Forest
	// Overlay replaces Go files (absolute path -> content) — mutant self-test.
	Overlay map[string][]byte
	// TmplOverlay replaces template files (repo-relative path -> content).
	TmplOverlay map[string]string
	ExtraEnv    []string
	// Contrib, when set, overlays the named contributed template set (generator/templates/contrib/<name>)
	// on the standard templates, as `--template <name>` does (thorough tier).
	Contrib string
	rel     *goan.Rel
	evals   map[string]*evalCache
	linears map[string]*tmpl.Linear
}

func NewCtx(r *core.Run) *Ctx {
	return &Ctx{Run: r, progs: map[string]*load.Program{}, forests: map[string]*tmpl.Forest{}}
}

// Prog loads (once per process) the given repository packages with types and syntax.
func (c *Ctx) Prog(patterns ...string) *load.Program {
	return c.prog(false, patterns...)
}

// ProgDeps also keeps dependencies' syntax and type information.
func (c *Ctx) ProgDeps(patterns ...string) *load.Program {
	return c.prog(true, patterns...)
}

func (c *Ctx) prog(deps bool, patterns ...string) *load.Program {
	sort.Strings(patterns)
	key := fmt.Sprint(deps, patterns, c.ExtraEnv)
	if p, ok := c.progs[key]; ok {
		return p
	}
	p, err := load.Go(c.RepoDir, deps, c.ExtraEnv, c.Overlay, patterns...)
	if err != nil {
		fmt.Printf("FATAL: cannot load %v from %s: %v\n", patterns, c.RepoDir, err)
		c.Run.Rule("load", "repository packages load and type-check", 1)
		c.Run.Unk("load", strings.Join(patterns, ","), "", "load failed: "+err.Error())
		os.Exit(c.Run.Finish())
	}
	c.progs[key] = p
	n := 0
	for path := range p.ByPath {
		if strings.HasPrefix(path, load.Mod) {
			n++
		}
	}
	c.Analysed("packages(repo)", n)
	return p
}

// Forest loads the template forest (standard templates, or with a contrib overlay).
func (c *Ctx) Forest(gen *packages.Package, contrib string) *tmpl.Forest {
	if f, ok := c.forests[contrib]; ok {
		return f
	}
	f, err := tmpl.LoadForest(c.RepoDir, gen, contrib, c.TmplOverlay)
	if err != nil {
		fmt.Printf("FATAL: cannot load templates: %v\n", err)
		c.Run.Rule("load", "templates load and parse", 1)
		c.Run.Unk("load", "templates", "", "load failed: "+err.Error())
		os.Exit(c.Run.Finish())
	}
	c.forests[contrib] = f
	c.Analysed("template trees", len(f.Trees))
	return f
}

// Check is the signature of a property check.
type CheckFunc func(c *Ctx)

var Registry = map[string]CheckFunc{}

func register(id string, f CheckFunc) { Registry[id] = f }

// Thorough holds the extra work of the thorough tier per property (variant loads, mutant
// self-test); it runs after the quick rules in the same Run.
var Thorough = map[string]CheckFunc{}

var fileCache = map[string][]byte{}

func readFileCached(path string) ([]byte, error) {
	if b, ok := fileCache[path]; ok {
		return b, nil
	}
	b, err := os.ReadFile(path)
	if err == nil {
		fileCache[path] = b
	}
	return b, err
}
