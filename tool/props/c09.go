package props

import (
	"fmt"
	"go/ast"
	"go/constant"
	"go/token"
	"go/types"
	"sort"
	"strings"

	"golang.org/x/tools/go/packages"

	"verif/tool/goan"
	"verif/tool/load"
	"verif/tool/tmpl"
)

func init() { register("C09", checkC09) }

// Free-text fields (DESIGN appendix A.6): struct › field. Source: Swagger 2.0 object
// definitions (fields documented as free text) and the view-model fields that carry them.
var freeText = map[string]map[string]bool{
	"InfoProps":             {"Title": true, "Description": true, "TermsOfService": true, "Version": true},
	"ContactInfoProps":      {"Name": true, "URL": true, "Email": true},
	"LicenseProps":          {"Name": true, "URL": true},
	"ExternalDocumentation": {"Description": true, "URL": true},
	"TagProps":              {"Description": true},
	"GenApp":                {"Host": true, "BasePath": true},
	"GenCommon":             {"Copyright": true},
	"GenOperation":          {"Summary": true, "Description": true, "BasePath": true},
	"GenOperationGroup":     {"Summary": true, "Description": true},
	"GenParameter":          {"Description": true, "Default": true},
	"GenHeader":             {"Description": true, "Default": true},
	"GenItems":              {"Default": true},
	"GenResponse":           {"Description": true},
	"GenResponseExample":    {"Example": true},
	"GenSchema":             {"Description": true, "Title": true, "Example": true, "Default": true},
	"GenDefinition":         {},
	"CommonValidations":     {"Pattern": true},
	"SchemaValidations":     {"Pattern": true},
	"GenSecurityScheme":     {"Description": true},
	"GenSecurityScope":      {"Description": true},
	"SecuritySchemeProps":   {"Description": true},
	"GenTag":                {"Description": true},
}

// safe[context][kind]
var safeIn = map[string]map[tmpl.Kind]bool{
	tmpl.LCode:   {tmpl.KQuoted: true, tmpl.KGoSyntax: true, tmpl.KNonText: true, tmpl.KIdent: true},
	tmpl.LLine:   {tmpl.KCommented: true, tmpl.KQuoted: true, tmpl.KGoSyntax: true, tmpl.KJSON: true, tmpl.KNonText: true, tmpl.KIdent: true},
	tmpl.LBlock:  {tmpl.KBlockSafe: true, tmpl.KNonText: true, tmpl.KIdent: true},
	tmpl.LRaw:    {tmpl.KTickSafe: true, tmpl.KNonText: true, tmpl.KIdent: true},
	tmpl.LString: {tmpl.KNonText: true, tmpl.KIdent: true},
	tmpl.LRune:   {tmpl.KNonText: true},
}

// taintedOrigin returns the free-text origin of a value: the LAST field of the chain decides
// (a Description reached through .Params is still a description; .Enum of a parameter is not).
func taintedOrigin(v tmpl.Val) (tmpl.Origin, bool) {
	// group origins by chain: Origins is a flat list in access order; a new chain starts when
	// Path has a single component. The last element of each chain is the value's source.
	var last []tmpl.Origin
	for i, o := range v.Origins {
		if i+1 == len(v.Origins) || strings.Count(v.Origins[i+1].Path, ".") <= strings.Count(o.Path, ".") {
			last = append(last, o)
		}
	}
	for _, o := range last {
		if freeText[o.Owner][o.Field] {
			return o, true
		}
	}
	return tmpl.Origin{}, false
}

func checkC09(c *Ctx) {
	c.Explain("free text never becomes code: (R2) every emission, in every Go-producing template instantiation, of a value whose source is a free-text field of the spec (titles, descriptions, summaries, terms of service, contact/license/external-docs fields, version, host, base path, examples, defaults, patterns, copyright) is in a Go lexical context — tracked as a set of states through text nodes, branches, ranges and template calls — for which the sanitiser chain applied by its pipeline is safe (context × kind matrix); (R3) the sanitiser functions themselves (padComment, blockComment, escapeBackticks, generateReadableSpec) are checked on their constants: what they replace and by what, the replacement evaluated as the Go constant expression the generated file will contain; (R4) struct tags pass strconv.Quote and switch to the quoted form when the value cannot be back-quoted. " +
		"Decides escaping per emission site, not the effect of text inside a safe comment on build constraints or //go: directives.")
	c.Assume("the free-text field table (DESIGN A.6) lists the spec's free-text positions; enum values are not in the property's list and are reported as out of scope", "identifier manglers (pascalize, varname, snakize, …) produce identifier-safe text")
	ev, _, gen := c.evalTemplates("")
	exampleIsJSON := checkExampleIsJSON(c, "C09.R1.example-json", gen)

	checkContextKinds(c, "C09.R2.context-kind", ev, exampleIsJSON)

	checkSanitisers(c, gen)
	checkPostRender(c, gen)
	// the embedded documents carry every free text of the spec inside a raw string: both pass the escaper, always
	checkEmbeddedStores(c, "C09.R3.embedded-escaped", gen)
	checkPrintTags(c, gen)
}

// checkContextKinds: every emission of a free-text value, in every instantiation, against the
// context × kind matrix.
func checkContextKinds(c *Ctx, rule string, ev *tmpl.Evaluator, exampleIsJSON bool) {
	c.Rule(rule, "each emission of a free-text value in a Go-producing template sits in a lexical context for which its sanitiser chain is safe", 80)
	type siteKey struct{ file, pipe, ctx, kind string }
	seen := map[string]bool{}
	n, outOfScope := 0, 0
	for _, e := range ev.Emits {
		if len(e.Context) == 1 && e.Context[0] == "markdown" {
			continue
		}
		o, ok := taintedOrigin(e.Val)
		if !ok {
			for _, og := range e.Val.Origins {
				if og.Field == "Enum" {
					outOfScope++
					break
				}
			}
			continue
		}
		n++
		kind := e.Val.Kind
		if kind == "" {
			kind = tmpl.KRaw
		}
		if kind == tmpl.KRaw && o.Owner == "GenSchema" && o.Field == "Example" && exampleIsJSON && onlyPrint(e.Val.Funcs) {
			kind = tmpl.KJSON // filled from json.Marshal on the Go side (checked by C09.R1.example-json)
		}
		bad := ""
		for _, ctx := range e.Context {
			if !safeIn[ctx][kind] {
				bad = ctx
			}
		}
		define := e.Inst[:strings.IndexByte(e.Inst, '|')]
		via := ""
		if len(e.Chain) > 1 {
			via = " via " + e.Chain[len(e.Chain)-2]
		}
		key := fmt.Sprintf("%s › %s › {{%s}} %s.%s in %s%s", e.Tree.Asset, define, strings.TrimSpace(e.Pipe), o.Owner, o.Field, strings.Join(e.Context, "+"), via)
		if seen[key] {
			continue
		}
		seen[key] = true
		if bad == "" {
			c.Ok(rule, key, e.Tree.PosStr(e.Pos), fmt.Sprintf("%s value in %s", kind, strings.Join(e.Context, "+")))
		} else {
			c.Bad(rule, key, e.Tree.PosStr(e.Pos), fmt.Sprintf("free text %s.%s is emitted as a %s value inside a Go %s: %s", o.Owner, o.Field, kind, bad, whyUnsafe(bad, kind)))
		}
	}
	c.Analysed("free-text emissions", n)
	c.Analysed("enum emissions (out of the property's scope)", outOfScope)

}

func whyUnsafe(ctx string, kind tmpl.Kind) string {
	switch ctx {
	case tmpl.LBlock:
		return "a `*/` in the text ends the comment and the rest becomes code (use blockcomment)"
	case tmpl.LLine:
		return "a newline in the text ends the comment and the rest becomes code (use comment)"
	case tmpl.LRaw:
		return "a backtick in the text ends the raw string literal (use escapeBackticks)"
	case tmpl.LCode:
		return "the text is pasted as Go source (quote it with printf \"%q\")"
	case tmpl.LString:
		return "a quote or backslash in the text ends / alters the string literal (use printf \"%q\" instead of surrounding quotes)"
	}
	return "unsafe"
}

// evalStringConst evaluates a constant Go string expression written as source.
func evalStringConst(src string) (string, bool) {
	fset := token.NewFileSet()
	tv, err := types.Eval(fset, types.NewPackage("p", "p"), token.NoPos, src)
	if err != nil || tv.Value == nil || tv.Value.Kind() != constant.String {
		return "", false
	}
	return constant.StringVal(tv.Value), true
}

// checkSanitisers: the bodies of the sanitiser functions, on their constants.
func checkSanitisers(c *Ctx, gen *packages.Package) {
	rule := "C09.R3.sanitisers"
	c.Rule(rule, "sanitiser functions: padComment joins lines with a `//` prefix, blockComment removes every `*/`, escapeBackticks / generateReadableSpec replace a backtick by text that, inside a Go raw string, evaluates back to a backtick; padComment rewrites a line that starts with +build", 5)
	info := gen.TypesInfo
	// generic finder: calls to strings.ReplaceAll/Replace/Join/NewReplacer with constant arguments inside a function
	constArgs := func(body ast.Node, callee string) [][]string {
		var out [][]string
		ast.Inspect(body, func(n ast.Node) bool {
			call, ok := n.(*ast.CallExpr)
			if !ok {
				return true
			}
			fn := goan.Callee(info, call)
			if fn == nil || goan.CalleeName(fn) != callee {
				return true
			}
			var as []string
			for _, a := range call.Args {
				if s, ok := goan.StringVal(info, a); ok {
					as = append(as, s)
				} else {
					as = append(as, "\x00")
				}
			}
			out = append(out, as)
			return true
		})
		return out
	}
	// blockComment
	if fd := load.FuncDecl(gen, "blockComment"); fd == nil {
		c.Anchor(rule, "generator.blockComment", "not found")
	} else {
		ok := false
		for _, as := range constArgs(fd.Body, "strings.ReplaceAll") {
			if len(as) == 3 && as[1] == "*/" && !strings.Contains(as[2], "*/") {
				ok = true
			}
		}
		c.Check(ok, rule, "generator.blockComment › replaces */", c.posOf(gen, fd.Pos()), "every `*/` is replaced by text that does not contain `*/`", "blockComment does not replace every `*/` by text free of `*/`: a description can close the block comment")
	}
	// padComment: joins on "\n//"+pad (lines split on "\n")
	if fd := load.FuncDecl(gen, "padComment"); fd == nil {
		c.Anchor(rule, "generator.padComment", "not found")
	} else {
		split, join := false, false
		ast.Inspect(fd.Body, func(n ast.Node) bool {
			call, ok := n.(*ast.CallExpr)
			if !ok {
				return true
			}
			fn := goan.Callee(info, call)
			if fn == nil {
				return true
			}
			switch goan.CalleeName(fn) {
			case "strings.Split":
				if len(call.Args) == 2 {
					if s, ok := goan.StringVal(info, call.Args[1]); ok && s == "\n" {
						split = true
					}
				}
			case "strings.Join":
				if len(call.Args) == 2 {
					// "\n//" + pad
					be, ok := ast.Unparen(call.Args[1]).(*ast.BinaryExpr)
					if ok && be.Op == token.ADD {
						if s, ok := goan.StringVal(info, be.X); ok && s == "\n//" {
							join = true
						}
					}
					if s, ok := goan.StringVal(info, call.Args[1]); ok && strings.HasPrefix(s, "\n//") {
						join = true
					}
				}
			}
			return true
		})
		c.Check(split && join, rule, "generator.padComment › every line re-prefixed with //", c.posOf(gen, fd.Pos()), "splits on \\n and joins with \\n// + padding", "padComment does not split on newlines and re-join with a `//` prefix: continuation lines of a description become code")
		// `// +build …` is a build constraint wherever it stands in the file (the formatter hoists
		// it): a line of free text that starts with +build must not keep that start
		neutralised := false
		ast.Inspect(fd.Body, func(n ast.Node) bool {
			ifs, ok := n.(*ast.IfStmt)
			if !ok {
				return true
			}
			call, ok := ast.Unparen(ifs.Cond).(*ast.CallExpr)
			if !ok || len(call.Args) != 2 {
				return true
			}
			fn := goan.Callee(info, call)
			if fn == nil || goan.CalleeName(fn) != "strings.HasPrefix" {
				return true
			}
			if s, ok := goan.StringVal(info, call.Args[1]); !ok || !strings.HasPrefix("+build", s) || s == "" {
				return true
			}
			// the test looks at the line without its indentation (`//   +build x` is a constraint too)
			tested := call.Args[0]
			if id, ok := ast.Unparen(tested).(*ast.Ident); ok && ifs.Init != nil {
				if as, ok := ifs.Init.(*ast.AssignStmt); ok && len(as.Lhs) == 1 && len(as.Rhs) == 1 && identIs(info, as.Lhs[0], info.ObjectOf(id)) {
					tested = as.Rhs[0]
				}
			}
			tested = goan.ResolveLocal(info, fd.Body, tested)
			trimmed := false
			if tc, ok := ast.Unparen(tested).(*ast.CallExpr); ok {
				if tf := goan.Callee(info, tc); tf != nil {
					switch goan.CalleeName(tf) {
					case "strings.TrimSpace":
						trimmed = true
					case "strings.TrimLeftFunc":
						// go/build trims every Unicode white space, not only blanks and tabs
						if len(tc.Args) == 2 {
							if pf := goan.Callee(info, &ast.CallExpr{Fun: tc.Args[1]}); pf != nil && goan.CalleeName(pf) == "unicode.IsSpace" {
								trimmed = true
							} else if se, ok := ast.Unparen(tc.Args[1]).(*ast.SelectorExpr); ok && se.Sel.Name == "IsSpace" {
								trimmed = true
							}
						}
					}
				}
			}
			if !trimmed {
				return true
			}
			// the guarded branch stores a replacement in which a constant piece other than "+…" is inserted
			for _, st := range ifs.Body.List {
				as, ok := st.(*ast.AssignStmt)
				if !ok || len(as.Lhs) != 1 || len(as.Rhs) != 1 {
					continue
				}
				if _, isIx := ast.Unparen(as.Lhs[0]).(*ast.IndexExpr); !isIx {
					continue
				}
				inserted, keepsPlus := false, false
				var walk func(e ast.Expr)
				walk = func(e ast.Expr) {
					if be, ok := ast.Unparen(e).(*ast.BinaryExpr); ok && be.Op == token.ADD {
						walk(be.X)
						walk(be.Y)
						return
					}
					if cs, ok := goan.StringVal(info, e); ok {
						if strings.HasPrefix(strings.TrimLeft(cs, " \t"), "+build") {
							keepsPlus = true
						} else if cs != "" {
							inserted = true
						}
					}
				}
				walk(as.Rhs[0])
				if inserted && !keepsPlus {
					neutralised = true
				}
			}
			return true
		})
		// carriage returns vanish when the file is formatted: they are dropped before the lines are looked at
		crDropped := false
		for _, as := range constArgs(fd.Body, "strings.ReplaceAll") {
			if len(as) == 3 && as[1] == "\r" && as[2] == "" {
				crDropped = true
			}
		}
		// and the guard is on every path: no return before it
		guardPos, earlyReturn := token.NoPos, false
		ast.Inspect(fd.Body, func(n ast.Node) bool {
			if call, ok := n.(*ast.CallExpr); ok && guardPos == token.NoPos {
				if fn := goan.Callee(info, call); fn != nil && goan.CalleeName(fn) == "strings.HasPrefix" && len(call.Args) == 2 {
					if s, ok := goan.StringVal(info, call.Args[1]); ok && strings.HasPrefix("+build", s) && s != "" {
						guardPos = call.Pos()
					}
				}
			}
			return true
		})
		ast.Inspect(fd.Body, func(n ast.Node) bool {
			if _, isLit := n.(*ast.FuncLit); isLit {
				return false
			}
			if rs, ok := n.(*ast.ReturnStmt); ok && guardPos != token.NoPos && rs.Pos() < guardPos {
				earlyReturn = true
			}
			return true
		})
		neutralised = neutralised && crDropped && !earlyReturn
		c.Check(neutralised, rule, "generator.padComment › a line starting with +build is rewritten", c.posOf(gen, fd.Pos()), "lines whose first non-space text is +build get another head, on every path, carriage returns dropped",
			"padComment lets a line of free text that starts with `+build` through: `// +build ignore` in any comment of a generated file is a build constraint (gofmt moves it to the top of the file), so a description decides whether the file is compiled")
	}
	// escapeBackticks (FuncMap literal) and generateReadableSpec
	checkTick := func(name string, body ast.Node, pos token.Pos) {
		ok := false
		why := "no replacement of the backtick found"
		for _, callee := range []string{"strings.ReplaceAll", "strings.Replace"} {
			for _, as := range constArgs(body, callee) {
				if len(as) >= 3 && as[1] == "`" {
					got, evalOK := evalStringConst("`a" + as[2] + "b`")
					if evalOK && got == "a`b" {
						ok = true
					} else {
						why = fmt.Sprintf("the replacement %q does not evaluate back to a backtick inside a raw string (got %q)", as[2], got)
					}
				}
			}
		}
		// rune-wise writer: `WriteString("`+\"`\"+`")` under a comparison with '`'
		ast.Inspect(body, func(n ast.Node) bool {
			ifs, isIf := n.(*ast.IfStmt)
			if !isIf {
				return true
			}
			be, isBe := ast.Unparen(ifs.Cond).(*ast.BinaryExpr)
			if !isBe || be.Op != token.EQL {
				return true
			}
			tickCmp := false
			for _, s := range []ast.Expr{be.X, be.Y} {
				if tv, has := info.Types[s]; has && tv.Value != nil && (tv.Value.ExactString() == "96" || tv.Value.ExactString() == "\"`\"") {
					tickCmp = true
				}
			}
			if !tickCmp {
				return true
			}
			ast.Inspect(ifs.Body, func(m ast.Node) bool {
				call, isCall := m.(*ast.CallExpr)
				if !isCall || len(call.Args) != 1 {
					return true
				}
				if s, isStr := goan.StringVal(info, call.Args[0]); isStr {
					got, evalOK := evalStringConst("`a" + s + "b`")
					if evalOK && got == "a`b" {
						ok = true
					} else {
						why = fmt.Sprintf("the replacement %q does not evaluate back to a backtick inside a raw string (got %q)", s, got)
					}
				}
				return true
			})
			return true
		})
		c.Check(ok, rule, "generator."+name+" › backtick replacement", c.posOf(gen, pos), "the replacement, placed inside a Go raw string, evaluates back to a single backtick", why)
	}
	if fd := load.FuncDecl(gen, "DefaultFuncMap"); fd != nil {
		found := false
		ast.Inspect(fd.Body, func(n ast.Node) bool {
			kv, ok := n.(*ast.KeyValueExpr)
			if !ok {
				return true
			}
			if s, ok := goan.StringVal(info, kv.Key); ok && s == "escapeBackticks" {
				found = true
				checkTick("escapeBackticks", kv.Value, kv.Pos())
			}
			return true
		})
		if !found {
			c.Anchor(rule, "FuncMap escapeBackticks", "not found")
		}
	}
	if fd := load.FuncDecl(gen, "generateReadableSpec"); fd == nil {
		c.Anchor(rule, "generator.generateReadableSpec", "not found")
	} else {
		checkTick("generateReadableSpec", fd.Body, fd.Pos())
	}
}

// checkPrintTags: every struct tag value goes through strconv.Quote; the back-quoted form of
// the whole tag is used only when strconv.CanBackquote holds.
func checkPrintTags(c *Ctx, gen *packages.Package) {
	rule := "C09.R4.struct-tags"
	c.Rule(rule, "GenSchema.PrintTags: tag values pass strconv.Quote; the tag is back-quoted only if strconv.CanBackquote holds for every part, otherwise quoted", 2)
	info := gen.TypesInfo
	fd := load.FuncDecl(gen, "GenSchema.PrintTags")
	if fd == nil {
		c.Anchor(rule, "GenSchema.PrintTags", "not found")
		return
	}
	// (a) every append to the tag-pairs slice has a strconv.Quote in its value, except CustomTag
	var joined types.Object
	ast.Inspect(fd.Body, func(n ast.Node) bool {
		call, ok := n.(*ast.CallExpr)
		if !ok || len(call.Args) != 2 {
			return true
		}
		if fn := goan.Callee(info, call); fn != nil && goan.CalleeName(fn) == "strings.Join" {
			if id, ok := ast.Unparen(call.Args[0]).(*ast.Ident); ok {
				joined = info.Uses[id]
			}
		}
		return true
	})
	if joined == nil {
		c.Anchor(rule, "GenSchema.PrintTags", "no strings.Join of the tag parts found")
		return
	}
	quoted, unquoted := 0, []string{}
	ast.Inspect(fd.Body, func(n ast.Node) bool {
		as, ok := n.(*ast.AssignStmt)
		if !ok || len(as.Rhs) != 1 {
			return true
		}
		call, ok := ast.Unparen(as.Rhs[0]).(*ast.CallExpr)
		if !ok || !goan.IsBuiltinCall(info, call, "append") || len(call.Args) < 2 {
			return true
		}
		if t := info.TypeOf(call.Args[0]); t == nil || t.String() != "[]string" {
			return true
		}
		if joined != nil && !identIs(info, call.Args[0], joined) {
			return true // not the slice of tag parts that is joined into the tag
		}
		hasQuote := false
		ast.Inspect(call.Args[1], func(m ast.Node) bool {
			if cc, ok := m.(*ast.CallExpr); ok {
				if fn := goan.Callee(info, cc); fn != nil && goan.CalleeName(fn) == "strconv.Quote" {
					hasQuote = true
				}
			}
			return true
		})
		if hasQuote {
			quoted++
		} else if strings.Contains(goan.ExprString(call.Args[1]), "CustomTag") {
			// documented raw-Go extension x-go-custom-tag: exempt
		} else if s, isConst := goan.StringVal(info, call.Args[1]); isConst && s != "" {
			_ = s
		} else {
			unquoted = append(unquoted, goan.ExprString(call.Args[1]))
		}
		return true
	})
	sort.Strings(unquoted)
	c.Check(quoted >= 1 && len(unquoted) == 0, rule, "generator.GenSchema.PrintTags › values quoted", c.posOf(gen, fd.Pos()), fmt.Sprintf("%d tag parts built with strconv.Quote", quoted),
		fmt.Sprintf("tag parts appended without strconv.Quote: %v", unquoted))
	// (b) a monotone flag: false initially, set to the constant true inside a range over the
	// collection of tag values under `!strconv.CanBackquote(<range value>)`, never assigned
	// otherwise; the back-quoted return is guarded by the negation of the flag.
	okFlag := false
	var flag types.Object
	goan.WalkGuards(info, fd.Body, func(n ast.Node, guards []goan.Lit, loops []ast.Stmt) {
		as, ok := n.(*ast.AssignStmt)
		if !ok || len(as.Lhs) != 1 || len(as.Rhs) != 1 || len(loops) == 0 || !goan.IsIdent(as.Rhs[0], "true") {
			return
		}
		id, ok := as.Lhs[0].(*ast.Ident)
		if !ok {
			return
		}
		rs, ok := loops[len(loops)-1].(*ast.RangeStmt)
		if !ok {
			return
		}
		for _, g := range guards {
			call, isCall := ast.Unparen(g.E).(*ast.CallExpr)
			if !isCall || g.Pos || len(call.Args) != 1 {
				continue
			}
			if fn := goan.Callee(info, call); fn == nil || goan.CalleeName(fn) != "strconv.CanBackquote" {
				continue
			}
			if rs.Value != nil && sameIdentObj(info, call.Args[0], rs.Value) {
				flag = info.Uses[id]
			}
		}
	})
	if flag != nil {
		// only two assignments: the false initialiser and the monotone set
		monotone := true
		for _, a := range goan.AssignmentsTo(info, fd.Body, flag) {
			if a.Rhs == nil || !(goan.IsIdent(a.Rhs, "true") || goan.IsIdent(a.Rhs, "false")) {
				monotone = false
			}
		}
		guardedReturn := false
		goan.WalkGuards(info, fd.Body, func(n ast.Node, guards []goan.Lit, _ []ast.Stmt) {
			ret, ok := n.(*ast.ReturnStmt)
			if !ok || len(ret.Results) != 1 {
				return
			}
			hasTick := false
			ast.Inspect(ret.Results[0], func(m ast.Node) bool {
				if bl, isLit := m.(*ast.BasicLit); isLit {
					if sv, isStr := goan.StringVal(info, bl); isStr && strings.Contains(sv, "`") {
						hasTick = true
					}
				}
				return true
			})
			if !hasTick {
				return
			}
			for _, g := range guards {
				if !g.Pos && identIs(info, g.E, flag) {
					guardedReturn = true
				}
			}
		})
		okFlag = monotone && guardedReturn
	}
	c.Check(okFlag, rule, "generator.GenSchema.PrintTags › backquote only if CanBackquote(all parts)", c.posOf(gen, fd.Pos()),
		"the back-quoted form is returned only when no tag value failed strconv.CanBackquote (monotone flag set in a loop over all values)",
		"the back-quoted tag is not guarded by a monotone 'some value cannot be back-quoted' flag computed over every tag value: a backtick in a description placed in a struct tag ends the tag literal")
}

func onlyPrint(funcs []string) bool {
	for _, f := range funcs {
		if f != "print" {
			return false
		}
	}
	return true
}

// checkExampleIsJSON: every store to GenSchema.Example is the empty string or
// strings.Trim(<asJSON / json.Marshal result>, "\"") — JSON text without raw newlines.
func checkExampleIsJSON(c *Ctx, rule string, gen *packages.Package) bool {
	c.Rule(rule, "GenSchema.Example is only ever the empty string or JSON text produced by asJSON/json.Marshal (so it holds no raw newline)", 1)
	info := gen.TypesInfo
	okAll, n := true, 0
	for _, fd := range load.AllFuncs(gen) {
		fd := fd
		ast.Inspect(fd.Body, func(nd ast.Node) bool {
			as, ok := nd.(*ast.AssignStmt)
			if !ok {
				return true
			}
			for i, l := range as.Lhs {
				se, ok := ast.Unparen(l).(*ast.SelectorExpr)
				if !ok || se.Sel.Name != "Example" {
					continue
				}
				sel, ok := info.Selections[se]
				if !ok || goan.NamedName(sel.Recv()) != "GenSchema" && ownerName(sel) != "GenSchema" {
					continue
				}
				if i >= len(as.Rhs) {
					continue
				}
				n++
				r := as.Rhs[i]
				good := false
				if s, isConst := goan.StringVal(info, r); isConst && s == "" {
					good = true
				}
				if call, isCall := ast.Unparen(r).(*ast.CallExpr); isCall {
					if fn := goan.Callee(info, call); fn != nil && goan.CalleeName(fn) == "strings.Trim" && len(call.Args) == 2 {
						src := goan.ResolveLocal(info, fd.Body, call.Args[0])
						if id, isId := ast.Unparen(call.Args[0]).(*ast.Ident); isId {
							if v, isVar := info.Uses[id].(*types.Var); isVar {
								for _, a := range goan.AssignmentsTo(info, fd.Body, v) {
									if a.Rhs != nil {
										src = a.Rhs
									}
								}
							}
						}
						if c2, isC := ast.Unparen(src).(*ast.CallExpr); isC {
							if f2 := goan.Callee(info, c2); f2 != nil && (f2.Name() == "asJSON" || goan.CalleeName(f2) == "encoding/json.Marshal") {
								good = true
							}
						}
					}
				}
				c.Check(good, rule, fmt.Sprintf("generator.%s › GenSchema.Example = %s", load.FuncName(fd), goan.ExprString(r)), c.posOf(gen, as.Pos()),
					"empty or JSON-encoded", "GenSchema.Example is assigned text that is not JSON-encoded: the `// Example:` doc line relies on the encoding to stay on one line")
				if !good {
					okAll = false
				}
			}
			return true
		})
	}
	return okAll && n > 0
}

func ownerName(sel *types.Selection) string {
	if v, ok := sel.Obj().(*types.Var); ok {
		_ = v
	}
	t := sel.Recv()
	for {
		if p, ok := t.Underlying().(*types.Pointer); ok {
			t = p.Elem()
			continue
		}
		break
	}
	// promoted through embedding (GenDefinition embeds GenSchema)
	if st, ok := t.Underlying().(*types.Struct); ok {
		for i := 0; i < st.NumFields(); i++ {
			if st.Field(i).Embedded() && goan.NamedName(st.Field(i).Type()) == "GenSchema" {
				return "GenSchema"
			}
		}
	}
	return goan.NamedName(t)
}

// checkPostRender: what the sanitisers made safe is what gets written — render returns the
// bytes the template execution produced, untransformed (a later rewrite can re-create the
// sequences the sanitisers broke up), and every Go-producing default template goes through
// the source formatter, the only syntax check generated files get ("compilable or an error").
func checkPostRender(c *Ctx, gen *packages.Package) {
	rule := "C09.R3.post-render"
	c.Rule(rule, "the rendered bytes are written as executed (only the language formatter touches them) and no Go-producing default template skips formatting", 3)
	info := gen.TypesInfo
	fd := load.FuncDecl(gen, "GenOpts.render")
	if fd == nil {
		c.Anchor(rule, "generator.GenOpts.render", "not found")
	} else {
		var buf types.Object
		ast.Inspect(fd.Body, func(n ast.Node) bool {
			call, ok := n.(*ast.CallExpr)
			if ok && goan.LastSel(call.Fun) == "Execute" && len(call.Args) == 2 {
				if un, ok := ast.Unparen(call.Args[0]).(*ast.UnaryExpr); ok {
					if id, ok := un.X.(*ast.Ident); ok {
						buf = info.Uses[id]
					}
				}
			}
			return true
		})
		okRet, n := buf != nil, 0
		ast.Inspect(fd.Body, func(nd ast.Node) bool {
			if _, isLit := nd.(*ast.FuncLit); isLit {
				return false
			}
			rs, ok := nd.(*ast.ReturnStmt)
			if !ok || len(rs.Results) != 2 || !goan.IsIdent(rs.Results[1], "nil") {
				return true
			}
			n++
			call, ok := ast.Unparen(goan.ResolveLocal(info, fd.Body, rs.Results[0])).(*ast.CallExpr)
			if !ok || goan.LastSel(call.Fun) != "Bytes" || len(call.Args) != 0 {
				okRet = false
				return true
			}
			se, _ := call.Fun.(*ast.SelectorExpr)
			if se == nil || !identIs(info, se.X, buf) {
				okRet = false
			}
			return true
		})
		c.Check(okRet && n >= 1, rule, "generator.GenOpts.render › returns the executed buffer unchanged", c.posOf(gen, fd.Pos()), "return <buffer given to Execute>.Bytes(), nil",
			"render() post-processes the output of the template (replace / trim / re-encode): byte sequences that the comment and string sanitisers had broken up can be re-created after they ran")
	}
	// write: content flows render → FormatContent → WriteFile
	if wd := load.FuncDecl(gen, "GenOpts.write"); wd == nil {
		c.Anchor(rule, "generator.GenOpts.write", "not found")
	} else {
		// the rendered content and what is derived from it, followed by object
		tracked := map[types.Object]bool{}
		for round := 0; round < 3; round++ {
			ast.Inspect(wd.Body, func(n ast.Node) bool {
				as, ok := n.(*ast.AssignStmt)
				if !ok || len(as.Rhs) != 1 || len(as.Lhs) < 1 {
					return true
				}
				from := false
				switch r := ast.Unparen(as.Rhs[0]).(type) {
				case *ast.CallExpr:
					if goan.LastSel(r.Fun) == "render" {
						from = true
					}
					if goan.LastSel(r.Fun) == "FormatContent" {
						for _, a := range r.Args {
							if id, ok := ast.Unparen(a).(*ast.Ident); ok && tracked[info.Uses[id]] {
								from = true
							}
						}
					}
				case *ast.Ident:
					from = tracked[info.Uses[r]]
				}
				if from {
					if id, ok := as.Lhs[0].(*ast.Ident); ok {
						if o := info.Defs[id]; o != nil {
							tracked[o] = true
						} else if o := info.Uses[id]; o != nil {
							tracked[o] = true
						}
					}
				}
				return true
			})
		}
		var calls []string
		ast.Inspect(wd.Body, func(n ast.Node) bool {
			call, ok := n.(*ast.CallExpr)
			if !ok {
				return true
			}
			for _, a := range call.Args {
				if id, ok := ast.Unparen(a).(*ast.Ident); ok && tracked[info.Uses[id]] {
					name := goan.LastSel(call.Fun)
					if id2, ok := call.Fun.(*ast.Ident); ok {
						name = id2.Name
					}
					calls = append(calls, name)
				}
			}
			return true
		})
		bad := ""
		for _, cn := range calls {
			switch cn {
			case "FormatContent", "WriteFile", "len", "checkTargetCollision":
			default:
				bad = cn
			}
		}
		c.Check(bad == "" && len(calls) >= 3, rule, "generator.GenOpts.write › rendered content only goes to the formatter and the file", c.posOf(gen, wd.Pos()), fmt.Sprintf("%v", calls),
			"the rendered content is handed to "+bad+" before it is written: a transformation after sanitisation")
	}
	// no Go-producing default template skips the formatter
	ds := load.FuncDecl(gen, "DefaultSectionOpts")
	if ds == nil {
		c.Anchor(rule, "generator.DefaultSectionOpts", "not found")
		return
	}
	nGo := 0
	ast.Inspect(ds.Body, func(n ast.Node) bool {
		cl, ok := n.(*ast.CompositeLit)
		if !ok || goan.NamedName(info.TypeOf(cl)) != "TemplateOpts" {
			return true
		}
		fn, _ := goan.StringVal(info, goan.Field(cl, "FileName"))
		if !strings.HasSuffix(fn, ".go") {
			return true
		}
		nGo++
		sf := goan.Field(cl, "SkipFormat")
		src, _ := goan.StringVal(info, goan.Field(cl, "Source"))
		c.Check(sf == nil || goan.IsIdent(sf, "false"), rule, "generator.DefaultSectionOpts › "+src+" is formatted", c.posOf(gen, cl.Pos()), "SkipFormat unset",
			"the Go file produced from "+src+" skips the source formatter, the only syntax check of generated files: text that is not valid Go (a NUL, an unterminated comment) is written out and generation still exits 0")
		return true
	})
	if nGo < 15 {
		c.Unk(rule, "generator.DefaultSectionOpts › Go-producing templates", c.posOf(gen, ds.Pos()), fmt.Sprintf("%d found, expected at least 15", nGo))
	}
}
