package props

import (
	"fmt"
	"go/ast"
	"go/token"
	"go/types"
	"sort"
	"strings"

	"golang.org/x/tools/go/packages"

	"verif/tool/goan"
	"verif/tool/load"
)

// specCollectionElem: the element type name of a collection whose elements come from the loaded
// documents (go-openapi/spec, go-openapi/analysis) or from the scanned program (go/types,
// go/packages); "" otherwise.
func specCollectionElem(t types.Type) string {
	if t == nil {
		return ""
	}
	var el types.Type
	switch x := t.Underlying().(type) {
	case *types.Map:
		el = x.Elem()
	case *types.Slice:
		el = x.Elem()
	case *types.Array:
		el = x.Elem()
	default:
		return ""
	}
	for _, cand := range []types.Type{el, t} {
		p := goan.NamedPath(cand)
		for _, pre := range []string{"github.com/go-openapi/spec.", "github.com/go-openapi/analysis.", "go/types.", "golang.org/x/tools/go/packages."} {
			if strings.HasPrefix(p, pre) {
				return p[strings.LastIndex(p, "/")+1:]
			}
		}
	}
	return ""
}

// checkLoopTotality: every loop over a collection of the input (definitions, properties, allOf
// members, parameters, responses, headers, security schemes, tags, operations; struct fields and
// packages for the scanner) must treat every element — each way of leaving an iteration early
// (continue, break, successful return) is a frozen, reasoned entry of `allow`; a new one is a
// dropped element until shown otherwise.
func checkLoopTotality(c *Ctx, rule string, pk *packages.Package, label string, floor int, allow map[string]string) {
	c.Rule(rule, "loops over collections of the input leave an iteration early (continue, break, success return) only at the reviewed sites", floor)
	info := pk.TypesInfo
	seen := map[string]bool{}
	for _, fd := range load.AllFuncs(pk) {
		fd := fd
		ordinal := map[string]int{}
		// results: does the function return an error last?
		ast.Inspect(fd.Body, func(n ast.Node) bool {
			var body *ast.BlockStmt
			elem := ""
			switch x := n.(type) {
			case *ast.RangeStmt:
				elem = specCollectionElem(info.TypeOf(x.X))
				body = x.Body
			case *ast.ForStmt:
				// for i := 0; i < X.NumFields()/NumMethods()/Len(); i++
				if be, ok := x.Cond.(*ast.BinaryExpr); ok {
					if call, ok := ast.Unparen(be.Y).(*ast.CallExpr); ok {
						if se, ok := call.Fun.(*ast.SelectorExpr); ok && (se.Sel.Name == "NumFields" || se.Sel.Name == "NumMethods" || se.Sel.Name == "NumExplicitMethods" || se.Sel.Name == "NumEmbeddeds") {
							if p := goan.NamedPath(info.TypeOf(se.X)); strings.HasPrefix(p, "go/types.") {
								elem = p[strings.LastIndex(p, "/")+1:] + "." + se.Sel.Name
								body = x.Body
							}
						}
					}
				}
			}
			if elem == "" || body == nil {
				return true
			}
			ordinal[elem]++
			loopKey := fmt.Sprintf("%s.%s › loop over %s #%d", label, load.FuncName(fd), elem, ordinal[elem])
			counts := map[string]int{}
			var walk func(n ast.Node, inSwitch bool)
			walk = func(n ast.Node, inSwitch bool) {
				ast.Inspect(n, func(m ast.Node) bool {
					if m == nil || m == n {
						return true
					}
					switch y := m.(type) {
					case *ast.FuncLit, *ast.RangeStmt, *ast.ForStmt:
						return false // their own iterations / scope
					case *ast.SwitchStmt:
						walk(y.Body, true)
						return false
					case *ast.TypeSwitchStmt:
						walk(y.Body, true)
						return false
					case *ast.SelectStmt:
						walk(y.Body, true)
						return false
					case *ast.BranchStmt:
						kind := ""
						switch {
						case y.Tok == token.CONTINUE:
							kind = "continue"
						case y.Tok == token.BREAK && (!inSwitch || y.Label != nil):
							kind = "break"
						}
						if kind != "" {
							counts[kind]++
							key := fmt.Sprintf("%s › %s #%d", loopKey, kind, counts[kind])
							seen[key] = true
							why, ok := allow[key]
							c.Check(ok, rule, key, c.posOf(pk, y.Pos()), "reviewed: "+why,
								"an iteration over a collection of the input is left early at a site that is not in the reviewed table: the remaining work for that element (or for the elements after it) is skipped — a definition, parameter, response, scheme or field can be dropped from the output")
						}
					case *ast.ReturnStmt:
						if n := len(y.Results); n > 0 && goan.IsNil(info, y.Results[n-1]) {
							counts["return"]++
							key := fmt.Sprintf("%s › success return #%d", loopKey, counts["return"])
							seen[key] = true
							why, ok := allow[key]
							c.Check(ok, rule, key, c.posOf(pk, y.Pos()), "reviewed: "+why,
								"a loop over a collection of the input returns successfully from inside an iteration at a site that is not in the reviewed table: the elements after it are never looked at")
						}
					}
					return true
				})
			}
			walk(body, false)
			if len(counts) == 0 {
				c.Ok(rule, loopKey+" › total", c.posOf(pk, n.Pos()), "no early exit from an iteration")
			}
			return true
		})
	}
	var stale []string
	for k := range allow {
		if !seen[k] {
			stale = append(stale, k)
		}
	}
	sort.Strings(stale)
	for _, k := range stale {
		c.Ok(rule, k+" › (reviewed site no longer present)", "", "entry of the reviewed table without a match on this tree")
	}
}
