package props

import (
	"fmt"
	"go/ast"
	"go/token"
	"go/types"
	"sort"
	"strings"

	"golang.org/x/tools/go/packages"

	"verif/tool/goan"
	"verif/tool/load"
)

// specCollectionElem: the element type name of a collection whose elements come from the loaded
// documents (go-openapi/spec, go-openapi/analysis) or from the scanned program (go/types,
// go/packages); "" otherwise.
func specCollectionElem(t types.Type) string {
	if t == nil {
		return ""
	}
	var el types.Type
	switch x := t.Underlying().(type) {
	case *types.Map:
		el = x.Elem()
	case *types.Slice:
		el = x.Elem()
	case *types.Array:
		el = x.Elem()
	default:
		return ""
	}
	for _, cand := range []types.Type{el, t} {
		p := goan.NamedPath(cand)
		if pt, ok := cand.(*types.Pointer); ok {
			p = goan.NamedPath(pt.Elem())
		}
		// the diff analyser's own indexes of the two specs: operations by URL and method, properties by name
		if strings.HasSuffix(p, "/commands/diff.PathItemOp") || strings.HasSuffix(p, "/commands/diff.PropertyDefn") {
			return p[strings.LastIndex(p, "/")+1:]
		}
		// the generator's own plan of what to write: one entry per definition, operation and group of the spec
		if strings.HasSuffix(p, "/generator.GenDefinition") || strings.HasSuffix(p, "/generator.GenOperation") || strings.HasSuffix(p, "/generator.GenOperationGroup") {
			return p[strings.LastIndex(p, "/")+1:]
		}
		for _, pre := range []string{"github.com/go-openapi/spec.", "github.com/go-openapi/analysis.", "go/types.", "go/ast.", "golang.org/x/tools/go/packages."} {
			if strings.HasPrefix(p, pre) {
				return p[strings.LastIndex(p, "/")+1:]
			}
		}
	}
	return ""
}

// astLoopFuncs: the functions that collect declarations and annotations from the syntax trees; their loops
// over go/ast collections are part of the reviewed tables (look-up helpers that scan the same trees for one
// name are not: they leave their loops by design).
var astLoopFuncs = map[string]bool{"typeIndex.processDecl": true, "typeIndex.processPackage": true, "typeIndex.detectNodes": true}

// checkLoopTotality: every loop over a collection of the input (definitions, properties, allOf
// members, parameters, responses, headers, security schemes, tags, operations; struct fields and
// packages for the scanner) must treat every element — each way of leaving an iteration early
// (continue, break, successful return) is a frozen, reasoned entry of `allow`; a new one is a
// dropped element until shown otherwise.
// canonGuard renders a condition with local variables and parameters replaced by their types, so
// that the reviewed table survives renames but not a change of what is tested.
func canonGuard(info *types.Info, e ast.Expr) string {
	var r func(e ast.Expr) string
	r = func(e ast.Expr) string {
		switch x := e.(type) {
		case *ast.Ident:
			if v, ok := info.ObjectOf(x).(*types.Var); ok && !v.IsField() && v.Parent() != nil && v.Parent() != v.Pkg().Scope() {
				t := types.TypeString(v.Type(), func(p *types.Package) string { return p.Name() })
				return "‹" + t + "›"
			}
			return x.Name
		case *ast.SelectorExpr:
			return r(x.X) + "." + x.Sel.Name
		case *ast.ParenExpr:
			return "(" + r(x.X) + ")"
		case *ast.UnaryExpr:
			return x.Op.String() + r(x.X)
		case *ast.StarExpr:
			return "*" + r(x.X)
		case *ast.BinaryExpr:
			return r(x.X) + " " + x.Op.String() + " " + r(x.Y)
		case *ast.IndexExpr:
			return r(x.X) + "[" + r(x.Index) + "]"
		case *ast.CallExpr:
			var as []string
			for _, a := range x.Args {
				as = append(as, r(a))
			}
			return r(x.Fun) + "(" + strings.Join(as, ", ") + ")"
		case *ast.BasicLit:
			return x.Value
		case *ast.TypeAssertExpr:
			return r(x.X) + ".(" + goan.ExprString(x.Type) + ")"
		}
		return goan.ExprString(e)
	}
	return r(e)
}

// guardsOf lists, outermost first, the canonical conditions of the `if`s (positive arm; `else` arms as
// negations) that enclose pos inside body, stopping at nested loops and function literals.
func guardsOf(info *types.Info, body *ast.BlockStmt, pos token.Pos) string {
	var out []string
	var walk func(n ast.Node) bool
	walk = func(n ast.Node) bool {
		found := false
		ast.Inspect(n, func(m ast.Node) bool {
			if found || m == nil {
				return false
			}
			if m.Pos() > pos || m.End() < pos {
				return false
			}
			if ifs, ok := m.(*ast.IfStmt); ok && m != n {
				if ifs.Body.Pos() <= pos && pos <= ifs.Body.End() {
					out = append(out, canonGuard(info, ifs.Cond))
					found = walk(ifs.Body) || true
					return false
				}
				if ifs.Else != nil && ifs.Else.Pos() <= pos && pos <= ifs.Else.End() {
					out = append(out, "!("+canonGuard(info, ifs.Cond)+")")
					found = walk(ifs.Else) || true
					return false
				}
			}
			return true
		})
		return found
	}
	walk(body)
	return strings.Join(out, " ∧ ")
}

func checkLoopTotality(c *Ctx, rule string, pk *packages.Package, label string, floor int, allow map[string]string) {
	c.Rule(rule, "loops over collections of the input leave an iteration early (continue, break, success return) only at the reviewed sites", floor)
	info := pk.TypesInfo
	seen := map[string]bool{}
	// reviewed(key, cond): the entry exists and was reviewed under the same condition
	reviewed := func(key, cond string) (bool, string) {
		v, ok := allow[key]
		if !ok {
			return false, "not in the reviewed table (condition now: " + cond + ")"
		}
		want, why, _ := strings.Cut(v, " ⇒ ")
		if want != cond {
			return false, "reviewed under [" + want + "], now under [" + cond + "]"
		}
		return true, why
	}
	for _, fd := range load.AllFuncs(pk) {
		fd := fd
		ordinal := map[string]int{}
		// results: does the function return an error last?
		ast.Inspect(fd.Body, func(n ast.Node) bool {
			var body *ast.BlockStmt
			elem := ""
			switch x := n.(type) {
			case *ast.RangeStmt:
				elem = specCollectionElem(info.TypeOf(x.X))
				body = x.Body
				if elem == "" {
					// a list of names handed out by the analysed spec (required security schemes, operation ids,
					// media types): ranged directly or through a local it was assigned to
					if call, ok := ast.Unparen(goan.ResolveLocal(info, fd.Body, x.X)).(*ast.CallExpr); ok {
						if fn := goan.Callee(info, call); fn != nil && fn.Pkg() != nil && (fn.Pkg().Path() == "github.com/go-openapi/analysis" || fn.Pkg().Path() == "github.com/go-openapi/spec") {
							elem = "analysis." + fn.Name() + "()"
						}
					}
				}
			case *ast.ForStmt:
				// for i := 0; i < X.NumFields()/NumMethods()/Len(); i++
				if be, ok := x.Cond.(*ast.BinaryExpr); ok {
					if call, ok := ast.Unparen(be.Y).(*ast.CallExpr); ok {
						if se, ok := call.Fun.(*ast.SelectorExpr); ok && (se.Sel.Name == "NumFields" || se.Sel.Name == "NumMethods" || se.Sel.Name == "NumExplicitMethods" || se.Sel.Name == "NumEmbeddeds") {
							if p := goan.NamedPath(info.TypeOf(se.X)); strings.HasPrefix(p, "go/types.") {
								elem = p[strings.LastIndex(p, "/")+1:] + "." + se.Sel.Name
								body = x.Body
							}
						}
					}
				}
			}
			if elem == "" || body == nil {
				return true
			}
			if strings.HasPrefix(elem, "ast.") && !astLoopFuncs[load.FuncName(fd)] {
				return true // syntax-tree loops are reviewed where declarations and annotations are collected
			}
			ordinal[elem]++
			loopKey := fmt.Sprintf("%s.%s › loop over %s #%d", label, load.FuncName(fd), elem, ordinal[elem])
			counts := map[string]int{}
			var walk func(n ast.Node, inSwitch bool)
			walk = func(n ast.Node, inSwitch bool) {
				ast.Inspect(n, func(m ast.Node) bool {
					if m == nil || m == n {
						return true
					}
					switch y := m.(type) {
					case *ast.FuncLit, *ast.RangeStmt, *ast.ForStmt:
						return false // their own iterations / scope
					case *ast.SwitchStmt:
						walk(y.Body, true)
						return false
					case *ast.TypeSwitchStmt:
						walk(y.Body, true)
						return false
					case *ast.SelectStmt:
						walk(y.Body, true)
						return false
					case *ast.BranchStmt:
						kind := ""
						switch {
						case y.Tok == token.CONTINUE:
							kind = "continue"
						case y.Tok == token.BREAK && (!inSwitch || y.Label != nil):
							kind = "break"
						}
						if kind != "" {
							counts[kind]++
							key := fmt.Sprintf("%s › %s #%d", loopKey, kind, counts[kind])
							seen[key] = true
							ok, why := reviewed(key, guardsOf(info, body, y.Pos()))
							c.Check(ok, rule, key, c.posOf(pk, y.Pos()), "reviewed: "+why,
								"an iteration over a collection of the input is left early at a site that is "+why+": the remaining work for that element (or for the elements after it) is skipped — a definition, parameter, response, scheme or field can be dropped from the output")
						}
					case *ast.ReturnStmt:
						// a predicate answering from inside the loop: the condition under which it answers is the
						// predicate (an existential / universal over the collection)
						if len(y.Results) == 1 && (goan.IsIdent(y.Results[0], "true") || goan.IsIdent(y.Results[0], "false")) {
							counts["answer"]++
							key := fmt.Sprintf("%s › answers %s #%d", loopKey, goan.ExprString(y.Results[0]), counts["answer"])
							seen[key] = true
							ok, why := reviewed(key, guardsOf(info, body, y.Pos()))
							c.Check(ok, rule, key, c.posOf(pk, y.Pos()), "reviewed: "+why,
								"a predicate over a collection of the input answers from inside its loop at a site that is "+why+": what it says about the collection (some element has…, every element is…) changed")
						}
						if len(y.Results) == 0 && (fd.Type.Results == nil || fd.Type.Results.NumFields() == 0) {
							// a bare return of a procedure: the elements after this one are never looked at
							counts["return"]++
							key := fmt.Sprintf("%s › success return #%d", loopKey, counts["return"])
							seen[key] = true
							ok, why := reviewed(key, guardsOf(info, body, y.Pos()))
							c.Check(ok, rule, key, c.posOf(pk, y.Pos()), "reviewed: "+why,
								"a loop over a collection of the input returns from inside an iteration at a site that is "+why+": the elements after it are never looked at")
						}
						if n := len(y.Results); n > 0 && goan.IsNil(info, y.Results[n-1]) {
							counts["return"]++
							key := fmt.Sprintf("%s › success return #%d", loopKey, counts["return"])
							seen[key] = true
							ok, why := reviewed(key, guardsOf(info, body, y.Pos()))
							c.Check(ok, rule, key, c.posOf(pk, y.Pos()), "reviewed: "+why,
								"a loop over a collection of the input returns successfully from inside an iteration at a site that is "+why+": the elements after it are never looked at")
						}
					}
					return true
				})
			}
			walk(body, false)
			// conditional collection: a store into something that outlives the iteration (append to / index of a
			// variable or field declared outside the loop) that sits under an `if` without else
			var cwalk func(n ast.Node, cond bool)
			cwalk = func(n ast.Node, cond bool) {
				ast.Inspect(n, func(m ast.Node) bool {
					if m == nil || m == n {
						return true
					}
					switch y := m.(type) {
					case *ast.FuncLit, *ast.RangeStmt, *ast.ForStmt:
						return false
					case *ast.IfStmt:
						if y.Init != nil {
							cwalk(y.Init, cond)
						}
						if y.Else == nil {
							cwalk(y.Body, true)
						} else {
							cwalk(y.Body, cond)
							cwalk(y.Else, cond)
						}
						return false
					case *ast.AssignStmt:
						if !cond || len(y.Lhs) != 1 || len(y.Rhs) != 1 {
							return true
						}
						outer := func(e ast.Expr) bool {
							root := e
							for {
								switch r := root.(type) {
								case *ast.SelectorExpr:
									root = r.X
									continue
								case *ast.IndexExpr:
									root = r.X
									continue
								case *ast.StarExpr:
									root = r.X
									continue
								case *ast.ParenExpr:
									root = r.X
									continue
								}
								break
							}
							id, ok := root.(*ast.Ident)
							if !ok {
								return false
							}
							o := info.ObjectOf(id)
							return o != nil && (o.Pos() < body.Pos() || o.Pos() > body.End())
						}
						isStore := false
						if call, ok := y.Rhs[0].(*ast.CallExpr); ok && goan.IsIdent(call.Fun, "append") && outer(y.Lhs[0]) {
							isStore = true
						}
						if _, ok := y.Lhs[0].(*ast.IndexExpr); ok && outer(y.Lhs[0]) && y.Tok == token.ASSIGN {
							isStore = true
						}
						if isStore {
							counts["cond"]++
							key := fmt.Sprintf("%s › conditional store #%d", loopKey, counts["cond"])
							seen[key] = true
							ok, why := reviewed(key, guardsOf(info, body, y.Pos()))
							c.Check(ok, rule, key, c.posOf(pk, y.Pos()), "reviewed: "+why,
								"inside a loop over a collection of the input, a result is collected at a site that is "+why+": the elements that fail the condition are left out of the output")
						}
					}
					return true
				})
			}
			cwalk(body, false)
			if len(counts) == 0 {
				c.Ok(rule, loopKey+" › total", c.posOf(pk, n.Pos()), "no early exit from an iteration")
			}
			return true
		})
	}
	var stale []string
	for k := range allow {
		if !seen[k] {
			stale = append(stale, k)
		}
	}
	sort.Strings(stale)
	for _, k := range stale {
		c.Ok(rule, k+" › (reviewed site no longer present)", "", "entry of the reviewed table without a match on this tree")
	}
}
