package props

import (
	"go/ast"
	"go/token"
	"go/types"


	"verif/tool/goan"
	"verif/tool/load"
)

// checkPointerIdentity: the optional numbers of a schema (maximum, multipleOf, maxLength …) are
// pointers. `a.F != b.F` on two of them compares addresses: two documents, or one document
// loaded twice, never share an address, so the test says "different" for equal values — a spec
// differs from itself. Values behind pointers are compared through a helper that dereferences
// (CompareFloatValues …) or after a nil test on both sides.
func checkPointerIdentity(c *Ctx, rule string, r *goan.Rel) {
	c.Rule(rule, "no `==` / `!=` between two pointers to numbers, strings or booleans of the two specs (addresses, not values); counted: every equality test between values of the two specs", 10)
	pk := r.Pkg
	info := pk.TypesInfo
	n := 0
	for _, fd := range load.AllFuncs(pk) {
		if fd.Body == nil {
			continue
		}
		fd := fd
		ast.Inspect(fd.Body, func(m ast.Node) bool {
			be, ok := m.(*ast.BinaryExpr)
			if !ok || (be.Op != token.EQL && be.Op != token.NEQ) {
				return true
			}
			if goan.IsIdent(be.X, "nil") || goan.IsIdent(be.Y, "nil") {
				return true
			}
			s1, s2 := r.SideOf(be.X), r.SideOf(be.Y)
			if s1 == goan.SNone || s2 == goan.SNone || s1 == s2 {
				return true
			}
			n++
			px, okx := info.TypeOf(be.X).Underlying().(*types.Pointer)
			py, oky := info.TypeOf(be.Y).Underlying().(*types.Pointer)
			bad := false
			if okx && oky {
				if _, basic := px.Elem().Underlying().(*types.Basic); basic {
					bad = true
				}
				_ = py
			}
			if bad && oneIsNilHere(fd, be) {
				// `else` of `a != nil && b != nil`: one of them is nil, and comparing the two says whether both are
				bad = false
			}
			c.Check(!bad, rule, "diff."+load.FuncName(fd)+" › "+sidedTextOpt(r, be, false, true), c.posOf(pk, be.Pos()), "compares values",
				"`"+goan.ExprString(be)+"` compares two pointers ("+types.TypeString(info.TypeOf(be.X), nil)+"): the addresses differ for any two loaded documents, equal values included — the difference is reported when a spec is compared with itself, or with a reordered copy of itself")
			return true
		})
	}
}

// oneIsNilHere: the comparison sits in the else branch of `if X != nil && Y != nil`, X and Y being
// its operands: at least one is nil there.
func oneIsNilHere(fd *ast.FuncDecl, be *ast.BinaryExpr) bool {
	x, y := goan.ExprString(be.X), goan.ExprString(be.Y)
	found := false
	ast.Inspect(fd.Body, func(n ast.Node) bool {
		ifs, ok := n.(*ast.IfStmt)
		if !ok || ifs.Else == nil || !(ifs.Else.Pos() <= be.Pos() && be.End() <= ifs.Else.End()) {
			return true
		}
		c, ok := ast.Unparen(ifs.Cond).(*ast.BinaryExpr)
		if !ok || c.Op != token.LAND {
			return true
		}
		nonNil := func(e ast.Expr) string {
			b, ok := ast.Unparen(e).(*ast.BinaryExpr)
			if ok && b.Op == token.NEQ && goan.IsIdent(b.Y, "nil") {
				return goan.ExprString(b.X)
			}
			return ""
		}
		a, b := nonNil(c.X), nonNil(c.Y)
		if (a == x && b == y) || (a == y && b == x) {
			found = true
		}
		return true
	})
	return found
}
