package props

import (
	"fmt"
	"go/ast"
	"go/token"
	"go/types"

	"golang.org/x/tools/go/packages"
	"golang.org/x/tools/go/types/typeutil"

	"verif/tool/goan"
	"verif/tool/load"
)

// checkTypedNilArgs: a function that takes an interface parameter and tests it against nil
// believes the test protects what follows. A nil pointer stored in an interface is not == nil,
// so at every call site that passes a pointer the call must either pass an address (&x) or be
// dominated by the non-nil test of that very pointer: otherwise the callee's test is passed by
// a nil pointer and the branch behind it dereferences it.
func checkTypedNilArgs(c *Ctx, rule string, pk *packages.Package, floor int) {
	c.Rule(rule, "a pointer handed to an interface parameter that the callee tests against nil is an address or is tested non-nil at the call site (a nil pointer in an interface is not nil)", floor)
	info := pk.TypesInfo
	// callee → indexes of interface parameters compared with nil in its body
	tested := map[*types.Func]map[int]bool{}
	for _, fd := range load.AllFuncs(pk) {
		if fd.Body == nil {
			continue
		}
		fn, _ := info.Defs[fd.Name].(*types.Func)
		if fn == nil {
			continue
		}
		sig := fn.Type().(*types.Signature)
		for i := 0; i < sig.Params().Len(); i++ {
			p := sig.Params().At(i)
			if !types.IsInterface(p.Type()) {
				continue
			}
			found := false
			ast.Inspect(fd.Body, func(n ast.Node) bool {
				be, ok := n.(*ast.BinaryExpr)
				if !ok || (be.Op != token.EQL && be.Op != token.NEQ) {
					return true
				}
				for _, pair := range [][2]ast.Expr{{be.X, be.Y}, {be.Y, be.X}} {
					id, ok := ast.Unparen(pair[0]).(*ast.Ident)
					if ok && info.Uses[id] == p && isNilIdent(info, pair[1]) {
						found = true
					}
				}
				return true
			})
			if found {
				if tested[fn] == nil {
					tested[fn] = map[int]bool{}
				}
				tested[fn][i] = true
			}
		}
	}
	decls := map[*types.Func]*ast.FuncDecl{}
	for _, fd := range load.AllFuncs(pk) {
		if fn, _ := info.Defs[fd.Name].(*types.Func); fn != nil && fd.Body != nil {
			decls[fn] = fd
		}
	}
	c.Analysed("functions testing an interface parameter against nil ("+pk.Name+")", len(tested))
	for _, fd := range load.AllFuncs(pk) {
		if fd.Body == nil {
			continue
		}
		ord := map[string]int{}
		visitCall := func(call *ast.CallExpr, guards []goan.Lit) {
			fn, _ := typeutil.Callee(info, call).(*types.Func)
			if fn == nil || tested[fn] == nil {
				return
			}
			for i := range tested[fn] {
				if i >= len(call.Args) {
					continue
				}
				arg := ast.Unparen(call.Args[i])
				tv, ok := info.Types[arg]
				if !ok || tv.IsNil() {
					continue
				}
				if _, isPtr := tv.Type.Underlying().(*types.Pointer); !isPtr {
					continue
				}
				base := fmt.Sprintf("%s.%s › %s(%s)", pk.Name, load.FuncName(fd), fn.Name(), types.ExprString(arg))
				ord[base]++
				key := base
				if ord[base] > 1 {
					key = fmt.Sprintf("%s #%d", base, ord[base])
				}
				if ue, ok := arg.(*ast.UnaryExpr); ok && ue.Op == token.AND {
					c.Ok(rule, key, c.posOf(pk, call.Pos()), "passes an address")
					continue
				}
				if cl, ok := arg.(*ast.CompositeLit); ok && cl != nil {
					c.Ok(rule, key, c.posOf(pk, call.Pos()), "passes a fresh value")
					continue
				}
				if !derefsAs(pk, decls, fn, i, tv.Type, 0) {
					c.Ok(rule, key, c.posOf(pk, call.Pos()), "the callee never dereferences a "+types.TypeString(tv.Type, func(*types.Package) string { return "" }))
					continue
				}
				want := types.ExprString(arg)
				guarded := false
				for _, g := range guards {
					if g.Tag != nil || g.NonEmpty {
						continue
					}
					be, ok := ast.Unparen(g.E).(*ast.BinaryExpr)
					if !ok {
						continue
					}
					for _, pair := range [][2]ast.Expr{{be.X, be.Y}, {be.Y, be.X}} {
						if types.ExprString(ast.Unparen(pair[0])) == want && isNilIdent(info, pair[1]) {
							if (be.Op == token.NEQ && g.Pos) || (be.Op == token.EQL && !g.Pos) {
								guarded = true
							}
						}
					}
				}
				c.Check(guarded, rule, key, c.posOf(pk, call.Pos()), "under "+want+" != nil",
					fmt.Sprintf("%s passes the pointer %s to the interface parameter %q of %s without testing it: %s tests that parameter against nil, but a nil %s stored in an interface is not nil, so the test is passed and the code behind it dereferences a nil pointer",
						load.FuncName(fd), want, fn.Type().(*types.Signature).Params().At(i).Name(), fn.Name(), fn.Name(), tv.Type.String()))
			}
		}
		goan.WalkGuards(info, fd.Body, func(leaf ast.Node, guards []goan.Lit, _ []ast.Stmt) {
			if rs, ok := leaf.(*ast.RangeStmt); ok {
				leaf = rs.X // the body is walked statement by statement, with its own guards
			}
			ast.Inspect(leaf, func(n ast.Node) bool {
				if _, isLit := n.(*ast.FuncLit); isLit {
					return false
				}
				if call, ok := n.(*ast.CallExpr); ok {
					visitCall(call, guards)
				}
				return true
			})
		})
	}
}

// derefsAs: does fn, handed a value of pointer type t in its interface parameter idx, select a
// field or method from it or dereference it — directly in a type-switch arm for t, or by handing
// it on to another function of the package that does?
func derefsAs(pk *packages.Package, decls map[*types.Func]*ast.FuncDecl, fn *types.Func, idx int, t types.Type, depth int) bool {
	fd := decls[fn]
	if fd == nil || depth > 4 {
		return false
	}
	info := pk.TypesInfo
	sig := fn.Type().(*types.Signature)
	if idx >= sig.Params().Len() {
		return false
	}
	param := sig.Params().At(idx)
	handedOn := func(root ast.Node, obj types.Object) bool {
		found := false
		ast.Inspect(root, func(n ast.Node) bool {
			call, ok := n.(*ast.CallExpr)
			if !ok || found {
				return !found
			}
			callee, _ := typeutil.Callee(info, call).(*types.Func)
			if callee == nil || decls[callee] == nil {
				return true
			}
			for k, a := range call.Args {
				if id, ok := ast.Unparen(a).(*ast.Ident); ok && info.Uses[id] == obj {
					csig := callee.Type().(*types.Signature)
					if k < csig.Params().Len() && types.IsInterface(csig.Params().At(k).Type()) && derefsAs(pk, decls, callee, k, t, depth+1) {
						found = true
					}
				}
			}
			return true
		})
		return found
	}
	if handedOn(fd.Body, param) {
		return true
	}
	found := false
	ast.Inspect(fd.Body, func(n ast.Node) bool {
		ts, ok := n.(*ast.TypeSwitchStmt)
		if !ok || found {
			return !found
		}
		var asserted ast.Expr
		switch a := ts.Assign.(type) {
		case *ast.AssignStmt:
			if len(a.Rhs) == 1 {
				if ta, ok := ast.Unparen(a.Rhs[0]).(*ast.TypeAssertExpr); ok {
					asserted = ta.X
				}
			}
		case *ast.ExprStmt:
			if ta, ok := ast.Unparen(a.X).(*ast.TypeAssertExpr); ok {
				asserted = ta.X
			}
		}
		id, ok := ast.Unparen(asserted).(*ast.Ident)
		if !ok || info.Uses[id] != param {
			return true
		}
		for _, cl := range ts.Body.List {
			cc := cl.(*ast.CaseClause)
			match := false
			for _, te := range cc.List {
				if tv, ok := info.Types[te]; ok && types.Identical(tv.Type, t) {
					match = true
				}
			}
			if !match {
				continue
			}
			bound := info.Implicits[cc]
			if bound == nil {
				continue
			}
			// an arm that compares its pointer with nil knows about typed nils
			nilAware := false
			for _, st := range cc.Body {
				ast.Inspect(st, func(m ast.Node) bool {
					if be, ok := m.(*ast.BinaryExpr); ok && (be.Op == token.EQL || be.Op == token.NEQ) {
						for _, pair := range [][2]ast.Expr{{be.X, be.Y}, {be.Y, be.X}} {
							if id, ok := ast.Unparen(pair[0]).(*ast.Ident); ok && info.Uses[id] == bound && isNilIdent(info, pair[1]) {
								nilAware = true
							}
						}
					}
					return !nilAware
				})
			}
			if nilAware {
				continue
			}
			for _, st := range cc.Body {
				ast.Inspect(st, func(m ast.Node) bool {
					switch x := m.(type) {
					case *ast.SelectorExpr:
						if bid, ok := ast.Unparen(x.X).(*ast.Ident); ok && info.Uses[bid] == bound {
							found = true
						}
					case *ast.StarExpr:
						if bid, ok := ast.Unparen(x.X).(*ast.Ident); ok && info.Uses[bid] == bound {
							found = true
						}
					}
					return !found
				})
				if !found && handedOn(st, bound) {
					found = true
				}
			}
		}
		return !found
	})
	return found
}

func isNilIdent(info *types.Info, e ast.Expr) bool {
	id, ok := ast.Unparen(e).(*ast.Ident)
	if !ok {
		return false
	}
	_, isNil := info.Uses[id].(*types.Nil)
	return isNil
}
