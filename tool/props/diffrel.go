package props

import (
	"fmt"
	"os"
	"sort"
	"strings"

	"verif/tool/goan"
	"verif/tool/load"
)

// diffRel builds (once) the relational model of the diff package.
func (c *Ctx) diffRel() *goan.Rel {
	if c.rel != nil {
		return c.rel
	}
	prog := c.Prog("./cmd/swagger/commands/diff", "./cmd/swagger/commands")
	pk := prog.Pkg(load.PkgDiff)
	r, err := goan.NewRel(pk, "SpecChangeCode", []string{"SpecAnalyser"}, map[string][]goan.Side{
		"SpecAnalyser.Analyse": {goan.S1, goan.S2},
		"Compare":              {goan.S1, goan.S2},
	})
	if err != nil {
		c.Rule("rel", "relational model of the diff package", 1)
		c.Unk("rel", "diff package", "", "cannot build the side model: "+err.Error())
		os.Exit(c.Finish())
	}
	r.CollectSites([]string{"Code", "Change"}, map[string]bool{"init": true})
	c.rel = r
	c.Analysed("diff emission sites", len(r.Sites))
	return r
}

// DumpRel prints the model (debugging aid: gsv debug rel).
func DumpRel(c *Ctx) {
	r := c.diffRel()
	ps := r.ParamSides()
	var names []string
	for n := range ps {
		names = append(names, n)
	}
	sort.Strings(names)
	for _, n := range names {
		fmt.Printf("PARAMS %-40s %s\n", n, ps[n])
	}
	fmt.Println("passes:", r.Passes)
	for _, s := range r.Sites {
		code := s.Code
		if s.Param != nil {
			code = "param:" + s.Param.Name()
		}
		var as []string
		for _, a := range s.Atoms {
			t := string(a.Kind)
			if a.Kind == goan.AUnary {
				t = fmt.Sprintf("unary(%s:%s=%s)", a.Side, strings.TrimSpace(a.Pred), a.Val)
			}
			as = append(as, t)
		}
		fmt.Printf("SITE %-34s %-28s %-8s %v\n      derived=", s.FnName, code, s.Via, as)
		for _, t := range s.Derived {
			fmt.Printf("%s%v ", t.Kind, t.Names)
		}
		fmt.Println()
	}
}
