package props

import (
	"fmt"
	"go/ast"
	"go/token"
	"go/types"
	"regexp"
	"strings"

	"golang.org/x/tools/go/packages"

	"verif/tool/goan"
	"verif/tool/load"
	"verif/tool/tmpl"
)

func init() { register("C03", checkC03) }

var paramBinderRules = []emitRule{
	fileRewindRule,
	{Name: "missing key of a required parameter is rejected", Trees: []string{"serverParameter"}, Rx: `if !hasKey \{\s*return errors\.Required\(`, Need: []guardAtom{{"Required", +1}}, Forbid: []string{"AllowEmptyValue"}, Min: 2,
		Why: "a required query/header/form parameter that is absent must be answered with an error; an optional one must not"},
	{Name: "empty value of a required parameter is rejected", Trees: []string{"serverParameter"}, Rx: `validate\.RequiredString\(`, Need: []guardAtom{{"Required", +1}, {"AllowEmptyValue", -1}, {"IsPathParam", -1}}, Min: 1,
		Why: "an empty value is refused exactly for required parameters that do not allow empty values"},
	{Name: "empty value of an optional parameter passes", Trees: []string{"serverParameter"}, Rx: `if raw == "" \{`, Need: []guardAtom{{"Required", -1}, {"AllowEmptyValue", +1}, {"IsPathParam", -1}}, Min: 1,
		Why: "the early `return nil` on an empty value is only legitimate for optional parameters or allowEmptyValue"},
	{Name: "empty array of a required parameter is rejected", Trees: []string{"serverParameter"}, Rx: `\) == 0 \{\s*return errors\.Required\(`, Need: []guardAtom{{"Required", +1}, {"AllowEmptyValue", -1}}, Min: 1,
		Why: "an empty collection is refused exactly for required array parameters that do not allow empty values"},
	{Name: "collections are split by the declared collectionFormat", Trees: []string{"serverParameter", "sliceparambinder"}, Rx: `swag\.SplitByFormat\(`, Args: []string{"CollectionFormat"}, Min: 2,
		Why: "the separator must come from the parameter's (or the nested items') own collectionFormat"},
	{Name: "multi collections take every raw value", Trees: []string{"serverParameter"}, Rx: `C := rawData`, Need: []guardAtom{{"CollectionFormat", 0}}, Min: 1,
		Why: "collectionFormat multi binds all repeated values"},
	{Name: "conversion failure is a type error", Trees: []string{"serverParameter", "childvalidator"}, Rx: `⟦\.Converter⟧\([^)]*\)\s*if err != nil \{\s*return errors\.InvalidType\(`, Need: []guardAtom{{"Converter", +1}}, Min: 2,
		Why: "a value that does not parse as the declared type must produce an error, not a zero value"},
	{Name: "format parse failure is a type error", Trees: []string{"serverParameter", "childvalidator"}, Rx: `formats\.Parse\(`, Need: []guardAtom{{"IsCustomFormatter", +1}}, Args: []string{"SwaggerFormat"}, Min: 2,
		Why: "strfmt values are parsed with the parameter's own format"},
	{Name: "format parse failure returns", Trees: []string{"serverParameter", "childvalidator"}, Rx: `formats\.Parse\([^\n]*\)\s*if err != nil \{\s*return errors\.InvalidType\(`, Min: 2,
		Why: "a value that does not parse in the declared format must produce an error"},
	{Name: "absent required body is rejected", Trees: []string{"serverParameter"}, Rx: ` else \{\s*res = append\(res, errors\.Required\(`, Need: []guardAtom{{"Required", +1}, {"IsBodyParam", +1}}, Min: 1,
		Why: "a required body that is missing must be answered with an error"},
	{Name: "empty required body is rejected", Trees: []string{"serverParameter"}, Rx: `err == io\.EOF`, Need: []guardAtom{{"Required", +1}}, Min: 2,
		Why: "EOF on a required body is the `required` error"},
	{Name: "unparseable body is rejected", Trees: []string{"serverParameter"}, Rx: `res = append\(res, errors\.NewParseError\(`, Need: []guardAtom{{"IsBodyParam", +1}}, Min: 1,
		Why: "a body the consumer cannot decode must produce an error"},
	{Name: "collected errors are returned", Trees: []string{"serverParameter"}, Rx: `if len\(res\) > 0 \{\s*return errors\.CompositeValidationError\(res\.\.\.\)`, Min: 1,
		Why: "BindRequest must fail when any parameter failed"},
	{Name: "validation method is called", Trees: []string{"serverParameter"}, Rx: `\.validate⟦pascalize \.ID⟧\(formats\); err != nil \{\s*return err`, Min: 2,
		Why: "the per-parameter validation must run after binding and its error must be returned"},
	{Name: "validation method is generated", Trees: []string{"serverParameter"}, Rx: `\) validate⟦pascalize \.ID⟧\(formats strfmt\.Registry\) error \{\s*⟦template propertyparamvalidator \.⟧`, Need: []guardAtom{{"HasValidations", +1}, {"HasSliceValidations", +1}}, Min: 1,
		Why: "the validation method must exist whenever the binder calls it and must apply the parameter validations"},
	{Name: "primitive validations applied", Trees: []string{"propertyparamvalidator"}, Rx: `⟦template validationPrimitive \.⟧`, Need: []guardAtom{{"IsPrimitive", +1}}, Min: 1,
		Why: "bounds, lengths, pattern, enum of simple parameters"},
	{Name: "format validation applied", Trees: []string{"propertyparamvalidator"}, Rx: `validate\.FormatOf\(`, Need: []guardAtom{{"IsCustomFormatter", +1}}, Args: []string{"SwaggerFormat"}, Min: 1,
		Why: "format of string parameters"},
	{Name: "slice validations applied", Trees: []string{"propertyparamvalidator"}, Rx: `⟦template sliceparamvalidator \.⟧`, Need: []guardAtom{{"IsArray", +1}}, Min: 1,
		Why: "item counts, uniqueness and enum of array parameters"},
	{Name: "items are validated", Trees: []string{"childvalidator"}, Rx: `⟦template propertyparamvalidator \.⟧`, Min: 1,
		Why: "nested item constraints"},
	{Name: "items are bound through childvalidator", Trees: []string{"sliceparambinder"}, Rx: `⟦template childvalidator \.Child⟧`, Min: 1,
		Why: "every item is converted and validated"},
	{Name: "nested arrays recurse", Trees: []string{"sliceparambinder"}, Rx: `⟦template sliceparambinder \.Child⟧`, Need: []guardAtom{{"IsArray", +1}}, Min: 1,
		Why: "nested arrays are bound recursively"},
	{Name: "nested slice validations applied", Trees: []string{"sliceparambinder"}, Rx: `⟦template sliceparamvalidator \.Child⟧`, Need: []guardAtom{{"HasSliceValidations", +1}}, Min: 1,
		Why: "item counts of nested arrays"},
	{Name: "array parameters are bound item by item", Trees: []string{"serverParameter"}, Rx: `⟦template sliceparambinder \.⟧`, Min: 2,
		Why: "array parameters go through the slice binder"},
	{Name: "model body is validated", Trees: []string{"bodyvalidator"}, Rx: `\.Validate\(route\.Formats\); err != nil \{\s*res = append\(res, err\)\s*\}\s*ctx := validate\.WithOperationRequest\(`, Need: []guardAtom{{"HasModelBodyParams", +1}}, Min: 1,
		Why: "a body described by a model must satisfy the model's schema"},
	{Name: "model body items are validated", Trees: []string{"bodyvalidator"}, Rx: `\.Validate\(route\.Formats\); err != nil \{\s*res = append\(res, err\)`, Min: 3,
		Why: "items / values of bodies holding models are validated"},
	{Name: "inline body is validated", Trees: []string{"bodyvalidator"}, Rx: `\.validate⟦pascalize \.ID⟧Body\(route\.Formats\); err != nil \{\s*res = append\(res, err\)`, Need: []guardAtom{{"HasSimpleBodyParams", +1}, {"HasValidations", +1}}, Min: 2,
		Why: "an inline body schema with constraints is validated"},
	{Name: "body is validated after decoding", Trees: []string{"serverParameter"}, Rx: `⟦template bodyvalidator \.⟧`, Need: []guardAtom{{"IsBodyParam", +1}}, Min: 1,
		Why: "the decoded body goes through the body validator"},
	{Name: "defaults hydrate the parameter struct", Trees: []string{"serverParameter"}, Rx: `⟦pascalize \.ID⟧: [^\n]*⟦varname \.ID⟧Default,`, Need: []guardAtom{{"HasDefault", +1}}, Min: 1,
		Why: "absent optional parameters carry the spec's default"},
	{Name: "defaults are initialised from the spec value", Trees: []string{"serverParameter"}, Rx: `⟦varname \.ID⟧Default =`, Need: []guardAtom{{"HasDefault", +1}}, Min: 1,
		Why: "the default variable is built from .Default"},
}

func checkC03(c *Ctx) {
	c.Explain("generated server binds and validates requests per the spec — structural conditions on the binder templates and the Go code steering them: (R1) validate.* emitters are guarded by and fed with their own keyword, every simple-schema keyword has an emitter reachable from the parameter binder; (R2) the binder has one arm per location × {scalar, array} reading from the matching source (headers through CanonicalHeaderKey), and the required / empty / conversion / body arms sit under the flags that the Swagger 2.0 parameter semantics prescribe; errors are collected and returned; (R3) the Go side computes those flags from the spec (allowEmptyValue for query and formData, enum case-insensitivity by value, converter/formatter tables, body validation strategy exhaustive and exclusive, location predicates); (R4) defaults hydrate the struct and ServeHTTP creates it with defaults, binds, and only then calls the handler. " +
		"Decides emitter presence, pairing, guards and order; it does not decide the HTTP outcome of any concrete request.")
	c.Assume("Swagger 2.0 parameter semantics table (DESIGN appendix A.2): allowEmptyValue applies to query and formData; path parameters are always required; header names are case-insensitive")
	ev, _, gen := c.evalTemplates("")
	prog := c.ProgDeps("./generator", "github.com/go-openapi/runtime/yamlpc")
	if p := prog.ByPath["github.com/go-openapi/validate"]; p != nil {
		emitted := checkValidationEmitters(c, "C03.R1.emitters", ev, p.Types)
		c.Rule("C03.R1.family-coverage", "each simple-schema validation keyword has an emitter reachable from the server parameter binder", 11)
		reach := reachableDefines(ev, []string{"serverParameter"})
		union := map[string]bool{}
		for d := range reach {
			for k := range emitted[d] {
				union[k] = true
			}
		}
		for _, k := range []string{"Maximum", "Minimum", "MultipleOf", "MaxLength", "MinLength", "Pattern", "MaxItems", "MinItems", "UniqueItems", "Enum", "Format"} {
			c.Check(union[k], "C03.R1.family-coverage", "server parameter binder › keyword "+k, "", "emitter reachable", "no emitter for "+k+" is reachable from the parameter binder: the constraint is silently not enforced on requests")
		}
	} else {
		c.Anchor("C03.R1.emitters", "github.com/go-openapi/validate", "dependency not loaded")
	}
	checkEnumCasePolarity(c, "C03.R1.enum-case", ev)

	// ---- R2 binder arms
	c.Rule("C03.R2.binder", "required / empty / conversion / body / validation arms of the binder sit under the prescribed flags, with the prescribed arguments", 40)
	checkEmitRules(c, "C03.R2.binder", ev, paramBinderRules)
	checkBinderLocations(c, "C03.R2.locations", ev)
	checkBodyAssigned(c, ev)
	checkBinderLoops(c, ev)
	checkInnerArraysKept(c, "C03.R2.inner-arrays-kept", ev)
	checkBodyStreamNotClosed(c, ev)
	checkSliceValidatorSeesValue(c, "C03.R2.validated-value", ev)
	checkInnerValidatorUnconditional(c, ev)
	checkRangeFilters(c, "C03.R2.range-filters", ev, reviewedRangeFilters, 25)
	checkDefaultInitAgreement(c, ev)
	checkFormatGuards(c, "C03.R2.format-guards", ev, 2)
	checkOptionalFile(c, "C03.R2.optional-file", ev)
	checkFreshParams(c, ev)

	// ---- R3 Go side
	checkParamFlags(c, "C03.R3.flags", gen)
	checkExtensionGetters(c, "C03.R3.extension-values", gen)
	checkFormatNormalisation(c, "C03.R3.format-normalisation", gen)

	// ---- R4 order in ServeHTTP
	c.Rule("C03.R4.serve-order", "ServeHTTP creates the parameters with defaults, binds and validates them, returns on error, and only then calls the handler", 2)
	if l := linearOf(c, ev, "serverOperation"); l == nil {
		c.Anchor("C03.R4.serve-order", "template serverOperation", "not found")
	} else {
		checkOrder(c, "C03.R4.serve-order", "serverOperation › ServeHTTP › New…Params → BindValidRequest → Handle", l,
			"the handler must only see parameters that were created with defaults and then bound and validated",
			`var Params = New⟦pascalize \.Name⟧Params\(\)`, `\.Context\.BindValidRequest\(r, route, &Params\); err != nil \{`, `\.Handler\.Handle\(Params`)
		ok := regexp.MustCompile(loosen(`\.Context\.BindValidRequest\(r, route, &Params\); err != nil \{[^}]*\.Context\.Respond\([^}]*\berr\)\s*return\s*\}`)).MatchString(l.Text)
		c.Check(ok, "C03.R4.serve-order", "serverOperation › ServeHTTP › bind error responds and returns", l.Tree.File, "error arm ends in return", "the error arm of BindValidRequest does not respond with the error and return: the handler runs on an invalid request")
	}
}

// checkBinderLocations: one arm per location × arity with the matching accessor.
func checkBinderLocations(c *Ctx, rule string, ev *tmpl.Evaluator) {
	c.Rule(rule, "BindRequest reads each parameter from the source of its own location, for scalars and arrays alike; header access is canonicalised", 10)
	l := linearOf(c, ev, "serverParameter")
	if l == nil {
		c.Anchor(rule, "template serverParameter", "not found")
		return
	}
	// the query and form value sets are locals of the generated BindRequest: find their names
	// from their definitions (runtime.Values(r.URL.Query()) / runtime.Values(r.Form))
	qv, fv := "", ""
	if m := regexp.MustCompile(`(\w+) := runtime\.Values\(\w+\.URL\.Query\(\)\)`).FindStringSubmatch(l.Text); m != nil {
		qv = m[1]
	}
	merged := false
	if m := regexp.MustCompile(`(\w+) := runtime\.Values\(\w+\.(Form|PostForm)\)`).FindStringSubmatch(l.Text); m != nil {
		fv = m[1]
		merged = m[2] == "Form"
	}
	if qv == "" || fv == "" {
		c.Bad(rule, "serverParameter › BindRequest › query / form value sets", l.Tree.File, "the query values are not taken from r.URL.Query() or the form values not from the request's form")
		return
	}
	c.Check(!merged, rule, "serverParameter › BindRequest › form values come from the form alone", l.Tree.File, "runtime.Values(r.PostForm)",
		"the form values are taken from http.Request.Form, which holds the body form followed by the URL query: a formData parameter sharing its name with a query parameter is bound to the query value")
	acc := []struct{ loc, rx string }{
		{"IsQueryParam", `[^\w.]` + regexp.QuoteMeta(qv) + `\.GetOK\(⟦\.Path⟧\)`},
		{"IsPathParam", `route\.Params\.GetOK\(⟦\.Path⟧\)`},
		{"IsHeaderParam", `r\.Header\[http\.CanonicalHeaderKey\(⟦\.Path⟧\)\]`},
		{"IsFormParam", `[^\w.]` + regexp.QuoteMeta(fv) + `\.GetOK\(⟦\.Path⟧\)`},
	}
	locs := []string{"IsQueryParam", "IsPathParam", "IsHeaderParam", "IsFormParam"}
	for _, a := range acc {
		var scalar, array int
		for _, oc := range l.Find(regexp.MustCompile(loosen(a.rx))) {
			ok := tmpl.GuardHas(oc.Guards, a.loc, +1)
			// under no other location's positive guard
			for _, o := range locs {
				if o != a.loc && innermostPositive(oc.Guards, locs) == o {
					ok = false
				}
			}
			isArr := tmpl.GuardHas(oc.Guards, "IsArray", +1) && !innermostIsNotArray(oc.Guards)
			if isArr {
				array++
			} else {
				scalar++
			}
			c.Check(ok, rule, fmt.Sprintf("serverParameter › BindRequest › %s accessor (array=%v)", a.loc, isArr), l.Tree.PosStr(oc.Pos), "under its own location guard",
				fmt.Sprintf("the %s accessor is emitted under [%s]: the parameter is read from the wrong part of the request", a.loc, tmpl.GuardString(oc.Guards)))
		}
		c.Check(scalar >= 1 && array >= 1, rule, fmt.Sprintf("serverParameter › BindRequest › %s has scalar and array arms", a.loc), l.Tree.File, fmt.Sprintf("%d scalar, %d array", scalar, array),
			fmt.Sprintf("%s: %d scalar and %d array arms read from the %s source: parameters of that location and arity are never bound", a.loc, scalar, array, a.loc))
	}
	raw := len(regexp.MustCompile(`r\.Header\[`).FindAllString(l.Text, -1))
	canon := len(regexp.MustCompile(loosen(`r\.Header\[http\.CanonicalHeaderKey\(`)).FindAllString(l.Text, -1))
	c.Check(raw == canon && raw >= 2, rule, "serverParameter › BindRequest › header access canonicalised", l.Tree.File, fmt.Sprintf("%d accesses", raw), fmt.Sprintf("%d of %d direct r.Header[...] accesses do not canonicalise the header name: headers written in another case are not found", raw-canon, raw))
	// every bind call's error is collected
	calls := l.Find(regexp.MustCompile(`if err := ⟦\.ReceiverName⟧\.bind⟦pascalize \.ID⟧\(`))
	coll := l.Find(regexp.MustCompile(loosen(`if err := ⟦\.ReceiverName⟧\.bind⟦pascalize \.ID⟧\([^\n]*\); err != nil \{\s*(⟦[^⟧]*⟧)?\s*(// Required: true)?\s*res = append\(res, err\)`)))
	c.Check(len(calls) == len(coll) && len(calls) >= 8, rule, "serverParameter › BindRequest › bind errors are collected", l.Tree.File, fmt.Sprintf("%d bind calls", len(calls)), fmt.Sprintf("%d of %d bind calls do not append their error to res: a failed parameter does not fail the request", len(calls)-len(coll), len(calls)))
}

func innermostPositive(gs []tmpl.Guard, fields []string) string {
	for i := len(gs) - 1; i >= 0; i-- {
		if gs[i].Kind != "if" {
			continue
		}
		for _, f := range fields {
			if tmpl.GuardHas([]tmpl.Guard{gs[i]}, f, +1) {
				return f
			}
		}
	}
	return ""
}

func innermostIsNotArray(gs []tmpl.Guard) bool {
	for i := len(gs) - 1; i >= 0; i-- {
		if tmpl.GuardHas([]tmpl.Guard{gs[i]}, "IsArray", -1) {
			return true
		}
		if tmpl.GuardHas([]tmpl.Guard{gs[i]}, "IsArray", +1) {
			return false
		}
	}
	return false
}

// checkParamFlags: Go-side computation of the flags read by the binder templates.
func checkParamFlags(c *Ctx, rule string, gen *packages.Package) {
	c.Rule(rule, "the parameter view-model flags read by the binder are computed from the spec as the Swagger 2.0 semantics prescribe", 20)
	info := gen.TypesInfo
	// location predicates
	for meth, lit := range map[string]string{"IsQueryParam": "query", "IsPathParam": "path", "IsFormParam": "formData", "IsHeaderParam": "header", "IsBodyParam": "body"} {
		fd := load.FuncDecl(gen, "GenParameter."+meth)
		if fd == nil {
			c.Anchor(rule, "generator.GenParameter."+meth, "not found")
			continue
		}
		ok := false
		ast.Inspect(fd.Body, func(n ast.Node) bool {
			if rs, isRet := n.(*ast.ReturnStmt); isRet && len(rs.Results) == 1 {
				if be, isBe := ast.Unparen(rs.Results[0]).(*ast.BinaryExpr); isBe && be.Op == token.EQL && goan.LastSel(be.X) == "Location" {
					if s, isStr := goan.StringVal(info, be.Y); isStr && s == lit {
						ok = true
					}
				}
			}
			return true
		})
		c.Check(ok, rule, fmt.Sprintf("generator.GenParameter.%s › Location == %q", meth, lit), c.posOf(gen, fd.Pos()), "compares Location with its own literal", meth+" no longer tests Location == \""+lit+"\": parameters are bound from the wrong part of the request")
	}
	fd := load.FuncDecl(gen, "codeGenOpBuilder.MakeParameter")
	if fd == nil {
		c.Anchor(rule, "generator.codeGenOpBuilder.MakeParameter", "not found")
		return
	}
	// GenParameter literal fields
	var lit *ast.CompositeLit
	ast.Inspect(fd.Body, func(n ast.Node) bool {
		if cl, ok := n.(*ast.CompositeLit); ok && goan.NamedName(info.TypeOf(cl)) == "GenParameter" && len(cl.Elts) > 3 {
			lit = cl
		}
		return true
	})
	if lit == nil {
		c.Anchor(rule, "generator.codeGenOpBuilder.MakeParameter › GenParameter literal", "not found")
		return
	}
	want := map[string]string{"Name": "param.Name", "Default": "param.Default", "HasDefault": "param.Default != nil", "CollectionFormat": "param.CollectionFormat", "Location": "param.In"}
	for f, w := range want {
		v := goan.Field(lit, f)
		got := ""
		if v != nil {
			got = goan.ExprString(goan.ResolveLocal(info, fd.Body, v))
		}
		c.Check(got == w, rule, fmt.Sprintf("generator.codeGenOpBuilder.MakeParameter › GenParameter.%s = %s", f, w), c.posOf(gen, lit.Pos()), "copied from the spec parameter", fmt.Sprintf("GenParameter.%s is %q, not %s: the binder is generated from a value the spec does not declare", f, got, w))
	}
	// AllowEmptyValue: depends on param.AllowEmptyValue and holds for both query and formData, for no other location
	if v := goan.Field(lit, "AllowEmptyValue"); v == nil {
		c.Bad(rule, "generator.codeGenOpBuilder.MakeParameter › GenParameter.AllowEmptyValue", c.posOf(gen, lit.Pos()), "AllowEmptyValue is not set: allowEmptyValue of the spec is ignored")
	} else {
		atoms := map[string]bool{}
		boolAtoms(v, atoms)
		// evaluate under each location with param.AllowEmptyValue = true
		res := map[string]bool{}
		for _, loc := range []string{"query", "formData", "header", "path", "body"} {
			env := map[string]bool{}
			for a := range atoms {
				switch {
				case a == "param.AllowEmptyValue":
					env[a] = true
				case strings.HasPrefix(a, "param.In == "):
					env[a] = strings.Trim(strings.TrimPrefix(a, "param.In == "), `"`) == loc
				case strings.HasPrefix(a, "param.In != "):
					env[a] = strings.Trim(strings.TrimPrefix(a, "param.In != "), `"`) != loc
				default:
					env[a] = false
					res["?"+a] = true
				}
			}
			res[loc] = boolEval(v, env)
		}
		envOff := map[string]bool{}
		for a := range atoms {
			envOff[a] = strings.HasPrefix(a, "param.In == ")
		}
		off := boolEval(v, envOff) // allowEmptyValue false → must be false
		ok := res["query"] && res["formData"] && !res["header"] && !res["path"] && !res["body"] && !off && atoms["param.AllowEmptyValue"]
		c.Check(ok, rule, "generator.codeGenOpBuilder.MakeParameter › GenParameter.AllowEmptyValue", c.posOf(gen, v.Pos()), "true exactly for query and formData parameters that declare allowEmptyValue",
			fmt.Sprintf("AllowEmptyValue = %s evaluates to %v per location (with the spec flag set) and %v with it unset: Swagger 2.0 honours allowEmptyValue for query and formData parameters only", goan.ExprString(v), res, off))
	}
	// IsEnumCI, Converter, Formatter assignments across the package
	nCI, nConv := 0, 0
	for _, f := range load.AllFuncs(gen) {
		f := f
		ast.Inspect(f.Body, func(n ast.Node) bool {
			as, ok := n.(*ast.AssignStmt)
			if !ok || len(as.Lhs) != 1 || len(as.Rhs) != 1 {
				return true
			}
			switch goan.LastSel(as.Lhs[0]) {
			case "IsEnumCI":
				if goan.IsIdent(as.Rhs[0], "false") {
					return true
				}
				nCI++
				okCI := false
				ast.Inspect(as.Rhs[0], func(m ast.Node) bool {
					if call, ok := m.(*ast.CallExpr); ok && goan.IsIdent(call.Fun, "hasEnumCI") && len(call.Args) == 1 && goan.LastSel(call.Args[0]) == "Extensions" {
						okCI = true
					}
					return true
				})
				c.Check(okCI, rule, fmt.Sprintf("generator.%s › %s", load.FuncName(f), goan.ExprString(as.Lhs[0])+" ⟸ hasEnumCI(X.Extensions)"), c.posOf(gen, as.Pos()), "from the object's own extensions", "IsEnumCI is not computed by hasEnumCI from the object's extensions")
			case "Converter", "Formatter":
				if load.FuncName(f) == "codeGenOpBuilder.MakeBodyParameterItemsAndMaps" {
					// body items are decoded by the consumer, never string-converted (SkipParse): the
					// simple-schema tables do not apply to them
					return true
				}
				field := goan.LastSel(as.Lhs[0])
				tbl := map[string]string{"Converter": "stringConverters", "Formatter": "stringFormatters"}[field]
				ix, isIx := ast.Unparen(as.Rhs[0]).(*ast.IndexExpr)
				if !isIx {
					return true
				}
				nConv++
				okT := goan.IsIdent(ix.X, tbl) && goan.LastSel(ix.Index) == "GoType"
				c.Check(okT, rule, fmt.Sprintf("generator.%s › %s ⟸ %s[X.GoType]", load.FuncName(f), goan.ExprString(as.Lhs[0]), tbl), c.posOf(gen, as.Pos()), "own table keyed by the Go type",
					fmt.Sprintf("%s is read from %s: the string→value converter and the value→string formatter tables are swapped or keyed by something else than the Go type", goan.ExprString(as.Lhs[0]), goan.ExprString(as.Rhs[0])))
			}
			return true
		})
	}
	if nCI < 4 || nConv < 6 {
		c.Unk(rule, "generator › IsEnumCI / Converter / Formatter assignments", "", fmt.Sprintf("found %d IsEnumCI and %d converter/formatter assignments, expected at least 4 and 6", nCI, nConv))
	}
	checkBodyStrategy(c, rule, gen)
	// nested items are split by their own collectionFormat (csv when they declare none), never by
	// the enclosing array's
	for _, fn := range []string{"codeGenOpBuilder.MakeParameterItem", "codeGenOpBuilder.MakeHeaderItem"} {
		f := load.FuncDecl(gen, fn)
		if f == nil {
			c.Anchor(rule, "generator."+fn, "not found")
			continue
		}
		// the items being built: the first *spec.Items parameter
		var itemsObj types.Object
		for _, fl := range f.Type.Params.List {
			if itemsObj == nil && goan.ExprString(fl.Type) == "*spec.Items" && len(fl.Names) > 0 {
				itemsObj = info.Defs[fl.Names[0]]
			}
		}
		n, bad := 0, ""
		ast.Inspect(f.Body, func(nd ast.Node) bool {
			as, ok := nd.(*ast.AssignStmt)
			if !ok || len(as.Lhs) != 1 || len(as.Rhs) != 1 || goan.LastSel(as.Lhs[0]) != "CollectionFormat" {
				return true
			}
			n++
			se, isSel := ast.Unparen(as.Rhs[0]).(*ast.SelectorExpr)
			if !isSel || se.Sel.Name != "CollectionFormat" || !identIs(info, se.X, itemsObj) {
				bad = goan.ExprString(as.Rhs[0])
			}
			return true
		})
		c.Check(n == 1 && bad == "", rule, "generator."+fn+" › CollectionFormat is the items' own", c.posOf(gen, f.Pos()), "one store, from the items being built",
			fmt.Sprintf("the collectionFormat of nested items is taken from %q (%d stores): an inner array that declares none is no longer split as csv, so a valid nested value is rejected or mis-split", bad, n))
	}
}

// checkBodyStrategy: setBodyParamValidation stores each local flag in the field of the same
// name; hasSimpleBodyParams and hasModelBodyParams are exclusive and, unless the body is an
// interface/stream/base64, exhaustive (small-model evaluation over the atoms of both
// expressions).
func checkBodyStrategy(c *Ctx, rule string, gen *packages.Package) {
	fd := load.FuncDecl(gen, "codeGenOpBuilder.setBodyParamValidation")
	if fd == nil {
		c.Anchor(rule, "generator.codeGenOpBuilder.setBodyParamValidation", "not found")
		return
	}
	defs := map[string]ast.Expr{}
	n := 0
	ast.Inspect(fd.Body, func(nd ast.Node) bool {
		as, ok := nd.(*ast.AssignStmt)
		if !ok || len(as.Lhs) != 1 || len(as.Rhs) != 1 {
			return true
		}
		if id, ok := as.Lhs[0].(*ast.Ident); ok {
			if _, dup := defs[id.Name]; !dup {
				defs[id.Name] = as.Rhs[0]
			}
			return true
		}
		if se, ok := as.Lhs[0].(*ast.SelectorExpr); ok && strings.HasPrefix(se.Sel.Name, "Has") {
			n++
			rhs, isId := as.Rhs[0].(*ast.Ident)
			c.Check(isId && strings.EqualFold(rhs.Name, se.Sel.Name), rule, "generator.codeGenOpBuilder.setBodyParamValidation › p."+se.Sel.Name, c.posOf(gen, as.Pos()), "stored from the local of the same name",
				fmt.Sprintf("p.%s is assigned %s: the body validation strategy flags are crossed", se.Sel.Name, goan.ExprString(as.Rhs[0])))
		}
		return true
	})
	if n < 6 {
		c.Unk(rule, "generator.codeGenOpBuilder.setBodyParamValidation › strategy flags", c.posOf(gen, fd.Pos()), fmt.Sprintf("%d Has* flags stored, expected 6", n))
	}
	simple, model, doNot := defs["hasSimpleBodyParams"], defs["hasModelBodyParams"], defs["doNot"]
	if simple == nil || model == nil || doNot == nil {
		c.Anchor(rule, "generator.codeGenOpBuilder.setBodyParamValidation › hasSimpleBodyParams/hasModelBodyParams/doNot", "definitions not found")
		return
	}
	atoms := map[string]bool{}
	boolAtoms(simple, atoms)
	boolAtoms(model, atoms)
	boolAtoms(doNot, atoms)
	delete(atoms, "doNot")
	keys := sortedKeys(atoms)
	if len(keys) > 16 {
		c.Unk(rule, "generator.codeGenOpBuilder.setBodyParamValidation › exclusive and exhaustive", c.posOf(gen, fd.Pos()), "too many atoms for small-model evaluation")
		return
	}
	bad := ""
	for m := 0; m < 1<<len(keys); m++ {
		env := map[string]bool{}
		for i, k := range keys {
			env[k] = m&(1<<i) != 0
		}
		env["doNot"] = boolEval(doNot, env)
		s, mo := boolEval(simple, env), boolEval(model, env)
		if s && mo || !env["doNot"] && !s && !mo {
			var on []string
			for _, k := range keys {
				if env[k] {
					on = append(on, k)
				}
			}
			bad = fmt.Sprintf("with {%s} true: simple=%v model=%v", strings.Join(on, ", "), s, mo)
			break
		}
	}
	c.Check(bad == "", rule, "generator.codeGenOpBuilder.setBodyParamValidation › exclusive and exhaustive", c.posOf(gen, fd.Pos()), fmt.Sprintf("2^%d valuations", len(keys)),
		"the simple-body and model-body strategies are not complementary ("+bad+"): some body schema gets no validation arm, or two")
}

// checkBinderLoops: in the body validator a validation loop is left only after an error was
// recorded; skipping an absent optional element continues with the next one.
func checkBinderLoops(c *Ctx, ev *tmpl.Evaluator) {
	rule := "C03.R2.loops"
	c.Rule(rule, "validation loops over body items stop only after recording an error", 3)
	l := linearOf(c, ev, "bodyvalidator")
	if l == nil {
		c.Anchor(rule, "template bodyvalidator", "not found")
		return
	}
	k := 0
	for _, m := range regexp.MustCompile(`\bbreak\b`).FindAllStringIndex(l.Text, -1) {
		k++
		// previous non-empty line
		prev := strings.TrimRight(l.Text[:m[0]], " \t\n")
		if i := strings.LastIndexByte(prev, '\n'); i >= 0 {
			prev = prev[i+1:]
		}
		ok := regexp.MustCompile(`\w+ = append\(\w+, `).MatchString(prev)
		c.Check(ok, rule, fmt.Sprintf("bodyvalidator › break #%d follows an appended error", k), l.Tree.PosStr(l.PosAt(m[0])), "break after res = append(res, …)",
			"a validation loop is left without an error having been recorded (`"+strings.TrimSpace(prev)+"` precedes the break): the remaining body items are never validated and an invalid request reaches the handler")
	}
	nc := len(regexp.MustCompile(loosen(`== nil \{\s*(res = append[^\n]*\s*break\s*)?continue`)).FindAllString(l.Text, -1))
	c.Check(nc >= 2, rule, "bodyvalidator › absent optional elements are skipped with continue", l.Tree.File, fmt.Sprintf("%d skips", nc), "the nil-element skip of the body item loops does not `continue` with the next element")
}

// checkDefaultInitAgreement: in New…Params, every parameter kind whose default variable is
// declared with a placeholder value (.Zero) is given its real default by one of the deferred
// initialisers (UnmarshalText / json.Unmarshal): small-model evaluation over the atoms of the
// guards.
func checkDefaultInitAgreement(c *Ctx, ev *tmpl.Evaluator) {
	rule := "C03.R2.default-init"
	c.Rule(rule, "a default variable declared with a placeholder is always initialised from the spec's default afterwards", 1)
	l := linearOf(c, ev, "serverParameter")
	if l == nil {
		c.Anchor(rule, "template serverParameter", "not found")
		return
	}
	end := strings.Index(l.Text, "BindRequest(")
	if end < 0 {
		end = len(l.Text)
	}
	var decl, inits []*tmpl.Cond
	atoms := map[string]bool{}
	{
		vb := strings.Index(l.Text, "// initialize parameters with default values")
		for _, oc := range l.Find(regexp.MustCompile(`⟦\.Zero⟧`)) {
			if oc.Start < vb || oc.Start > end || vb < 0 {
				continue
			}
			if !tmpl.GuardHas(oc.Guards, "HasDefault", +1) {
				continue
			}
			cd := tmpl.StackCond(oc.Guards)
			cd.Atoms(atoms)
			decl = append(decl, cd)
		}
	}
	for _, oc := range l.Find(regexp.MustCompile(`Default\.UnmarshalText\(|json\.Unmarshal\(\[\]byte\(`)) {
		if oc.Start > end || !tmpl.GuardHas(oc.Guards, "HasDefault", +1) {
			continue
		}
		cd := tmpl.StackCond(oc.Guards)
		cd.Atoms(atoms)
		inits = append(inits, cd)
	}
	if len(decl) < 3 || len(inits) < 2 {
		c.Unk(rule, "serverParameter › New…Params › placeholder declarations / deferred initialisers", l.Tree.File, fmt.Sprintf("found %d placeholder declarations and %d deferred initialisers (expected ≥3 and ≥2)", len(decl), len(inits)))
		return
	}
	keys := sortedKeys(atoms)
	if len(keys) > 18 {
		c.Unk(rule, "serverParameter › New…Params › default initialisation", l.Tree.File, fmt.Sprintf("%d atoms: too many for small-model evaluation", len(keys)))
		return
	}
	bad := ""
	for m := 0; m < 1<<len(keys) && bad == ""; m++ {
		env := map[string]bool{}
		for i, k := range keys {
			env[k] = m&(1<<i) != 0
		}
		d := false
		for _, cd := range decl {
			d = d || cd.Eval(env)
		}
		if !d {
			continue
		}
		in := false
		for _, cd := range inits {
			in = in || cd.Eval(env)
		}
		if !in {
			var on []string
			for _, k := range keys {
				if env[k] {
					on = append(on, k)
				}
			}
			bad = strings.Join(on, ", ")
		}
	}
	c.Check(bad == "", rule, "serverParameter › New…Params › every placeholder default is initialised", l.Tree.File, fmt.Sprintf("2^%d valuations, %d declarations, %d initialisers", len(keys), len(decl), len(inits)),
		"with {"+bad+"} true the default variable is declared with its zero placeholder but no UnmarshalText / json.Unmarshal initialiser is emitted: an absent optional parameter is handed to the handler with the zero value instead of the spec's default")
}

// checkBodyAssigned: whatever validation strategy applies, the decoded body reaches the
// parameter struct: under every valuation of the guards of bodyvalidator that does not make the
// body a stream (bound directly from r.Body by the caller), an assignment `<param> = body` is
// emitted.
func checkBodyAssigned(c *Ctx, ev *tmpl.Evaluator) {
	rule := "C03.R2.body-assigned"
	c.Rule(rule, "every reachable arm of the body validator assigns the decoded body to the parameter", 1)
	l := linearOf(c, ev, "bodyvalidator")
	if l == nil {
		c.Anchor(rule, "template bodyvalidator", "not found")
		return
	}
	var conds []*tmpl.Cond
	atoms := map[string]bool{}
	for _, oc := range l.Find(regexp.MustCompile(`⟦\.ReceiverName⟧\.⟦pascalize \.Name⟧ = (⟦[^⟧]*⟧)?&?\w+\b`)) {
		// (trim markers may have removed the newline that follows the assignment)
		if oc.End < len(l.Text) && (l.Text[oc.End] == '(' || l.Text[oc.End] == '.') {
			continue
		}
		cd := tmpl.StackCond(oc.Guards)
		cd.Atoms(atoms)
		conds = append(conds, cd)
	}
	if len(conds) < 5 {
		c.Unk(rule, "bodyvalidator › assignments of the decoded body", l.Tree.File, fmt.Sprintf("%d found, expected at least 5", len(conds)))
		return
	}
	// top-level strategy atoms: one of them holds for every non-stream body
	strategy := []string{".HasModelBodyParams", ".HasSimpleBodyParams", ".IsInterface", ".IsBase64"}
	for _, a := range strategy {
		atoms[a] = true // a body kind the template never tests is still a body kind
	}
	keys := sortedKeys(atoms)
	if len(keys) > 18 {
		c.Unk(rule, "bodyvalidator › assignments of the decoded body", l.Tree.File, fmt.Sprintf("%d atoms: too many for small-model evaluation", len(keys)))
		return
	}
	bad := ""
	for mask := 0; mask < 1<<len(keys) && bad == ""; mask++ {
		env := map[string]bool{}
		for i, k := range keys {
			env[k] = mask&(1<<i) != 0
		}
		any := false
		for _, a := range strategy {
			any = any || env[a]
		}
		// model and simple strategies are exclusive (C03.R3.flags); skip impossible valuations
		if !any || env[".HasModelBodyParams"] && env[".HasSimpleBodyParams"] {
			continue
		}
		assigned := false
		for _, cd := range conds {
			assigned = assigned || cd.Eval(env)
		}
		if !assigned {
			var on []string
			for _, k := range keys {
				if env[k] {
					on = append(on, k)
				}
			}
			bad = strings.Join(on, ", ")
		}
	}
	c.Check(bad == "", rule, "bodyvalidator › the decoded body is assigned under every strategy", l.Tree.File, fmt.Sprintf("2^%d valuations, %d assignments", len(keys), len(conds)),
		"with {"+bad+"} true no `param = body` assignment is emitted: the request body is decoded and then dropped, the handler receives an empty parameter")
}

// checkBodyStreamNotClosed: a streamed body (format: binary) is handed to the handler as r.Body;
// BindRequest must not schedule its closing — the handler reads it after BindRequest returned.
func checkBodyStreamNotClosed(c *Ctx, ev *tmpl.Evaluator) {
	rule := "C03.R2.stream-open"
	c.Rule(rule, "`defer r.Body.Close()` is emitted only on the paths that consume the body inside BindRequest (never under .Schema.IsStream, never unconditionally before that test)", 1)
	l := linearOf(c, ev, "serverParameter")
	if l == nil {
		c.Anchor(rule, "template serverParameter", "not found")
		return
	}
	occ := l.Find(regexp.MustCompile(`defer \w+\.Body\.Close\(\)`))
	if len(occ) == 0 {
		c.Unk(rule, "serverParameter › defer r.Body.Close()", l.Tree.File, "not found")
		return
	}
	for i, oc := range occ {
		ok := tmpl.GuardHas(oc.Guards, "IsStream", -1)
		c.Check(ok, rule, fmt.Sprintf("serverParameter › BindRequest › defer Body.Close #%d", i+1), l.Tree.PosStr(oc.Pos), "under the not-a-stream arm",
			"the body is closed when BindRequest returns on a path that includes streamed bodies ["+tmpl.GuardString(oc.Guards)+"]: the handler of a `format: binary` body reads a closed body")
	}
}

// checkSliceValidatorSeesValue: the slice validator of a body array reads the parameter's field
// (o.X), not the local `body`: wherever the body validator calls it, the field has been assigned
// from the decoded body just before, under the same conditions.
func checkSliceValidatorSeesValue(c *Ctx, rule string, ev *tmpl.Evaluator) {
	c.Rule(rule, "in the body validator, every call of the slice validator directly follows the assignment of the decoded body to the parameter's field", 1)
	l := linearOf(c, ev, "bodyvalidator")
	if l == nil {
		c.Anchor(rule, "template bodyvalidator", "not found")
		return
	}
	n := 0
	assign := regexp.MustCompile(`^⟦\.ReceiverName⟧\.⟦pascalize \.Name⟧ = (⟦[^⟧]*⟧)?&?\w+$`)
	for _, tc := range l.Calls {
		if tc.Name != "sliceparamvalidator" {
			continue
		}
		n++
		prev := strings.TrimRight(l.Text[:tc.Offset], " \t\n")
		off := len(prev)
		if j := strings.LastIndexByte(prev, '\n'); j >= 0 {
			prev = prev[j+1:]
			off = j + 1
		}
		same := tmpl.GuardString(l.GuardsAt(off+strings.Index(l.Text[off:], strings.TrimSpace(prev)))) == tmpl.GuardString(tc.Guards)
		ok := assign.MatchString(strings.TrimSpace(prev)) && same
		c.Check(ok, rule, fmt.Sprintf("bodyvalidator › slice validator call #%d sees the decoded value", n), l.Tree.PosStr(tc.Pos), "preceded by <receiver>.<Name> = body",
			"the slice validator (which reads the parameter's field) is called after `"+strings.TrimSpace(prev)+"`, not after the assignment of the decoded body to the field: maxItems / uniqueItems are checked on an empty slice and never fail")
	}
	if n == 0 {
		c.Unk(rule, "bodyvalidator › slice validator calls", l.Tree.File, "none found")
	}
}

// checkInnerValidatorUnconditional: the size validations of an inner array (minItems…) apply to
// every inner array, the empty ones first of all: the call of the slice validator in the nested
// binder must not sit inside the `if len(inner) > 0 {` that guards the recursion.
func checkInnerValidatorUnconditional(c *Ctx, ev *tmpl.Evaluator) {
	rule := "C03.R2.inner-validated"
	c.Rule(rule, "in sliceparambinder the slice validator of an inner array is called before (outside) the non-emptiness test of that inner array", 1)
	l := linearOf(c, ev, "sliceparambinder")
	if l == nil {
		c.Anchor(rule, "template sliceparambinder", "not found")
		return
	}
	conds := l.Find(regexp.MustCompile(`if len\(⟦[^⟧]*⟧C\) > 0 \{`))
	n := 0
	for _, tc := range l.Calls {
		if tc.Name != "sliceparamvalidator" {
			continue
		}
		n++
		inside := false
		for _, cd := range conds {
			if cd.Start < tc.Offset {
				// is the block still open at the call?
				depth := 1
				for _, ch := range l.Text[cd.End:tc.Offset] {
					switch ch {
					case '{':
						depth++
					case '}':
						depth--
					}
				}
				if depth > 0 {
					inside = true
				}
			}
		}
		c.Check(!inside, rule, fmt.Sprintf("sliceparambinder › slice validator call #%d applies to empty inner arrays too", n), l.Tree.PosStr(tc.Pos), "outside `if len(inner) > 0 {`",
			"the validations of the inner array are only run when it is not empty: minItems of an inner array is never enforced on `[]`")
	}
	if n == 0 {
		c.Unk(rule, "sliceparambinder › slice validator calls", l.Tree.File, "none found")
	}
}

// checkFreshParams: the value the binder fills is built anew for every request —
// New<Op>Params() returns a composite literal, not something kept between calls. Defaults are
// pointers and slices: a remembered struct hands the same ones to every request.
func checkFreshParams(c *Ctx, ev *tmpl.Evaluator) {
	rule := "C03.R2.fresh-params"
	c.Rule(rule, "New<Op>Params() returns a freshly built <Op>Params literal at every return (no value remembered between requests)", 1)
	l := linearOf(c, ev, "serverParameter")
	if l == nil {
		c.Anchor(rule, "template serverParameter", "not found")
		return
	}
	start := strings.Index(l.Text, "func New⟦pascalize .Name⟧Params()")
	if start < 0 {
		c.Anchor(rule, "serverParameter › func New<Op>Params()", "not found")
		return
	}
	end := strings.Index(l.Text[start:], "\n}\n")
	if end < 0 {
		end = len(l.Text) - start
	}
	body := l.Text[start : start+end]
	n := 0
	for _, m := range regexp.MustCompile(`\breturn\b[^\n]*`).FindAllStringIndex(body, -1) {
		stmt := strings.TrimSpace(body[m[0]:m[1]])
		n++
		ok := strings.HasPrefix(stmt, "return ⟦pascalize .Name⟧Params{")
		c.Check(ok, rule, fmt.Sprintf("server/parameter.gotmpl › New<Op>Params › return #%d is a literal", n), l.Tree.PosStr(l.PosAt(start+m[0])), "returns <Op>Params{…}",
			fmt.Sprintf("New<Op>Params() ends with `%s`: what it returns is kept between calls, so the pointers and slices that hold the defaults are shared by all requests — a handler that changes one changes the default of the requests that follow", stmt))
	}
	if n == 0 {
		c.Unk(rule, "server/parameter.gotmpl › New<Op>Params › returns", "", "no return statement found in the constructor")
	}
	// and nothing at package level is assigned inside it
	if m := regexp.MustCompile(`(?m)^\s*⟦camelize \.Name⟧\w*\s*=[^=]`).FindString(body); m != "" {
		c.Bad(rule, "server/parameter.gotmpl › New<Op>Params › no store to a package-level variable", l.Tree.PosStr(l.PosAt(start)), "the constructor stores into a variable named after the operation (`"+strings.TrimSpace(m)+"`): state kept between requests")
	}
}
