package props

import (
	"fmt"
	"go/ast"
	"go/types"

	"golang.org/x/tools/go/packages"

	"verif/tool/goan"
	"verif/tool/load"
)

// checkCommentsRaw: (*ast.CommentGroup).Text() is a rendering for documentation: it drops the
// lines written as directives — `//swagger:model name`, without a space after the slashes, is
// one. Annotations are therefore looked for in the raw text of each comment (Comment.Text), and
// what Text() returns is never matched against a regular expression.
func checkCommentsRaw(c *Ctx, rule string, pk *packages.Package) {
	c.Rule(rule, "annotations are matched on the raw comment lines: nothing derived from CommentGroup.Text(), which drops `//swagger:…` lines written as directives, reaches a regular expression", 3)
	info := pk.TypesInfo
	isGroupText := func(call *ast.CallExpr) bool {
		se, ok := call.Fun.(*ast.SelectorExpr)
		return ok && se.Sel.Name == "Text" && len(call.Args) == 0 && goan.NamedPath(info.TypeOf(se.X)) == "go/ast.CommentGroup"
	}
	raw := 0
	for _, fd := range load.AllFuncs(pk) {
		if fd.Body == nil {
			continue
		}
		fd := fd
		// raw readers: ranges over CommentGroup.List (counted, so that the rule is not vacuous)
		ast.Inspect(fd.Body, func(n ast.Node) bool {
			if rs, ok := n.(*ast.RangeStmt); ok {
				if se, ok := ast.Unparen(rs.X).(*ast.SelectorExpr); ok && se.Sel.Name == "List" && goan.NamedPath(info.TypeOf(se.X)) == "go/ast.CommentGroup" {
					raw++
					c.Ok(rule, "codescan."+load.FuncName(fd)+" › reads raw comments", c.posOf(pk, rs.Pos()), "range over CommentGroup.List")
				}
			}
			return true
		})
		tainted := map[types.Object]bool{}
		var has func(e ast.Node) bool
		has = func(e ast.Node) bool {
			found := false
			ast.Inspect(e, func(n ast.Node) bool {
				switch x := n.(type) {
				case *ast.CallExpr:
					if isGroupText(x) {
						found = true
					}
				case *ast.Ident:
					if o := info.Uses[x]; o != nil && tainted[o] {
						found = true
					}
				}
				return !found
			})
			return found
		}
		for round := 0; round < 4; round++ {
			ast.Inspect(fd.Body, func(n ast.Node) bool {
				switch x := n.(type) {
				case *ast.AssignStmt:
					for i, l := range x.Lhs {
						id, ok := l.(*ast.Ident)
						if !ok {
							continue
						}
						var rhs ast.Expr
						if len(x.Rhs) == len(x.Lhs) {
							rhs = x.Rhs[i]
						} else if len(x.Rhs) == 1 {
							rhs = x.Rhs[0]
						}
						if rhs != nil && has(rhs) {
							if o := info.ObjectOf(id); o != nil {
								tainted[o] = true
							}
						}
					}
				case *ast.RangeStmt:
					if has(x.X) {
						for _, v := range []ast.Expr{x.Key, x.Value} {
							if id, ok := v.(*ast.Ident); ok {
								if o := info.ObjectOf(id); o != nil {
									tainted[o] = true
								}
							}
						}
					}
				}
				return true
			})
		}
		ast.Inspect(fd.Body, func(n ast.Node) bool {
			call, ok := n.(*ast.CallExpr)
			if !ok {
				return true
			}
			se, ok := call.Fun.(*ast.SelectorExpr)
			if !ok || goan.NamedPath(info.TypeOf(se.X)) != "regexp.Regexp" {
				return true
			}
			for _, a := range call.Args {
				if has(a) {
					c.Bad(rule, "codescan."+load.FuncName(fd)+" › "+goan.ExprString(se.X)+"."+se.Sel.Name+" on CommentGroup.Text()", c.posOf(pk, call.Pos()),
						"the text matched by "+goan.ExprString(se.X)+" comes from CommentGroup.Text(), which leaves out the lines written as directives (`//swagger:model name`, no space after the slashes): an annotation in that form is not seen, and the declaration is published under its Go name or not at all")
				}
			}
			return true
		})
	}
	if raw == 0 {
		c.Anchor(rule, "codescan › range over CommentGroup.List", "no function reads raw comments")
	}
}

// checkSpecDocFirst: the comment of a type declared inside a group — `type ( // doc \n Foo … )` —
// hangs on the TypeSpec, the comment of a lone declaration on the GenDecl. Every function that
// takes the GenDecl's comment for a type it found among the specs reads the TypeSpec's comment
// too (the functions that collect models and parameters do; one that does not loses every
// annotation written inside a group).
func checkSpecDocFirst(c *Ctx, rule string, pk *packages.Package) {
	c.Rule(rule, "every function that reads the doc comment of a GenDecl for one of its type specs also reads that TypeSpec's own doc (grouped declarations)", 2)
	info := pk.TypesInfo
	n := 0
	for _, fd := range load.AllFuncs(pk) {
		if fd.Body == nil {
			continue
		}
		var genDoc ast.Node
		specDoc, typeSpecs := false, false
		ast.Inspect(fd.Body, func(m ast.Node) bool {
			switch x := m.(type) {
			case *ast.SelectorExpr:
				if x.Sel.Name == "Doc" {
					switch goan.NamedPath(info.TypeOf(x.X)) {
					case "go/ast.GenDecl":
						if genDoc == nil {
							genDoc = x
						}
					case "go/ast.TypeSpec":
						specDoc = true
					}
				}
			case *ast.TypeAssertExpr:
				if x.Type != nil && goan.NamedPath(info.TypeOf(x.Type)) == "go/ast.TypeSpec" {
					typeSpecs = true
				}
			}
			return true
		})
		if genDoc == nil || !typeSpecs {
			continue
		}
		n++
		c.Check(specDoc, rule, "codescan."+load.FuncName(fd)+" › comment of a type spec", c.posOf(pk, genDoc.Pos()), "TypeSpec.Doc, then GenDecl.Doc",
			"the function takes the comment of the declaration group (GenDecl.Doc) for a type found among its specs and never reads the TypeSpec's own comment: an annotation written inside `type ( … )` (swagger:strfmt, swagger:model, swagger:enum …) is not seen — a field of such a type is published as a $ref to a plain definition instead of its string format")
	}
	if n == 0 {
		c.Anchor(rule, "codescan › readers of GenDecl.Doc for type specs", "not found")
	}
}

// checkModelIdentity: a model is identified by its definition name — the first result of
// entityDecl.Names(), which honours `swagger:model <name>` — never by its Go identifier (the
// second result): two packages may each declare an `Item`, published as ItemV1 and ItemV2.
// A set or map keyed by the Go name merges them, and one definition is never built although
// `$ref`s to it are written.
func checkModelIdentity(c *Ctx, rule string, pk *packages.Package) {
	c.Rule(rule, "the Go name returned by entityDecl.Names() (second result) is never used as a map key: models are told apart by their definition name", 2)
	info := pk.TypesInfo
	n := 0
	for _, fd := range load.AllFuncs(pk) {
		if fd.Body == nil {
			continue
		}
		fd := fd
		ast.Inspect(fd.Body, func(m ast.Node) bool {
			as, ok := m.(*ast.AssignStmt)
			if !ok || len(as.Lhs) != 2 || len(as.Rhs) != 1 {
				return true
			}
			call, ok := ast.Unparen(as.Rhs[0]).(*ast.CallExpr)
			if !ok {
				return true
			}
			fn := goan.Callee(info, call)
			if fn == nil || fn.Name() != "Names" || load.RecvNameOf(fn) != "entityDecl." {
				return true
			}
			n++
			id, ok := as.Lhs[1].(*ast.Ident)
			bad := ""
			if ok && id.Name != "_" {
				goName := info.ObjectOf(id)
				ast.Inspect(fd.Body, func(k ast.Node) bool {
					if ix, ok := k.(*ast.IndexExpr); ok {
						if _, isMap := info.TypeOf(ix.X).Underlying().(*types.Map); isMap {
							if kid, ok := ast.Unparen(ix.Index).(*ast.Ident); ok && info.Uses[kid] == goName {
								bad = goan.ExprString(ix)
							}
						}
					}
					return true
				})
			}
			c.Check(bad == "", rule, fmt.Sprintf("codescan.%s › Names() #%d", load.FuncName(fd), n), c.posOf(pk, as.Pos()), "the Go name is not a key",
				"`"+bad+"` is keyed by the Go identifier of the declaration: two models that share it (an `Item` in each of two packages, published under different `swagger:model` names) are taken for one, the second is never built, and the document holds a `$ref` to a definition that does not exist")
			return true
		})
	}
	if n == 0 {
		c.Anchor(rule, "codescan › calls of entityDecl.Names()", "not found")
	}
}

// checkSpecYAMLExact: `generate spec -o x.yml` renders the document through its JSON form. The
// generic value handed to the YAML marshaller is decoded from those bytes by a decoder that
// keeps integers exact (yaml.Unmarshal reads JSON, which is YAML); encoding/json into
// interface{} turns every number into a float64: `maxLength: 2000000` is written `2e+06`, and
// an int64 above 2^53 comes out as another number — the constraints are no longer the declared ones.
func checkSpecYAMLExact(c *Ctx, rule string) {
	c.Rule(rule, "the function that renders the scanned document as YAML decodes the intermediate JSON with an integer-exact decoder, never with encoding/json into interface{}", 1)
	prog := c.Prog("./cmd/swagger/commands/...")
	pk := prog.ByPath[load.PkgCommands+"/generate"]
	if pk == nil {
		c.Anchor(rule, "package cmd/swagger/commands/generate", "not loaded")
		return
	}
	fd := load.FuncDecl(pk, "marshalToYAMLFormat")
	if fd == nil {
		c.Anchor(rule, "generate.marshalToYAMLFormat", "not found")
		return
	}
	info := pk.TypesInfo
	bad, exact := "", false
	ast.Inspect(fd.Body, func(n ast.Node) bool {
		call, ok := n.(*ast.CallExpr)
		if !ok || len(call.Args) != 2 {
			return true
		}
		fn := goan.Callee(info, call)
		if fn == nil {
			return true
		}
		pt, ok := info.TypeOf(call.Args[1]).(*types.Pointer)
		if !ok {
			return true
		}
		it, ok := pt.Elem().Underlying().(*types.Interface)
		if !ok || it.NumMethods() != 0 {
			return true
		}
		switch goan.CalleeName(fn) {
		case "encoding/json.Unmarshal":
			bad = goan.ExprString(call)
		case "gopkg.in/yaml.v3.Unmarshal", "gopkg.in/yaml.v2.Unmarshal":
			exact = true
		}
		return true
	})
	c.Check(bad == "" && exact, rule, "generate.marshalToYAMLFormat › intermediate JSON decoded exactly", c.posOf(pk, fd.Pos()), "yaml.Unmarshal of the JSON bytes",
		"the intermediate JSON is decoded with `"+bad+"`: every number becomes a float64, so in the YAML rendering only an integer of a million or more is written with an exponent and an int64 above 2^53 is rounded — the bounds, defaults and enum values of the document are not the annotated ones")
}

// checkVariadicForward: a function that hands its own variadic parameter on to another variadic
// function spreads it (`f(values...)`): passed as it is, the whole slice becomes one element.
// The four WithEnum implementations of the scanner's typables are siblings; the one that did
// not spread published `enum: [["red","blue"]]` for response headers.
func checkVariadicForward(c *Ctx, rule string, pk *packages.Package) {
	c.Rule(rule, "a variadic parameter handed on as the last argument of a variadic call is spread with `...`", 3)
	info := pk.TypesInfo
	n := 0
	for _, fd := range load.AllFuncs(pk) {
		if fd.Body == nil || fd.Type.Params == nil || len(fd.Type.Params.List) == 0 {
			continue
		}
		last := fd.Type.Params.List[len(fd.Type.Params.List)-1]
		if _, isVar := last.Type.(*ast.Ellipsis); !isVar || len(last.Names) == 0 {
			continue
		}
		vp := info.Defs[last.Names[len(last.Names)-1]]
		fd := fd
		ast.Inspect(fd.Body, func(m ast.Node) bool {
			call, ok := m.(*ast.CallExpr)
			if !ok || len(call.Args) == 0 {
				return true
			}
			id, ok := ast.Unparen(call.Args[len(call.Args)-1]).(*ast.Ident)
			if !ok || info.Uses[id] != vp {
				return true
			}
			sig, ok := info.TypeOf(call.Fun).(*types.Signature)
			if !ok || !sig.Variadic() || sig.Params().Len() != len(call.Args) {
				return true
			}
			n++
			c.Check(call.Ellipsis.IsValid(), rule, fmt.Sprintf("codescan.%s › %s", load.FuncName(fd), goan.ExprString(call.Fun)), c.posOf(pk, call.Pos()), "spread with ...",
				"`"+goan.ExprString(call)+"` passes the variadic parameter as one argument: the callee receives a list whose single element is the list (a response header of an enum type is published with enum: [[…]])")
			return true
		})
	}
	if n == 0 {
		c.Anchor(rule, "codescan › variadic parameters handed on", "not found")
	}
}

// checkSplitsFiltered: what a regular expression splits on may stand at either end of the text, or
// twice in a row for a pattern without `+`: the pieces include empty strings. A list that goes
// into the document (the tags of an operation) is not the raw result of Split.
func checkSplitsFiltered(c *Ctx, rule string, pk *packages.Package) {
	c.Rule(rule, "the result of (*regexp.Regexp).Split is never stored as it is into a field: its pieces are filtered for empty strings first", 1)
	info := pk.TypesInfo
	n := 0
	for _, fd := range load.AllFuncs(pk) {
		if fd.Body == nil {
			continue
		}
		fd := fd
		ast.Inspect(fd.Body, func(m ast.Node) bool {
			call, ok := m.(*ast.CallExpr)
			if !ok {
				return true
			}
			fn := goan.Callee(info, call)
			if fn == nil || fn.Name() != "Split" || load.RecvNameOf(fn) != "Regexp." {
				return true
			}
			n++
			stored := ""
			ast.Inspect(fd.Body, func(k ast.Node) bool {
				as, ok := k.(*ast.AssignStmt)
				if !ok {
					return true
				}
				for i, r := range as.Rhs {
					if ast.Unparen(r) == ast.Expr(call) && i < len(as.Lhs) {
						if se, ok := ast.Unparen(as.Lhs[i]).(*ast.SelectorExpr); ok {
							stored = goan.ExprString(se)
						}
					}
				}
				return true
			})
			c.Check(stored == "", rule, fmt.Sprintf("codescan.%s › %s.Split #%d", load.FuncName(fd), goan.ExprString(call.Fun.(*ast.SelectorExpr).X), n), c.posOf(pk, call.Pos()), "pieces are looked at one by one",
				"the pieces are stored as they are into "+stored+": a separator at the end of the text (a blank before the operation id of a swagger:route line) leaves an empty string in the list, which the document then carries (an empty tag)")
			return true
		})
	}
	if n == 0 {
		c.Anchor(rule, "codescan › (*regexp.Regexp).Split", "not found")
	}
}
