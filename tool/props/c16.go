package props

import (
	"fmt"
	"go/ast"
	"go/printer"
	"go/token"
	"go/types"
	"regexp"
	"sort"
	"strings"

	"golang.org/x/tools/go/packages"

	"verif/tool/goan"
	"verif/tool/load"
)

func init() { register("C16", checkC16) }

// Reference: how encoding/json renders Go builtins, as (swagger type, format). Source:
// encoding/json "Marshal" documentation and the Swagger 2.0 data-type table (DESIGN A.4).
var builtinRef = map[string][2]string{
	"bool": {"boolean", ""}, "string": {"string", ""},
	"int8": {"integer", "int8"}, "int16": {"integer", "int16"}, "int32": {"integer", "int32"}, "int64": {"integer", "int64"}, "int": {"integer", "int64"},
	"uint8": {"integer", "uint8"}, "uint16": {"integer", "uint16"}, "uint32": {"integer", "uint32"}, "uint64": {"integer", "uint64"}, "uint": {"integer", "uint64"}, "uintptr": {"integer", "uint64"},
	"byte": {"integer", "uint8"}, "rune": {"integer", "int32"},
	"float32": {"number", "float"}, "float64": {"number", "double"},
}

// kinds encoding/json quotes under the ",string" option (encode.go: typeFields)

func checkC16(c *Ctx) {
	c.Explain("scanned schemas follow encoding/json: (R1) swaggerSchemaForType maps every Go builtin to the (type, format) encoding/json's output has, and complex kinds to an error; (R2) a slice of uint8-kinded elements without MarshalJSON/MarshalText is a base64 string, the TextMarshaler test precedes pointer unwrapping, time.Time (by package path) a date-time string, json.RawMessage an object, string-keyed maps additionalProperties; (R3) no type switch over go/types.Type in the scanner panics in its default arm; (R4) json tags: the option scan skips the name element, '-' ignores the field, ',string' applies exactly to the kinds encoding/json quotes; unexported fields are skipped but embedded fields are never filtered on their own export status; (R5) packages are identified by import path, never by name, in comparisons and cache keys. " +
		"Decides these table/shape conditions, not validity of every encoded value against the scanned schema.")
	c.Assume("encoding/json semantics as documented for go1.23 (builtin kinds, []byte → base64, ',string' kinds, promotion of exported fields of embedded structs)")
	prog := c.Prog("./codescan")
	pk := prog.Pkg(load.PkgCodescan)
	info := pk.TypesInfo

	// ---- R1 builtin table
	c.Rule("C16.R1.builtins", "swaggerSchemaForType: builtin → (type, format) equals the encoding/json reference; complex64/128 → error", 19)
	fd := load.FuncDecl(pk, "swaggerSchemaForType")
	if fd == nil {
		c.Anchor("C16.R1.builtins", "swaggerSchemaForType", "not found")
	} else {
		got := map[string][2]string{}
		errs := map[string]bool{}
		ast.Inspect(fd.Body, func(n ast.Node) bool {
			cc, ok := n.(*ast.CaseClause)
			if !ok {
				return true
			}
			var labels []string
			for _, e := range cc.List {
				if s, ok := goan.StringVal(info, e); ok {
					labels = append(labels, s)
				}
			}
			for _, st := range cc.Body {
				switch x := st.(type) {
				case *ast.ExprStmt:
					if call, ok := x.X.(*ast.CallExpr); ok && len(call.Args) == 2 {
						if se, ok := call.Fun.(*ast.SelectorExpr); ok && se.Sel.Name == "Typed" {
							t, _ := goan.StringVal(info, call.Args[0])
							f, _ := goan.StringVal(info, call.Args[1])
							for _, l := range labels {
								got[l] = [2]string{t, f}
							}
						}
					}
				case *ast.ReturnStmt:
					if len(x.Results) == 1 && !goan.IsNil(info, x.Results[0]) {
						for _, l := range labels {
							errs[l] = true
						}
					}
				}
			}
			return true
		})
		var names []string
		for k := range builtinRef {
			names = append(names, k)
		}
		sort.Strings(names)
		for _, k := range names {
			want := builtinRef[k]
			g, ok := got[k]
			c.Check(ok && g == want, "C16.R1.builtins", "codescan.swaggerSchemaForType › "+k, c.posOf(pk, fd.Pos()), fmt.Sprintf("%s/%s", want[0], want[1]),
				fmt.Sprintf("Go %s is described as %s/%s (present=%v) but encoding/json renders it as %s/%s", k, g[0], g[1], ok, want[0], want[1]))
		}
		for _, k := range []string{"complex64", "complex128"} {
			c.Check(errs[k], "C16.R1.builtins", "codescan.swaggerSchemaForType › "+k, c.posOf(pk, fd.Pos()), "rejected with an error (no JSON encoding)", k+" is not rejected: encoding/json cannot marshal it")
		}
	}

	// ---- R2 composite kinds in buildFromType
	checkCompositeKinds(c, pk)

	// ---- R3 type switch totality
	c.Rule("C16.R3.type-switch-total", "type switches over go/types.Type in the scanner have no panicking default arm", 10)
	nSw := 0
	for _, f := range load.AllFuncs(pk) {
		f := f
		ast.Inspect(f.Body, func(n ast.Node) bool {
			ts, ok := n.(*ast.TypeSwitchStmt)
			if !ok {
				return true
			}
			var subj ast.Expr
			switch a := ts.Assign.(type) {
			case *ast.AssignStmt:
				if ta, ok := a.Rhs[0].(*ast.TypeAssertExpr); ok {
					subj = ta.X
				}
			case *ast.ExprStmt:
				if ta, ok := a.X.(*ast.TypeAssertExpr); ok {
					subj = ta.X
				}
			}
			if subj == nil || goan.NamedPath(info.TypeOf(subj)) != "go/types.Type" {
				return true
			}
			nSw++
			panics := false
			for _, cl := range ts.Body.List {
				cc := cl.(*ast.CaseClause)
				if len(cc.List) != 0 {
					continue
				}
				ast.Inspect(cc, func(m ast.Node) bool {
					if call, ok := m.(*ast.CallExpr); ok && goan.IsNoReturnCall(info, call) {
						panics = true
					}
					return true
				})
			}
			c.Check(!panics, "C16.R3.type-switch-total", fmt.Sprintf("codescan.%s › switch %s.(type) #%d", load.FuncName(f), goan.ExprString(subj), nSw), c.posOf(pk, ts.Pos()),
				"default arm does not panic", "the default arm of this switch over types.Type panics: a field of a kind the switch does not list (func, chan, …) crashes generate spec")
			return true
		})
	}

	// ---- R4 json tags
	checkJSONTags(c, "C16.R4.json-tags", pk)

	// ---- R5 package identity
	checkPackageIdentity(c, "C16.R5.package-identity", pk)
	checkImportsIndexed(c, "C16.R6.imports-indexed", pk)
	checkTagPartsVerbatim(c, "C16.R4.json-tags", pk)
	checkModelsRescanned(c, "C16.R7.models-rescanned", pk)
	checkRetypeClearsRef(c, "C16.R4.retype-clears-ref", pk)
	checkCommentsRaw(c, "C16.R8.comments-raw", pk)
	// a field skipped by the struct loops is a property encoding/json writes and the definition lacks
	checkLoopTotality(c, "C16.R9.loop-totality", pk, "codescan", 40, codescanLoopExits)
	checkSpecDocFirst(c, "C16.R8.spec-doc-first", pk)
}

func checkCompositeKinds(c *Ctx, pk *packages.Package) {
	rule := "C16.R2.composite-kinds"
	c.Rule(rule, "buildFromType: []byte → string/byte before descending into items; time.Time → string/date-time; json.RawMessage → object; both tested by package path", 4)
	info := pk.TypesInfo
	fd := load.FuncDecl(pk, "schemaBuilder.buildFromType")
	if fd == nil {
		c.Anchor(rule, "schemaBuilder.buildFromType", "not found")
		return
	}
	// the *types.Slice arm of the outer switch: a byte-element test with Typed("string","byte") before Items()
	okBytes := false
	ast.Inspect(fd.Body, func(n ast.Node) bool {
		cc, ok := n.(*ast.CaseClause)
		if !ok || len(cc.List) != 1 || goan.ExprString(cc.List[0]) != "*types.Slice" {
			return true
		}
		// direct arm of the outermost type switch only: its body's first statement handles bytes
		var typedPos, itemsPos token.Pos
		ast.Inspect(cc, func(m ast.Node) bool {
			call, ok := m.(*ast.CallExpr)
			if !ok {
				return true
			}
			if se, ok := call.Fun.(*ast.SelectorExpr); ok {
				if se.Sel.Name == "Typed" && len(call.Args) == 2 {
					t, _ := goan.StringVal(info, call.Args[0])
					f, _ := goan.StringVal(info, call.Args[1])
					if t == "string" && f == "byte" && !typedPos.IsValid() {
						typedPos = call.Pos()
					}
				}
				if se.Sel.Name == "Items" && !itemsPos.IsValid() {
					itemsPos = call.Pos()
				}
			}
			return true
		})
		// the predicate of the shortcut: the arm itself plus the same-package helpers it calls
		pred := nodeText(pk, cc)
		ast.Inspect(cc, func(m ast.Node) bool {
			if call, ok := m.(*ast.CallExpr); ok {
				if fn := goan.Callee(info, call); fn != nil && fn.Pkg() == pk.Types && fn.Name() != "buildFromType" {
					if hd := load.FuncDecl(pk, load.RecvNameOf(fn)+fn.Name()); hd != nil && hd.End()-hd.Pos() < 1500 {
						pred += nodeText(pk, hd)
					}
				}
			}
			return true
		})
		// encoding/json: base64 iff the element is of uint8 kind (by underlying type) and has no
		// MarshalJSON / MarshalText method (on T or *T)
		kind := (strings.Contains(pred, "types.Uint8") || strings.Contains(pred, "types.Byte")) && strings.Contains(pred, "Underlying()")
		marsh := strings.Contains(pred, "MarshalJSON") && strings.Contains(pred, "MarshalText")
		if typedPos.IsValid() && itemsPos.IsValid() && typedPos < itemsPos && kind && marsh {
			okBytes = true
		}
		return true
	})
	c.Check(okBytes, rule, "codescan.schemaBuilder.buildFromType › []byte", c.posOf(pk, fd.Pos()), "string/byte for uint8-kinded elements without marshal methods", "the slice arm does not apply encoding/json's rule — a slice whose element is of uint8 kind (by underlying type) and has neither MarshalJSON nor MarshalText is a base64 string — before its elements are described: the schema says array where the encoder writes a string (or the converse for elements with their own marshaler)")
	// the TextMarshaler test sees the type as declared: it precedes the unwrapping of pointers
	var implPos, unwrapPos token.Pos
	ast.Inspect(fd.Body, func(n ast.Node) bool {
		call, ok := n.(*ast.CallExpr)
		if !ok {
			return true
		}
		if fn := goan.Callee(info, call); fn != nil {
			if goan.CalleeName(fn) == "go/types.Implements" && len(call.Args) == 2 && !implPos.IsValid() {
				if id, ok := call.Args[0].(*ast.Ident); ok && fd.Type.Params != nil && len(fd.Type.Params.List) > 0 && id.Name == fd.Type.Params.List[0].Names[0].Name {
					implPos = call.Pos()
				}
			}
			if fn.Name() == "buildFromType" && len(call.Args) >= 1 {
				if ec, ok := ast.Unparen(call.Args[0]).(*ast.CallExpr); ok && goan.LastSel(ec.Fun) == "Elem" {
					if se, ok := ec.Fun.(*ast.SelectorExpr); ok && goan.NamedPath(info.TypeOf(se.X)) == "go/types.Pointer" {
						if !unwrapPos.IsValid() || call.Pos() < unwrapPos {
							unwrapPos = call.Pos()
						}
					}
				}
			}
		}
		return true
	})
	c.Check(implPos.IsValid() && unwrapPos.IsValid() && implPos < unwrapPos, rule, "codescan.schemaBuilder.buildFromType › TextMarshaler test precedes pointer unwrapping", c.posOf(pk, fd.Pos()), "types.Implements(tpe, TextMarshaler) first",
		"a pointer is unwrapped before the encoding.TextMarshaler test: a field *T whose MarshalText has a pointer receiver is described as T's object while encoding/json writes a string")
	// the TextMarshaler test applies to whatever type comes in — an unnamed struct has the methods its
	// embedded fields promote — so it is a statement of the function body itself, in no switch arm
	topLevel := false
	for _, st := range fd.Body.List {
		var exprs []ast.Node
		switch x := st.(type) {
		case *ast.AssignStmt:
			for _, r := range x.Rhs {
				exprs = append(exprs, r)
			}
		case *ast.IfStmt:
			if x.Init != nil {
				exprs = append(exprs, x.Init)
			}
			exprs = append(exprs, x.Cond)
		}
		for _, e := range exprs {
			ast.Inspect(e, func(n ast.Node) bool {
				if call, ok := n.(*ast.CallExpr); ok {
					if fn := goan.Callee(info, call); fn != nil && goan.CalleeName(fn) == "go/types.Implements" && len(call.Args) == 2 {
						if id, ok := ast.Unparen(call.Args[0]).(*ast.Ident); ok && fd.Type.Params.NumFields() > 0 && info.Uses[id] == info.Defs[fd.Type.Params.List[0].Names[0]] {
							topLevel = true
						}
					}
				}
				return true
			})
		}
	}
	c.Check(topLevel, rule, "codescan.schemaBuilder.buildFromType › TextMarshaler test applies to every type", c.posOf(pk, fd.Pos()), "types.Implements(tpe, …) in a statement of the function body",
		"the encoding.TextMarshaler test of the incoming type is nested in a branch: types that do not take that branch (a struct literal embedding time.Time has its promoted MarshalText) are described by their structure while encoding/json writes a string")
	// the types recognised by (package path, name) are recognised before the named type is replaced by
	// what it stands for (alias expansion, generic instantiation, the switch on the underlying type)
	{
		var firstUnderlying token.Pos
		wellKnown := map[string]token.Pos{}
		// the named-type arm that holds the tests
		var arm *ast.CaseClause
		ast.Inspect(fd.Body, func(n ast.Node) bool {
			cc, ok := n.(*ast.CaseClause)
			if !ok || len(cc.List) != 1 || goan.ExprString(cc.List[0]) != "*types.Named" {
				return true
			}
			holds := false
			ast.Inspect(cc, func(m ast.Node) bool {
				if be, ok := m.(*ast.BinaryExpr); ok && be.Op == token.EQL {
					if lit, ok := goan.StringVal(info, be.Y); ok && lit == "Time" && isNameCall(be.X) {
						holds = true
					}
				}
				return true
			})
			if holds && (arm == nil || (cc.Pos() <= arm.Pos() && arm.End() <= cc.End())) {
				arm = cc // the outermost one
			}
			return true
		})
		if arm != nil {
			ast.Inspect(arm, func(n ast.Node) bool {
				switch x := n.(type) {
				case *ast.CallExpr:
					if se, ok := ast.Unparen(x.Fun).(*ast.SelectorExpr); ok && se.Sel.Name == "Underlying" {
						if !firstUnderlying.IsValid() || x.Pos() < firstUnderlying {
							firstUnderlying = x.Pos()
						}
					}
				case *ast.BinaryExpr:
					if x.Op == token.EQL {
						if lit, ok := goan.StringVal(info, x.Y); ok && (lit == "Time" || lit == "RawMessage" || lit == "Number") && isNameCall(x.X) {
							if old, seen := wellKnown[lit]; !seen || x.Pos() < old {
								wellKnown[lit] = x.Pos()
							}
						}
					}
				}
				return true
			})
		}
		for _, name := range []string{"Time", "RawMessage", "Number"} {
			pos, seen := wellKnown[name]
			c.Check(seen && firstUnderlying.IsValid() && pos < firstUnderlying, rule, "codescan.schemaBuilder.buildFromType › "+name+" recognised before the underlying type is looked at", c.posOf(pk, fd.Pos()), "tested first in the named-type arm",
				"the test for the well-known type "+name+" comes after the named type may have been replaced by its underlying type (alias-declared models, generic instantiations): there it is described by its structure (json.Number as a string, time.Time as an object)")
		}
	}
	// maps: the key is a string by kind — defined string types (`type Locale string`) included
	okMapKey := false
	ast.Inspect(fd.Body, func(n ast.Node) bool {
		cc, ok := n.(*ast.CaseClause)
		if !ok || len(cc.List) != 1 || goan.ExprString(cc.List[0]) != "*types.Map" {
			return true
		}
		txt := nodeText(pk, cc)
		if strings.Contains(txt, "Underlying()") && (strings.Contains(txt, `"string"`) || strings.Contains(txt, "types.String")) && strings.Contains(txt, "AdditionalProperties()") {
			okMapKey = true
		}
		return true
	})
	c.Check(okMapKey, rule, "codescan.schemaBuilder.buildFromType › map keys are strings by underlying type", c.posOf(pk, fd.Pos()), "key.Underlying() tested",
		"the map arm does not test the key's underlying type: a map keyed by a defined string type (map[Locale]T) is encoded as a JSON object but scanned without additionalProperties")
	// maps keyed by integers are JSON objects too (encoding/json writes decimal-string keys)
	okIntKey := false
	ast.Inspect(fd.Body, func(n ast.Node) bool {
		cc, ok := n.(*ast.CaseClause)
		if !ok || len(cc.List) != 1 || goan.ExprString(cc.List[0]) != "*types.Map" {
			return true
		}
		ast.Inspect(cc, func(m ast.Node) bool {
			if se, ok := m.(*ast.SelectorExpr); ok && se.Sel.Name == "IsInteger" {
				if o, ok := info.Uses[se.Sel].(*types.Const); ok && o.Pkg() != nil && o.Pkg().Path() == "go/types" {
					okIntKey = true
				}
			}
			return true
		})
		return true
	})
	c.Check(okIntKey, rule, "codescan.schemaBuilder.buildFromType › integer map keys", c.posOf(pk, fd.Pos()), "the map arm tests the key's basic info for types.IsInteger",
		"the map arm does not recognise integer keys: map[int]T is encoded by encoding/json as an object with decimal keys but scanned without a type")
	// time.Time and RawMessage by path
	src := nodeText(pk, fd)
	c.Check(strings.Contains(src, `PkgPath == "time"`) && strings.Contains(src, `"date-time"`), rule, "codescan.schemaBuilder.buildFromType › time.Time", c.posOf(pk, fd.Pos()), "string/date-time, package tested by path", "time.Time is not recognised by package path and mapped to string/date-time")
	c.Check(strings.Contains(src, `PkgPath == "encoding/json"`) && strings.Contains(src, `"RawMessage"`), rule, "codescan.schemaBuilder.buildFromType › json.RawMessage", c.posOf(pk, fd.Pos()), "object, package tested by path", "json.RawMessage is not recognised by package path")
	c.Check(regexp.MustCompile(`PkgPath == "encoding/json" && \w+\.Name\(\) == "Number" \{\s*(//[^\n]*\s*)*\w+\.Typed\("number", ""\)`).MatchString(src), rule, "codescan.schemaBuilder.buildFromType › json.Number", c.posOf(pk, fd.Pos()), "number, package tested by path", "json.Number is not described as a number: encoding/json writes it as a JSON number literal, the scanner publishes a string")
	// map keys: string-kinded or TextMarshaler only
	c.Check(strings.Contains(src, "AdditionalProperties()"), rule, "codescan.schemaBuilder.buildFromType › map → additionalProperties", c.posOf(pk, fd.Pos()), "maps become additionalProperties", "maps are no longer described through additionalProperties")
}

// nodeText renders a node from the syntax tree that was analysed (so that in-memory overlays
// are honoured and formatting differences do not matter).
func nodeText(pk *packages.Package, n ast.Node) string {
	var b strings.Builder
	if err := printer.Fprint(&b, pk.Fset, n); err != nil {
		return ""
	}
	return b.String()
}

func checkJSONTags(c *Ctx, rule string, pk *packages.Package) {
	c.Rule(rule, "json tag handling: option scan starts after the name; '-' ignores; ',string' kinds = encoding/json's; unexported fields skipped; embedded fields not filtered on their own export status", 5)
	info := pk.TypesInfo
	// tagOptions.Contain: iteration must not include element 0
	if fd := load.FuncDecl(pk, "tagOptions.Contain"); fd == nil {
		c.Anchor(rule, "tagOptions.Contain", "not found")
	} else {
		ok := false
		recv := info.Defs[fd.Recv.List[0].Names[0]]
		ast.Inspect(fd.Body, func(n ast.Node) bool {
			switch x := n.(type) {
			case *ast.ForStmt:
				// for i := 1; …
				if as, isAs := x.Init.(*ast.AssignStmt); isAs && len(as.Rhs) == 1 {
					if v := goan.ConstVal(info, as.Rhs[0]); v != nil && v.String() == "1" {
						ok = true
					}
				}
			case *ast.RangeStmt:
				// range t[1:]
				if se, isSl := ast.Unparen(x.X).(*ast.SliceExpr); isSl && identIs(info, se.X, recv) && se.Low != nil {
					if v := goan.ConstVal(info, se.Low); v != nil && v.String() == "1" {
						ok = true
					}
				}
			}
			return true
		})
		c.Check(ok, rule, "codescan.tagOptions.Contain › skips the name element", c.posOf(pk, fd.Pos()), "options are searched from index 1", "the option search includes element 0 (the JSON name): a field whose JSON name is literally `string` or `omitempty` is treated as carrying that option")
	}
	// parseJSONTag: name "-" → ignore
	if fd := load.FuncDecl(pk, "parseJSONTag"); fd == nil {
		c.Anchor(rule, "parseJSONTag", "not found")
	} else {
		okDash := false
		ast.Inspect(fd.Body, func(n ast.Node) bool {
			cc, ok := n.(*ast.CaseClause)
			if !ok || len(cc.List) != 1 {
				return true
			}
			if s, ok := goan.StringVal(info, cc.List[0]); ok && s == "-" {
				for _, st := range cc.Body {
					if ret, ok := st.(*ast.ReturnStmt); ok && len(ret.Results) >= 2 && goan.IsIdent(ret.Results[1], "true") {
						okDash = true
					}
				}
			}
			return true
		})
		c.Check(okDash, rule, "codescan.parseJSONTag › name '-' ignores the field", c.posOf(pk, fd.Pos()), "ignore = true", "a field tagged json:\"-\" is not ignored")
	}
	// ",string": decided on the resolved type of the field, not on the spelling of its type
	if fd := load.FuncDecl(pk, "isFieldStringable"); fd == nil {
		c.Anchor(rule, "isFieldStringable", "not found")
	} else {
		// the syntactic pre-test must let every type name through (a defined scalar type cannot be known by name)
		byName := false
		ast.Inspect(fd.Body, func(n ast.Node) bool {
			if sw, ok := n.(*ast.SwitchStmt); ok {
				if se, ok := sw.Tag.(*ast.SelectorExpr); ok && se.Sel.Name == "Name" {
					byName = true
				}
			}
			return true
		})
		c.Check(!byName, rule, "codescan.isFieldStringable › type names are not enumerated", c.posOf(pk, fd.Pos()), "every identifier passes the syntactic test",
			"the ',string' option is granted by the spelling of the field's type (a list of predeclared names): fields of a defined scalar type (type MyInt int), byte or rune are described as numbers although encoding/json quotes them")
		// … local or imported: `pkg.Type` is a type name as well (time.Duration, units.Millis)
		passes := map[string]bool{}
		ast.Inspect(fd.Body, func(n ast.Node) bool {
			cc, ok := n.(*ast.CaseClause)
			if !ok {
				return true
			}
			yes := false
			for _, st := range cc.Body {
				if rs, ok := st.(*ast.ReturnStmt); ok && len(rs.Results) == 1 && goan.IsIdent(rs.Results[0], "true") {
					yes = true
				}
			}
			for _, e := range cc.List {
				if yes {
					passes[goan.ExprString(e)] = true
				}
			}
			return true
		})
		c.Check(passes["*ast.Ident"] && passes["*ast.SelectorExpr"], rule, "codescan.isFieldStringable › local and imported type names pass", c.posOf(pk, fd.Pos()), "case *ast.Ident, *ast.SelectorExpr: return true",
			fmt.Sprintf("the syntactic test lets through %v only: a ',string' field whose type is written pkg.Type (time.Duration, a defined integer of another package) keeps its number schema although encoding/json writes it as a quoted string", sortedKeys(passes)))
	}
	if fd := load.FuncDecl(pk, "schemaBuilder.buildFromStruct"); fd != nil {
		// the flag is applied together with a predicate over the field's resolved type
		var pred *types.Func
		// the flag: the third result of parseJSONTag (whatever it is called here)
		var flagObj types.Object
		ast.Inspect(fd.Body, func(n ast.Node) bool {
			as, ok := n.(*ast.AssignStmt)
			if !ok || len(as.Rhs) != 1 || len(as.Lhs) < 3 {
				return true
			}
			if call, ok := ast.Unparen(as.Rhs[0]).(*ast.CallExpr); ok {
				if fn := goan.Callee(info, call); fn != nil && fn.Name() == "parseJSONTag" {
					if id, ok := as.Lhs[2].(*ast.Ident); ok && id.Name != "_" {
						flagObj = info.ObjectOf(id)
					}
				}
			}
			return true
		})
		ast.Inspect(fd.Body, func(n ast.Node) bool {
			ifs, ok := n.(*ast.IfStmt)
			if !ok {
				return true
			}
			mentionsFlag := false
			ast.Inspect(ifs.Cond, func(m ast.Node) bool {
				if id, ok := m.(*ast.Ident); ok && flagObj != nil && info.Uses[id] == flagObj {
					mentionsFlag = true
				}
				return true
			})
			if !mentionsFlag {
				return true
			}
			ast.Inspect(ifs.Cond, func(m ast.Node) bool {
				if call, ok := m.(*ast.CallExpr); ok && len(call.Args) == 1 {
					if ac, ok := ast.Unparen(call.Args[0]).(*ast.CallExpr); ok && goan.LastSel(ac.Fun) == "Type" {
						if fn := goan.Callee(info, call); fn != nil && fn.Pkg() == pk.Types {
							pred = fn
						}
					}
				}
				return true
			})
			return true
		})
		okKinds, got := false, ""
		if pred != nil {
			if pd := load.FuncDecl(pk, pred.Name()); pd != nil {
				kinds := map[string]bool{}
				under := false
				ast.Inspect(pd.Body, func(n ast.Node) bool {
					if se, ok := n.(*ast.SelectorExpr); ok {
						if o, ok := info.Uses[se.Sel].(*types.Const); ok && o.Pkg() != nil && o.Pkg().Path() == "go/types" && strings.HasPrefix(o.Name(), "Is") {
							kinds[o.Name()] = true
						}
						if se.Sel.Name == "Underlying" {
							under = true
						}
					}
					return true
				})
				var ks []string
				for k := range kinds {
					ks = append(ks, k)
				}
				sort.Strings(ks)
				got = strings.Join(ks, ",")
				okKinds = under && got == "IsBoolean,IsFloat,IsInteger,IsString"
				// encoding/json looks through ONE pointer, and only an unnamed one: no loop, and the pointer
				// assertion is applied to the type itself, not to its Underlying()
				ast.Inspect(pd.Body, func(n ast.Node) bool {
					switch x := n.(type) {
					case *ast.ForStmt, *ast.RangeStmt:
						okKinds = false
						got += " (unwraps pointers in a loop)"
					case *ast.TypeAssertExpr:
						if goan.ExprString(x.Type) == "*types.Pointer" {
							if _, isIdent := ast.Unparen(x.X).(*ast.Ident); !isIdent {
								okKinds = false
								got += " (pointer test on " + goan.ExprString(x.X) + ")"
							}
						}
					}
					return true
				})
			}
		}
		c.Check(pred != nil && okKinds, rule, "codescan.schemaBuilder.buildFromStruct › ',string' applies to the kinds encoding/json quotes", c.posOf(pk, fd.Pos()), "decided on the field's type: underlying kind in {string, float, integer, boolean}",
			fmt.Sprintf("the ',string' option is not decided by a predicate over the field's resolved type testing exactly the kinds encoding/json quotes (found predicate=%v, kinds=[%s]; wanted Underlying() and IsBoolean,IsFloat,IsInteger,IsString)", pred != nil, got))
	}
	// buildFromStruct: the loop over embedded fields must not `continue` on !fld.Exported(); the ordinary-field loop must
	if fd := load.FuncDecl(pk, "schemaBuilder.buildFromStruct"); fd == nil {
		c.Anchor(rule, "schemaBuilder.buildFromStruct", "not found")
	} else {
		embeddedFiltered, plainFiltered := false, false
		ast.Inspect(fd.Body, func(n ast.Node) bool {
			fs, ok := n.(*ast.ForStmt)
			if !ok {
				return true
			}
			// classify loop: does its body `continue` unless fld.Embedded() (embedded loop) or skip when Embedded (plain loop)?
			text := nodeText(pk, fs.Body)
			isEmbeddedLoop := embeddedOnlyLoop(text)
			hasExportFilter := false
			goan.WalkGuards(info, fs.Body, func(m ast.Node, guards []goan.Lit, _ []ast.Stmt) {
				if br, ok := m.(*ast.BranchStmt); ok && br.Tok == token.CONTINUE {
					var own []goan.Lit
					for _, g := range guards {
						if !g.Early {
							own = append(own, g)
						}
					}
					for _, g := range own {
						if call, ok := ast.Unparen(g.E).(*ast.CallExpr); ok && !g.Pos {
							if se, ok := call.Fun.(*ast.SelectorExpr); ok && se.Sel.Name == "Exported" && goan.NamedPath(info.TypeOf(se.X)) == "go/types.Var" && len(own) == 1 {
								hasExportFilter = true
							}
						}
					}
				}
			})
			if isEmbeddedLoop && hasExportFilter {
				embeddedFiltered = true
			}
			if !isEmbeddedLoop && hasExportFilter {
				plainFiltered = true
			}
			return true
		})
		c.Check(!embeddedFiltered, rule, "codescan.schemaBuilder.buildFromStruct › embedded fields not filtered by export status", c.posOf(pk, fd.Pos()), "exported fields of an embedded unexported struct are promoted, as in encoding/json",
			"the embedded-field loop skips embedded fields whose type name is unexported: encoding/json still promotes their exported fields, so the JSON has keys the definition does not declare")
		c.Check(plainFiltered, rule, "codescan.schemaBuilder.buildFromStruct › unexported fields skipped", c.posOf(pk, fd.Pos()), "`if !fld.Exported() { continue }` in the ordinary-field loop", "unexported fields are no longer skipped")
	}
	// buildFromStruct: parseJSONTag names a field after the first identifier of its declaration; the
	// property loop must take the default name from the types.Var it is describing (`X, Y float64`)
	if fd := load.FuncDecl(pk, "schemaBuilder.buildFromStruct"); fd != nil {
		var nameObj types.Object
		ast.Inspect(fd.Body, func(n ast.Node) bool {
			as, ok := n.(*ast.AssignStmt)
			if !ok || len(as.Rhs) != 1 || len(as.Lhs) < 2 {
				return true
			}
			if call, ok := as.Rhs[0].(*ast.CallExpr); ok {
				if fn := goan.Callee(info, call); fn != nil && fn.Name() == "parseJSONTag" {
					if id, ok := as.Lhs[0].(*ast.Ident); ok && id.Name != "_" {
						nameObj = info.ObjectOf(id)
					}
				}
			}
			return true
		})
		okOwn := false
		var ownPos token.Pos
		if nameObj != nil {
			ast.Inspect(fd.Body, func(n ast.Node) bool {
				as, ok := n.(*ast.AssignStmt)
				if !ok || len(as.Lhs) != 1 || len(as.Rhs) != 1 {
					return true
				}
				id, ok := as.Lhs[0].(*ast.Ident)
				if !ok || info.ObjectOf(id) != nameObj {
					return true
				}
				if call, ok := ast.Unparen(as.Rhs[0]).(*ast.CallExpr); ok && len(call.Args) == 0 {
					if se, ok := call.Fun.(*ast.SelectorExpr); ok && se.Sel.Name == "Name" && goan.NamedPath(info.TypeOf(se.X)) == "go/types.Var" {
						okOwn, ownPos = true, as.Pos()
					}
				}
				return true
			})
		}
		// … whenever the tag gave no name of its own: what tells is the name parseJSONTag returned (still
		// the first identifier), not the presence of a tag — `X, Y float64 `+"`"+`validate:"x"`+"`"+` has a tag and no json name
		if okOwn {
			byName, byTag := false, false
			ast.Inspect(fd.Body, func(n ast.Node) bool {
				ifs, ok := n.(*ast.IfStmt)
				if !ok || !(ifs.Body.Pos() <= ownPos && ownPos <= ifs.Body.End()) {
					return true
				}
				ast.Inspect(ifs.Cond, func(m ast.Node) bool {
					switch x := m.(type) {
					case *ast.BinaryExpr:
						if x.Op == token.EQL {
							for _, pr := range [][2]ast.Expr{{x.X, x.Y}, {x.Y, x.X}} {
								if id, ok := ast.Unparen(pr[0]).(*ast.Ident); ok && info.ObjectOf(id) == nameObj {
									if se, ok := ast.Unparen(pr[1]).(*ast.SelectorExpr); ok && se.Sel.Name == "Name" && goan.NamedPath(info.TypeOf(se.X)) == "go/ast.Ident" {
										byName = true
									}
								}
							}
						}
					case *ast.SelectorExpr:
						if x.Sel.Name == "Tag" && goan.NamedPath(info.TypeOf(x.X)) == "go/ast.Field" {
							byTag = true
						}
					}
					return true
				})
				return true
			})
			c.Check(byName && !byTag, rule, "codescan.schemaBuilder.buildFromStruct › a multi-name declaration without json name gives each field its own name", c.posOf(pk, ownPos), "decided by comparing the parsed name with the first identifier, not by the presence of a tag",
				"the own name of a field of `X, Y T` is taken under a condition that reads the presence of the struct tag (or does not compare the parsed name with the declaration's first identifier): with a tag that carries no json name (`validate:\"…\"`, `json:\",omitempty\"`) both fields are published as X and Y is missing although encoding/json writes it")
		}
		c.Check(nameObj != nil && okOwn, rule, "codescan.schemaBuilder.buildFromStruct › each field of a multi-name declaration keeps its own name", c.posOf(pk, fd.Pos()), "the default property name is taken from the types.Var being described",
			"the property name comes only from parseJSONTag (first identifier of the declaration): for `X, Y float64` both fields are published as X and Y is missing although encoding/json writes it")
	}
	// a field's schema is built from scratch: building it on top of the entry already in Properties (a property
	// promoted from an embedded struct that the field shadows) leaves the old $ref / type behind
	if fd := load.FuncDecl(pk, "schemaBuilder.buildFromStruct"); fd != nil {
		n, stale := 0, ""
		ast.Inspect(fd.Body, func(m ast.Node) bool {
			call, ok := m.(*ast.CallExpr)
			if !ok || len(call.Args) != 2 {
				return true
			}
			if fn := goan.Callee(info, call); fn == nil || fn.Name() != "buildFromType" {
				return true
			}
			cl, ok := ast.Unparen(call.Args[1]).(*ast.CompositeLit)
			if !ok || len(cl.Elts) == 0 {
				return true
			}
			un, ok := ast.Unparen(cl.Elts[0]).(*ast.UnaryExpr)
			if !ok || un.Op != token.AND {
				return true
			}
			n++
			def := goan.ResolveLocal(info, fd.Body, un.X)
			if ix, ok := ast.Unparen(def).(*ast.IndexExpr); ok && goan.LastSel(ix.X) == "Properties" {
				stale = goan.ExprString(def)
			}
			return true
		})
		c.Check(n > 0 && stale == "", rule, "codescan.schemaBuilder.buildFromStruct › a field's schema starts empty", c.posOf(pk, fd.Pos()), "not built on top of an entry of Properties",
			"the schema of a field is built on top of "+stale+": when the field shadows a property promoted from an embedded struct, the $ref or type of the shadowed property stays in the result ({type: string, $ref: …})")
	}
	// an embedded field named by its json tag is a property of that name, not an inlined struct
	if fd := load.FuncDecl(pk, "schemaBuilder.buildFromStruct"); fd != nil {
		inlineSkipsNamed, plainKeepsNamed := false, false
		ast.Inspect(fd.Body, func(n ast.Node) bool {
			fs, ok := n.(*ast.ForStmt)
			if !ok {
				return true
			}
			text := nodeText(pk, fs.Body)
			isEmbeddedLoop := embeddedOnlyLoop(text)
			if isEmbeddedLoop {
				// the name returned by parseJSONTag is bound and a `continue` is guarded by <name> != ""
				var nameObj types.Object
				ast.Inspect(fs.Body, func(m ast.Node) bool {
					if as, ok := m.(*ast.AssignStmt); ok && len(as.Rhs) == 1 && len(as.Lhs) >= 2 {
						if call, ok := as.Rhs[0].(*ast.CallExpr); ok {
							if fn := goan.Callee(info, call); fn != nil && fn.Name() == "parseJSONTag" {
								if id, ok := as.Lhs[0].(*ast.Ident); ok && id.Name != "_" {
									nameObj = info.ObjectOf(id)
								}
							}
						}
					}
					return true
				})
				if nameObj != nil {
					goan.WalkGuards(info, fs.Body, func(m ast.Node, guards []goan.Lit, _ []ast.Stmt) {
						if br, ok := m.(*ast.BranchStmt); ok && br.Tok == token.CONTINUE {
							for _, g := range guards {
								if be, ok := ast.Unparen(g.E).(*ast.BinaryExpr); ok && !g.Early && g.Pos && be.Op == token.NEQ && identIs(info, be.X, nameObj) {
									if v, ok := goan.StringVal(info, be.Y); ok && v == "" {
										inlineSkipsNamed = true
									}
								}
							}
						}
					})
				}
				return true
			}
			// ordinary-field loop: the skip of embedded fields is conditional (on the tag name)
			ast.Inspect(fs.Body, func(m ast.Node) bool {
				ifs, ok := m.(*ast.IfStmt)
				if !ok || len(ifs.Body.List) != 1 {
					return true
				}
				if br, ok := ifs.Body.List[0].(*ast.BranchStmt); !ok || br.Tok != token.CONTINUE {
					return true
				}
				if be, ok := ast.Unparen(ifs.Cond).(*ast.BinaryExpr); ok && be.Op == token.LAND && strings.Contains(nodeText(pk, be.X), ".Embedded()") {
					plainKeepsNamed = true
				}
				return true
			})
			return true
		})
		c.Check(inlineSkipsNamed && plainKeepsNamed, rule, "codescan.schemaBuilder.buildFromStruct › an embedded field named by its tag is a property", c.posOf(pk, fd.Pos()), "not inlined when the tag names it; described by the ordinary-field loop",
			fmt.Sprintf("an embedded struct is inlined whatever its json tag says (inlining loop skips named ones=%v, ordinary loop keeps named ones=%v): encoding/json nests an embedded Base tagged json:\"base\" under \"base\"", inlineSkipsNamed, plainKeepsNamed))
	}
	// parseJSONTag: the tag is looked at for every field, named or embedded (no return before
	// the tag is read), and the tag literal — raw or interpreted — is decoded with strconv.Unquote
	if fd := load.FuncDecl(pk, "parseJSONTag"); fd == nil {
		c.Anchor(rule, "codescan.parseJSONTag", "not found")
	} else {
		var firstTag token.Pos
		ast.Inspect(fd.Body, func(n ast.Node) bool {
			if se, ok := n.(*ast.SelectorExpr); ok && se.Sel.Name == "Tag" && (!firstTag.IsValid() || se.Pos() < firstTag) {
				firstTag = se.Pos()
			}
			return true
		})
		early := ""
		ast.Inspect(fd.Body, func(n ast.Node) bool {
			if rs, ok := n.(*ast.ReturnStmt); ok && firstTag.IsValid() && rs.Pos() < firstTag {
				early = c.posOf(pk, rs.Pos())
			}
			return true
		})
		c.Check(firstTag.IsValid() && early == "", rule, "codescan.parseJSONTag › the tag is read for every field", c.posOf(pk, fd.Pos()), "no return precedes the first look at field.Tag",
			"parseJSONTag returns at "+early+" before looking at the tag: fields of that shape (e.g. embedded ones) ignore `json:\"-\"` and renames, so the scanned schema has properties encoding/json never writes")
		nTagValue, nUnquoted := 0, 0
		ast.Inspect(fd.Body, func(n ast.Node) bool {
			if call, ok := n.(*ast.CallExpr); ok {
				if fn := goan.Callee(info, call); fn != nil && goan.CalleeName(fn) == "strconv.Unquote" && len(call.Args) == 1 && strings.HasSuffix(goan.ExprString(call.Args[0]), ".Tag.Value") {
					nUnquoted++
				}
			}
			if se, ok := n.(*ast.SelectorExpr); ok && se.Sel.Name == "Value" && strings.HasSuffix(goan.ExprString(se), ".Tag.Value") {
				nTagValue++
			}
			return true
		})
		// one read is the emptiness test, the other must be the decoding
		c.Check(nUnquoted >= 1 && nTagValue <= nUnquoted+1, rule, "codescan.parseJSONTag › the tag literal is decoded with strconv.Unquote", c.posOf(pk, fd.Pos()), fmt.Sprintf("%d reads of Tag.Value, %d through strconv.Unquote", nTagValue, nUnquoted),
			fmt.Sprintf("the struct tag literal is read %d times but decoded with strconv.Unquote %d times: tags written as interpreted string literals (\"json:\\\"name\\\"\") are not understood and the Go field names are published", nTagValue, nUnquoted))
	}
}

func checkPackageIdentity(c *Ctx, rule string, pk *packages.Package) {
	c.Rule(rule, "packages are identified by import path (PkgPath / Path()), not by short name, in equality tests and in map / cache keys", 3)
	info := pk.TypesInfo
	isPkgName := func(e ast.Expr) bool {
		// pkg.Name (packages.Package field) or x.Pkg().Name() / pkg.Name() (types.Package method)
		switch x := ast.Unparen(e).(type) {
		case *ast.SelectorExpr:
			if x.Sel.Name == "Name" {
				if t := info.TypeOf(x.X); t != nil && goan.NamedPath(t) == "golang.org/x/tools/go/packages.Package" {
					return true
				}
			}
		case *ast.CallExpr:
			if se, ok := x.Fun.(*ast.SelectorExpr); ok && se.Sel.Name == "Name" && len(x.Args) == 0 {
				if t := info.TypeOf(se.X); t != nil && goan.NamedPath(t) == "go/types.Package" {
					return true
				}
			}
		}
		return false
	}
	n := 0
	for _, fd := range load.AllFuncs(pk) {
		fd := fd
		ast.Inspect(fd.Body, func(nd ast.Node) bool {
			switch x := nd.(type) {
			case *ast.BinaryExpr:
				if (x.Op == token.EQL || x.Op == token.NEQ) && (isPkgName(x.X) || isPkgName(x.Y)) {
					n++
					c.Bad(rule, fmt.Sprintf("codescan.%s › %s", load.FuncName(fd), goan.ExprString(x)), c.posOf(pk, x.Pos()), "a package is identified by its short name: any user package with that name is treated as the intended one")
				}
			case *ast.IndexExpr:
				// map[key] where key mentions a package short name
				found := false
				ast.Inspect(x.Index, func(m ast.Node) bool {
					if e, ok := m.(ast.Expr); ok && isPkgName(e) {
						found = true
					}
					return true
				})
				if t := info.TypeOf(x.X); found && t != nil {
					if _, isMap := t.Underlying().(*types.Map); isMap {
						n++
						c.Bad(rule, fmt.Sprintf("codescan.%s › %s", load.FuncName(fd), goan.ExprString(x)), c.posOf(pk, x.Pos()), "a map is keyed by a package's short name: two packages with the same name (v1/models, v2/models) share entries")
					}
				}
			}
			return true
		})
		// locals built from a package short name and then used as a map key
		ast.Inspect(fd.Body, func(nd ast.Node) bool {
			as, ok := nd.(*ast.AssignStmt)
			if !ok || len(as.Lhs) != 1 || len(as.Rhs) != 1 {
				return true
			}
			found := false
			ast.Inspect(as.Rhs[0], func(m ast.Node) bool {
				if e, ok := m.(ast.Expr); ok && isPkgName(e) {
					found = true
				}
				return true
			})
			id, isId := as.Lhs[0].(*ast.Ident)
			if !found || !isId {
				return true
			}
			obj := info.Defs[id]
			if obj == nil {
				obj = info.Uses[id]
			}
			ast.Inspect(fd.Body, func(m ast.Node) bool {
				if ix, ok := m.(*ast.IndexExpr); ok && identIs(info, ix.Index, obj) {
					if t := info.TypeOf(ix.X); t != nil {
						if _, isMap := t.Underlying().(*types.Map); isMap {
							n++
							c.Bad(rule, fmt.Sprintf("codescan.%s › key %s built from a package short name", load.FuncName(fd), id.Name), c.posOf(pk, as.Pos()), "a cache/map key is built from a package's short name: packages with equal names collide")
						}
					}
				}
				return true
			})
			return true
		})
	}
	// positive sites: identity tests by path exist
	src := ""
	for _, f := range pk.Syntax {
		src += nodeText(pk, f)
	}
	for _, want := range []string{`PkgPath == "time"`, `PkgPath == "encoding/json"`, `Path() == "time"`} {
		c.Check(strings.Contains(src, want), rule, "codescan › identity test "+want, "", "by import path", "expected identity test by import path not found (anchor)")
	}
}

var embeddedOnlyRx = regexp.MustCompile(`if !\w+\.(Embedded|Anonymous)\(\) \{`)

// embeddedOnlyLoop: the loop body skips every field that is not embedded (whatever the loop
// variable is called).
func embeddedOnlyLoop(bodyText string) bool { return embeddedOnlyRx.MatchString(bodyText) }

// checkTagPartsVerbatim: encoding/json takes the comma-separated parts of the json key as they are
// written (`json:"n, string"` has the unknown option " string"): the scanner must not normalise
// them — no store into an element of the tagOptions value, no strings.* call in its methods.
func checkTagPartsVerbatim(c *Ctx, rule string, pk *packages.Package) {
	info := pk.TypesInfo
	stores := ""
	for _, fd := range load.AllFuncs(pk) {
		fd := fd
		ast.Inspect(fd.Body, func(n ast.Node) bool {
			as, ok := n.(*ast.AssignStmt)
			if !ok {
				return true
			}
			for _, l := range as.Lhs {
				if ix, ok := l.(*ast.IndexExpr); ok && goan.NamedName(info.TypeOf(ix.X)) == "tagOptions" {
					stores = c.posOf(pk, as.Pos())
				}
			}
			return true
		})
	}
	transforms := ""
	for _, m := range []string{"tagOptions.Contain", "tagOptions.Name"} {
		fd := load.FuncDecl(pk, m)
		if fd == nil {
			c.Anchor(rule, "codescan."+m, "not found")
			continue
		}
		ast.Inspect(fd.Body, func(n ast.Node) bool {
			if call, ok := n.(*ast.CallExpr); ok {
				if fn := goan.Callee(info, call); fn != nil && fn.Pkg() != nil && fn.Pkg().Path() == "strings" {
					transforms = m + " calls " + goan.CalleeName(fn)
				}
			}
			return true
		})
	}
	c.Check(stores == "" && transforms == "", rule, "codescan.tagOptions › the parts of the json key are taken verbatim", "", "no store into the parts, no normalisation in Contain/Name",
		fmt.Sprintf("the parts of the json tag are rewritten before they are interpreted (store at %q; %s): encoding/json does not trim or fold them — `json:\"n, string\"` is a field named n without the string option", stores, transforms))
}

// checkModelsRescanned: every swagger:model declaration is built on every scan; the only success
// return of buildModels / buildDiscoveredSchema before their last statement is the scanModels switch.
func checkModelsRescanned(c *Ctx, rule string, pk *packages.Package) {
	c.Rule(rule, "specBuilder.buildModels builds every model declaration: neither it nor buildDiscoveredSchema returns successfully before the schema is built, except when models are not scanned at all", 2)
	info := pk.TypesInfo
	for _, name := range []string{"specBuilder.buildModels", "specBuilder.buildDiscoveredSchema"} {
		fd := load.FuncDecl(pk, name)
		if fd == nil {
			c.Anchor(rule, "codescan."+name, "not found")
			continue
		}
		var early []string
		goan.WalkGuards(info, fd.Body, func(n ast.Node, guards []goan.Lit, _ []ast.Stmt) {
			rs, ok := n.(*ast.ReturnStmt)
			if !ok || len(rs.Results) != 1 || !goan.IsNil(info, rs.Results[0]) {
				return
			}
			if len(fd.Body.List) > 0 && fd.Body.List[len(fd.Body.List)-1] == ast.Stmt(rs) {
				return
			}
			for _, g := range guards {
				if !g.Early && goan.LastSel(g.E) == "scanModels" && !g.Pos {
					return
				}
			}
			early = append(early, c.posOf(pk, rs.Pos()))
		})
		c.Check(len(early) == 0, rule, "codescan."+name+" › no model is passed over", c.posOf(pk, fd.Pos()), "no early success return",
			fmt.Sprintf("%s returns successfully at %v before the model is built: a swagger:model whose name is already defined (e.g. in the --input document) is not scanned again and the stale definition is emitted", name, early))
	}
}


// isNameCall: e is a call of a method named Name (obj.Name()).
func isNameCall(e ast.Expr) bool {
	call, ok := ast.Unparen(e).(*ast.CallExpr)
	if !ok {
		return false
	}
	se, ok := ast.Unparen(call.Fun).(*ast.SelectorExpr)
	return ok && se.Sel.Name == "Name"
}

// checkRetypeClearsRef: a property schema that was built from the field's Go type and is then
// given another type (`,string`, a strfmt annotation) must lose the `$ref` and items it was
// built with: next to a $ref every sibling keyword is ignored, so the override would be void.
func checkRetypeClearsRef(c *Ctx, rule string, pk *packages.Package) {
	c.Rule(rule, "wherever a local spec.Schema is re-typed with Typed(…), the same block resets its Ref (`x.Ref = spec.Ref{}`)", 3)
	info := pk.TypesInfo
	for _, fd := range load.AllFuncs(pk) {
		if fd.Body == nil {
			continue
		}
		ord := 0
		ast.Inspect(fd.Body, func(n ast.Node) bool {
			blk, ok := n.(*ast.BlockStmt)
			if !ok {
				return true
			}
			for _, st := range blk.List {
				es, ok := st.(*ast.ExprStmt)
				if !ok {
					continue
				}
				call, ok := ast.Unparen(es.X).(*ast.CallExpr)
				if !ok {
					continue
				}
				se, ok := ast.Unparen(call.Fun).(*ast.SelectorExpr)
				if !ok || se.Sel.Name != "Typed" {
					continue
				}
				id, ok := ast.Unparen(se.X).(*ast.Ident)
				if !ok {
					continue
				}
				v, _ := info.Uses[id].(*types.Var)
				if v == nil || v.IsField() || goan.NamedPath(v.Type()) != "github.com/go-openapi/spec.Schema" {
					continue
				}
				if isParamOf2(info, fd, v) {
					continue // the caller's schema: what it held before is the caller's business
				}
				// only a schema that was built from a Go type before (its address handed to buildFromType)
				built := false
				ast.Inspect(fd.Body, func(m ast.Node) bool {
					bc, ok := m.(*ast.CallExpr)
					if !ok || bc.Pos() > call.Pos() {
						return true
					}
					if fn := goan.Callee(info, bc); fn == nil || fn.Name() != "buildFromType" {
						return true
					}
					ast.Inspect(bc, func(k ast.Node) bool {
						if ue, ok := k.(*ast.UnaryExpr); ok && ue.Op == token.AND && identIs(info, ue.X, v) {
							built = true
						}
						return true
					})
					return true
				})
				if !built {
					continue
				}
				ord++
				reset := false
				for _, st2 := range blk.List {
					as, ok := st2.(*ast.AssignStmt)
					if !ok || len(as.Lhs) != 1 {
						continue
					}
					ls, ok := ast.Unparen(as.Lhs[0]).(*ast.SelectorExpr)
					if ok && ls.Sel.Name == "Ref" && identIs(info, ls.X, v) {
						reset = true
					}
				}
				c.Check(reset, rule, fmt.Sprintf("codescan.%s › re-typed schema #%d loses its $ref", load.FuncName(fd), ord), c.posOf(pk, call.Pos()), "Ref reset in the same block",
					fmt.Sprintf("%s re-types %s with %s but keeps the $ref it was built with: for a field of a defined type the property is both `type: string` and a $ref, and the $ref wins — the schema describes the defined type while encoding/json writes the overriding form", load.FuncName(fd), id.Name, goan.ExprString(call)))
			}
			return true
		})
	}
}

func isParamOf2(info *types.Info, fd *ast.FuncDecl, v *types.Var) bool {
	if fd.Type.Params == nil {
		return false
	}
	for _, fl := range fd.Type.Params.List {
		for _, n := range fl.Names {
			if info.Defs[n] == v {
				return true
			}
		}
	}
	return false
}
