package props

import (
	"fmt"
	"regexp"
	"sort"
	"strings"

	"verif/tool/tmpl"
)

// Reviewed sites where a template starts a Go identifier with `camelize` (swag.ToJSONName), which
// keeps a leading digit and Go keywords: asset › define › action → reason. The count is the number
// of occurrences reviewed.
var camelizeHeads = map[string]struct {
	n   int
	why string
}{
	"basetypeserializer.gotmpl › polymorphicSerializer › {{camelize $.Name}}":    {99, "model-side names of the snapshot (unexported fields, enum variables, locals of the polymorphic serializers): a definition or property whose name starts with a digit breaks here — findings/C01-digit-names/enum.yaml, recorded as a known finding for the enum variable; the spellings are pinned by the model tests"},
	"client/parameter.gotmpl › clientParameter › {{camelize .TimeoutName}}":      {99, "TimeoutName is chosen by the generator (timeout, requestTimeout, …), not taken from the spec"},
	"schema.gotmpl › schema › {{camelize .Name}}":                                {99, "model-side names of the snapshot (unexported fields, enum variables, locals of the polymorphic serializers): a definition or property whose name starts with a digit breaks here — findings/C01-digit-names/enum.yaml, recorded as a known finding for the enum variable; the spellings are pinned by the model tests"},
	"schemabody.gotmpl › schemaBody › {{camelize .AdditionalProperties.Name}}":   {99, "model-side names of the snapshot (unexported fields, enum variables, locals of the polymorphic serializers): a definition or property whose name starts with a digit breaks here — findings/C01-digit-names/enum.yaml, recorded as a known finding for the enum variable; the spellings are pinned by the model tests"},
	"schemaembedded.gotmpl › schemaEmbedded › {{camelize .Name}}":                {99, "model-side names of the snapshot (unexported fields, enum variables, locals of the polymorphic serializers): a definition or property whose name starts with a digit breaks here — findings/C01-digit-names/enum.yaml, recorded as a known finding for the enum variable; the spellings are pinned by the model tests"},
	"schemapolymorphic.gotmpl › schemaPolymorphic › {{camelize $.Name}}":         {99, "model-side names of the snapshot (unexported fields, enum variables, locals of the polymorphic serializers): a definition or property whose name starts with a digit breaks here — findings/C01-digit-names/enum.yaml, recorded as a known finding for the enum variable; the spellings are pinned by the model tests"},
	"schemapolymorphic.gotmpl › schemaPolymorphic › {{camelize .Name}}":          {99, "model-side names of the snapshot (unexported fields, enum variables, locals of the polymorphic serializers): a definition or property whose name starts with a digit breaks here — findings/C01-digit-names/enum.yaml, recorded as a known finding for the enum variable; the spellings are pinned by the model tests"},
	"schemavalidator.gotmpl › schemacontextvalidator › {{camelize $.Name}}":      {99, "model-side names of the snapshot (unexported fields, enum variables, locals of the polymorphic serializers): a definition or property whose name starts with a digit breaks here — findings/C01-digit-names/enum.yaml, recorded as a known finding for the enum variable; the spellings are pinned by the model tests"},
	"schemavalidator.gotmpl › schemacontextvalidator › {{camelize .Name}}":       {99, "model-side names of the snapshot (unexported fields, enum variables, locals of the polymorphic serializers): a definition or property whose name starts with a digit breaks here — findings/C01-digit-names/enum.yaml, recorded as a known finding for the enum variable; the spellings are pinned by the model tests"},
	"schemavalidator.gotmpl › schemavalidator › {{camelize $.Name}}":             {99, "model-side names of the snapshot (unexported fields, enum variables, locals of the polymorphic serializers): a definition or property whose name starts with a digit breaks here — findings/C01-digit-names/enum.yaml, recorded as a known finding for the enum variable; the spellings are pinned by the model tests"},
	"server/parameter.gotmpl › sliceparamvalidator › {{camelize .Name}}":         {99, "the name handed to the slice validator is the generator's own (value expression), pinned by the parameter tests"},
	"structfield.gotmpl › privstructfield › {{camelize .Name}}":                  {99, "model-side names of the snapshot (unexported fields, enum variables, locals of the polymorphic serializers): a definition or property whose name starts with a digit breaks here — findings/C01-digit-names/enum.yaml, recorded as a known finding for the enum variable; the spellings are pinned by the model tests"},
	"structfield.gotmpl › privtuplefield › {{camelize .Name}}":                   {99, "model-side names of the snapshot (unexported fields, enum variables, locals of the polymorphic serializers): a definition or property whose name starts with a digit breaks here — findings/C01-digit-names/enum.yaml, recorded as a known finding for the enum variable; the spellings are pinned by the model tests"},
	"subtypeserializer.gotmpl › hasDiscriminatedSerializer › {{camelize .Name}}": {99, "model-side names of the snapshot (unexported fields, enum variables, locals of the polymorphic serializers): a definition or property whose name starts with a digit breaks here — findings/C01-digit-names/enum.yaml, recorded as a known finding for the enum variable; the spellings are pinned by the model tests"},
}

var rxCamelHead = regexp.MustCompile(`(^|[\s(,&*!\[{=:+-])⟦(camelize [^⟧]*)⟧`)

// checkIdentifierHeads: `pascalize` and `varname` give Go identifiers for every name (a digit gets
// a prefix, a keyword a suffix); `camelize` does not. Where generated code starts an identifier with
// a name of the spec, it uses one of the former — the sites that use camelize are a reviewed list.
func checkIdentifierHeads(c *Ctx, rule string, ev *tmpl.Evaluator) {
	c.Rule(rule, "a Go identifier of the generated code starts with `camelize <name>` only at the reviewed sites (pascalize and varname are safe for every name)", 5)
	seen := map[string]int{}
	pos := map[string]string{}
	for _, name := range ev.F.Names() {
		t := ev.F.Trees[name]
		if t == nil || t.Tree == nil || t.Tree.Root == nil || strings.HasPrefix(t.Asset, "contrib/") || strings.Contains(t.File, "/markdown/") {
			continue
		}
		l := tmpl.Linearise(t)
		inBlock := false
		off := 0
		for _, ln := range strings.Split(l.Text, "\n") {
			lineOff := off
			off += len(ln) + 1
			code := ln
			if inBlock {
				if i := strings.Index(code, "*/"); i >= 0 {
					code = code[i+2:]
					inBlock = false
				} else {
					continue
				}
			}
			if i := strings.Index(code, "/*"); i >= 0 {
				if j := strings.Index(code[i:], "*/"); j < 0 {
					inBlock = true
				}
				code = code[:i]
			}
			if i := strings.Index(code, "//"); i >= 0 {
				code = code[:i]
			}
			for _, m := range rxCamelHead.FindAllStringSubmatchIndex(code, -1) {
				// not inside a string literal: an even number of quotes before it on the line
				before := code[:m[4]]
				if strings.Count(before, `"`)%2 == 1 || strings.Count(before, "`")%2 == 1 {
					continue
				}
				key := fmt.Sprintf("%s › %s › {{%s}}", t.Asset, name, code[m[4]:m[5]])
				seen[key]++
				if pos[key] == "" {
					pos[key] = l.Tree.PosStr(l.PosAt(lineOff))
				}
			}
		}
	}
	var keys []string
	for k := range seen {
		keys = append(keys, k)
	}
	sort.Strings(keys)
	for _, k := range keys {
		e, ok := camelizeHeads[k]
		c.Check(ok && seen[k] <= e.n, rule, k, pos[k], fmt.Sprintf("reviewed (%d×): %s", seen[k], e.why),
			fmt.Sprintf("the generated code starts an identifier with `%s` (%d occurrences, %d reviewed): camelize keeps a leading digit and Go keywords, so a name such as `2fa-token` or `type` gives code the formatter rejects — use pascalize or varname", k[strings.LastIndex(k, "{{"):], seen[k], e.n))
	}
}

var rxReceiverArg = regexp.MustCompile(`func \(⟦\$?\.ReceiverName\s*⟧ [^)]*\) [^(\n]*\(([^)\n]*)\)`)

// checkReceiverArgs: a method of the generated code whose receiver has a name the generator
// chose (`o`, `m`) declares no parameter named directly after a name of the spec: `varname .Name`
// for a parameter called `o` is `o`, and the method does not compile ("o redeclared").
func checkReceiverArgs(c *Ctx, rule string, ev *tmpl.Evaluator) {
	c.Rule(rule, "no method emitted with a generator-named receiver takes an argument named by a bare `varname <spec name>`", 2)
	n := 0
	for _, name := range ev.F.Names() {
		t := ev.F.Trees[name]
		if t == nil || t.Tree == nil || t.Tree.Root == nil || strings.HasPrefix(t.Asset, "contrib/") {
			continue
		}
		l := tmpl.Linearise(t)
		for _, m := range rxReceiverArg.FindAllStringSubmatchIndex(l.Text, -1) {
			args := l.Text[m[2]:m[3]]
			if !strings.Contains(args, "⟦") {
				continue
			}
			n++
			bad := regexp.MustCompile(`(^|,\s*)⟦(varname|camelize) [^⟧]*⟧ `).FindString(args)
			sig := strings.TrimSpace(l.Text[m[0]:m[2]])
			if len(sig) > 90 {
				sig = sig[:90] + "…"
			}
			c.Check(bad == "", rule, fmt.Sprintf("%s › %s › %s", t.Asset, name, sig), l.Tree.PosStr(l.PosAt(m[0])), "argument names are the generator's own, or made distinct from the receiver",
				fmt.Sprintf("the method takes an argument named `%s`, a name of the spec, next to the receiver ⟦.ReceiverName⟧: a parameter whose Go name equals the receiver's (`o`) makes the generated method redeclare it and the package does not build", strings.TrimSpace(strings.TrimLeft(bad, ", "))))
		}
	}
	if n == 0 {
		c.Anchor(rule, "templates › methods with a generator-named receiver and template-named arguments", "none found")
	}
}

var rxPkgQualifier = regexp.MustCompile(`⟦\s*\$?\.(Package|PackageAlias)\s*⟧\.⟦\s*pascalize`)

// checkAliasQualifiers: the server imports the package of a tag under `.PackageAlias`, which
// differs from `.Package` whenever the name collides with an import of the generated file
// (errors → errorsops, api → apiops …). In code position, an identifier of that package is
// qualified by the alias; the package name is for messages and paths.
func checkAliasQualifiers(c *Ctx, rule string, ev *tmpl.Evaluator) {
	c.Rule(rule, "in the server templates, identifiers of an operation's package are qualified by .PackageAlias in code position (.Package only inside string literals)", 10)
	for _, name := range ev.F.Names() {
		t := ev.F.Trees[name]
		if t == nil || t.Tree == nil || t.Tree.Root == nil || !strings.HasPrefix(t.Asset, "server/") {
			continue
		}
		l := tmpl.Linearise(t)
		ord := 0
		for _, m := range rxPkgQualifier.FindAllStringSubmatchIndex(l.Text, -1) {
			which := l.Text[m[2]:m[3]]
			lineStart := strings.LastIndexByte(l.Text[:m[0]], '\n') + 1
			prefix := l.Text[lineStart:m[0]]
			inString := strings.Count(prefix, `"`)%2 == 1
			if strings.Contains(prefix, "//") {
				continue
			}
			ord++
			ok := which == "PackageAlias" || inString
			eol := strings.IndexByte(l.Text[m[0]:], '\n')
			if eol < 0 {
				eol = len(l.Text) - m[0]
			}
			snippet := l.Text[m[0] : m[0]+eol]
			if len(snippet) > 70 {
				snippet = snippet[:70] + "…"
			}
			c.Check(ok, rule, fmt.Sprintf("%s › %s › package qualifier #%d", t.Asset, name, ord), l.Tree.PosStr(l.PosAt(m[0])), "qualified by the import alias",
				fmt.Sprintf("`%s` qualifies an identifier of the operation's package by the package name: for a tag whose package is imported under another alias (errors → errorsops) the generated file refers to a package it does not import (`undefined: errors.GetAResponder` with --strict-responders)", strings.NewReplacer("⟦", "{{", "⟧", "}}").Replace(snippet)))
		}
	}
}

var rxParamMethod = regexp.MustCompile(`func \(⟦[^⟧]*ReceiverName\s*⟧ [^)]*\) \w*⟦pascalize \$?\.(Name|ID)\s*⟧\w*\(`)

// checkParamMethodNames: a method generated once per parameter of an operation is named after
// the parameter's `.ID`, which the generator makes unique within the operation (two parameters
// may share a `.Name` when they sit in different locations: `ids` in query and in header).
func checkParamMethodNames(c *Ctx, rule string, ev *tmpl.Evaluator) {
	c.Rule(rule, "a method declared inside a range over the parameters of an operation is named after .ID, never .Name", 4)
	n := 0
	for _, name := range ev.F.Names() {
		t := ev.F.Trees[name]
		if t == nil || t.Tree == nil || t.Tree.Root == nil || strings.HasPrefix(t.Asset, "contrib/") {
			continue
		}
		l := tmpl.Linearise(t)
		for _, m := range rxParamMethod.FindAllStringSubmatchIndex(l.Text, -1) {
			inParams := false
			for _, g := range l.GuardsAt(m[0]) {
				if g.Kind == "range" && strings.HasSuffix(strings.TrimSpace(g.Pipe), "Params") {
					inParams = true
				}
			}
			if !inParams {
				continue
			}
			n++
			which := l.Text[m[2]:m[3]]
			sig := l.Text[m[0]:m[1]]
			c.Check(which == "ID", rule, fmt.Sprintf("%s › %s › %s", t.Asset, name, strings.NewReplacer("⟦", "{{", "⟧", "}}").Replace(sig[strings.Index(sig, ") ")+2:])), l.Tree.PosStr(l.PosAt(m[0])), "named after .ID",
				"the method is declared once per parameter and named after the parameter's .Name: two parameters of one operation that share a name in different locations (`ids` in query and in header) declare it twice and the generated package does not build")
		}
	}
	if n == 0 {
		c.Anchor(rule, "templates › methods declared per parameter", "none found")
	}
}
