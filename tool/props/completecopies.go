package props

import (
	"fmt"
	"go/ast"
	"go/types"
	"sort"
	"strings"

	"golang.org/x/tools/go/packages"

	"verif/tool/goan"
	"verif/tool/load"
)

// checkCompleteCopies: a composite literal that rebuilds a value of struct type T from another
// value of T field by field (`T{A: f(x.A), B: x.B, …}`) is a copy, and a copy that leaves a field
// out resets it. For TemplateOpts the field left out of a "normalising" copy was SkipExists: the
// user's configure file was rendered over on every run with a custom layout.
func checkCompleteCopies(c *Ctx, rule string, pk *packages.Package, mustSee ...string) {
	c.Rule(rule, "a composite literal of a configuration record (a struct whose fields all carry decoder tags) that copies two or more same-named fields from another value of its type sets every field of the type; counted: the literals of such records", 3)
	info := pk.TypesInfo
	n, recLits := 0, 0
	for _, fd := range load.AllFuncs(pk) {
		if fd.Body == nil {
			continue
		}
		fd := fd
		ord := map[string]int{}
		ast.Inspect(fd.Body, func(m ast.Node) bool {
			cl, ok := m.(*ast.CompositeLit)
			if !ok {
				return true
			}
			t := info.TypeOf(cl)
			if t == nil {
				return true
			}
			st, ok := t.Underlying().(*types.Struct)
			if !ok || len(cl.Elts) == 0 {
				return true
			}
			// records decoded from the user's configuration: every field carries a decoder tag
			for i := 0; i < st.NumFields(); i++ {
				if st.Tag(i) == "" {
					return true
				}
			}
			set := map[string]bool{}
			from := map[types.Object]int{}
			for _, el := range cl.Elts {
				kv, ok := el.(*ast.KeyValueExpr)
				if !ok {
					return true
				}
				k, ok := kv.Key.(*ast.Ident)
				if !ok {
					return true
				}
				set[k.Name] = true
				// same-named field read from a value of the same type
				ast.Inspect(kv.Value, func(v ast.Node) bool {
					se, ok := v.(*ast.SelectorExpr)
					if !ok || se.Sel.Name != k.Name {
						return true
					}
					xt := info.TypeOf(se.X)
					if xt == nil {
						return true
					}
					if p, ok := xt.Underlying().(*types.Pointer); ok {
						xt = p.Elem()
					}
					if !types.Identical(xt, t) {
						return true
					}
					if id, ok := ast.Unparen(se.X).(*ast.Ident); ok {
						if o := info.Uses[id]; o != nil {
							from[o]++
						}
					}
					return true
				})
			}
			recLits++
			best := 0
			for _, k := range from {
				if k > best {
					best = k
				}
			}
			if best < 2 {
				return true
			}
			n++
			var missing []string
			for i := 0; i < st.NumFields(); i++ {
				if f := st.Field(i); !set[f.Name()] {
					missing = append(missing, f.Name())
				}
			}
			sort.Strings(missing)
			tn := goan.NamedName(t)
			ord[tn]++
			c.Check(len(missing) == 0, rule, fmt.Sprintf("%s.%s › copy of a %s #%d", pk.Name, load.FuncName(fd), tn, ord[tn]), c.posOf(pk, cl.Pos()), "every field of the type is set",
				fmt.Sprintf("the literal rebuilds a %s from another one field by field and leaves out %s: the copy has the zero value there (for TemplateOpts.SkipExists: a file the user owns — the configure file of a custom layout with skip_exists: true — is rendered over on the next run)", tn, strings.Join(missing, ", ")))
			return true
		})
	}
	c.Analysed("field-by-field copies ("+pk.Name+")", n)
	for i := 0; i < recLits; i++ {
		c.Ok(rule, fmt.Sprintf("%s › literal of a configuration record #%d", pk.Name, i+1), "", "not a field-by-field copy, or complete")
	}
}
