package props

import (
	"fmt"
	"go/ast"
	"go/importer"
	"go/parser"
	"go/token"
	"go/types"
	"regexp"
	"sort"
	"strconv"
	"strings"
	"text/template/parse"

	"golang.org/x/tools/go/packages"
	"golang.org/x/tools/go/types/typeutil"

	"verif/tool/goan"
	"verif/tool/load"
	"verif/tool/tmpl"
)

func init() { register("C07", checkC07) }

// Reviewed escapes the order lattice cannot decide, keyed by range › what escapes, one line of
// reason each. Anything else escaping from the same loop is still reported.
var c07Reviewed = map[string]string{
	"paramMappings › range params › loop-carried local map[string]interface{}":                       "name deconfliction: when a Go name is taken, the parameter that holds it and the one that wants it are BOTH renamed after their own location (checked by C07.R1.symmetric-rename), so the outcome is the same whichever came first",
	"scanCtx.FindModel › range s.app.Models › first-match":                                           "first match on (package path, type name), which identifies at most one declaration in the index: the result does not depend on the visiting order",
	"GenerateDefinition › range specDoc.Spec().Definitions › modelNames":                             "collects the names of all definitions; the following loop generates one file per name (paths injective in the name), each generation independent of the others",
	"schemaGenContext.buildProperties › range sg.Schema.Properties › sg.MergeResult→sg.Dependencies": "GenSchema.Dependencies → GenDefinition.DependsOn is read by no template (it shows only in the --dump-data debug dump)",
	"Repository.addDependencies › range deps › accumulate":                                           "AddParseTree registers each dependency under its own name in the template's name space: a keyed insertion, order-insensitive",
	"Repository.DumpTemplates › range t.templates › write fmt.Fprintf":                               "debug helper that prints the template inventory; not called by any command and not an output of the property",
	"Repository.DumpTemplates › range t.templates › write fmt.Fprintln":                              "debug helper (see above)",
}

var c07ReviewedCallSites = map[string]string{
	"Repository.DumpTemplates › findDependencies": "debug helper (see the reviewed range in DumpTemplates)",
}

func (c *Ctx) c07Packages() []*packages.Package {
	prog := c.Prog("./generator", "./codescan", "./cmd/swagger/commands/...")
	var pkgs []*packages.Package
	var paths []string
	for path, pk := range prog.ByPath {
		if strings.HasPrefix(path, load.Mod) && len(pk.Syntax) > 0 && !strings.Contains(path, "/examples/") && !strings.Contains(path, "/fixtures/") && !strings.Contains(path, "/internal/cmdtest") {
			paths = append(paths, path)
		}
	}
	sort.Strings(paths)
	for _, path := range paths {
		pkgs = append(pkgs, prog.ByPath[path])
	}
	return pkgs
}

func checkC07(c *Ctx) {
	c.Explain("determinism: (R1) order taint — for every `range` over a map (and over slices filled in map order) in generator, codescan and the commands, the order-sensitive effects of the body (appends to locations living outside the iteration, writes, first-match returns, last-writer stores, accumulations, calls whose summaries append or write through their arguments, insertions into the ranged map) are either absent, or sanitised by a sort that runs whenever the loop ran and precedes every escape (in the function, or in every transitive static caller for caller-visible locations), or listed in a reviewed table with the reason; results of functions that return map-ordered slices are checked at their call sites; " +
		"(R2) no ambient value sources (clock, random, pid, hostname, environment beyond the audited variables); (R3) package-level state is written only during initialisation or under the repository mutex, and generation works on a clone of the template repository taken under the lock. " +
		"Decides the ordering/ambient/shared-state mechanisms on this code base, not the absence of data races inside dependencies nor byte identity across processes as an observed fact.")
	c.Assume("sort.Sort/Stable/Strings/Slice on a slice make its order a function of its contents (comparators are total on the compared keys)", "log output on stderr is not one of the property's outputs")
	pkgs := c.c07Packages()
	oa := goan.NewOrderAnalysis(pkgs)
	oa.Run()

	c.Rule("C07.R1.map-range", "every range over a map / map-ordered slice is order-insensitive, sanitised before every escape, or reviewed", 100)
	c.Rule("C07.R1.tainted-result", "the result of a function returning a map-ordered slice is sorted before it escapes at every call site", 6)
	emitOrderTaint(c, oa, "C07.R1.map-range", "C07.R1.tainted-result", nil)
	checkDirectTaintedUses(c, oa, pkgs, "C07.R1.tainted-result")

	// ---- R2 ambient sources
	checkAmbient(c, pkgs)

	// ---- R3 shared state
	checkSharedState(c, pkgs)

	// sort keys: packages are told apart by import path wherever they are compared or used as keys
	// (a comparator on the short name ties same-named packages and leaves them in map order)
	for _, pk := range pkgs {
		if pk.Name == "codescan" {
			checkPackageIdentity(c, "C07.R1.package-keys", pk)
		}
	}
	// the diff analyser's visited set: a key that merges two locations lets map iteration order
	// choose which one is compared
	for _, pk := range pkgs {
		if pk.Name == "diff" {
			c.Rule("C07.R1.visited-keys", "the visited-set key of the diff analyser distinguishes every location field, so that which comparison runs does not depend on iteration order", 4)
			checkLocationKey(c, "C07.R1.visited-keys", pk)
			checkVisitedOrder(c, "C07.R1.visited-order", pk, false)
		}
	}
	// template names are global and the default templates are loaded by ranging a map: a name
	// defined twice resolves to whichever file was loaded last
	c.Rule("C07.R1.template-names", "no template name is defined by two default template files; no goroutine of the analysed packages writes to captured state", 1)
	if _, _, gen := c.evalTemplates(""); gen != nil {
		ev, _, _ := c.evalTemplates("")
		c.Check(len(ev.F.Duplicates) == 0, "C07.R1.template-names", "default templates › every template name defined once", "", fmt.Sprintf("%d template trees", len(ev.F.Trees)),
			fmt.Sprintf("defined twice: %v — which definition a caller gets depends on the iteration order of the assets map, so generated files differ from run to run", ev.F.Duplicates))
		checkTemplateMapOrder(c, "C07.R1.template-map-order", ev)
	}
	for _, pk := range pkgs {
		for _, fd := range load.AllFuncs(pk) {
			fd, pk := fd, pk
			ast.Inspect(fd.Body, func(n ast.Node) bool {
				gs, ok := n.(*ast.GoStmt)
				if !ok {
					return true
				}
				lit, ok := gs.Call.Fun.(*ast.FuncLit)
				if !ok {
					return true
				}
				// stores / appends to variables captured from the enclosing function
				var captured []string
				ast.Inspect(lit.Body, func(m ast.Node) bool {
					as, ok := m.(*ast.AssignStmt)
					if !ok {
						return true
					}
					for _, l := range as.Lhs {
						root := ast.Unparen(l)
						for {
							switch x := root.(type) {
							case *ast.IndexExpr:
								root = x.X
								continue
							case *ast.SelectorExpr:
								root = x.X
								continue
							case *ast.StarExpr:
								root = x.X
								continue
							}
							break
						}
						if id, ok := root.(*ast.Ident); ok {
							if v, ok := pk.TypesInfo.Uses[id].(*types.Var); ok && !v.IsField() && (v.Pos() < lit.Pos() || v.Pos() > lit.End()) {
								captured = append(captured, id.Name)
							}
						}
					}
					return true
				})
				c.Check(len(captured) == 0, "C07.R1.template-names", fmt.Sprintf("%s.%s › goroutine writes no captured state", pk.Name, load.FuncName(fd)), c.posOf(pk, gs.Pos()), "no store to captured variables",
					fmt.Sprintf("a goroutine stores to %v captured from %s: the result depends on which goroutine finishes first", captured, load.FuncName(fd)))
				return true
			})
		}
	}
	checkComparators(c, pkgs)
	checkClosureComparators(c, pkgs)
	checkInvertedTables(c, pkgs)
	checkSymmetricRename(c, pkgs)
	for _, pk := range pkgs {
		if pk.Name == "generator" {
			checkPlanningOrder(c, "C07.R1.planning-order", pk)
		}
	}
	// the spec path rendered into generated code (go:generate comment) is the user's, never the
	// path of a temporary copy
	for _, pk := range pkgs {
		if pk.Name != "generator" {
			continue
		}
		// functions of the package that create a temporary file or directory
		tempMakers := map[string]bool{}
		for _, fd := range load.AllFuncs(pk) {
			fd := fd
			ast.Inspect(fd.Body, func(n ast.Node) bool {
				if call, ok := n.(*ast.CallExpr); ok {
					if fn := goan.Callee(pk.TypesInfo, call); fn != nil {
						switch goan.CalleeName(fn) {
						case "os.MkdirTemp", "os.CreateTemp", "os.TempDir", "io/ioutil.TempDir", "io/ioutil.TempFile":
							tempMakers[load.FuncName(fd)] = true
						}
					}
				}
				return true
			})
		}
		nSpecStores := 0
		for _, fd := range load.AllFuncs(pk) {
			fd := fd
			ast.Inspect(fd.Body, func(n ast.Node) bool {
				as, ok := n.(*ast.AssignStmt)
				if !ok {
					return true
				}
				for i, l := range as.Lhs {
					se, ok := ast.Unparen(l).(*ast.SelectorExpr)
					if !ok || se.Sel.Name != "Spec" || i >= len(as.Rhs) {
						continue
					}
					if sel, ok := pk.TypesInfo.Selections[se]; !ok || (goan.NamedName(sel.Recv()) != "GenOpts" && goan.NamedName(sel.Recv()) != "GenOptsCommon") {
						continue
					}
					nSpecStores++
					isCall := false
					if call, ok := ast.Unparen(as.Rhs[i]).(*ast.CallExpr); ok {
						if fn := goan.Callee(pk.TypesInfo, call); fn != nil && fn.Pkg() == pk.Types && tempMakers[load.RecvNameOf(fn)+fn.Name()] {
							isCall = true
						}
					}
					c.Check(!isCall, "C07.R2.ambient", fmt.Sprintf("generator.%s › GenOpts.Spec ⟸ %s", load.FuncName(fd), goan.ExprString(as.Rhs[i])), c.posOf(pk, as.Pos()), "not replaced by the path of a temporary file",
						"GenOpts.Spec, which is rendered into the go:generate comment of generated code, is replaced by the path of a temporary copy: the generated file names a path that changes at every run")
				}
				return true
			})
		}
		if nSpecStores == 0 {
			c.Ok("C07.R2.ambient", "generator › GenOpts.Spec is never reassigned", "", "the user's spec path is kept")
		}
	}
	// output files are opened truncated: the report is a function of the inputs, not of what the
	// destination file held before
	c.Rule("C07.R3.output-files", "every file opened for writing with O_CREATE (outside append/exclusive mode) is truncated", 1)
	nOpen := 0
	for _, pk := range pkgs {
		nOpen += checkOpenTruncates(c, "C07.R3.output-files", pk, nil, 0)
	}
	if nOpen == 0 {
		c.Unk("C07.R3.output-files", "os.OpenFile for output", "", "no output open found (anchor: commands.DiffCommand.Execute)")
	}
}

// checkDirectTaintedUses: calls to functions returning map-ordered slices whose result is not
// bound to a local (used directly in a literal, argument or return).
// emitOrderTaint reports the order-taint verdicts of the analysed packages (all, or those
// selected by only) under the given rule names.
func emitOrderTaint(c *Ctx, oa *goan.OrderAnalysis, mapRule, resultRule string, only func(*packages.Package) bool) {
	classes := map[string]int{}
	occ := map[string]int{}
	for _, m := range oa.Ranges {
		if only != nil && !only(m.Pkg) {
			continue
		}
		class, findings, notes := classifyRange(oa, m)
		key := m.Pkg.Name + "." + m.Key()
		occ[key]++
		if occ[key] > 1 {
			key = fmt.Sprintf("%s #%d", key, occ[key])
		}
		pos := c.posOf(m.Pkg, m.Stmt.Pos())
		if class == "escapes" {
			classes[class]++
			var fs []string
			for _, f := range findings {
				fs = append(fs, f.text)
			}
			c.Bad(mapRule, key, pos, "iteration order of the map reaches an output: "+strings.Join(fs, "; "))
			continue
		}
		classes[class]++
		c.Ok(mapRule, key, pos, class+": "+strings.Join(notes, "; "))
	}
	for k, n := range classes {
		c.Analysed("map ranges: "+k, n)
	}
	for _, cs := range oa.CallSites {
		if only != nil && !only(cs.Pkg) {
			continue
		}
		key := fmt.Sprintf("%s.%s › %s := %s(…)", cs.Pkg.Name, cs.FnName, cs.Target, cs.Callee)
		if len(cs.Bad) == 0 {
			c.Ok(resultRule, key, c.posOf(cs.Pkg, cs.Pos), "sorted before every escape (or only ranged by order-insensitive loops)")
			continue
		}
		if why, ok := c07ReviewedCallSites[cs.FnName+" › "+cs.Callee]; ok {
			c.Ok(resultRule, key, c.posOf(cs.Pkg, cs.Pos), "reviewed: "+why)
			continue
		}
		if cs.OnlyReturned {
			c.Ok(resultRule, key, c.posOf(cs.Pkg, cs.Pos), "returned unsorted: this function's own summary is 'returns map-ordered', decided at its call sites")
			continue
		}
		c.Bad(resultRule, key, c.posOf(cs.Pkg, cs.Pos), fmt.Sprintf("%s returns a slice in map order and %s is %s without being sorted", cs.Callee, cs.Target, strings.Join(cs.Bad, ", ")))
	}
}

func checkDirectTaintedUses(c *Ctx, oa *goan.OrderAnalysis, pkgs []*packages.Package, rule string) {
	tainted := map[string]bool{}
	for _, n := range oa.RetTainted {
		tainted[n] = true
	}
	for _, p := range pkgs {
		info := p.TypesInfo
		for _, fd := range load.AllFuncs(p) {
			bound := map[*ast.CallExpr]bool{}
			ast.Inspect(fd.Body, func(n ast.Node) bool {
				switch x := n.(type) {
				case *ast.AssignStmt:
					for _, r := range x.Rhs {
						if call, ok := ast.Unparen(r).(*ast.CallExpr); ok {
							bound[call] = true
						}
					}
				case *ast.RangeStmt:
					if call, ok := ast.Unparen(x.X).(*ast.CallExpr); ok {
						bound[call] = true // ranged: analysed as a tainted-slice loop
					}
				case *ast.ReturnStmt:
					for _, r := range x.Results {
						if call, ok := ast.Unparen(r).(*ast.CallExpr); ok {
							bound[call] = true // propagates through this function's summary
						}
					}
				}
				return true
			})
			ast.Inspect(fd.Body, func(n ast.Node) bool {
				call, ok := n.(*ast.CallExpr)
				if !ok || bound[call] {
					return true
				}
				fn := goan.Callee(info, call)
				if fn == nil || !tainted[fn.FullName()] {
					return true
				}
				if t := info.TypeOf(call); t != nil {
					if _, isSlice := t.Underlying().(*types.Slice); !isSlice {
						return true
					}
				}
				c.Bad(rule, fmt.Sprintf("%s.%s › direct use of %s(…)", p.Name, load.FuncName(fd), fn.Name()), c.posOf(p, call.Pos()),
					fn.Name()+" returns a slice in map order and its result is used here without being sorted")
				return true
			})
		}
	}
}

// audited os.Getenv sites: function › variable
var c07Env = map[string]string{
	"GoLangOpts › GOPATH":                          "GOPATH resolution of the target directory: an input of path resolution",
	"(package level) › DEBUG":                      "debug logging switch",
	"(package level) › SWAGGER_DEBUG":              "debug logging switch",
	"init › DEBUG":                                 "debug logging switch",
	"init › SWAGGER_DEBUG":                         "debug logging switch",
	"(package level) › SWAGGER_GENERATE_EXTENSION": "documented input of generate spec",
	"addExtension › SWAGGER_GENERATE_EXTENSION":    "documented input of generate spec",
	"configureOptsFromConfig › DEBUG":              "debug logging switch",
	"configureOptsFromConfig › SWAGGER_DEBUG":      "debug logging switch",
	"readConfig › DEBUG":                           "debug logging switch",
	"readConfig › SWAGGER_DEBUG":                   "debug logging switch",
	"setDebug › DEBUG":                             "debug logging switch",
	"setDebug › SWAGGER_DEBUG":                     "debug logging switch",
}

func checkAmbient(c *Ctx, pkgs []*packages.Package) {
	rule := "C07.R2.ambient"
	c.Rule(rule, "no call to clock / random / pid / hostname / environment-dump functions in generator, codescan or the commands; os.Getenv only for the audited variables", 5)
	// positive control: the detector finds time.Now in a synthetic package
	if n := ambientControl(); n != 2 {
		c.Unk(rule, "positive control", "", fmt.Sprintf("the detector found %d of 2 ambient calls in the embedded control snippet", n))
	} else {
		c.Ok(rule, "positive control", "", "detector finds time.Now and rand.Intn in the embedded control snippet")
	}
	for _, cs := range goan.FindCalls(pkgs, goan.IsAmbientSource) {
		c.Bad(rule, fmt.Sprintf("%s.%s › %s", cs.Pkg.Name, cs.FnName, cs.Callee), c.posOf(cs.Pkg, cs.Call.Pos()), "call to "+cs.Callee+": the value is not a function of the command's inputs")
	}
	for _, cs := range goan.FindCalls(pkgs, func(n string) bool { return n == "os.Getenv" || n == "os.LookupEnv" }) {
		name := "?"
		if len(cs.Call.Args) == 1 {
			if s, ok := goan.StringVal(cs.Pkg.TypesInfo, cs.Call.Args[0]); ok {
				name = s
			}
		}
		k := cs.FnName + " › " + name
		why, ok := c07Env[k]
		c.Check(ok, rule, fmt.Sprintf("%s.%s › os.Getenv(%q)", cs.Pkg.Name, cs.FnName, name), c.posOf(cs.Pkg, cs.Call.Pos()), "audited: "+why,
			"environment variable "+name+" read at an unaudited site: the output would depend on the environment")
	}
}

func ambientControl() int {
	src := `package p
import ("time"; "math/rand")
func f() (int64, int) { return time.Now().Unix(), rand.Intn(3) }`
	// (the detector is a callee-name predicate; os.TempDir is matched the same way)
	fset := token.NewFileSet()
	f, err := parser.ParseFile(fset, "control.go", src, 0)
	if err != nil {
		return -1
	}
	info := &types.Info{Uses: map[*ast.Ident]types.Object{}, Defs: map[*ast.Ident]types.Object{}, Types: map[ast.Expr]types.TypeAndValue{}, Selections: map[*ast.SelectorExpr]*types.Selection{}}
	conf := types.Config{Importer: importer.ForCompiler(fset, "source", nil), Error: func(error) {}}
	tp, _ := conf.Check("p", fset, []*ast.File{f}, info)
	pk := &packages.Package{Name: "p", Fset: fset, Syntax: []*ast.File{f}, TypesInfo: info, Types: tp}
	return len(goan.FindCalls([]*packages.Package{pk}, goan.IsAmbientSource))
}

// Reviewed stores to package-level state outside initialisation.
var c07GlobalStores = map[string]string{}

func checkSharedState(c *Ctx, pkgs []*packages.Package) {
	rule := "C07.R3.shared-state"
	c.Rule(rule, "stores to package-level variables happen only in init-time code or under a held sync.Mutex; GenOpts works on a ShallowClone of the template repository taken under the repository lock", 10)
	checkGlobalStores(c, rule, pkgs)
	checkTemplateRepoIsolation(c, pkgs)
}

// checkGlobalStores: every store to a package-level variable of the given packages (assignments,
// deletes, storing methods of sync containers) runs at initialisation, under a held mutex, or is reviewed.
func checkGlobalStores(c *Ctx, rule string, pkgs []*packages.Package) {
	initOnly := goan.InitOnly(pkgs)
	for _, gs := range goan.FindGlobalStores(pkgs) {
		fn, _ := gs.Pkg.TypesInfo.Defs[gs.Fn.Name].(*types.Func)
		key := fmt.Sprintf("%s.%s › store to %s.%s", gs.Pkg.Name, gs.FnName, gs.Var.Pkg().Name(), gs.Var.Name())
		pos := c.posOf(gs.Pkg, gs.Pos)
		switch {
		case fn != nil && initOnly[fn]:
			c.Ok(rule, key, pos, "runs only during package initialisation")
		case goan.HeldMutex(gs.Pkg.TypesInfo, gs.Fn, gs.Pos):
			c.Ok(rule, key, pos, "under a held mutex")
		default:
			if why, ok := c07GlobalStores[gs.FnName+" › "+gs.Var.Name()]; ok {
				c.Ok(rule, key, pos, "reviewed: "+why)
				continue
			}
			c.Bad(rule, key, pos, fmt.Sprintf("package-level variable %s.%s is written (%s) outside initialisation and without holding a lock: concurrent or repeated generations in one process share this state", gs.Var.Pkg().Name(), gs.Var.Name(), gs.Kind))
		}
	}
}

func (c *Ctx) orderAnalysis() *goan.OrderAnalysis {
	prog := c.Prog("./generator", "./codescan", "./cmd/swagger/commands/...")
	var pkgs []*packages.Package
	for path, pk := range prog.ByPath {
		if strings.HasPrefix(path, load.Mod) && len(pk.Syntax) > 0 && !strings.Contains(path, "/examples/") && !strings.Contains(path, "/fixtures/") {
			pkgs = append(pkgs, pk)
		}
	}
	oa := goan.NewOrderAnalysis(pkgs)
	oa.Run()
	return oa
}

type orderFinding struct{ key, text string }

// classifyRange decides the class of one map range, discharging caller-visible locations
// through the callers' sorts and reviewed escapes through the table.
func classifyRange(oa *goan.OrderAnalysis, m *goan.MapRange) (class string, findings []orderFinding, notes []string) {
	var raw []orderFinding
	for i, f := range m.Findings {
		raw = append(raw, orderFinding{m.FindingKeys[i], f})
	}
	for _, e := range m.Escaping {
		if e.RootVar != nil && e.Root == goan.RootParam {
			ok, why := oa.SanitisedByCallers(oa.FuncOf(m), goan.ParamIdxOf(m, e.RootVar), goan.PathOf(e.Loc), 0)
			if ok {
				notes = append(notes, e.Text+" sorted by callers: "+why)
				continue
			}
			raw = append(raw, orderFinding{e.Text, fmt.Sprintf("%s (%s) is filled in map order and not sorted here; %s", e.Text, e.Root, why)})
			continue
		}
		raw = append(raw, orderFinding{e.Text, fmt.Sprintf("%s (%s) is filled in map order and never sorted", e.Text, e.Root)})
	}
	for _, f := range raw {
		if why, ok := c07Reviewed[m.Key()+" › "+f.key]; ok {
			notes = append(notes, "reviewed ("+f.key+"): "+why)
			continue
		}
		findings = append(findings, f)
	}
	for _, s := range m.Sanitised {
		notes = append(notes, "sorted: "+s)
	}
	for _, s := range m.Returned {
		notes = append(notes, "returned in map order (call sites checked): "+s)
	}
	switch {
	case len(findings) > 0:
		class = "escapes"
	case len(notes) > 0:
		class = "sanitised"
	default:
		class = "insensitive"
	}
	return
}

// DumpOrder prints every map range with its class (debugging aid).
func DumpOrder(c *Ctx) {
	oa := c.orderAnalysis()
	cnt := map[string]int{}
	for _, m := range oa.Ranges {
		class, findings, notes := classifyRange(oa, m)
		cnt[class]++
		kind := "map"
		if !m.IsMap {
			kind = "tainted-slice"
		}
		fmt.Printf("%-11s %-13s %s  %s\n", class, kind, c.posOf(m.Pkg, m.Stmt.Pos()), m.Key())
		for _, f := range findings {
			fmt.Printf("        ! [%s] %s\n", f.key, f.text)
		}
		for _, s := range notes {
			fmt.Printf("        . %s\n", s)
		}
	}
	fmt.Println(len(oa.Ranges), cnt)
	for _, cs := range oa.CallSites {
		fmt.Printf("CALLSITE %s %s: %s := %s(…) unsorted uses: %v onlyReturned=%v\n", c.posOf(cs.Pkg, cs.Pos), cs.FnName, cs.Target, cs.Callee, cs.Bad, cs.OnlyReturned)
	}
	fmt.Println("tainted returns:", oa.RetTainted)
}

// checkTemplateRepoIsolation: the global template repository is only cloned (under its lock)
// by generation code; GenOpts.templates is only ever such a clone.
func checkTemplateRepoIsolation(c *Ctx, pkgs []*packages.Package) {
	rule := "C07.R3.shared-state"
	var gen *packages.Package
	for _, p := range pkgs {
		if p.PkgPath == load.PkgGenerator {
			gen = p
		}
	}
	if gen == nil {
		c.Anchor(rule, "generator package", "not loaded")
		return
	}
	info := gen.TypesInfo
	global, _ := gen.Types.Scope().Lookup("templates").(*types.Var)
	if global == nil {
		c.Anchor(rule, "generator.templates", "global template repository not found")
		return
	}
	initOnly := goan.InitOnly(pkgs)
	uses := 0
	for _, fd := range load.AllFuncs(gen) {
		fn, _ := info.Defs[fd.Name].(*types.Func)
		if fn != nil && initOnly[fn] {
			continue
		}
		fd := fd
		ast.Inspect(fd.Body, func(n ast.Node) bool {
			id, ok := n.(*ast.Ident)
			if !ok || info.Uses[id] != global {
				return true
			}
			uses++
			// the identifier must be the receiver of ShallowClone() (or of addFile in the documented registration API)
			okUse, why := false, "the global template repository is used directly by generation code: concurrent generations would share (and mutate) its template map"
			ast.Inspect(fd.Body, func(m ast.Node) bool {
				call, ok := m.(*ast.CallExpr)
				if !ok {
					return true
				}
				se, ok := call.Fun.(*ast.SelectorExpr)
				if !ok || ast.Unparen(se.X) != ast.Expr(id) {
					return true
				}
				switch se.Sel.Name {
				case "ShallowClone":
					okUse, why = true, "cloned under the repository lock"
				case "addFile":
					if fd.Name.Name == "AddFile" && fd.Recv == nil {
						okUse, why = true, "AddFile: documented registration API for the global repository, not called by generation code"
					}
				}
				return true
			})
			c.Check(okUse, rule, fmt.Sprintf("generator.%s › use of global templates", load.FuncName(fd)), c.posOf(gen, id.Pos()), why, why)
			return true
		})
	}
	if uses == 0 {
		c.Unk(rule, "generator.templates › uses", "", "no use of the global repository found outside init: anchor lost")
	}
	// GenOpts.templates only from ShallowClone
	stores := 0
	for _, fd := range load.AllFuncs(gen) {
		fd := fd
		ast.Inspect(fd.Body, func(n ast.Node) bool {
			as, ok := n.(*ast.AssignStmt)
			if !ok {
				return true
			}
			for i, l := range as.Lhs {
				se, ok := ast.Unparen(l).(*ast.SelectorExpr)
				if !ok || se.Sel.Name != "templates" {
					continue
				}
				sel, ok := info.Selections[se]
				if !ok || goan.NamedName(sel.Recv()) != "GenOpts" {
					continue
				}
				stores++
				okRhs := false
				if i < len(as.Rhs) {
					if call, ok := ast.Unparen(as.Rhs[i]).(*ast.CallExpr); ok {
						if fn := goan.Callee(info, call); fn != nil && fn.Name() == "ShallowClone" {
							okRhs = true
						}
					}
				}
				c.Check(okRhs, rule, fmt.Sprintf("generator.%s › GenOpts.templates = …", load.FuncName(fd)), c.posOf(gen, as.Pos()), "assigned a ShallowClone()", "GenOpts.templates is assigned something other than a fresh ShallowClone(): runs would share template state")
			}
			return true
		})
	}
	if stores == 0 {
		c.Unk(rule, "generator.GenOpts.templates › stores", "", "no store found: anchor lost")
	}
	// ShallowClone reads the maps under the lock
	if fd := load.FuncDecl(gen, "Repository.ShallowClone"); fd == nil {
		c.Anchor(rule, "Repository.ShallowClone", "not found")
	} else {
		n := 0
		ast.Inspect(fd.Body, func(nd ast.Node) bool {
			rs, ok := nd.(*ast.RangeStmt)
			if !ok {
				return true
			}
			n++
			c.Check(goan.HeldMutex(info, fd, rs.Pos()), rule, "generator.Repository.ShallowClone › range "+goan.ExprString(rs.X)+" under lock", c.posOf(gen, rs.Pos()),
				"between mux.Lock() and the (deferred) Unlock", "the shared map is read without holding the repository mutex: a concurrent AddFile races with the clone")
			return true
		})
		if n < 2 {
			c.Unk(rule, "generator.Repository.ShallowClone › ranges", "", "expected the two map copies")
		}
	}
	// mutating methods of Repository lock or are only reachable on clones: addFile writes t.files/t.templates
	if fd := load.FuncDecl(gen, "Repository.addFile"); fd != nil {
		// informational: addFile is unlocked by design (clones are private); recorded in the evidence
		c.Note("Repository.addFile writes the maps without locking; safe because generation only calls it on private clones (checked above) and the global repository is written at init and via the AddFile API")
	}
}

// Reviewed comparators: the fields a sort.Interface Less must compare so that no two distinct
// elements of the (map-derived) slices it orders compare equal.
var c07Comparators = map[string]struct {
	fields []string
	why    string
}{
	"responses":               {[]string{"Code"}, "status codes are the keys of the responses map"},
	"opRefs":                  {[]string{"Key", "Path", "Method"}, "distinct operations can share a mangled key; method and path identify an operation"},
	"GenDefinitions":          {[]string{"Name"}, "definition names are the keys of the definitions map"},
	"GenSchemaList":           {[]string{"Name"}, "property names are the keys of the properties map (x-order first)"},
	"GenResponseExamples":     {[]string{"MediaType"}, "media types are the keys of the examples map"},
	"GenHeaders":              {[]string{"Name"}, "header names are the keys of the headers map"},
	"GenParameters":           {[]string{"Name", "Location"}, "a parameter is identified by name and location"},
	"GenOperationGroups":      {[]string{"Name", "PackageAlias"}, "groups are keyed by package alias; several aliases can share a package name"},
	"GenStatusCodeResponses":  {[]string{"Code"}, "status codes are unique per operation"},
	"GenOperations":           {[]string{"Name"}, "operation names are the keys gatherOperations made unique"},
	"GenSerGroups":            {[]string{"Name"}, "group names are keys of the serializer-group map"},
	"GenSerializers":          {[]string{"MediaType"}, "media types are keys of the serializer map"},
	"GenSecuritySchemes":      {[]string{"ID"}, "scheme ids are the keys of securityDefinitions"},
	"GenSecurityRequirements": {[]string{"Name"}, "scheme names are the keys of one requirement"},
}

// Reviewed closure comparators (sort.Slice / sort.SliceStable): what the closure must read of an
// element so that two distinct elements never tie. "" stands for the element itself (a slice of
// strings), a name followed by () for a method whose result renders the whole element.
var c07ClosureComparators = map[string]struct {
	reads []string
	why   string
}{
	"generator.gatherSecuritySchemes › GenSecurityScope": {[]string{"Name"}, "scope names are the keys of the scopes map"},
	"codescan.sortedDecls › *entityDecl":                 {[]string{"Pkg", "Ident"}, "a declaration is identified by its package path and type name"},
	"diff.SpecAnalyser.Analyse › SpecDifference":         {[]string{"String()"}, "the differences of one endpoint are collected from several maps: only the whole rendering (location, code and wording) tells two of them apart"},
	"diff.SpecDifferences.reportChanges › string":        {[]string{""}, "the rendered lines themselves are ordered"},
}

func checkClosureComparators(c *Ctx, pkgs []*packages.Package) {
	rule := "C07.R1.comparators"
	for _, pk := range pkgs {
		for _, fd := range load.AllFuncs(pk) {
			if fd.Body == nil {
				continue
			}
			ast.Inspect(fd.Body, func(n ast.Node) bool {
				call, ok := n.(*ast.CallExpr)
				if !ok || len(call.Args) != 2 {
					return true
				}
				fn, _ := typeutil.Callee(pk.TypesInfo, call).(*types.Func)
				if fn == nil || fn.Pkg() == nil || fn.Pkg().Path() != "sort" || (fn.Name() != "Slice" && fn.Name() != "SliceStable") {
					return true
				}
				lit, ok := ast.Unparen(call.Args[1]).(*ast.FuncLit)
				if !ok {
					return true
				}
				elem := "?"
				if tv, ok := pk.TypesInfo.Types[call.Args[0]]; ok {
					if sl, ok := tv.Type.Underlying().(*types.Slice); ok {
						elem = types.TypeString(sl.Elem(), func(*types.Package) string { return "" })
					}
				}
				coll := types.ExprString(call.Args[0])
				used := map[string]bool{}
				ast.Inspect(lit.Body, func(m ast.Node) bool {
					switch x := m.(type) {
					case *ast.CallExpr:
						if se, ok := ast.Unparen(x.Fun).(*ast.SelectorExpr); ok {
							if ix, ok := ast.Unparen(se.X).(*ast.IndexExpr); ok && types.ExprString(ix.X) == coll {
								used[se.Sel.Name+"()"] = true
								return false
							}
						}
					case *ast.SelectorExpr:
						if ix, ok := ast.Unparen(x.X).(*ast.IndexExpr); ok && types.ExprString(ix.X) == coll {
							used[x.Sel.Name] = true
							return false
						}
					case *ast.BinaryExpr:
						if x.Op == token.LSS || x.Op == token.GTR {
							lx, lok := ast.Unparen(x.X).(*ast.IndexExpr)
							rx, rok := ast.Unparen(x.Y).(*ast.IndexExpr)
							if lok && rok && types.ExprString(lx.X) == coll && types.ExprString(rx.X) == coll {
								used[""] = true
							}
						}
					}
					return true
				})
				key := fmt.Sprintf("%s.%s › %s", pk.Name, load.FuncName(fd), elem)
				want, ok := c07ClosureComparators[key]
				if !ok {
					c.Unk(rule, key, c.posOf(pk, call.Pos()), fmt.Sprintf("closure comparator reading %v is not in the reviewed table: decide what identifies an element of this slice", sortedKeys(used)))
					return true
				}
				var missing []string
				for _, f := range want.reads {
					if !used[f] {
						missing = append(missing, strconv.Quote(f))
					}
				}
				c.Check(len(missing) == 0, rule, key, c.posOf(pk, call.Pos()), "compares "+strings.Join(want.reads, ", ")+" — "+want.why,
					fmt.Sprintf("the comparator passed to sort.%s in %s does not read %v of the elements: two distinct elements tie and keep the order of the maps they were collected from (%s)", fn.Name(), load.FuncName(fd), missing, want.why))
				checkTieBreaks(c, rule, key, pk, lit.Body, strings.TrimSuffix(want.reads[len(want.reads)-1], "()"))
				return true
			})
		}
	}
}

// checkComparators: the order-taint analysis trusts sort.Sort to make the order of a slice a
// function of its contents; that holds only if Less never ties two distinct elements.
func checkComparators(c *Ctx, pkgs []*packages.Package) {
	rule := "C07.R1.comparators"
	c.Rule(rule, "every sort.Interface comparator and every sort.Slice closure compares the fields that identify an element (reviewed tables): ties would leave map order in the output", 18)
	for _, pk := range pkgs {
		for _, fd := range load.AllFuncs(pk) {
			if fd.Name.Name != "Less" || fd.Recv == nil || fd.Type.Params.NumFields() != 2 {
				continue
			}
			recv := load.RecvName(fd)
			used := map[string]bool{}
			ast.Inspect(fd.Body, func(n ast.Node) bool {
				if se, ok := n.(*ast.SelectorExpr); ok {
					if _, isIx := ast.Unparen(se.X).(*ast.IndexExpr); isIx {
						used[se.Sel.Name] = true
					}
				}
				return true
			})
			want, ok := c07Comparators[recv]
			key := fmt.Sprintf("%s.%s.Less", pk.Name, recv)
			if !ok {
				c.Unk(rule, key, c.posOf(pk, fd.Pos()), fmt.Sprintf("comparator over %v is not in the reviewed table: decide which fields identify an element of this slice", sortedKeys(used)))
				continue
			}
			var missing []string
			for _, f := range want.fields {
				if !used[f] {
					missing = append(missing, f)
				}
			}
			c.Check(len(missing) == 0, rule, key, c.posOf(pk, fd.Pos()), "compares "+strings.Join(want.fields, ", ")+" — "+want.why,
				fmt.Sprintf("%s.Less does not compare %v: two distinct elements tie and keep the order of the map they were collected from, so generated output changes from run to run (%s)", recv, missing, want.why))
			checkTieBreaks(c, rule, key, pk, fd.Body, want.fields[len(want.fields)-1])
		}
	}
}

// checkInvertedTables: `for k, v := range T { R[v] = k }` is a keyed insertion — order
// insensitive — only as long as no two rows of T share a value; otherwise the row that wins is
// the one the map iteration visits last.
func checkInvertedTables(c *Ctx, pkgs []*packages.Package) {
	rule := "C07.R1.inverted-tables"
	c.Rule(rule, "a table inverted by ranging over it (R[v] = k) has pairwise distinct constant values: the inverse does not depend on iteration order", 2)
	for _, pk := range pkgs {
		info := pk.TypesInfo
		for _, fd := range load.AllFuncs(pk) {
			if fd.Body == nil {
				continue
			}
			ast.Inspect(fd.Body, func(n ast.Node) bool {
				rs, ok := n.(*ast.RangeStmt)
				if !ok || rs.Key == nil || rs.Value == nil {
					return true
				}
				tid, ok := ast.Unparen(rs.X).(*ast.Ident)
				if !ok {
					return true
				}
				tv, _ := info.Uses[tid].(*types.Var)
				if tv == nil || tv.Parent() != pk.Types.Scope() {
					return true
				}
				if _, isMap := tv.Type().Underlying().(*types.Map); !isMap {
					return true
				}
				kid, _ := rs.Key.(*ast.Ident)
				vid, _ := rs.Value.(*ast.Ident)
				if kid == nil || vid == nil {
					return true
				}
				inverted := ""
				for _, st := range rs.Body.List {
					as, ok := st.(*ast.AssignStmt)
					if !ok || len(as.Lhs) != 1 || len(as.Rhs) != 1 {
						continue
					}
					ix, ok := ast.Unparen(as.Lhs[0]).(*ast.IndexExpr)
					if !ok {
						continue
					}
					iid, ok1 := ast.Unparen(ix.Index).(*ast.Ident)
					rid, ok2 := ast.Unparen(as.Rhs[0]).(*ast.Ident)
					if ok1 && ok2 && info.Uses[iid] == info.Defs[vid] && info.Uses[rid] == info.Defs[kid] {
						inverted = types.ExprString(ix.X)
					}
				}
				if inverted == "" {
					return true
				}
				key := fmt.Sprintf("%s.%s › %s inverted into %s", pk.Name, load.FuncName(fd), tid.Name, inverted)
				rows := goan.Rows(load.PkgVarValue(pk, tid.Name))
				if len(rows) == 0 {
					c.Unk(rule, key, c.posOf(pk, rs.Pos()), "the inverted table is not a package-level map literal: its values cannot be compared")
					return true
				}
				seen := map[string]string{}
				var dups []string
				for _, r := range rows {
					v := goan.ConstVal(info, r.Val)
					if v == nil {
						c.Unk(rule, key, c.posOf(pk, r.Val.Pos()), "row value "+types.ExprString(r.Val)+" is not a constant")
						return true
					}
					if prev, dup := seen[v.ExactString()]; dup {
						dups = append(dups, fmt.Sprintf("%s and %s both map to %s", prev, types.ExprString(r.Key), v.ExactString()))
					}
					seen[v.ExactString()] = types.ExprString(r.Key)
				}
				c.Check(len(dups) == 0, rule, key, c.posOf(pk, rs.Pos()), fmt.Sprintf("%d rows, values pairwise distinct", len(rows)),
					fmt.Sprintf("%s is inverted into %s by ranging over it, but %s: which key the shared value decodes to depends on the map iteration order of each run", tid.Name, inverted, strings.Join(dups, "; ")))
				return true
			})
		}
	}
}

// checkSymmetricRename: the reviewed loop-carried dependence of paramMappings is harmless only
// because a conflict renames both parties, each under its own name. The store that rewrites the
// earlier party must be keyed by fields of the remembered entry alone — keyed by the current
// parameter it rewrites the wrong name whenever the two are spelled differently, and the plain
// name stays with whichever parameter the map iteration visited first.
func checkSymmetricRename(c *Ctx, pkgs []*packages.Package) {
	rule := "C07.R1.symmetric-rename"
	c.Rule(rule, "paramMappings: on a name conflict the earlier parameter is rewritten under keys taken from its own remembered entry", 1)
	for _, pk := range pkgs {
		if pk.Name != "generator" {
			continue
		}
		fd := load.FuncDecl(pk, "paramMappings")
		if fd == nil {
			c.Anchor(rule, "generator.paramMappings", "not found")
			return
		}
		info := pk.TypesInfo
		// the variable bound to the remembered entry: x := val.(struct{…})
		var prev types.Object
		ast.Inspect(fd.Body, func(n ast.Node) bool {
			as, ok := n.(*ast.AssignStmt)
			if !ok || len(as.Lhs) != 1 || len(as.Rhs) != 1 {
				return true
			}
			if ta, ok := ast.Unparen(as.Rhs[0]).(*ast.TypeAssertExpr); ok && ta.Type != nil {
				if _, isStruct := info.TypeOf(ta.Type).Underlying().(*types.Struct); isStruct {
					if id, ok := as.Lhs[0].(*ast.Ident); ok {
						prev = info.Defs[id]
					}
				}
			}
			return true
		})
		if prev == nil {
			c.Anchor(rule, "generator.paramMappings › remembered entry", "no `x := val.(struct{…})` found")
			return
		}
		rootOf := func(e ast.Expr) types.Object {
			for {
				switch x := ast.Unparen(e).(type) {
				case *ast.SelectorExpr:
					e = x.X
				case *ast.Ident:
					return info.Uses[x]
				default:
					return nil
				}
			}
		}
		n := 0
		ast.Inspect(fd.Body, func(nd ast.Node) bool {
			as, ok := nd.(*ast.AssignStmt)
			if !ok || len(as.Lhs) != 1 {
				return true
			}
			outer, ok := ast.Unparen(as.Lhs[0]).(*ast.IndexExpr)
			if !ok {
				return true
			}
			inner, ok := ast.Unparen(outer.X).(*ast.IndexExpr)
			if !ok || rootOf(inner.Index) != prev {
				return true
			}
			n++
			c.Check(rootOf(outer.Index) == prev, rule, "generator.paramMappings › rewrite of the earlier parameter", c.posOf(pk, as.Pos()), "keyed by "+goan.ExprString(inner.Index)+" and "+goan.ExprString(outer.Index),
				fmt.Sprintf("the earlier parameter is rewritten under %s, which is not taken from its remembered entry: when the two conflicting parameters are spelled differently (foo-bar, foo_bar) the earlier one keeps the plain Go name, and which one is earlier follows map iteration order", goan.ExprString(outer.Index)))
			return true
		})
		if n == 0 {
			c.Bad(rule, "generator.paramMappings › rewrite of the earlier parameter", c.posOf(pk, fd.Pos()), "no store keyed by the remembered entry: on a conflict only the later parameter is renamed, so names depend on the visiting order")
		}
	}
}

// checkTieBreaks: inside a comparator, a `return x < y` on anything but the last key of the
// reviewed list must be control-dependent on `x != y`: otherwise two elements that agree on x
// compare equal in both directions whatever the later keys say, and keep the order of the map
// they were collected from.
func checkTieBreaks(c *Ctx, rule, key string, pk *packages.Package, body *ast.BlockStmt, finalKey string) {
	info := pk.TypesInfo
	n := 0
	goan.WalkGuards(info, body, func(leaf ast.Node, guards []goan.Lit, _ []ast.Stmt) {
		ret, ok := leaf.(*ast.ReturnStmt)
		if !ok || len(ret.Results) != 1 {
			return
		}
		be, ok := ast.Unparen(ret.Results[0]).(*ast.BinaryExpr)
		if !ok || (be.Op != token.LSS && be.Op != token.GTR && be.Op != token.LEQ && be.Op != token.GEQ) {
			return
		}
		n++
		xs, ys := goan.ExprString(be.X), goan.ExprString(be.Y)
		// a local holding the key stands for the expression it was assigned from
		if finalKey == "" || strings.Contains(xs, finalKey) || strings.Contains(goan.ExprString(goan.ResolveLocal(info, body, be.X)), finalKey) {
			return // the last key of the list: nothing is left to break a tie with
		}
		guarded := false
		for _, g := range guards {
			if g.Tag != nil || g.NonEmpty {
				continue
			}
			if ge, ok := ast.Unparen(g.E).(*ast.BinaryExpr); ok {
				a, b := goan.ExprString(ge.X), goan.ExprString(ge.Y)
				same := (a == xs && b == ys) || (a == ys && b == xs)
				if same && ((ge.Op == token.NEQ && g.Pos) || (ge.Op == token.EQL && !g.Pos)) {
					guarded = true
				}
			}
		}
		c.Check(guarded, rule, fmt.Sprintf("%s › return %s %s %s only when they differ", key, xs, be.Op, ys), c.posOf(pk, ret.Pos()), "under "+xs+" != "+ys,
			fmt.Sprintf("the comparator answers `%s %s %s` without having tested that the two differ: elements that agree on it compare equal in both directions, the later keys are never consulted, and ties keep the order of the map the elements were collected from", xs, be.Op, ys))
	})
}

// checkTemplateMapOrder: text/template ranges over a map in sorted key order, but the functions
// that turn a map into a list (sprig's keys, values, pick/omit results handed to them) follow Go's
// map iteration: their result must pass sortAlpha before it is ranged or printed.
func checkTemplateMapOrder(c *Ctx, rule string, ev *tmpl.Evaluator) {
	c.Rule(rule, "no template lists a map with `keys` / `values` without sorting the list (sortAlpha) in the same pipeline", 0)
	rx := regexp.MustCompile(`(^|[\s(|])(keys|values)(\s|\)|$)`)
	n := 0
	for _, name := range ev.F.Names() {
		t := ev.F.Trees[name]
		if t == nil || t.Tree == nil || t.Tree.Root == nil {
			continue
		}
		ord := 0
		var walk func(nd parse.Node)
		visit := func(pipe *parse.PipeNode, pos parse.Pos) {
			if pipe == nil {
				return
			}
			s := pipe.String()
			if !rx.MatchString(s) {
				return
			}
			ord++
			n++
			c.Check(strings.Contains(s, "sortAlpha"), rule, fmt.Sprintf("%s › %s › map listed #%d", t.Asset, name, ord), t.PosStr(pos), "sorted: "+s,
				fmt.Sprintf("the pipeline `%s` lists the keys or values of a map in Go's map iteration order: the generated text changes from run to run", s))
		}
		walk = func(nd parse.Node) {
			switch x := nd.(type) {
			case *parse.ListNode:
				if x != nil {
					for _, k := range x.Nodes {
						walk(k)
					}
				}
			case *parse.ActionNode:
				visit(x.Pipe, x.Pos)
			case *parse.IfNode:
				visit(x.Pipe, x.Pos)
				walk(x.List)
				walk(x.ElseList)
			case *parse.RangeNode:
				visit(x.Pipe, x.Pos)
				walk(x.List)
				walk(x.ElseList)
			case *parse.WithNode:
				visit(x.Pipe, x.Pos)
				walk(x.List)
				walk(x.ElseList)
			case *parse.TemplateNode:
				visit(x.Pipe, x.Pos)
			}
		}
		walk(t.Tree.Root)
	}
	if n == 0 {
		c.Ok(rule, "templates › no map is listed with keys / values", "", fmt.Sprintf("%d template trees read", len(ev.F.Trees)))
	}
}

// checkPlanningOrder: planning a model or an operation can write into the loaded document (an
// anonymous struct lifted as a definition, validations moved), and what is planned next reads
// that document. A loop that plans in map order makes the content of the generated files depend on
// it, however the results are sorted afterwards.
func checkPlanningOrder(c *Ctx, rule string, gen *packages.Package) {
	c.Rule(rule, "no range over a map in the generator calls (transitively, static calls of the package) a function that adds to the definitions of the loaded document and a function that reads them all (discriminatorInfo)", 0)
	// (clearing the validations that do not fit a schema's type gives the same schema whoever does it first:
	// only additions to the definitions matter here)
	reach, n := documentWriterReach(gen, false)
	if reach == nil {
		c.Unk(rule, "writers into the loaded document", "", fmt.Sprintf("%d writer functions found", n))
		return
	}
	info := gen.TypesInfo
	// readers of the whole set of definitions: the subtypes of a discriminated type are looked up in a fresh
	// analysis of the document
	readers := reachWithin(gen, func(d *ast.FuncDecl) string {
		w := ""
		ast.Inspect(d.Body, func(n ast.Node) bool {
			if call, ok := n.(*ast.CallExpr); ok {
				if fn := goan.Callee(info, call); fn != nil {
					if fn.Name() == "discriminatorInfo" && fn.Pkg() == gen.Types {
						w = "reads every definition: discriminatorInfo"
					}
				}
			}
			return true
		})
		return w
	})
	hits := 0
	for _, fd := range load.AllFuncs(gen) {
		if fd.Body == nil {
			continue
		}
		ast.Inspect(fd.Body, func(nd ast.Node) bool {
			rs, ok := nd.(*ast.RangeStmt)
			if !ok {
				return true
			}
			t := info.TypeOf(rs.X)
			if t == nil {
				return true
			}
			if _, isMap := t.Underlying().(*types.Map); !isMap {
				return true
			}
			why, reads := "", ""
			ast.Inspect(rs.Body, func(m ast.Node) bool {
				if call, ok := m.(*ast.CallExpr); ok {
					if cal := goan.Callee(info, call); cal != nil && cal.Pkg() == gen.Types {
						if r := reach(cal, map[*types.Func]bool{}); r != "" && why == "" {
							why = cal.Name() + " → " + r
						}
						if r := readers(cal); r != "" && reads == "" {
							reads = cal.Name() + " → " + r
						}
					}
				}
				return true
			})
			// a map declared outside the loop and handed, by reference, to a builder whose methods the
			// iteration calls: what one iteration registers there (an import alias) the next one finds taken
			shared := ""
			ast.Inspect(rs.Body, func(m ast.Node) bool {
				cl, ok := m.(*ast.CompositeLit)
				if !ok {
					return true
				}
				if _, isStruct := info.TypeOf(cl).Underlying().(*types.Struct); !isStruct {
					return true
				}
				for _, el := range cl.Elts {
					kv, ok := el.(*ast.KeyValueExpr)
					if !ok {
						continue
					}
					id, ok := ast.Unparen(kv.Value).(*ast.Ident)
					if !ok {
						continue
					}
					v, _ := info.Uses[id].(*types.Var)
					if v == nil || v.IsField() || v.Pos() >= rs.Pos() || v.Parent() == gen.Types.Scope() {
						continue
					}
					if _, isMap := v.Type().Underlying().(*types.Map); !isMap {
						continue
					}
					// is the shared map both read and written by the methods of the builder?
					fld := goan.ExprString(kv.Key)
					reads, writes := false, false
					for _, d := range load.AllFuncs(gen) {
						if d.Recv == nil || d.Body == nil || goan.NamedName(info.TypeOf(d.Recv.List[0].Type)) != goan.NamedName(info.TypeOf(cl)) {
							continue
						}
						ast.Inspect(d.Body, func(k ast.Node) bool {
							switch x := k.(type) {
							case *ast.AssignStmt:
								for _, l := range x.Lhs {
									if ix, ok := l.(*ast.IndexExpr); ok && goan.LastSel(ix.X) == fld {
										writes = true
									}
								}
								for _, r := range x.Rhs {
									if ix, ok := ast.Unparen(r).(*ast.IndexExpr); ok && goan.LastSel(ix.X) == fld {
										reads = true
									}
								}
							case *ast.RangeStmt:
								if goan.LastSel(x.X) == fld {
									reads = true
								}
							}
							return true
						})
					}
					if reads && writes {
						shared = goan.NamedName(info.TypeOf(cl)) + "." + fld + " ⟸ " + v.Name()
					}
				}
				return true
			})
			// first come, first served: a map declared outside the loop is looked up, the answer decides what
			// the iteration produces, and the iteration stores into the map for the next ones to find
			if shared == "" {
				stored := map[types.Object]bool{}
				ast.Inspect(rs.Body, func(m ast.Node) bool {
					if as, ok := m.(*ast.AssignStmt); ok {
						for _, l := range as.Lhs {
							if ix, ok := l.(*ast.IndexExpr); ok {
								if id, ok := ast.Unparen(ix.X).(*ast.Ident); ok {
									if v, _ := info.Uses[id].(*types.Var); v != nil && !v.IsField() && v.Pos() < rs.Pos() {
										if _, isMap := v.Type().Underlying().(*types.Map); isMap {
											stored[v] = true
										}
									}
								}
							}
						}
					}
					return true
				})
				ast.Inspect(rs.Body, func(m ast.Node) bool {
					as, ok := m.(*ast.AssignStmt)
					if !ok || len(as.Rhs) != 1 || shared != "" {
						return true
					}
					ix, ok := ast.Unparen(as.Rhs[0]).(*ast.IndexExpr)
					if !ok {
						return true
					}
					id, ok := ast.Unparen(ix.X).(*ast.Ident)
					if !ok {
						return true
					}
					mv, _ := info.Uses[id].(*types.Var)
					if mv == nil || !stored[mv] {
						return true
					}
					answers := map[types.Object]bool{}
					for _, l := range as.Lhs {
						if lid, ok := l.(*ast.Ident); ok && lid.Name != "_" {
							if o := info.ObjectOf(lid); o != nil {
								answers[o] = true
							}
						}
					}
					// a later condition on the answer that guards a store to something else than the map
					ast.Inspect(rs.Body, func(k ast.Node) bool {
						ifs, ok := k.(*ast.IfStmt)
						if !ok || ifs.Pos() < as.Pos() {
							return true
						}
						uses := false
						ast.Inspect(ifs.Cond, func(u ast.Node) bool {
							if uid, ok := u.(*ast.Ident); ok && answers[info.Uses[uid]] {
								uses = true
							}
							return true
						})
						if !uses {
							return true
						}
						ast.Inspect(ifs.Body, func(u ast.Node) bool {
							if bas, ok := u.(*ast.AssignStmt); ok {
								for _, l := range bas.Lhs {
									if bix, ok := l.(*ast.IndexExpr); ok {
										if bid, ok := ast.Unparen(bix.X).(*ast.Ident); ok && info.Uses[bid] == mv {
											continue
										}
									}
									shared = "first come, first served on " + mv.Name() + ": `" + goan.ExprString(ifs.Cond) + "` decides " + goan.ExprString(l)
								}
							}
							return true
						})
						return true
					})
					return true
				})
			}
			if shared != "" {
				hits++
				c.Bad(rule, fmt.Sprintf("generator.%s › range %s shares a map between its iterations", load.FuncName(fd), goan.ExprString(rs.X)), c.posOf(gen, rs.Pos()),
					fmt.Sprintf("the loop ranges over a map and its iterations communicate through a map declared outside it (%s): what one iteration registers (a package alias) the following ones find taken, so the aliases — and the generated files — depend on the iteration order (plan over sorted names)", shared))
				return true
			}
			// an addition to the definitions only matters to an iteration that looks at all of them
			if why == "" || reads == "" {
				return true
			}
			why += "; and " + reads
			hits++
			c.Bad(rule, fmt.Sprintf("generator.%s › range %s plans in map order", load.FuncName(fd), goan.ExprString(rs.X)), c.posOf(gen, rs.Pos()),
				fmt.Sprintf("the loop ranges over a map and calls %s: what one iteration writes into the document is read by the iterations that follow, so the generated code depends on the iteration order (plan over sorted names)", why))
			return true
		})
	}
	if hits == 0 {
		c.Ok(rule, "generator › planning loops run over sorted names", "", fmt.Sprintf("%d document writers, none reached from a map range", n))
	}
}

// reachWithin: reach(f) = a path from f, through static calls inside the package, to a function for
// which seed answers non-empty ("" when there is none).
func reachWithin(pk *packages.Package, seed func(d *ast.FuncDecl) string) func(f *types.Func) string {
	info := pk.TypesInfo
	decls := map[*types.Func]*ast.FuncDecl{}
	for _, d := range load.AllFuncs(pk) {
		if f, ok := info.Defs[d.Name].(*types.Func); ok && d.Body != nil {
			decls[f] = d
		}
	}
	seeds := map[*types.Func]string{}
	for f, d := range decls {
		if w := seed(d); w != "" {
			seeds[f] = w
		}
	}
	memo := map[*types.Func]string{}
	var reach func(f *types.Func, seen map[*types.Func]bool) string
	reach = func(f *types.Func, seen map[*types.Func]bool) string {
		if w, ok := seeds[f]; ok {
			return f.Name() + " (" + w + ")"
		}
		if r, ok := memo[f]; ok {
			return r
		}
		d := decls[f]
		if d == nil || seen[f] {
			return ""
		}
		seen[f] = true
		res := ""
		ast.Inspect(d.Body, func(n ast.Node) bool {
			if res != "" {
				return false
			}
			if call, ok := n.(*ast.CallExpr); ok {
				if cal := goan.Callee(info, call); cal != nil && cal.Pkg() == pk.Types {
					if r := reach(cal, seen); r != "" {
						res = cal.Name() + " → " + r
						if _, isSeed := seeds[cal]; isSeed {
							res = r
						}
					}
				}
			}
			return true
		})
		memo[f] = res
		return res
	}
	return func(f *types.Func) string { return reach(f, map[*types.Func]bool{}) }
}
