package props

import (
	"fmt"
	"go/ast"
	"go/token"
	"go/types"
	"regexp"
	"sort"
	"strings"

	"golang.org/x/tools/go/packages"

	"verif/tool/goan"
	"verif/tool/load"
)

func init() { register("C08", checkC08) }

var registrationRules = []emitRule{
	{Name: "each operation is registered under its own method and path with its own handler", Trees: []string{"serverBuilder"},
		Rx:    `⟦\.ReceiverName⟧\.handlers\[⟦printf "%q" \(upper \.Method\)⟧\]\[""⟦printf "%q" \(cleanPath \.Path\)⟧\] = (⟦\.PackageAlias⟧\.)?New⟦pascalize \.Name⟧\(⟦\.ReceiverName⟧\.context, ⟦\.ReceiverName⟧\.(⟦pascalize \.Package⟧)?⟦pascalize \.Name⟧Handler\)`,
		Range: ".Operations", Min: 1, Why: "a request to a method and path must reach the handler generated for that very operation"},
	{Name: "each operation has a handler field", Trees: []string{"serverBuilder"}, Rx: `(⟦pascalize \.Package⟧)?⟦pascalize \.Name⟧Handler (⟦\.PackageAlias⟧\.)?⟦pascalize \.Name⟧Handler\n`, Range: ".Operations", Min: 1,
		Why: "every operation is represented by its own handler in the API struct"},
	{Name: "each operation has a default handler", Trees: []string{"serverBuilder"}, Rx: `(⟦pascalize \.Package⟧)?⟦pascalize \.Name⟧Handler:\s*(⟦\.PackageAlias⟧\.)?⟦pascalize \.Name⟧HandlerFunc\(`, Range: ".Operations", Min: 1,
		Why: "every operation is represented by its own handler in the API constructor"},
	{Name: "an unregistered handler fails validation", Trees: []string{"serverBuilder"}, Rx: `Handler == nil \{\s*unregistered = append\(unregistered, "`, Range: ".Operations", Min: 1,
		Why: "an operation without handler is reported, not silently unserved"},
	{Name: "each operation has a client method", Trees: []string{"clientClient"}, Rx: `func \(a \*Client\) ⟦pascalize \.Name⟧\(params \*⟦pascalize \.Name⟧Params`, Range: ".Operations", Min: 1,
		Why: "every operation is represented by its own client method"},
	{Name: "each client method targets its own operation", Trees: []string{"clientClient"}, Rx: `ID: ⟦printf "%q" \.Name⟧,\s*Method: ⟦printf "%q" \.Method⟧,\s*PathPattern: ⟦printf "%q" \.Path⟧,`, Range: ".Operations", Min: 1,
		Why: "the client method sends the request of that very operation"},
	{Name: "root path lookups use the registration key", Trees: []string{"serverBuilder"}, Rx: `if path == "/" \{\s*path = ""\s*\}`, Min: 2,
		Why: "the root path is registered under the empty key (the runtime asks for the path stripped of the base path): HandlerFor and AddMiddlewareFor must translate \"/\" the same way"},
	{Name: "lookups upper-case the method", Trees: []string{"serverBuilder"}, Rx: `um := strings\.ToUpper\(method\)`, Min: 2,
		Why: "handlers are registered under the upper-cased method"},
}

func checkC08(c *Ctx) {
	c.Explain("no operation or definition is silently dropped or merged — structural conditions: (R1) the server builder registers every operation of the unfiltered list under its own upper-cased method and cleaned path (root path under the empty key, looked up the same way) with its own handler field, and the client has one method per operation carrying its own id, method and path; cleanPath is path.Clean, the normalisation the runtime router applies; (R2) the operation's name, method and path travel unchanged from the analysed spec to the view-model, and every gathered operation is appended unless a CLI filter excludes it; (R3) the de-duplication of operation ids renames whenever the clashing operation is a different one (small-model evaluation); (R4) writing a generated file first checks that no differently named object was already generated to the same target and returns an error; (R5) the reserved file-name suffix table covers every GOOS/GOARCH of the go tool. " +
		"Decides registration shape, identity propagation and the presence and placement of the collision check; it does not decide which distinct names collide after mangling (that is reported at run time by the check whose presence R4 decides).")
	c.Assume("go-openapi/runtime's router asks HandlerFor with the method and the path joined-and-cleaned then stripped of the base path (runtime/middleware/router.go), swag name mangling is deterministic")
	ev, _, gen := c.evalTemplates("")
	c.Rule("C08.R1.registration", "every operation is registered, and looked up, under its own method and path with its own handler; every operation has its own client method", 10)
	checkEmitRules(c, "C08.R1.registration", ev, registrationRules)
	// the registration is not filtered
	if l := linearOf(c, ev, "serverBuilder"); l != nil {
		for _, oc := range l.Find(regexp.MustCompile(`\.handlers\[⟦printf "%q" \(upper \.Method\)⟧\]\[`)) {
			var conds []string
			for _, g := range oc.Guards {
				if g.Kind == "if" || g.Kind == "else" || g.Kind == "with" {
					conds = append(conds, g.Kind+" "+g.Pipe)
				}
			}
			ok := len(conds) == 1 && strings.TrimSpace(conds[0]) == "if .Operations"
			c.Check(ok, "C08.R1.registration", "serverBuilder › initHandlerCache › registration is unconditional", l.Tree.PosStr(oc.Pos), "only `if .Operations` and `range .Operations` enclose it",
				fmt.Sprintf("the handler registration is emitted under %v: some operations are never routable", conds))
			break
		}
		// root key
		okRoot := false
		for _, oc := range l.Find(regexp.MustCompile(`\]\[""`)) {
			g := oc.Guards
			if len(g) > 0 && g[len(g)-1].Kind == "range" {
				g2 := l.GuardsAt(oc.Start + 2)
				if len(g2) > 0 && g2[len(g2)-1].Kind == "if" && strings.TrimSpace(g2[len(g2)-1].Pipe) == `eq .Path "/"` {
					okRoot = true
				}
			}
		}
		c.Check(okRoot, "C08.R1.registration", "serverBuilder › initHandlerCache › root path registered under the empty key", l.Tree.File, `"" iff .Path == "/"`, "the root path is not registered under the empty key that HandlerFor looks up: the operation at \"/\" is unroutable")
	}
	// Serve builds the handler cache before it hands out any handler (including the user's Middleware hook)
	if l := linearOf(c, ev, "serverBuilder"); l != nil {
		m := regexp.MustCompile(`\) Serve\(\w+ middleware\.Builder\) http\.Handler \{`).FindStringIndex(l.Text)
		ok, why := false, "Serve(builder) not found"
		if m != nil {
			body := l.Text[m[1]:]
			if e := strings.Index(body, "\n}"); e >= 0 {
				body = body[:e]
			}
			initAt := regexp.MustCompile(`⟦\.ReceiverName⟧\.Init\(\)`).FindStringIndex(body)
			retAt := regexp.MustCompile(`\breturn\b`).FindStringIndex(body)
			ok = initAt != nil && retAt != nil && initAt[0] < retAt[0]
			why = "Serve() returns a handler before Init() has filled the handler cache: with the Middleware hook set, the router is built on an empty cache and every operation answers 404"
		}
		c.Check(ok, "C08.R1.registration", "serverBuilder › Serve › Init() precedes every return", l.Tree.File, "handler cache initialised first", why)
	}
	// cleanPath is path.Clean
	checkFuncMapEntry(c, "C08.R1.registration", gen, "cleanPath", "path.Clean", "handlers are registered under another normalisation than the one the runtime router applies to route patterns (path.Join/Clean)")

	// the router is built from the flattened document (path-item $refs resolved): loads.Embedded(orig, flat)
	checkEmbeddedOrder(c, "C08.R1.routed-document", ev, gen)

	checkRouteClash(c, "C08.R1.route-clash", gen)
	c.Rule("C08.R2.tag-selection", "whether --tags selects an operation is decided from the filter and its intersection with the operation's tags alone", 1)
	checkTagSelection(c, "C08.R2.tag-selection", gen)
	c.Rule("C08.R4.alias-rename", "when the import alias of an operation package is found taken, the alias that was looked up is the name that is renamed", 1)
	checkAliasRename(c, "C08.R4.alias-rename", gen)
	checkLoopTotality(c, "C08.R6.loop-totality", gen, "generator", 20, generatorLoopExits)
	checkArgumentRoles(c, "C08.R7.argument-roles", gen, "generator", 10)
	checkGenOptsNotCopied(c, "C08.R4.options-shared", gen)
	checkStructLiterals(c, "C08.R7.builder-fields", gen, "generator", []string{"Builder", "Generator", "Context"}, generatorFieldsNotSet, 3)
	checkRangeFilters(c, "C08.R6.range-filters", ev, reviewedRangeFilters, 25)
	checkOperationIdentity(c, gen)
	checkOperationDedup(c, gen)
	checkCollisionDetection(c, gen)
	checkPlatformSuffixes(c, "C08.R5.file-suffixes", gen)
}

// checkFuncMapEntry: the template function `name` is bound to the named Go function.
func checkFuncMapEntry(c *Ctx, rule string, gen *packages.Package, name, want, why string) {
	info := gen.TypesInfo
	found := ""
	var pos token.Pos
	for _, f := range gen.Syntax {
		ast.Inspect(f, func(n ast.Node) bool {
			kv, ok := n.(*ast.KeyValueExpr)
			if !ok {
				return true
			}
			if s, ok := goan.StringVal(info, kv.Key); ok && s == name {
				if tv, ok := info.Types[kv.Value]; ok {
					if _, isSig := tv.Type.Underlying().(*types.Signature); isSig {
						found = goan.ExprString(kv.Value)
						if se, ok := kv.Value.(*ast.SelectorExpr); ok {
							if fn, ok := info.Uses[se.Sel].(*types.Func); ok {
								found = goan.CalleeName(fn)
							}
						}
						pos = kv.Pos()
					}
				}
			}
			return true
		})
	}
	if found == "" {
		c.Anchor(rule, "generator FuncMap › "+name, "entry not found")
		return
	}
	c.Check(found == want, rule, "generator FuncMap › "+name+" = "+want, c.posOf(gen, pos), "bound to "+want, fmt.Sprintf("template function %s is bound to %s: %s", name, found, why))
}

func checkOperationIdentity(c *Ctx, gen *packages.Package) {
	rule := "C08.R2.identity"
	c.Rule(rule, "name, method and path of an operation reach the view-model unchanged, and every gathered operation is kept", 10)
	info := gen.TypesInfo
	fieldIs := func(fn string, typ string, want map[string]string) {
		fd := load.FuncDecl(gen, fn)
		if fd == nil {
			c.Anchor(rule, "generator."+fn, "not found")
			return
		}
		done := false
		ast.Inspect(fd.Body, func(n ast.Node) bool {
			cl, ok := n.(*ast.CompositeLit)
			if !ok || done || goan.NamedName(info.TypeOf(cl)) != typ || len(cl.Elts) < 3 {
				return true
			}
			done = true
			for f, w := range want {
				got := ""
				if v := goan.Field(cl, f); v != nil {
					got = goan.ExprString(goan.ResolveLocal(info, fd.Body, v))
				}
				c.Check(got == w, rule, fmt.Sprintf("generator.%s › %s.%s = %s", fn, typ, f, w), c.posOf(gen, cl.Pos()), "copied unchanged",
					fmt.Sprintf("%s.%s is %q instead of %s: the generated code routes, names or calls the operation by something else than the spec's own %s (distinct operations can be merged)", typ, f, got, w, strings.ToLower(f)))
			}
			return true
		})
		if !done {
			c.Anchor(rule, "generator."+fn+" › "+typ+" literal", "not found")
		}
	}
	fieldIs("codeGenOpBuilder.MakeOperation", "GenOperation", map[string]string{"Name": "b.Name", "Method": "b.Method", "Path": "b.Path", "BasePath": "b.BasePath"})
	fieldIs("appGenerator.makeCodegenApp", "codeGenOpBuilder", map[string]string{"Name": "operationName", "Method": "opp.Method", "Path": "opp.Path"})
	fieldIs("gatherOperations", "opRef", map[string]string{"Method": "method", "Path": "path"})
	// every gathered operation is appended: the loop over a.Operations ends in an unconditional append and
	// its only `continue`s are the two CLI filters
	fd := load.FuncDecl(gen, "appGenerator.makeCodegenApp")
	if fd == nil {
		return
	}
	ast.Inspect(fd.Body, func(n ast.Node) bool {
		rs, ok := n.(*ast.RangeStmt)
		if !ok {
			return true
		}
		// the planning loop: over the operations (the map, or its sorted names) and calling MakeOperation
		if coll, _ := keyRange(gen.TypesInfo, fd.Body, rs); coll == nil || goan.LastSel(coll) != "Operations" {
			return true
		}
		plans := false
		ast.Inspect(rs.Body, func(m ast.Node) bool {
			if call, ok := m.(*ast.CallExpr); ok {
				if fn := goan.Callee(gen.TypesInfo, call); fn != nil && fn.Name() == "MakeOperation" {
					plans = true
				}
			}
			return true
		})
		if !plans {
			return true
		}
		appended := false
		for _, st := range rs.Body.List {
			if as, ok := st.(*ast.AssignStmt); ok && len(as.Lhs) == 1 && len(as.Rhs) == 1 && goan.NamedName(gen.TypesInfo.TypeOf(as.Lhs[0])) == "GenOperations" {
				if call, ok := as.Rhs[0].(*ast.CallExpr); ok && goan.IsBuiltinCall(gen.TypesInfo, call, "append") {
					appended = true
				}
			}
		}
		conts := 0
		var contConds []string
		ast.Inspect(rs.Body, func(m ast.Node) bool {
			if is, ok := m.(*ast.IfStmt); ok {
				for _, st := range is.Body.List {
					if bs, ok := st.(*ast.BranchStmt); ok && bs.Tok == token.CONTINUE {
						conts++
						contConds = append(contConds, goan.ExprString(is.Cond))
					}
				}
			}
			return true
		})
		c.Check(appended, rule, "generator.appGenerator.makeCodegenApp › every operation is appended to the planned operations", c.posOf(gen, rs.Pos()), "unconditional append at loop level", "an operation may be left out of the generated application")
		okC := conts == 2 && contConds[0] == "!ok" && strings.Contains(contConds[1], "len(intersected) == 0")
		c.Check(okC, rule, "generator.appGenerator.makeCodegenApp › only the CLI tag filters skip an operation", c.posOf(gen, rs.Pos()), fmt.Sprintf("%v", contConds),
			fmt.Sprintf("operations are skipped under %v: besides the two tag filters (analyzeTags, --tags) nothing may drop an operation silently", contConds))
		return false
	})
}

// checkOperationDedup: in gatherOperations, an operation whose name is already taken by a
// different operation (other method or other path) gets its key as name.
func checkOperationDedup(c *Ctx, gen *packages.Package) {
	rule := "C08.R3.dedup"
	c.Rule(rule, "an operation id already used by a different operation is replaced by the method+path key, and a key that is taken is numbered until it is free", 3)
	fd := load.FuncDecl(gen, "gatherOperations")
	if fd == nil {
		c.Anchor(rule, "generator.gatherOperations", "not found")
		return
	}
	var cond ast.Expr
	var pos token.Pos
	ast.Inspect(fd.Body, func(n ast.Node) bool {
		is, ok := n.(*ast.IfStmt)
		if !ok {
			return true
		}
		for _, st := range is.Body.List {
			if as, ok := st.(*ast.AssignStmt); ok && len(as.Lhs) == 1 && goan.IsIdent(as.Lhs[0], "nm") && goan.LastSel(as.Rhs[0]) == "Key" && strings.Contains(goan.ExprString(is.Cond), "found") {
				cond, pos = is.Cond, is.Pos()
			}
		}
		return true
	})
	if cond == nil {
		c.Anchor(rule, "generator.gatherOperations › `if found … { nm = opr.Key }`", "not found")
		return
	}
	atoms := map[string]bool{}
	boolAtoms(cond, atoms)
	var mAtom, pAtom string
	for a := range atoms {
		if strings.Contains(a, "Method") {
			mAtom = a
		}
		if strings.Contains(a, "Path") {
			pAtom = a
		}
	}
	bad := ""
	if mAtom == "" || pAtom == "" || !atoms["found"] {
		bad = "the condition does not test found, Method and Path"
	} else {
		neq := func(a string) bool { return strings.Contains(a, "!=") }
		for _, v := range [][2]bool{{true, false}, {false, true}, {true, true}} {
			env := map[string]bool{"found": true}
			env[mAtom] = v[0] == neq(mAtom)
			env[pAtom] = v[1] == neq(pAtom)
			if !boolEval(cond, env) {
				bad = fmt.Sprintf("with the id already taken, method differs=%v, path differs=%v the operation keeps the id and overwrites the other one", v[0], v[1])
			}
		}
		env := map[string]bool{"found": false, mAtom: neq(mAtom), pAtom: neq(pAtom)}
		if boolEval(cond, env) {
			bad = "an id that is not taken yet is replaced"
		}
	}
	c.Check(bad == "", rule, "generator.gatherOperations › rename when the id belongs to a different operation", c.posOf(gen, pos), "found && (method differs || path differs)", "`"+goan.ExprString(cond)+"`: "+bad)
	// the final name is probed until it is free before the operation is stored under it
	var storePos token.Pos
	probed := false
	ast.Inspect(fd.Body, func(n ast.Node) bool {
		switch x := n.(type) {
		case *ast.ForStmt:
			taken, brk, renames := false, false, false
			ast.Inspect(x, func(m ast.Node) bool {
				switch y := m.(type) {
				case *ast.AssignStmt:
					if len(y.Lhs) == 2 && len(y.Rhs) == 1 {
						if ix, ok := y.Rhs[0].(*ast.IndexExpr); ok && goan.IsIdent(ix.X, "operations") && goan.IsIdent(ix.Index, "nm") {
							taken = true
						}
					}
					if len(y.Lhs) == 1 && goan.IsIdent(y.Lhs[0], "nm") {
						renames = true
					}
				case *ast.BranchStmt:
					if y.Tok == token.BREAK {
						brk = true
					}
				}
				return true
			})
			if taken && brk && renames {
				probed = true
			}
		case *ast.AssignStmt:
			if len(x.Lhs) == 1 {
				if ix, ok := x.Lhs[0].(*ast.IndexExpr); ok && goan.IsIdent(ix.X, "operations") && goan.IsIdent(ix.Index, "nm") {
					storePos = x.Pos()
				}
			}
		}
		return true
	})
	c.Check(probed && storePos.IsValid(), rule, "generator.gatherOperations › the name is probed until free before operations[nm] is stored", c.posOf(gen, fd.Pos()), "loop: lookup operations[nm], break when free, rename otherwise",
		"operations[nm] = opr can overwrite another operation: keys built from method and path are not unique (GET /a-b and GET /a_b both give GetAB) and nothing renames the second one")
	// the key is built from method and path
	okKey := false
	ast.Inspect(fd.Body, func(n ast.Node) bool {
		kv, ok := n.(*ast.KeyValueExpr)
		if ok && goan.IsIdent(kv.Key, "Key") {
			s := goan.ExprString(kv.Value)
			okKey = strings.Contains(s, "method") && strings.Contains(s, "path")
		}
		return true
	})
	c.Check(okKey, rule, "generator.gatherOperations › the fallback key is built from method and path", c.posOf(gen, fd.Pos()), "Key: f(method, path)", "the fallback name of an operation does not depend on both its method and its path")
}

// checkCollisionDetection: GenOpts.write calls, before any file is written, a function that
// looks the target up in a map field of GenOpts, returns an error when it was generated from a
// different source, and records it otherwise; write returns that error.
func checkCollisionDetection(c *Ctx, gen *packages.Package) {
	rule := "C08.R4.collision-detection"
	c.Rule(rule, "GenOpts.write refuses to generate a target file that was already generated from a differently named spec object", 6)
	info := gen.TypesInfo
	fd := load.FuncDecl(gen, "GenOpts.write")
	if fd == nil {
		c.Anchor(rule, "generator.GenOpts.write", "not found")
		return
	}
	var firstWrite token.Pos
	ast.Inspect(fd.Body, func(n ast.Node) bool {
		if call, ok := n.(*ast.CallExpr); ok {
			if fn := goan.Callee(info, call); fn != nil && (goan.CalleeName(fn) == "os.WriteFile" || goan.CalleeName(fn) == "os.MkdirAll") {
				if firstWrite == token.NoPos || call.Pos() < firstWrite {
					firstWrite = call.Pos()
				}
			}
		}
		return true
	})
	var detector *ast.FuncDecl
	var callPos token.Pos
	var detectorCall *ast.CallExpr
	returned := false
	for _, st := range fd.Body.List {
		is, ok := st.(*ast.IfStmt)
		if !ok || is.Init == nil {
			continue
		}
		as, ok := is.Init.(*ast.AssignStmt)
		if !ok || len(as.Rhs) != 1 {
			continue
		}
		call, ok := as.Rhs[0].(*ast.CallExpr)
		if !ok {
			continue
		}
		fn := goan.Callee(info, call)
		if fn == nil || fn.Pkg() != gen.Types {
			continue
		}
		cand := load.FuncDecl(gen, load.RecvNameOf(fn)+fn.Name())
		if cand == nil || !detectsCollision(info, cand) {
			continue
		}
		detector, callPos = cand, call.Pos()
		detectorCall = call
		for _, s := range is.Body.List {
			if rs, ok := s.(*ast.ReturnStmt); ok && len(rs.Results) == 1 && goan.IsIdent(rs.Results[0], "err") {
				returned = true
			}
		}
	}
	if detector == nil {
		c.Bad(rule, "generator.GenOpts.write › collision check", c.posOf(gen, fd.Pos()), "write() calls no function that remembers generated targets and fails on a second, differently named source: two spec names mangled to the same file name overwrite each other silently")
		return
	}
	c.Ok(rule, "generator.GenOpts.write › collision check", c.posOf(gen, callPos), "calls "+load.FuncName(detector))
	// objects are told apart by their spec name (x-go-name can give two definitions one Go name)
	bySpecName := false
	ast.Inspect(detector.Body, func(n ast.Node) bool {
		if bl, ok := n.(*ast.BasicLit); ok && bl.Kind == token.STRING && bl.Value == `"OriginalName"` {
			bySpecName = true
		}
		return true
	})
	// the spec name comes first: the Go name is only the fallback for objects that have no other
	if bySpecName {
		var order []string
		var nameVar types.Object
		ast.Inspect(detector.Body, func(n ast.Node) bool {
			as, ok := n.(*ast.AssignStmt)
			if !ok || len(as.Lhs) != 1 || len(as.Rhs) != 1 {
				return true
			}
			call, ok := ast.Unparen(as.Rhs[0]).(*ast.CallExpr)
			if !ok || len(call.Args) != 1 {
				return true
			}
			lit, ok := goan.StringVal(gen.TypesInfo, call.Args[0])
			if !ok || (lit != "OriginalName" && lit != "Name") {
				return true
			}
			id, ok := as.Lhs[0].(*ast.Ident)
			if !ok {
				return true
			}
			obj := gen.TypesInfo.ObjectOf(id)
			if nameVar == nil {
				nameVar = obj
			}
			if obj == nameVar {
				order = append(order, lit)
			}
			return true
		})
		if len(order) >= 2 && order[0] != "OriginalName" {
			bySpecName = false
		}
	}
	// … and by their own name whatever else they carry: a first-non-empty scan over field names
	// must not let the package alias stand in for the name
	aliasFirst := false
	ast.Inspect(detector.Body, func(n ast.Node) bool {
		rs, ok := n.(*ast.RangeStmt)
		if !ok {
			return true
		}
		cl, ok := ast.Unparen(rs.X).(*ast.CompositeLit)
		if !ok {
			return true
		}
		var names []string
		for _, e := range cl.Elts {
			if sv, ok := goan.StringVal(gen.TypesInfo, e); ok {
				names = append(names, sv)
			}
		}
		hasBreak := false
		ast.Inspect(rs.Body, func(m ast.Node) bool {
			if b, ok := m.(*ast.BranchStmt); ok && b.Tok == token.BREAK {
				hasBreak = true
			}
			return true
		})
		ia, in := -1, -1
		for i, nm := range names {
			if nm == "PackageAlias" {
				ia = i
			}
			if nm == "Name" {
				in = i
			}
		}
		if hasBreak && ia >= 0 && (in < 0 || ia < in) {
			aliasFirst = true
		}
		return true
	})
	c.Check(!aliasFirst, rule, "generator."+load.FuncName(detector)+" › objects identified by their own name", c.posOf(gen, detector.Pos()), "the package alias qualifies the name, it does not replace it",
		"the collision check takes the first non-empty of a field list in which PackageAlias precedes Name: every operation of one package has the same identity, so two operation ids mangled to one file overwrite each other again")
	c.Check(bySpecName, rule, "generator."+load.FuncName(detector)+" › objects identified by their spec name", c.posOf(gen, detector.Pos()), "reads the OriginalName field first",
		"the collision check identifies objects by their Go name (the spec name is not read, or only as a fallback): two definitions carrying the same x-go-name look like one object and overwrite each other silently")
	c.Check(returned, rule, "generator.GenOpts.write › collision error is returned", c.posOf(gen, callPos), "if err := …; err != nil { return err }", "the error of the collision check is not returned: generation goes on and overwrites the file")
	// no success return before the check (e.g. the skip_exists shortcut): a second object skipped
	// because the first one's file exists would never be reported
	early := ""
	ast.Inspect(fd.Body, func(n ast.Node) bool {
		if rs, ok := n.(*ast.ReturnStmt); ok && rs.Pos() < callPos && len(rs.Results) == 1 && goan.IsIdent(rs.Results[0], "nil") {
			early = c.posOf(gen, rs.Pos())
		}
		return true
	})
	c.Check(early == "", rule, "generator.GenOpts.write › no success return precedes the collision check", c.posOf(gen, callPos), "the check runs for every object that resolves to a target",
		"write() can return nil at "+early+" before the collision check: an object whose target already exists (skip_exists) is dropped without the collision being reported")
	// what is remembered is the file that is written: the key of the set is the path handed to the
	// check, nothing else (two templates, two packages or two objects writing one file collide), and
	// that path is the one os.WriteFile receives
	{
		var writePath ast.Expr
		ast.Inspect(fd.Body, func(n ast.Node) bool {
			if call, ok := n.(*ast.CallExpr); ok {
				if fn := goan.Callee(info, call); fn != nil && goan.CalleeName(fn) == "os.WriteFile" && len(call.Args) > 0 {
					writePath = call.Args[0]
				}
			}
			return true
		})
		var pathParam *types.Var
		samePath := false
		if writePath != nil {
			want := goan.ExprString(goan.ResolveLocal(info, fd.Body, writePath))
			sig := info.Defs[detector.Name].Type().(*types.Signature)
			for i, a := range detectorCall.Args {
				if goan.ExprString(goan.ResolveLocal(info, fd.Body, a)) == want && i < sig.Params().Len() {
					samePath, pathParam = true, sig.Params().At(i)
				}
			}
		}
		c.Check(samePath, rule, "generator.GenOpts.write › the collision check receives the path that is written", c.posOf(gen, callPos), "same expression as the first argument of os.WriteFile",
			"the collision check is not given the path os.WriteFile writes to: two objects written to one file are not recognised as such")
		if pathParam != nil {
			bad := ""
			ast.Inspect(detector.Body, func(n ast.Node) bool {
				ix, ok := n.(*ast.IndexExpr)
				if !ok {
					return true
				}
				if _, isMap := info.TypeOf(ix.X).Underlying().(*types.Map); !isMap {
					return true
				}
				if se, ok := ast.Unparen(ix.X).(*ast.SelectorExpr); !ok || info.Uses[se.Sel] == nil || !info.Uses[se.Sel].(*types.Var).IsField() {
					return true
				}
				k := goan.ResolveLocal(info, detector.Body, ix.Index)
				if id, ok := ast.Unparen(k).(*ast.Ident); !ok || info.Uses[id] != pathParam {
					bad = goan.ExprString(k)
				}
				return true
			})
			c.Check(bad == "", rule, "generator."+load.FuncName(detector)+" › generated targets are keyed by the written path", c.posOf(gen, detector.Pos()), "key = the path parameter",
				"the set of generated targets is keyed by `"+bad+"`, not by the path of the file alone: two objects that differ in the rest of the key are written to the same file, the second over the first, without an error")
		}
	}
	c.Check(firstWrite != token.NoPos && callPos < firstWrite, rule, "generator.GenOpts.write › collision check precedes every file-system write", c.posOf(gen, callPos), "top-level statement before os.MkdirAll / os.WriteFile", "the collision check comes after the file was written")
}

// detectsCollision: the function reads a map field of its receiver with a comma-ok lookup,
// returns a non-nil error under a condition that depends on the looked-up value, and stores
// into the same map.
func detectsCollision(info *types.Info, fd *ast.FuncDecl) bool {
	if fd.Recv == nil || len(fd.Recv.List) == 0 || len(fd.Recv.List[0].Names) == 0 {
		return false
	}
	var mapField string
	lookup, store, errRet := false, false, false
	ast.Inspect(fd.Body, func(n ast.Node) bool {
		switch x := n.(type) {
		case *ast.AssignStmt:
			if len(x.Lhs) == 2 && len(x.Rhs) == 1 {
				if ix, ok := x.Rhs[0].(*ast.IndexExpr); ok {
					if _, isMap := info.TypeOf(ix.X).Underlying().(*types.Map); isMap {
						mapField = goan.ExprString(ix.X)
						lookup = true
					}
				}
			}
			if len(x.Lhs) == 1 {
				if ix, ok := x.Lhs[0].(*ast.IndexExpr); ok && goan.ExprString(ix.X) == mapField && mapField != "" {
					store = true
				}
			}
		case *ast.ReturnStmt:
			if len(x.Results) == 1 {
				if call, ok := x.Results[0].(*ast.CallExpr); ok {
					if fn := goan.Callee(info, call); fn != nil && (goan.CalleeName(fn) == "fmt.Errorf" || goan.CalleeName(fn) == "errors.New") {
						errRet = true
					}
				}
			}
		}
		return true
	})
	return lookup && store && errRet
}

// checkRouteClash: the builder template registers handlers under (METHOD, path.Clean(path));
// the Go side must refuse, for a server, two operations that share that key.
func checkRouteClash(c *Ctx, rule string, gen *packages.Package) {
	c.Rule(rule, "planning a server fails when two operations share a slot of the router (method + cleaned path with parameter names erased)", 1)
	fd := load.FuncDecl(gen, "appGenerator.makeCodegenApp")
	if fd == nil {
		c.Anchor(rule, "generator.appGenerator.makeCodegenApp", "not found")
		return
	}
	info := gen.TypesInfo
	found, pos := false, fd.Pos()
	ast.Inspect(fd.Body, func(n ast.Node) bool {
		rs, ok := n.(*ast.RangeStmt)
		if !ok || goan.NamedName(info.TypeOf(rs.X)) != "GenOperations" {
			return true
		}
		if _, isLocal := ast.Unparen(rs.X).(*ast.Ident); !isLocal {
			return true
		}
		lookup, errRet, cleaned, method, unnamed := false, false, false, false, false
		ast.Inspect(rs.Body, func(m ast.Node) bool {
			switch x := m.(type) {
			case *ast.AssignStmt:
				if len(x.Lhs) == 2 && len(x.Rhs) == 1 {
					if ix, ok := x.Rhs[0].(*ast.IndexExpr); ok {
						if _, isMap := info.TypeOf(ix.X).Underlying().(*types.Map); isMap {
							lookup = true
						}
					}
				}
			case *ast.CallExpr:
				if fn := goan.Callee(info, x); fn != nil && goan.CalleeName(fn) == "path.Clean" && len(x.Args) == 1 && goan.LastSel(x.Args[0]) == "Path" {
					cleaned = true
				}
				// parameter names are erased: <package-level regexp>.ReplaceAllString(…, <const>) maps /a/{x} and /a/{yy} to the same text
				if se, ok := x.Fun.(*ast.SelectorExpr); ok && se.Sel.Name == "ReplaceAllString" && len(x.Args) == 2 {
					if lit, ok := packageRegexpLiteral(gen, se.X); ok {
						if repl, ok := goan.StringVal(info, x.Args[1]); ok {
							if rx, err := regexp.Compile(lit); err == nil && rx.ReplaceAllString("/a/{x}/b", repl) == rx.ReplaceAllString("/a/{yy}/b", repl) && rx.ReplaceAllString("/a/b", repl) == "/a/b" {
								unnamed = true
							}
						}
					}
				}
			case *ast.SelectorExpr:
				if x.Sel.Name == "Method" {
					method = true
				}
			case *ast.ReturnStmt:
				if len(x.Results) == 2 {
					if call, ok := x.Results[1].(*ast.CallExpr); ok {
						if fn := goan.Callee(info, call); fn != nil && goan.CalleeName(fn) == "fmt.Errorf" {
							errRet = true
						}
					}
				}
			}
			return true
		})
		// the clash table spans all operations: the loop is not nested in another loop (per
		// package / per tag) and the table is declared outside it
		nested := false
		ast.Inspect(fd.Body, func(m ast.Node) bool {
			switch m.(type) {
			case *ast.RangeStmt, *ast.ForStmt:
				if m != rs && m.Pos() < rs.Pos() && m.End() > rs.End() {
					nested = true
				}
			}
			return true
		})
		if lookup && errRet && cleaned && method && unnamed && !nested {
			found, pos = true, rs.Pos()
			// the only planning that may leave the table aside is a client's: every other exit of
			// the loop (a skipped iteration, an end before the last operation) is a clash not looked for
			for _, ex := range loopExitConds(info, rs) {
				c.Check(ex.cond == "‹GenOpts›.IsClient", rule, "generator.appGenerator.makeCodegenApp › route table › "+ex.kind+" only for a client", c.posOf(gen, ex.pos), "if IsClient",
					"the loop that looks for operations sharing a router slot is left ("+ex.kind+") under `"+ex.text+"`: the builder registers every handler under (method, cleaned path) whatever else is generated, so with that option two operations may share a slot and one of them is unreachable, without an error")
			}
		}
		return true
	})
	c.Check(found, rule, "generator.appGenerator.makeCodegenApp › clash of (method, path.Clean(path)) is an error", c.posOf(gen, pos), "lookup in a map keyed by method and cleaned path, error on a hit",
		"nothing refuses two operations that share a router slot (method + cleaned path with parameter names erased, e.g. GET /items and GET /items/, or GET /items/{id} and GET /items/{itemId}/): the handler registered last serves both and one operation is unreachable")
}

// packageRegexpLiteral: e is a package-level variable initialised by regexp.MustCompile(<literal>).
func packageRegexpLiteral(pk *packages.Package, e ast.Expr) (string, bool) {
	id, ok := ast.Unparen(e).(*ast.Ident)
	if !ok {
		return "", false
	}
	obj := pk.TypesInfo.Uses[id]
	if obj == nil || obj.Parent() != pk.Types.Scope() {
		return "", false
	}
	for _, f := range pk.Syntax {
		for _, d := range f.Decls {
			gd, ok := d.(*ast.GenDecl)
			if !ok || gd.Tok != token.VAR {
				continue
			}
			for _, sp := range gd.Specs {
				vs := sp.(*ast.ValueSpec)
				for i, nm := range vs.Names {
					if pk.TypesInfo.Defs[nm] != obj || i >= len(vs.Values) {
						continue
					}
					if call, ok := vs.Values[i].(*ast.CallExpr); ok && len(call.Args) == 1 {
						if fn := goan.Callee(pk.TypesInfo, call); fn != nil && goan.CalleeName(fn) == "regexp.MustCompile" {
							return goan.StringVal(pk.TypesInfo, call.Args[0])
						}
					}
				}
			}
		}
	}
	return "", false
}

// generatorLoopExits: the reviewed early exits of the generator's loops over input collections.
var generatorLoopExits = map[string]string{
	"generator.appGenerator.makeCodegenApp › loop over generator.GenOperation #1 › break #1":      "‹*generator.appGenerator›.GenOpts.IsClient ⇒ the loop only looks for two operations the server's router would merge; a client addresses both, so nothing is looked for (no element is written or skipped here)",
	"generator.clientGenerator.Generate › loop over generator.GenDefinition #1 › continue #1":     "‹generator.GenDefinition›.IsStream ⇒ generate client writes no model file for a definition that resolves to a stream (observed, DESIGN §9.3 round 8: left as the tool behaves since the snapshot); the server generator has no such exit",
	"generator.operationGenerator.Generate › loop over generator.GenOperation #1 › continue #1":   "‹*generator.operationGenerator›.GenOpts.DumpData ⇒ --dump-data prints the template data of every operation instead of rendering it",
	"generator.appGenerator.makeSecuritySchemes › loop over analysis.RequiredSecuritySchemes() #1 › conditional store #1": "‹bool› && ‹*spec.SecurityScheme› != nil ⇒ a scheme required by an operation but not defined in securityDefinitions has nothing to generate; the others are collected each in its own right",
	"generator.hasValidations › loop over spec.Schema #1 › answers true #1":                                               "‹spec.Schema›.Ref.String() != \"\" || hasValidations(&‹spec.Schema›, false) ⇒ an allOf member that is a $ref, or that carries validations of its own (looked for recursively), makes the composed schema validatable",
	"generator.codeGenOpBuilder.analyzeTags › loop over spec.Tag #1 › continue #1":                                        "‹spec.Tag›.Name != ‹string› ⇒ search for the tag object of the chosen tag name: other tags are passed over",
	"generator.codeGenOpBuilder.analyzeTags › loop over spec.Tag #1 › break #1":                                           "‹bool› ⇒ search: the tag was found and carries x-go-name",
	"generator.codeGenOpBuilder.analyzeTags › loop over spec.Tag #1 › break #2":                                           "‹bool› ⇒ search: the tag was found and carries x-go-operation-tag",
	"generator.makeGenDefinitionHierarchy › loop over spec.Schema #1 › continue #1":                                       "‹generator.schemaGenContext›.GenSchema.AllOf == nil ⇒ a subtype whose resolved allOf is empty has no branch to re-point at the base type (logged)",
	"generator.paramMappings › loop over spec.Parameter #1 › continue #1":                                                 "!‹bool› ⇒ parameter with an `in` outside the five locations: invalid spec, only reachable with --skip-validation (logged)",
	"generator.paramMappings › loop over spec.Parameter #1 › continue #2":                                                 "‹spec.Parameter›.Name == \"\" ⇒ unnamed parameter: invalid spec, only reachable with --skip-validation (logged)",
	"generator.schemaGenContext.buildAllOf › loop over spec.Schema #1 › continue #1":                                      "(‹generator.resolvedType›.IsAnonymous && len(‹spec.Schema›.AllOf) > 0) || (‹spec.Schema›.Ref.String() == \"\" && !‹generator.resolvedType›.IsComplexObject && (‹generator.resolvedType›.IsArray || ‹generator.resolvedType›.IsInterface || ‹generator.resolvedType›.IsPrimitive)) ⇒ end of the arm that handles a $ref'ed allOf member: the member has been merged and appended just above",
	"generator.schemaGenContext.liftSpecialAllOf › loop over spec.Schema #1 › break #1":                                   "len(‹spec.Schema›.Type) > 0 || len(‹spec.Schema›.Properties) > 0 || ‹spec.Schema›.Ref.GetURL() != nil || len(‹spec.Schema›.AllOf) > 0 ∧ ‹int› > 1 ⇒ counting candidates for the single-member lift: a second candidate settles that nothing is lifted",
	"generator.appGenerator.makeCodegenApp › loop over spec.Schema #1 › conditional store #1":                             "‹*generator.GenDefinition› != nil ∧ !‹*generator.GenDefinition›.External ⇒ external (x-go-type) models are imported, not generated",
	"generator.codeGenOpBuilder.MakeOperation › loop over spec.Parameter #1 › conditional store #1":                       "‹generator.GenParameter›.IsQueryParam() ⇒ parameters are sorted into per-location lists: query",
	"generator.codeGenOpBuilder.MakeOperation › loop over spec.Parameter #1 › conditional store #2":                       "‹generator.GenParameter›.IsFormParam() ⇒ per-location lists: formData",
	"generator.codeGenOpBuilder.MakeOperation › loop over spec.Parameter #1 › conditional store #3":                       "‹generator.GenParameter›.IsPathParam() ⇒ per-location lists: path",
	"generator.codeGenOpBuilder.MakeOperation › loop over spec.Parameter #1 › conditional store #4":                       "‹generator.GenParameter›.IsHeaderParam() ⇒ per-location lists: header (the full list `params` is appended to unconditionally)",
	"generator.discriminatorInfo › loop over analysis.SchemaRef #1 › conditional store #1":                                "‹analysis.SchemaRef›.Schema.Discriminator != \"\" ⇒ only definitions that declare a discriminator are base types",
	"generator.discriminatorInfo › loop over spec.Schema #1 › conditional store #1":                                       "‹spec.Schema›.Ref.String() != \"\" ∧ ‹bool› ⇒ only allOf members that $ref a base type make the definition a subtype",
	"generator.discriminatorInfo › loop over spec.Schema #1 › conditional store #2":                                       "‹spec.Schema›.Ref.String() != \"\" ∧ ‹bool› ⇒ same arm: the subtype is registered with its base type",
	"generator.gatherModels › loop over spec.Schema #1 › conditional store #1":                                            "‹int› == 0 ⇒ no --model filter: every definition is selected (the filtered case follows)",
	"generator.schemaGenContext.buildAllOf › loop over spec.Schema #1 › conditional store #1":                             "(‹generator.resolvedType›.IsAnonymous && len(‹spec.Schema›.AllOf) > 0) || (‹spec.Schema›.Ref.String() == \"\" && !‹generator.resolvedType›.IsComplexObject && (‹generator.resolvedType›.IsArray || ‹generator.resolvedType›.IsInterface || ‹generator.resolvedType›.IsPrimitive)) ⇒ an anonymous complex allOf member is replaced by a $ref to the struct generated for it",
	"generator.schemaGenContext.buildAllOf › loop over spec.Schema #1 › conditional store #2":                             "(‹generator.resolvedType›.IsAnonymous && len(‹spec.Schema›.AllOf) > 0) || (‹spec.Schema›.Ref.String() == \"\" && !‹generator.resolvedType›.IsComplexObject && (‹generator.resolvedType›.IsArray || ‹generator.resolvedType›.IsInterface || ‹generator.resolvedType›.IsPrimitive)) ⇒ arm of $ref'ed members (the other members are appended at the end of the iteration)",
	"generator.schemaGenContext.buildProperties › loop over spec.Schema #1 › conditional store #1":                        "‹generator.resolvedType›.IsComplexObject && ‹generator.resolvedType›.IsAnonymous && len(‹spec.Schema›.Properties) > 0 ⇒ an anonymous complex property gets its own struct, recorded among the extra schemas",
	"generator.sortedResponses › loop over spec.Response #1 › conditional store #1":                                       "‹int› > 0 ⇒ status codes only: the default response (code ≤ 0) is handled separately",
}

// checkGenOptsNotCopied: GenOpts carries the registry of files written so far (the collision
// check) and is handed around by pointer; a copy made before the registry exists gets a registry of
// its own, and two objects mangled to one file name are no longer told apart.
func checkGenOptsNotCopied(c *Ctx, rule string, gen *packages.Package) {
	c.Rule(rule, "GenOpts is never copied by value (`x := *opts`, a GenOpts-typed composite copy): every generator of a run shares the one registry of written files", 1)
	info := gen.TypesInfo
	obj := gen.Types.Scope().Lookup("GenOpts")
	if obj == nil {
		c.Anchor(rule, "generator.GenOpts", "not found")
		return
	}
	hasRegistry := false
	var look func(t types.Type, depth int)
	look = func(t types.Type, depth int) {
		st, _ := t.Underlying().(*types.Struct)
		if st == nil || depth > 3 {
			return
		}
		for i := 0; i < st.NumFields(); i++ {
			f := st.Field(i)
			if _, isMap := f.Type().Underlying().(*types.Map); isMap && strings.Contains(strings.ToLower(f.Name()), "target") {
				hasRegistry = true
			}
			if f.Embedded() {
				look(f.Type(), depth+1)
			}
		}
	}
	look(obj.Type(), 0)
	c.Check(hasRegistry, rule, "generator.GenOpts › carries the registry of written targets", c.posOf(gen, obj.Pos()), "a map-typed field holds the targets written so far", "GenOpts no longer carries the registry of written files: this rule has nothing to protect (review it)")
	for _, fd := range load.AllFuncs(gen) {
		fd := fd
		ast.Inspect(fd.Body, func(n ast.Node) bool {
			se, ok := n.(*ast.StarExpr)
			if !ok {
				return true
			}
			tv, ok := info.Types[se]
			if !ok || !tv.IsValue() {
				return true
			}
			if goan.NamedName(tv.Type) != "GenOpts" {
				return true
			}
			// a dereference used as a value: is it being copied (assigned, passed, put in a literal) rather than selected from?
			copied := true
			ast.Inspect(fd.Body, func(m ast.Node) bool {
				if sel, ok := m.(*ast.SelectorExpr); ok && ast.Unparen(sel.X) == ast.Expr(se) {
					copied = false
				}
				if as, ok := m.(*ast.AssignStmt); ok {
					for _, l := range as.Lhs {
						if ast.Unparen(l) == ast.Expr(se) {
							copied = false // *p = v stores into the shared value
						}
					}
				}
				return true
			})
			if copied {
				c.Bad(rule, fmt.Sprintf("generator.%s › %s copied by value", load.FuncName(fd), goan.ExprString(se)), c.posOf(gen, se.Pos()),
					"GenOpts is copied by value: the copy has its own (possibly nil) registry of written files, so the collision check no longer sees what the other generators of the run wrote")
			}
			return true
		})
	}
}

// generatorFieldsNotSet: literals of generator structs that leave out a field other literals set, reviewed.
var generatorFieldsNotSet = map[string]string{
	"codeGenOpBuilder.buildOperationSchema › schemaGenContext.Discrimination":       "schemas inlined in operations are not discriminated types",
	"codeGenOpBuilder.buildOperationSchema › schemaGenContext.WantsRootedErrorPath": "deviant, left alone: the --rooted-error-path option is not carried into schemas inlined in operations; it changes the path printed in validation errors only",
	"codeGenOpBuilder.buildOperationSchema › schemaGenContext.WithXML":              "deviant, left alone: the --with-xml option is not carried into schemas inlined in operations; it adds xml struct tags only",
	"schemaGenContext.makeNewStruct › schemaGenContext.WantsRootedErrorPath":        "deviant, left alone: not carried into the structs generated for anonymous objects; error paths only",
	"schemaGenContext.makeNewStruct › schemaGenContext.WithXML":                     "deviant, left alone: not carried into the structs generated for anonymous objects; xml struct tags only",
}

type loopExit struct {
	kind, cond, text string
	pos              token.Pos
}

// loopExitConds: the break and continue statements of a loop body (not those of inner loops or
// switches) with the conjunction of the conditions they sit under, fields of the options
// written ‹GenOpts›.F whatever the path that leads to them.
func loopExitConds(info *types.Info, rs *ast.RangeStmt) []loopExit {
	var out []loopExit
	norm := func(e ast.Expr) string {
		if se, ok := ast.Unparen(e).(*ast.SelectorExpr); ok {
			if n := goan.NamedName(info.TypeOf(se.X)); n == "GenOpts" {
				return "‹GenOpts›." + se.Sel.Name
			}
		}
		return goan.ExprString(e)
	}
	var walk func(list []ast.Stmt, conds []string, texts []string)
	walk = func(list []ast.Stmt, conds []string, texts []string) {
		for _, st := range list {
			switch x := st.(type) {
			case *ast.BranchStmt:
				if x.Tok == token.BREAK || x.Tok == token.CONTINUE {
					out = append(out, loopExit{kind: x.Tok.String(), cond: strings.Join(conds, " ∧ "), text: strings.Join(texts, " && "), pos: x.Pos()})
				}
			case *ast.IfStmt:
				walk(x.Body.List, append(append([]string{}, conds...), norm(x.Cond)), append(append([]string{}, texts...), goan.ExprString(x.Cond)))
				if x.Else != nil {
					if b, ok := x.Else.(*ast.BlockStmt); ok {
						walk(b.List, append(append([]string{}, conds...), "!("+norm(x.Cond)+")"), append(append([]string{}, texts...), "!("+goan.ExprString(x.Cond)+")"))
					} else {
						walk([]ast.Stmt{x.Else}, append(append([]string{}, conds...), "!("+norm(x.Cond)+")"), append(append([]string{}, texts...), "!("+goan.ExprString(x.Cond)+")"))
					}
				}
			case *ast.BlockStmt:
				walk(x.List, conds, texts)
			}
		}
	}
	walk(rs.Body.List, nil, nil)
	return out
}

// checkTagSelection: whether `--tags` selects an operation is a matter of its tags and the
// filter alone: the answer of analyzeTags reads `filter` and the intersection, nothing that is
// only filled in some modes (the package tag is empty with --skip-tag-packages).
func checkTagSelection(c *Ctx, rule string, gen *packages.Package) {
	fd := load.FuncDecl(gen, "codeGenOpBuilder.analyzeTags")
	if fd == nil {
		c.Anchor(rule, "generator.codeGenOpBuilder.analyzeTags", "not found")
		return
	}
	info := gen.TypesInfo
	n := 0
	ast.Inspect(fd.Body, func(m ast.Node) bool {
		rs, ok := m.(*ast.ReturnStmt)
		if !ok || len(rs.Results) != 3 {
			return true
		}
		n++
		var names []string
		seen := map[string]bool{}
		ast.Inspect(rs.Results[2], func(k ast.Node) bool {
			if id, ok := k.(*ast.Ident); ok {
				if v, isVar := info.Uses[id].(*types.Var); isVar && !seen[v.Name()] {
					// rendered by what the variable holds, not by its name
					what := "?"
					for _, a := range goan.AssignmentsTo(info, fd.Body, v) {
						if a.Rhs == nil {
							continue
						}
						txt := goan.ExprString(a.Rhs)
						switch {
						case strings.Contains(txt, "intersectTags("):
							what = "intersection"
						case strings.HasSuffix(txt, ".Tags") && strings.Contains(txt, "GenOpts"):
							what = "filter"
						}
					}
					seen[v.Name()] = true
					names = append(names, what)
				}
			}
			return true
		})
		sort.Strings(names)
		got := strings.Join(names, ",")
		c.Check(got == "filter,intersection", rule, "generator.codeGenOpBuilder.analyzeTags › selected by --tags", c.posOf(gen, rs.Pos()), "decided from the filter and its intersection with the operation's tags",
			fmt.Sprintf("the answer reads [%s]: a value that is not the filter or the intersection (the package tag, empty under --skip-tag-packages or an empty x-go-operation-tag) decides whether the operation is planned — with --tags every selected operation can be dropped, and generation still exits 0", got))
		return true
	})
	if n == 0 {
		c.Anchor(rule, "generator.codeGenOpBuilder.analyzeTags › return", "no three-valued return")
	}
}

// checkAliasRename: when the import alias of an operation package is found taken, the name that
// is renamed is that alias — the one that was looked up — and the renamed alias is what gets
// registered. Renaming the package name instead gives an alias of another family, which may be
// the very alias another package holds: two packages are merged into one group.
func checkAliasRename(c *Ctx, rule string, gen *packages.Package) {
	fd := load.FuncDecl(gen, "appGenerator.makeCodegenApp")
	if fd == nil {
		c.Anchor(rule, "generator.appGenerator.makeCodegenApp", "not found")
		return
	}
	info := gen.TypesInfo
	n := 0
	ast.Inspect(fd.Body, func(m ast.Node) bool {
		as, ok := m.(*ast.AssignStmt)
		if !ok || len(as.Lhs) != 2 || len(as.Rhs) != 1 {
			return true
		}
		ix, ok := ast.Unparen(as.Rhs[0]).(*ast.IndexExpr)
		if !ok {
			return true
		}
		if _, isMap := info.TypeOf(ix.X).Underlying().(*types.Map); !isMap {
			return true
		}
		key := goan.ExprString(ix.Index)
		okv, _ := as.Lhs[1].(*ast.Ident)
		if okv == nil {
			return true
		}
		okObj := info.ObjectOf(okv)
		// the branch taken when the alias is in use
		ast.Inspect(fd.Body, func(k ast.Node) bool {
			ifs, ok := k.(*ast.IfStmt)
			if !ok || ifs.Pos() < as.Pos() {
				return true
			}
			uses := false
			ast.Inspect(ifs.Cond, func(u ast.Node) bool {
				if id, ok := u.(*ast.Ident); ok && info.Uses[id] == okObj {
					uses = true
				}
				return true
			})
			if !uses {
				return true
			}
			// names that hold a renamed alias (renamed again when the new alias is taken too)
			renamed := map[string]bool{key: true}
			ast.Inspect(ifs.Body, func(u ast.Node) bool {
				if as2, ok := u.(*ast.AssignStmt); ok && len(as2.Lhs) == 1 && len(as2.Rhs) == 1 {
					if rc, ok := ast.Unparen(as2.Rhs[0]).(*ast.CallExpr); ok {
						if fn := goan.Callee(info, rc); fn != nil && fn.Name() == "renameOperationPackage" {
							renamed[goan.ExprString(as2.Lhs[0])] = true
						}
					}
				}
				return true
			})
			// the alias made for a taken alias is looked up in its turn, until one is free
			again := false
			ast.Inspect(ifs.Body, func(u ast.Node) bool {
				fs, ok := u.(*ast.ForStmt)
				if !ok {
					return true
				}
				looks, renames := false, false
				ast.Inspect(fs, func(w ast.Node) bool {
					switch x := w.(type) {
					case *ast.IndexExpr:
						if goan.ExprString(x.X) == goan.ExprString(ix.X) {
							looks = true
						}
					case *ast.CallExpr:
						if fn := goan.Callee(info, x); fn != nil && fn.Name() == "renameOperationPackage" {
							renames = true
						}
					}
					return true
				})
				again = again || (looks && renames)
				return true
			})
			c.Check(again, rule, "generator.appGenerator.makeCodegenApp › a renamed alias is looked up again", c.posOf(gen, ifs.Pos()), "loop: while the new alias is taken, rename again",
				"the alias made for a taken alias is registered without being looked up: with tags api, apiops and apiopsops the package `api` is renamed apiops, then apiopsops — which another package holds — and two packages share one alias: exit 0, and neither server nor client builds")
			ast.Inspect(ifs.Body, func(u ast.Node) bool {
				call, ok := u.(*ast.CallExpr)
				if !ok {
					return true
				}
				if fn := goan.Callee(info, call); fn == nil || fn.Name() != "renameOperationPackage" || len(call.Args) != 2 {
					return true
				}
				n++
				if renamed[goan.ExprString(call.Args[1])] && goan.ExprString(call.Args[1]) != key {
					return true // a second renaming of the alias just made
				}
				c.Check(goan.ExprString(call.Args[1]) == key, rule, "generator.appGenerator.makeCodegenApp › the alias found taken is the one renamed", c.posOf(gen, call.Pos()), "renameOperationPackage(…, "+key+")",
					fmt.Sprintf("the alias looked up is `%s` but the name renamed is `%s`: for a package whose alias already differs from its name (api → apiops) the new alias is made from the name and may be one another package holds — both packages end up in one group, one client package is never written and the generated code does not build, with exit status 0", key, goan.ExprString(call.Args[1])))
				return true
			})
			return true
		})
		return true
	})
	if n == 0 {
		c.Anchor(rule, "generator.appGenerator.makeCodegenApp › renameOperationPackage under an alias lookup", "not found")
	}
}
