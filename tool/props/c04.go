package props

import (
	"fmt"
	"go/ast"
	"go/token"
	"go/types"
	"regexp"
	"sort"
	"strings"

	"golang.org/x/tools/go/packages"

	"verif/tool/goan"
	"verif/tool/load"
	"verif/tool/tmpl"
)

func init() { register("C04", checkC04) }

var fileRewindRule = emitRule{Name: "uploaded file is rewound after its size was measured", Trees: []string{"serverParameter"}, Rx: `size, _ := file\.Seek\(0, io\.SeekEnd\)\s*file\.Seek\(0, io\.SeekStart\)`, Need: []guardAtom{{"IsFileParam", +1}}, Min: 1,
	Why: "measuring the upload seeks to its end; without a rewind to the start the handler reads an empty file"}

var clientWireRules = []emitRule{
	fileRewindRule,
	{Name: "client query values are named by the spec name", Trees: []string{"clientParameter"}, Rx: `r\.SetQueryParam\(`, Need: []guardAtom{{"IsQueryParam", +1}}, Args: []string{"Name"}, Min: 2,
		Why: "the client writes a query parameter under the name the server reads it from"},
	{Name: "client path values are named by the spec name", Trees: []string{"clientParameter"}, Rx: `r\.SetPathParam\(`, Need: []guardAtom{{"IsPathParam", +1}}, Args: []string{"Name"}, Min: 2,
		Why: "the client writes a path parameter under the name of the route template"},
	{Name: "client header values are named by the spec name", Trees: []string{"clientParameter"}, Rx: `r\.SetHeaderParam\(`, Need: []guardAtom{{"IsHeaderParam", +1}}, Args: []string{"Name"}, Min: 2,
		Why: "the client writes a header under the name the server reads it from"},
	{Name: "client form values are named by the spec name", Trees: []string{"clientParameter"}, Rx: `r\.SetFormParam\(`, Need: []guardAtom{{"IsFormParam", +1}}, Args: []string{"Name"}, Min: 2,
		Why: "the client writes a form field under the name the server reads it from"},
	{Name: "client file values are named by the spec name", Trees: []string{"clientParameter"}, Rx: `r\.SetFileParam\(`, Need: []guardAtom{{"IsFormParam", +1}, {"IsFileParam", +1}}, Args: []string{"Name"}, Min: 1,
		Why: "file uploads are form parts named after the parameter"},
	{Name: "client body is sent", Trees: []string{"clientParameter"}, Rx: `r\.SetBodyParam\(⟦\.ValueExpression⟧\)`, Need: []guardAtom{{"IsBodyParam", +1}}, Min: 1,
		Why: "the body parameter is the request body"},
	{Name: "client joins collections by the declared collectionFormat", Trees: []string{"clientParameter", "sliceclientparambinder"}, Rx: `swag\.JoinByFormat\(`, Args: []string{"CollectionFormat"}, Min: 2,
		Why: "the client must join with the separator the server splits on"},
	{Name: "client splits response header collections by the declared collectionFormat", Trees: []string{"sliceclientheaderbinder"}, Rx: `swag\.SplitByFormat\(`, Args: []string{"CollectionFormat"}, Min: 1,
		Why: "the client must split with the separator the server joined with"},
	{Name: "server joins response header collections by the declared collectionFormat", Trees: []string{"sliceserverheaderbuilder"}, Rx: `swag\.JoinByFormat\(`, Args: []string{"CollectionFormat"}, Min: 2,
		Why: "the server must join with the separator the client splits on"},
	{Name: "server response headers are named by the spec name", Trees: []string{"simpleserverheaderbuilder", "sliceserverheaderbuilder"}, Rx: `rw\.Header\(\)\.Set\(`, Args: []string{"Name"}, Min: 2,
		Why: "the server writes a response header under the name the client reads"},
	{Name: "client response headers are read by the spec name", Trees: []string{"clientresponse"}, Rx: `response\.GetHeader\("⟦\.Name⟧"\)`, Min: 1,
		Why: "the client reads a response header under the name the server wrote"},
	{Name: "client formats primitive values with the formatter of their type", Trees: []string{"clientParameter", "sliceclientparambinder"}, Rx: `⟦\.Formatter⟧\(`, Need: []guardAtom{{"Formatter", +1}}, Min: 5,
		Why: "non-string values are rendered by the formatter that the server-side converter inverts"},
	{Name: "server formats response header values with the formatter of their type", Trees: []string{"simpleserverheaderbuilder", "sliceitemserverheaderbuilder"}, Rx: `⟦\.Formatter⟧\(`, Need: []guardAtom{{"Formatter", +1}}, Min: 4,
		Why: "non-string header values are rendered by the formatter that the client-side converter inverts"},
	{Name: "client converts response header values with the converter of their type", Trees: []string{"clientresponse", "sliceclientheaderbinder"}, Rx: `⟦\.Converter⟧\(`, Need: []guardAtom{{"Converter", +1}}, Min: 2,
		Why: "non-string header values are parsed by the converter"},
	{Name: "client sends produces/consumes of the operation", Trees: []string{"clientClient"}, Rx: `ProducesMediaTypes: ⟦printf "%#v" \.ProducesMediaTypes⟧,\s*ConsumesMediaTypes: ⟦printf "%#v" \.ConsumesMediaTypes⟧,`, Min: 1,
		Why: "Accept is negotiated from produces and Content-Type from consumes"},
	{Name: "client operation carries method and path of the spec", Trees: []string{"clientClient"}, Rx: `Method: ⟦printf "%q" \.Method⟧,\s*PathPattern: ⟦printf "%q" \.Path⟧,`, Min: 1,
		Why: "the request goes to the operation's own method and path"},
	{Name: "server writes the declared status code", Trees: []string{"serverresponse"}, Rx: `rw\.WriteHeader\(⟦\.ReceiverName⟧\._statusCode⟦\.Code⟧\)`, Min: 1,
		Why: "the status is the response's own code (the run-time one for the default response)"},
	{Name: "server produces the payload", Trees: []string{"serverresponse"}, Rx: `producer\.Produce\(rw, payload\); err != nil \{`, Need: []guardAtom{{"Schema", +1}}, Min: 1,
		Why: "the payload of the responder is what gets written"},
	{Name: "client consumes the payload", Trees: []string{"clientresponse"}, Rx: `consumer\.Consume\(response\.Body\(\), [^\n]*\.Payload\); err != nil && err != io\.EOF \{\s*return err`, Need: []guardAtom{{"Schema", +1}}, Min: 1,
		Why: "the payload read is the response body"},
}

func checkC04(c *Ctx) {
	c.Explain("generated client and server interoperate losslessly — structural conditions on the sibling encoders/decoders: (R1) wire agreement: both sides name values by the spec name and use the setter/accessor of the parameter's own location for scalars and arrays, join and split collections by the declared collectionFormat, format and convert with paired tables, and assert the pointer type that strfmt's Parse returns; (R2) response dispatch: the client reader has a case per declared code returning the typed result as value (2xx) or as error, the default arm classifies by the run-time code, an undeclared code yields runtime.NewAPIError carrying that code, the server writes the response's own code; (R3) Go side: success classification, code propagation, produces/consumes fall-backs taken from the matching lists, polymorphic subtypes registered under the value they emit. " +
		"Decides pairing, placement and table agreement; it does not decide equality of any concrete value after a round trip.")
	c.Assume("swag.JoinByFormat / SplitByFormat and swag.Format* / Convert* are mutual inverses on the values of C04's quantifier; go-openapi/runtime sends and routes what the generated code hands it")
	ev, _, gen := c.evalTemplates("")

	c.Rule("C04.R1.wire", "client encoders and server decoders (and response header writers/readers) use the spec name, the own-location setter, the declared collectionFormat and the paired formatter/converter", 30)
	checkEmitRules(c, "C04.R1.wire", ev, clientWireRules)
	checkClientLocations(c, ev)
	checkBinderLocations(c, "C04.R1.server-locations", ev)
	// the request must reach the handler of the operation the client method was generated for
	c.Rule("C04.R1.routing", "the server registers and looks up every operation under its own method and path; the client method carries the same id, method and path", 8)
	checkEmitRules(c, "C04.R1.routing", ev, registrationRules)
	checkFormatterTables(c, gen)
	checkParsePointerAssertions(c, ev, gen)

	checkOptionalFile(c, "C04.R1.optional-file", ev)
	// client and server must read the same flags off a parameter (the client skips what the server requires …)
	checkParamFlags(c, "C04.R1.param-flags", gen)
	checkFormatGuards(c, "C04.R1.format-guards", ev, 2)
	// a valid body must reach the handler: the validator of a body array looks at the stored body
	checkSliceValidatorSeesValue(c, "C04.R1.validated-value", ev)
	// what both sides decode of a body with additional properties: declared keys leave the extras map by their JSON name
	c.Rule("C04.R1.decode-keys", "a declared property is removed from the additional-properties map by its JSON name before the rest is decoded as additional properties", 2)
	checkEmitRules(c, "C04.R1.decode-keys", ev, []emitRule{serializerRules[2]})
	checkHeaderWriterGuards(c, ev)
	checkIndexedJoins(c, ev)
	checkInnerArraysKept(c, "C04.R1.inner-arrays-kept", ev)
	checkFacadeFormats(c, ev)
	// the generated server routes on the embedded flattened document: it must be the flattened
	// document (a $ref'ed path item of the original has no operations to route)
	checkEmbeddedStores(c, "C04.R1.routed-document", gen)

	checkResponseDispatch(c, ev)
	checkResponseGo(c, gen)
	checkMediaFamilies(c, "C04.R3.media", gen)
	checkMediaTable(c, "C04.R3.media-table", gen)
	checkDefaultMedia(c, gen)
	checkDiscriminatorAgreement(c, "C04.R3.discriminator", gen)
}

// checkClientLocations: the innermost location guard of each client setter is its own.
func checkClientLocations(c *Ctx, ev *tmpl.Evaluator) {
	rule := "C04.R1.locations"
	c.Rule(rule, "WriteToRequest writes each parameter with the setter of its own location, for scalars and arrays alike; the server reads it with the accessor of the same location (C03.R2.locations)", 8)
	l := linearOf(c, ev, "clientParameter")
	if l == nil {
		c.Anchor(rule, "template clientParameter", "not found")
		return
	}
	locs := []string{"IsQueryParam", "IsPathParam", "IsHeaderParam", "IsFormParam"}
	for _, a := range []struct{ loc, rx string }{
		{"IsQueryParam", `r\.SetQueryParam\(`}, {"IsPathParam", `r\.SetPathParam\(`}, {"IsHeaderParam", `r\.SetHeaderParam\(`}, {"IsFormParam", `r\.SetFormParam\(`},
	} {
		var scalar, array int
		for _, oc := range l.Find(regexp.MustCompile(loosen(a.rx))) {
			own := innermostPositive(oc.Guards, locs) == a.loc
			isArr := innermostArrayPositive(oc.Guards)
			if isArr {
				array++
			} else {
				scalar++
			}
			c.Check(own, rule, fmt.Sprintf("clientParameter › WriteToRequest › %s setter (array=%v)", a.loc, isArr), l.Tree.PosStr(oc.Pos), "innermost location guard is its own",
				fmt.Sprintf("%s is emitted under [%s]: the value is written to another part of the request than the one the server reads", a.rx, tmpl.GuardString(oc.Guards)))
		}
		c.Check(scalar >= 1 && array >= 1, rule, fmt.Sprintf("clientParameter › WriteToRequest › %s has scalar and array arms", a.loc), l.Tree.File, fmt.Sprintf("%d scalar, %d array", scalar, array),
			fmt.Sprintf("%s: %d scalar and %d array arms: parameters of that location and arity are never sent", a.loc, scalar, array))
	}
}

func innermostArrayPositive(gs []tmpl.Guard) bool {
	for i := len(gs) - 1; i >= 0; i-- {
		if !tmpl.GuardHas([]tmpl.Guard{gs[i]}, "IsArray", 0) {
			continue
		}
		return tmpl.GuardHas([]tmpl.Guard{gs[i]}, "IsArray", +1) && !tmpl.GuardHas([]tmpl.Guard{gs[i]}, "IsArray", -1)
	}
	return false
}

// checkFormatterTables: stringConverters and stringFormatters have the same keys and pair
// swag.Convert<X> with swag.Format<X>.
func checkFormatterTables(c *Ctx, gen *packages.Package) {
	rule := "C04.R1.tables"
	c.Rule(rule, "stringConverters and stringFormatters are defined on the same Go types and pair swag.Convert<T> with swag.Format<T>", 11)
	conv := stringTable(gen, "stringConverters")
	form := stringTable(gen, "stringFormatters")
	if conv == nil || form == nil {
		c.Anchor(rule, "generator.stringConverters / stringFormatters", "tables not found")
		return
	}
	keys := map[string]bool{}
	for k := range conv {
		keys[k] = true
	}
	for k := range form {
		keys[k] = true
	}
	for _, k := range sortedKeys(keys) {
		cv, fv := conv[k], form[k]
		ok := cv != "" && fv != "" && strings.TrimPrefix(cv, "swag.Convert") == strings.TrimPrefix(fv, "swag.Format") && strings.HasPrefix(cv, "swag.Convert") && strings.HasPrefix(fv, "swag.Format") &&
			strings.EqualFold(strings.TrimPrefix(cv, "swag.Convert"), k)
		c.Check(ok, rule, "generator.stringConverters/stringFormatters › "+k, "generator/formats.go", cv+" ↔ "+fv, fmt.Sprintf("type %s: converter %q and formatter %q are not the pair of that type: a value formatted by one side is not parsed back by the other", k, cv, fv))
	}
}

func stringTable(pk *packages.Package, name string) map[string]string {
	cl := goan.FindCompositeAssign(pk, name)
	if cl == nil {
		return nil
	}
	out := map[string]string{}
	for _, r := range goan.Rows(cl) {
		k, ok1 := goan.StringVal(pk.TypesInfo, r.Key)
		v, ok2 := goan.StringVal(pk.TypesInfo, r.Val)
		if ok1 && ok2 {
			out[k] = v
		}
	}
	return out
}

var parseAssertRx = regexp.MustCompile(`\b(val[A-Za-z⟦⟧ \.]*|value|\(&val\))\.\((\*?)⟦\s*\.GoType\s*⟧\)`)

// checkParsePointerAssertions: strfmt's Registry.Parse returns reflect.New(T).Interface(), a
// pointer; every type assertion applied to its result in the templates must assert *T.
func checkParsePointerAssertions(c *Ctx, ev *tmpl.Evaluator, gen *packages.Package) {
	rule := "C04.R1.parse-assertions"
	c.Rule(rule, "every type assertion on the result of formats.Parse asserts the pointer type that strfmt returns", 4)
	// fact from the dependency: defaultFormats.Parse returns the result of reflect.New(...).Interface()
	prog := c.ProgDeps("./generator", "github.com/go-openapi/runtime/yamlpc")
	sf := prog.ByPath["github.com/go-openapi/strfmt"]
	returnsPtr := false
	if sf != nil {
		if fd := load.FuncDecl(sf, "defaultFormats.Parse"); fd != nil {
			ast.Inspect(fd.Body, func(n ast.Node) bool {
				if call, ok := n.(*ast.CallExpr); ok {
					if fn := goan.Callee(sf.TypesInfo, call); fn != nil && goan.CalleeName(fn) == "reflect.New" {
						returnsPtr = true
					}
				}
				return true
			})
		}
	}
	if !returnsPtr {
		c.Anchor(rule, "github.com/go-openapi/strfmt.defaultFormats.Parse", "could not establish that Parse returns reflect.New(T).Interface()")
		return
	}
	// IsNullable is never set on headers and header items: the nullable arms of the client
	// header binders are dead
	hdrNullable := false
	for _, fn := range []string{"codeGenOpBuilder.MakeHeader", "codeGenOpBuilder.MakeHeaderItem"} {
		fd := load.FuncDecl(gen, fn)
		if fd == nil {
			c.Anchor(rule, "generator."+fn, "not found")
			return
		}
		ast.Inspect(fd.Body, func(n ast.Node) bool {
			if as, ok := n.(*ast.AssignStmt); ok {
				for _, l := range as.Lhs {
					if goan.LastSel(l) == "IsNullable" {
						hdrNullable = true
					}
				}
			}
			if kv, ok := n.(*ast.KeyValueExpr); ok && goan.IsIdent(kv.Key, "IsNullable") {
				hdrNullable = true
			}
			return true
		})
	}
	if fd := load.FuncDecl(gen, "simpleResolvedType"); fd != nil {
		ast.Inspect(fd.Body, func(n ast.Node) bool {
			if as, ok := n.(*ast.AssignStmt); ok && len(as.Lhs) == 1 && goan.LastSel(as.Lhs[0]) == "IsNullable" && !goan.IsIdent(as.Rhs[0], "false") {
				hdrNullable = true
			}
			return true
		})
	}
	for _, tn := range ev.F.Names() {
		l := linearOf(c, ev, tn)
		if !strings.Contains(l.Text, "formats.Parse(") {
			continue
		}
		k := 0
		for _, oc := range l.Find(parseAssertRx) {
			k++
			key := fmt.Sprintf("%s › %s › assertion on formats.Parse result #%d", l.Tree.Asset, tn, k)
			isHeaderTree := tn == "clientresponse" || tn == "sliceclientheaderbinder"
			if isHeaderTree && !hdrNullable && tmpl.GuardHas(oc.Guards, "IsNullable", +1) && innermostNullablePositive(oc.Guards) {
				c.Ok(rule, key, l.Tree.PosStr(oc.Pos), "dead arm: IsNullable is never set on response headers or their items (MakeHeader, MakeHeaderItem, simpleResolvedType)")
				continue
			}
			// a value-type assertion is sound after the pointer has been unwrapped: `if p, ok := val.(*T); ok { val = *p }` just before
			if oc.Match[2] != "*" {
				before := l.Text[:oc.Start]
				if i := strings.LastIndex(before, "formats.Parse("); i >= 0 {
					before = before[i:]
				}
				if regexp.MustCompile(`if (\w+), \w+ := ` + regexp.QuoteMeta(oc.Match[1]) + `\.\(\*[^)]+\); \w+ \{[^{}]*` + regexp.QuoteMeta(oc.Match[1]) + ` = \*(\w+)\s*\}`).MatchString(before) {
					c.Ok(rule, key, l.Tree.PosStr(oc.Pos), "value assertion after the pointer Parse returned has been dereferenced")
					continue
				}
			}
			c.Check(oc.Match[2] == "*" && oc.Match[1] != "(&val)", rule, key, l.Tree.PosStr(oc.Pos), "asserts *T",
				fmt.Sprintf("`%s` asserts the value type, but strfmt's Parse returns a pointer (reflect.New(T).Interface()): the generated code panics on the first value it parses", strings.TrimSpace(l.Text[oc.Start:oc.End])))
		}
	}
}

func innermostNullablePositive(gs []tmpl.Guard) bool {
	for i := len(gs) - 1; i >= 0; i-- {
		if tmpl.GuardHas([]tmpl.Guard{gs[i]}, "IsNullable", +1) {
			return true
		}
		if tmpl.GuardHas([]tmpl.Guard{gs[i]}, "IsNullable", -1) {
			return false
		}
	}
	return false
}

func checkResponseDispatch(c *Ctx, ev *tmpl.Evaluator) {
	rule := "C04.R2.dispatch"
	c.Rule(rule, "ReadResponse has a case per declared code that returns the typed response as result (success) or as error, a default arm classified by the run-time code, and a generic API error carrying the code when nothing is declared", 7)
	l := linearOf(c, ev, "clientResponse")
	if l == nil {
		c.Anchor(rule, "template clientResponse", "not found")
		return
	}
	pos := l.Tree.File
	// case per response
	cs := l.Find(regexp.MustCompile(`case ⟦\.Code⟧:\s*result := New⟦pascalize \.Name⟧\(`))
	ok := len(cs) == 1 && rangeGuard(cs[0].Guards, ".Responses")
	c.Check(ok, rule, "clientResponse › ReadResponse › case per declared code", pos, "case .Code under range .Responses", "there is no `case {{ .Code }}` constructing the response of that code inside `range .Responses`: a declared status is not returned as its typed response")
	// switch on the run-time code
	c.Check(regexp.MustCompile(loosen(`switch response\.Code\(\) \{`)).MatchString(l.Text), rule, "clientResponse › ReadResponse › switch on response.Code()", pos, "present", "the reader does not switch on response.Code()")
	// success → (result, nil); else (nil, result)
	r := regexp.MustCompile(loosen(`return result, nilnil, result`))
	loc := r.FindStringIndex(l.Text)
	okS := false
	why := "the per-code arm does not end in `return {{ if .IsSuccess }}result, nil{{ else }}nil, result{{ end }}`"
	if loc != nil {
		g1 := l.GuardsAt(loc[0] + len("return "))
		g2 := l.GuardsAt(loc[0] + len("return result, nil"))
		okS = len(g1) > 0 && g1[len(g1)-1].Kind == "if" && strings.TrimSpace(g1[len(g1)-1].Pipe) == ".IsSuccess" &&
			len(g2) > 0 && g2[len(g2)-1].Kind == "else" && strings.TrimSpace(g2[len(g2)-1].Pipe) == ".IsSuccess"
		why = fmt.Sprintf("`result, nil` is returned under [%s] and `nil, result` under [%s]: success and error responses are swapped", tmpl.GuardString(g1), tmpl.GuardString(g2))
	}
	c.Check(okS, rule, "clientResponse › ReadResponse › success is the result, anything else the error", pos, "result,nil iff .IsSuccess", why)
	// readResponse error propagated in both arms
	n := len(regexp.MustCompile(loosen(`if err := result\.readResponse\(response, consumer, ⟦\$\.ReceiverName⟧\.formats\); err != nil \{\s*return nil, err\s*\}`)).FindAllString(l.Text, -1))
	c.Check(n == 2, rule, "clientResponse › ReadResponse › read errors are returned", pos, "2 arms", fmt.Sprintf("%d of 2 arms return the error of readResponse", n))
	// default arm
	d := l.Find(regexp.MustCompile(loosen(`result := New⟦pascalize \.Name⟧\(response\.Code\(\)`)))
	okD := len(d) == 1 && tmpl.GuardHas(d[0].Guards, "DefaultResponse", +1)
	c.Check(okD, rule, "clientResponse › ReadResponse › default response carries the run-time code", pos, "New…(response.Code())", "the default response is not constructed with response.Code() under .DefaultResponse")
	okC := regexp.MustCompile(loosen(`if response\.Code\(\) ?/ ?100 == 2 \{\s*return result, nil\s*\}\s*return nil, result`)).MatchString(l.Text)
	c.Check(okC, rule, "clientResponse › ReadResponse › default response classified by the run-time code", pos, "2xx → result", "the default arm does not return the response as result for 2xx codes and as error otherwise")
	e := l.Find(regexp.MustCompile(loosen(`return nil, runtime\.NewAPIError\([^\n]*, response, response\.Code\(\)\)`)))
	okE := len(e) == 1 && guardKindMention(e[0].Guards, "else", "DefaultResponse")
	c.Check(okE, rule, "clientResponse › ReadResponse › undeclared code is a generic API error with that code", pos, "runtime.NewAPIError(…, response, response.Code())", "without a default response an undeclared status is not reported as runtime.NewAPIError carrying response.Code()")
	// Code() / IsCode of the typed response
	lr := linearOf(c, ev, "clientresponse")
	if lr != nil {
		okK := regexp.MustCompile(`\) Code\(\) int \{\s*return ⟦\.ReceiverName⟧\._statusCode\s*return ⟦\.Code⟧`).MatchString(lr.Text)
		c.Check(okK, rule, "clientresponse › Code() returns the response's own code", lr.Tree.File, "_statusCode for default, .Code otherwise", "Code() of the typed response does not return its own status code")
	}
}

func rangeGuard(gs []tmpl.Guard, over string) bool {
	for _, g := range gs {
		if g.Kind == "range" && strings.Contains(g.Pipe, over) {
			return true
		}
	}
	return false
}

func guardKindMention(gs []tmpl.Guard, kind, field string) bool {
	for _, g := range gs {
		if g.Kind == kind && tmpl.GuardHas([]tmpl.Guard{{Kind: "if", Pipe: g.Pipe}}, field, 0) {
			return true
		}
	}
	return false
}

func checkResponseGo(c *Ctx, gen *packages.Package) {
	rule := "C04.R3.responses"
	c.Rule(rule, "every declared response becomes a GenResponse with its own code, classified as success iff the code is 2xx; the default response gets code -1 and is never a success", 5)
	var info *types.Info
	fd := load.FuncDecl(gen, "codeGenOpBuilder.MakeOperation")
	mr := load.FuncDecl(gen, "codeGenOpBuilder.MakeResponse")
	if fd == nil || mr == nil {
		c.Anchor(rule, "generator.codeGenOpBuilder.MakeOperation / MakeResponse", "not found")
		return
	}
	info = gen.TypesInfo
	// the success flag and the code handed to MakeResponse, by parameter position
	is2xx := func(e ast.Expr) bool {
		e = goan.ResolveLocal(info, fd.Body, e)
		be, ok := ast.Unparen(e).(*ast.BinaryExpr)
		if !ok || be.Op != token.EQL {
			return false
		}
		q, ok := ast.Unparen(be.X).(*ast.BinaryExpr)
		return ok && q.Op == token.QUO && goan.LastSel(q.X) == "Code" && goan.ExprString(q.Y) == "100" && goan.ExprString(be.Y) == "2"
	}
	nCalls, nDeclared := 0, 0
	ast.Inspect(fd.Body, func(n ast.Node) bool {
		call, ok := n.(*ast.CallExpr)
		if !ok || goan.LastSel(call.Fun) != "MakeResponse" || len(call.Args) != 6 {
			return true
		}
		nCalls++
		succ, code := call.Args[2], call.Args[4]
		cs := goan.ExprString(code)
		switch {
		case strings.HasSuffix(cs, ".Code"):
			nDeclared++
			c.Check(is2xx(succ), rule, "generator.codeGenOpBuilder.MakeOperation › declared response: success ⟸ Code/100 == 2", c.posOf(gen, call.Pos()), "2xx",
				fmt.Sprintf("a declared response is classified by `%s` instead of `code/100 == 2`: a 2xx response is returned as an error, or another code as a result", goan.ExprString(goan.ResolveLocal(info, fd.Body, succ))))
		case cs == "-1":
			c.Check(goan.IsIdent(succ, "false"), rule, "generator.codeGenOpBuilder.MakeOperation › default response: code -1, never a success", c.posOf(gen, call.Pos()), "(false, -1)", "the default response is built as a success")
		default:
			c.Bad(rule, "generator.codeGenOpBuilder.MakeOperation › MakeResponse code "+cs, c.posOf(gen, call.Pos()), "a response is built with a code that is neither the declared one nor -1")
		}
		return true
	})
	if nCalls < 3 || nDeclared < 1 {
		c.Unk(rule, "generator.codeGenOpBuilder.MakeOperation › MakeResponse calls", c.posOf(gen, fd.Pos()), fmt.Sprintf("%d calls found (%d for declared codes), expected 3 (1)", nCalls, nDeclared))
	}
	// GenResponse literal: IsSuccess and Code are MakeResponse's third and fifth parameters
	var params []types.Object
	for _, fl := range mr.Type.Params.List {
		for _, nm := range fl.Names {
			params = append(params, info.Defs[nm])
		}
	}
	ast.Inspect(mr.Body, func(n ast.Node) bool {
		cl, ok := n.(*ast.CompositeLit)
		if !ok || goan.NamedName(info.TypeOf(cl)) != "GenResponse" || len(cl.Elts) < 4 || len(params) < 5 {
			return true
		}
		for f, ix := range map[string]int{"IsSuccess": 2, "Code": 4} {
			v := goan.Field(cl, f)
			ok := v != nil && identIs(info, goan.ResolveLocal(info, mr.Body, v), params[ix])
			got := ""
			if v != nil {
				got = goan.ExprString(v)
			}
			c.Check(ok, rule, fmt.Sprintf("generator.codeGenOpBuilder.MakeResponse › GenResponse.%s is parameter #%d", f, ix+1), c.posOf(gen, cl.Pos()), "copied from the argument", fmt.Sprintf("GenResponse.%s is %q, not the value the caller passed", f, got))
		}
		return false
	})
	// each response appended unconditionally
	okApp := false
	ast.Inspect(fd.Body, func(n ast.Node) bool {
		rs, ok := n.(*ast.RangeStmt)
		if !ok || !goan.IsIdent(rs.X, "srs") {
			return true
		}
		for _, st := range rs.Body.List {
			if as, ok := st.(*ast.AssignStmt); ok && len(as.Lhs) == 1 && goan.IsIdent(as.Lhs[0], "responses") {
				okApp = true
			}
		}
		return true
	})
	c.Check(okApp, rule, "generator.codeGenOpBuilder.MakeOperation › every declared response is kept", c.posOf(gen, fd.Pos()), "responses = append(responses, gr) is unconditional in the loop over the declared codes", "a declared response may be dropped from GenOperation.Responses: the client has no case for it")
}

// checkMediaFamilies: produces/consumes twins never cross.
func checkMediaFamilies(c *Ctx, rule string, gen *packages.Package) {
	c.Rule(rule, "no assignment, key-value or fall-back call mixes the produces and the consumes families", 8)
	fam := func(e ast.Node, skipFun bool) (p, q bool) {
		ast.Inspect(e, func(n ast.Node) bool {
			if call, ok := n.(*ast.CallExpr); ok && skipFun {
				for _, a := range call.Args {
					pp, qq := famOf(a)
					p, q = p || pp, q || qq
				}
				return false
			}
			if id, ok := n.(*ast.Ident); ok {
				low := strings.ToLower(id.Name)
				if strings.Contains(low, "produc") {
					p = true
				}
				if strings.Contains(low, "consum") {
					q = true
				}
			}
			return true
		})
		return
	}
	n := 0
	for _, fd := range load.AllFuncs(gen) {
		fd := fd
		ast.Inspect(fd.Body, func(nd ast.Node) bool {
			var lhs, rhs ast.Node
			switch x := nd.(type) {
			case *ast.AssignStmt:
				if len(x.Lhs) != 1 || len(x.Rhs) != 1 {
					return true
				}
				lhs, rhs = x.Lhs[0], x.Rhs[0]
			case *ast.KeyValueExpr:
				lhs, rhs = x.Key, x.Value
			default:
				return true
			}
			lp, lq := fam(lhs, false)
			rp, rq := fam(rhs, true)
			if !(lp || lq) || !(rp || rq) || lp && lq {
				return true
			}
			n++
			ok := !(lp && rq) && !(lq && rp)
			c.Check(ok, rule, fmt.Sprintf("generator.%s › %s ⟸ %s", load.FuncName(fd), goan.ExprString(lhs.(ast.Expr)), goan.ExprString(rhs.(ast.Expr))), c.posOf(gen, nd.Pos()), "one family",
				fmt.Sprintf("%s is computed from %s: the request media types (consumes) and the response media types (produces) are crossed", goan.ExprString(lhs.(ast.Expr)), goan.ExprString(rhs.(ast.Expr))))
			return true
		})
	}
	if n < 8 {
		c.Unk(rule, "generator › produces/consumes statements", "", fmt.Sprintf("%d statements analysed, expected at least 8", n))
	}
}

func famOf(e ast.Node) (p, q bool) {
	ast.Inspect(e, func(n ast.Node) bool {
		if id, ok := n.(*ast.Ident); ok {
			low := strings.ToLower(id.Name)
			if strings.Contains(low, "produc") {
				p = true
			}
			if strings.Contains(low, "consum") {
				q = true
			}
		}
		return true
	})
	return
}

// checkDiscriminatorAgreement: the base type registers each subtype under the discee field
// that the subtype emits as its discriminator value.
func checkDiscriminatorAgreement(c *Ctx, rule string, gen *packages.Package) {
	c.Rule(rule, "a polymorphic base type maps subtypes by the same discriminator value that each subtype writes (discee.FieldValue on both sides)", 2)
	fd := load.FuncDecl(gen, "makeGenDefinitionHierarchy")
	if fd == nil {
		c.Anchor(rule, "generator.makeGenDefinitionHierarchy", "not found")
		return
	}
	info := gen.TypesInfo
	var written, keyed []string
	var wpos, kpos token.Pos
	ast.Inspect(fd.Body, func(n ast.Node) bool {
		as, ok := n.(*ast.AssignStmt)
		if !ok || len(as.Lhs) != 1 || len(as.Rhs) != 1 {
			return true
		}
		if goan.LastSel(as.Lhs[0]) == "DiscriminatorValue" {
			if se, ok := ast.Unparen(as.Rhs[0]).(*ast.SelectorExpr); ok && goan.NamedName(info.TypeOf(se.X)) == "discee" {
				written = append(written, se.Sel.Name)
				wpos = as.Pos()
			}
		}
		if ix, ok := as.Lhs[0].(*ast.IndexExpr); ok && goan.LastSel(ix.X) == "Discriminates" {
			if se, ok := ast.Unparen(ix.Index).(*ast.SelectorExpr); ok && goan.NamedName(info.TypeOf(se.X)) == "discee" {
				keyed = append(keyed, se.Sel.Name)
				kpos = as.Pos()
			}
		}
		return true
	})
	if len(written) != 1 || len(keyed) != 1 {
		c.Unk(rule, "generator.makeGenDefinitionHierarchy › discriminator writer/reader", c.posOf(gen, fd.Pos()), fmt.Sprintf("found %d subtype DiscriminatorValue assignments and %d Discriminates registrations from a discee", len(written), len(keyed)))
		return
	}
	c.Check(written[0] == keyed[0], rule, "generator.makeGenDefinitionHierarchy › Discriminates key ≡ subtype DiscriminatorValue", c.posOf(gen, kpos), "both discee."+written[0],
		fmt.Sprintf("subtypes emit discee.%s as discriminator value but the base type's unmarshaller looks them up by discee.%s: a subtype whose x-class differs from its definition name is not restored", written[0], keyed[0]))
	c.Ok(rule, "generator.makeGenDefinitionHierarchy › subtype DiscriminatorValue from discee."+written[0], c.posOf(gen, wpos), "writer side")
}

// checkOptionalFile: wherever the server's file binder lets sentinel errors of r.FormFile
// (http.ErrMissingFile, http.ErrNotMultipart) through the error arm, an arm of its own must take
// exactly those before the value is bound: otherwise an omitted optional file reaches the handler
// as a non-nil runtime.File with nil data. And since BindRequest accepts forms that are not
// multipart (it falls back to ParseForm on http.ErrNotMultipart), the optional file binder must
// accept them too: a client with no file to send does not build a multipart body.
func checkOptionalFile(c *Ctx, rule string, ev *tmpl.Evaluator) {
	c.Rule(rule, "the sentinel errors excluded from the error arm of the server's file binder are taken, under the same guards and before the value is bound, by an arm of their own; they include http.ErrNotMultipart when BindRequest itself accepts non-multipart forms", 2)
	l := linearOf(c, ev, "serverParameter")
	if l == nil {
		c.Anchor(rule, "template serverParameter", "not found")
		return
	}
	sentinel := regexp.MustCompile(`http\.(Err\w+)`)
	excl := l.Find(regexp.MustCompile(`if \w+ != nil ((?:&& \w+ != http\.Err\w+\s*)+)\{`))
	arms := l.Find(regexp.MustCompile(`else if (\w+ == http\.Err\w+(?: \|\| \w+ == http\.Err\w+)*) \{`))
	binds := l.Find(regexp.MustCompile(`\.bind⟦pascalize \.ID⟧\(`))
	if len(excl) == 0 {
		c.Unk(rule, "serverParameter › file binder", l.Tree.File, "no sentinel exclusion found")
		return
	}
	set := func(s string) string {
		var out []string
		for _, m := range sentinel.FindAllStringSubmatch(s, -1) {
			out = append(out, m[1])
		}
		sort.Strings(out)
		return strings.Join(out, ",")
	}
	tolerant := regexp.MustCompile(`ParseMultipartForm\([^)]*\); \w+ != nil \{\s*if \w+ != http\.ErrNotMultipart \{`).MatchString(l.Text)
	for i, e := range excl {
		next := len(l.Text)
		for _, b := range binds {
			if b.Start > e.End && b.Start < next {
				next = b.Start
			}
		}
		// guards of the optional piece of the condition
		eg := tmpl.GuardString(l.GuardsAt(e.Start + strings.Index(l.Text[e.Start:e.End], "&&")))
		ok, got := false, ""
		for _, a := range arms {
			if a.Start > e.End && a.Start < next && tmpl.GuardString(a.Guards) == eg {
				got = set(a.Match[1])
				ok = got == set(e.Match[1])
			}
		}
		c.Check(ok, rule, fmt.Sprintf("serverParameter › file binder #%d › a missing optional file is a case of its own", i+1), l.Tree.PosStr(e.Pos), "no-op arm for "+set(e.Match[1])+" under ["+eg+"]",
			"the error arm lets "+set(e.Match[1])+" through under ["+eg+"] but the arm that follows takes ["+got+"]: the handler gets &runtime.File{Data: nil} for a file the client did not send")
		// who may omit the file is said by `required` alone: allowEmptyValue (which IsNullable takes
		// into account) speaks of a parameter sent without a value, not of one that is not sent
		gs := l.GuardsAt(e.Start + strings.Index(l.Text[e.Start:e.End], "&&"))
		inner := ""
		if len(gs) > 0 {
			inner = strings.TrimSpace(gs[len(gs)-1].Pipe)
		}
		c.Check(inner == "not .Required", rule, fmt.Sprintf("serverParameter › file binder #%d › every file that is not required may be missing", i+1), l.Tree.PosStr(e.Pos), "tolerance under `not .Required`",
			"the tolerance for a missing file is emitted under `"+inner+"`, not under `not .Required`: an optional file parameter for which that flag is off (allowEmptyValue: true turns IsNullable off) is demanded like a required one — a request without the file is answered 400 and the handler is not run")
		if tolerant {
			c.Check(strings.Contains(set(e.Match[1]), "ErrNotMultipart"), rule, fmt.Sprintf("serverParameter › file binder #%d › a form that is not multipart has no file", i+1), l.Tree.PosStr(e.Pos), "http.ErrNotMultipart is excluded like http.ErrMissingFile",
				"BindRequest accepts a form that is not multipart (ParseForm fall-back) but the optional file binder answers 400 on http.ErrNotMultipart: a client that has no file to send (and so does not build a multipart body) is refused")
		}
	}
}

// checkFacadeFormats: every generated client constructor that takes a strfmt.Registry and
// hands it to the operation clients replaces nil by strfmt.Default first (response readers
// call formats.Parse on it).
func checkFacadeFormats(c *Ctx, ev *tmpl.Evaluator) {
	rule := "C04.R2.formats-default"
	c.Rule(rule, "the client facade constructor that distributes the formats registry to the operation clients defaults a nil registry to strfmt.Default before doing so", 1)
	l := linearOf(c, ev, "clientFacade")
	if l == nil {
		c.Anchor(rule, "template clientFacade", "not found")
		return
	}
	funcs := l.Find(regexp.MustCompile(`(?m)^func (\w+)\(([^)]*)\)`))
	n := 0
	for i, f := range funcs {
		end := len(l.Text)
		if i+1 < len(funcs) {
			end = funcs[i+1].Start
		}
		body := l.Text[f.End:end]
		pm := regexp.MustCompile(`(\w+) strfmt\.Registry`).FindStringSubmatch(f.Match[2])
		if pm == nil {
			continue
		}
		reg := regexp.QuoteMeta(pm[1])
		// distributes it itself: passes it to a sub-client constructor `x.New(transport, formats)`
		dist := regexp.MustCompile(`\.New\(\w+, ` + reg + `\)`).FindStringIndex(body)
		if dist == nil {
			continue // delegates to another constructor of this file
		}
		n++
		def := regexp.MustCompile(`if ` + reg + ` == nil \{\s*` + reg + ` = strfmt\.Default`).FindStringIndex(body)
		c.Check(def != nil && def[0] < dist[0], rule, "clientFacade › func "+f.Match[1]+" › nil registry defaults to strfmt.Default", l.Tree.PosStr(f.Pos), "defaulted before it is handed to the operation clients",
			"func "+f.Match[1]+" hands its formats registry to the operation clients without defaulting nil to strfmt.Default: a client built with New(transport, nil) panics in formats.Parse on the first response with a formatted header")
	}
	if n == 0 {
		c.Unk(rule, "clientFacade › constructors", l.Tree.File, "no constructor distributing a strfmt.Registry found")
	}
}

// checkIndexedJoins: swag.JoinByFormat / SplitByFormat return an empty slice for empty input;
// generated code that takes element [0] of such a result (a variable named after the parameter)
// must be inside `if len(X) > 0 {` or follow `if len(X) == 0 { X = []string{…} }`.
func checkIndexedJoins(c *Ctx, ev *tmpl.Evaluator) {
	rule := "C04.R1.indexed-joins"
	c.Rule(rule, "every `X[0]` on a joined/split slice in generated client and server code is dominated by a non-emptiness test of X (or a preceding `if len(X) == 0 { X = … }`)", 8)
	rx := regexp.MustCompile(`((?:\w*⟦[^⟧]*⟧\w*)+)\[0\]`)
	for _, tn := range ev.F.Names() {
		l := linearOf(c, ev, tn)
		if l == nil || !(strings.HasPrefix(l.Tree.Asset, "client/") || strings.HasPrefix(l.Tree.Asset, "server/")) {
			continue
		}
		for k, oc := range l.Find(rx) {
			name := oc.Match[1]
			q := regexp.QuoteMeta(name)
			ok := false
			// (a) enclosing `if len(X) > 0 {`: nearest preceding one whose block is still open
			if locs := regexp.MustCompile(`if len\(`+q+`\) > 0 \{`).FindAllStringIndex(l.Text[:oc.Start], -1); len(locs) > 0 {
				from := locs[len(locs)-1][1]
				depth := 1
				for _, ch := range l.Text[from:oc.Start] {
					switch ch {
					case '{':
						depth++
					case '}':
						depth--
					}
					if depth == 0 {
						break
					}
				}
				ok = depth > 0
			}
			// (b) preceding `if len(X) == 0 { X = []string{…} … }`
			if !ok {
				if locs := regexp.MustCompile(`if len\(`+q+`\) == 0 \{\s*`+q+` = \[\]string\{[^}]+\}`).FindAllStringIndex(l.Text[:oc.Start], -1); len(locs) > 0 {
					ok = true
				}
			}
			c.Check(ok, rule, fmt.Sprintf("%s › %s › %s[0] #%d", l.Tree.Asset, tn, name, k+1), l.Tree.PosStr(oc.Pos), "dominated by a non-emptiness test",
				name+"[0] is taken without a test of len("+name+"): swag.JoinByFormat / SplitByFormat return an empty slice for an empty (inner) array and the generated code panics with index out of range")
		}
	}
}

// checkInnerArraysKept: the server's nested-array binder rebuilds the outer array element by
// element; an inner array of length 0 is an element like any other — where the recursion is
// wrapped in `if len(inner) > 0 {`, an else arm must append the (empty) element.
func checkInnerArraysKept(c *Ctx, rule string, ev *tmpl.Evaluator) {
	c.Rule(rule, "sliceparambinder appends one element per inner array: a `if len(<inner>C) > 0 {` around the recursive binding has an else arm that appends too", 1)
	l := linearOf(c, ev, "sliceparambinder")
	if l == nil {
		c.Anchor(rule, "template sliceparambinder", "not found")
		return
	}
	appendRx := `⟦varname \.Child\.ValueExpression⟧R = append\(⟦varname \.Child\.ValueExpression⟧R, `
	conds := l.Find(regexp.MustCompile(`if len\(⟦[^⟧]*⟧C\) > 0 \{`))
	appends := l.Find(regexp.MustCompile(appendRx))
	if len(appends) < 3 {
		c.Unk(rule, "sliceparambinder › appends", l.Tree.File, fmt.Sprintf("%d appends to the rebuilt array found, expected one per kind of child (array, map, other)", len(appends)))
		return
	}
	for i, cd := range conds {
		rest := l.Text[cd.End:]
		// the text between the condition and its closing brace holds the recursive template call (no braces of its own in the linear text)
		m := regexp.MustCompile(`(?s)^(.*?)\n\s*\}( else \{\s*(?://[^\n]*\s*)*` + appendRx + `)?`).FindStringSubmatch(rest)
		has := m != nil && m[2] != ""
		c.Check(has, rule, fmt.Sprintf("sliceparambinder › if len(inner) > 0 #%d › else arm appends the empty element", i+1), l.Tree.PosStr(cd.Pos), "else { R = append(R, …) }",
			"the recursive binding of an inner array and the append of its result are skipped when the inner array is empty, and nothing is appended instead: [[1],[],[2]] reaches the handler as [[1],[2]]")
	}
	if len(conds) == 0 {
		c.Ok(rule, "sliceparambinder › inner arrays are bound unconditionally", l.Tree.File, "no length test around the recursion")
	}
	// a generated `continue` leaves the iteration of the rebuild loop: the element must have been appended just before
	for i, ct := range l.Find(regexp.MustCompile(`(?m)^\s*continue\s*$`)) {
		prev := strings.TrimRight(l.Text[:ct.Start], " \t\n")
		if j := strings.LastIndexByte(prev, '\n'); j >= 0 {
			prev = prev[j+1:]
		}
		ok := regexp.MustCompile(appendRx).MatchString(prev)
		c.Check(ok, rule, fmt.Sprintf("sliceparambinder › continue #%d follows an append of the element", i+1), l.Tree.PosStr(ct.Pos), "the element is appended before the iteration is left",
			"the rebuild loop is left with `continue` after `"+strings.TrimSpace(prev)+"`, without appending the element: null items of the array do not reach the handler")
	}
	// the same for the rebuild loop of a map: `continue` follows a store of the value under its key
	if ml := linearOf(c, ev, "mapparamvalidator"); ml == nil {
		c.Anchor(rule, "template mapparamvalidator", "not found")
	} else {
		storeRx := regexp.MustCompile(`⟦varname \.Child\.ValueExpression⟧R\[⟦\.KeyVar⟧\] = `)
		for i, ct := range ml.Find(regexp.MustCompile(`(?m)^\s*continue\s*$`)) {
			prev := strings.TrimRight(ml.Text[:ct.Start], " \t\n")
			if j := strings.LastIndexByte(prev, '\n'); j >= 0 {
				prev = prev[j+1:]
			}
			c.Check(storeRx.MatchString(prev), rule, fmt.Sprintf("mapparamvalidator › continue #%d follows a store of the value", i+1), ml.Tree.PosStr(ct.Pos), "the value is stored under its key before the iteration is left",
				"the rebuild loop of a map is left with `continue` after `"+strings.TrimSpace(prev)+"`, without storing the value: null values of the map do not reach the handler")
		}
	}
}

// checkDefaultMedia: the runtime serves an operation that has no media type of its own with
// application/json; the serializer lists the generated API registers (makeConsumes /
// makeProduces) must therefore contain the JSON media type whenever some selected operation is
// in that situation — the list of the media types required by the spec goes through a function
// that looks at every operation with the accessor of the same family and adds runtime.JSONMime.
func checkDefaultMedia(c *Ctx, gen *packages.Package) {
	rule := "C04.R3.default-media"
	c.Rule(rule, "makeConsumes / makeProduces complete the required media types with the runtime's default (application/json) when an operation has none, using the accessor of their own family", 2)
	info := gen.TypesInfo
	for _, side := range []struct{ fn, required, accessor string }{{"appGenerator.makeConsumes", "RequiredConsumes", "ConsumesFor"}, {"appGenerator.makeProduces", "RequiredProduces", "ProducesFor"}} {
		fd := load.FuncDecl(gen, side.fn)
		if fd == nil {
			c.Anchor(rule, "generator."+side.fn, "not found")
			continue
		}
		ok, why := false, "makeSerializers is handed the required media types as they are"
		ast.Inspect(fd.Body, func(n ast.Node) bool {
			call, isCall := n.(*ast.CallExpr)
			if !isCall || len(call.Args) < 1 {
				return true
			}
			if fn := goan.Callee(info, call); fn == nil || fn.Name() != "makeSerializers" {
				return true
			}
			inner, isCall := ast.Unparen(call.Args[0]).(*ast.CallExpr)
			if !isCall {
				return true
			}
			helper := goan.Callee(info, inner)
			if helper == nil || helper.Pkg() != gen.Types {
				return true
			}
			// arguments: <…>.Required<X>() and the method value <…>.<X>For
			hasReq, hasAcc := false, false
			for _, a := range inner.Args {
				if ac, isC := ast.Unparen(a).(*ast.CallExpr); isC && goan.LastSel(ac.Fun) == side.required {
					hasReq = true
				}
				if se, isS := ast.Unparen(a).(*ast.SelectorExpr); isS && se.Sel.Name == side.accessor {
					hasAcc = true
				}
			}
			if !hasReq || !hasAcc {
				why = fmt.Sprintf("%s is not called with %s() and the %s accessor", helper.Name(), side.required, side.accessor)
				return true
			}
			// the helper ranges over the operations, calls its accessor parameter on each, and can add runtime.JSONMime
			var hd *ast.FuncDecl
			for _, d := range load.AllFuncs(gen) {
				if info.Defs[d.Name] == helper {
					hd = d
				}
			}
			if hd == nil {
				return true
			}
			ranges, callsParam, addsJSON := false, false, false
			params := map[types.Object]bool{}
			for _, f := range hd.Type.Params.List {
				for _, nm := range f.Names {
					params[info.Defs[nm]] = true
				}
			}
			ast.Inspect(hd.Body, func(m ast.Node) bool {
				switch x := m.(type) {
				case *ast.RangeStmt:
					if goan.LastSel(x.X) == "Operations" {
						ranges = true
					}
				case *ast.CallExpr:
					if id, isId := x.Fun.(*ast.Ident); isId && params[info.Uses[id]] {
						callsParam = true
					}
					if goan.IsIdent(x.Fun, "append") && len(x.Args) == 2 && goan.ExprString(x.Args[1]) == "runtime.JSONMime" {
						addsJSON = true
					}
				}
				return true
			})
			ok = ranges && callsParam && addsJSON
			why = fmt.Sprintf("%s: ranges over the operations=%v, applies the accessor to each=%v, can add runtime.JSONMime=%v", helper.Name(), ranges, callsParam, addsJSON)
			return true
		})
		c.Check(ok, rule, "generator."+side.fn+" › default media type of the runtime", c.posOf(gen, fd.Pos()), why,
			why+": when the spec has no global list and only some operations declare media types, the others are served with application/json by the runtime but the generated API registers no JSON serializer (500: no producer / 415)")
	}
}

// checkHeaderWriterGuards: the server writes a response header whenever its rendered value is not
// empty; any further condition on the value (non-zero, non-default) makes a legitimate value — false,
// 0 — disappear from the wire, and the client then substitutes the header's declared default.
func checkHeaderWriterGuards(c *Ctx, ev *tmpl.Evaluator) {
	rule := "C04.R2.header-writer"
	c.Rule(rule, "every rw.Header().Set of the server's response writer is guarded by the emptiness test of the rendered value only", 1)
	n := 0
	for _, tn := range ev.F.Names() {
		l := linearOf(c, ev, tn)
		if l == nil || l.Tree.Asset != "server/responses.gotmpl" {
			continue
		}
		for k, oc := range l.Find(regexp.MustCompile(`\b\w+\.Header\(\)\.Set\(`)) {
			prev := strings.TrimRight(l.Text[:oc.Start], " \t\n")
			if i := strings.LastIndexByte(prev, '\n'); i >= 0 {
				prev = prev[i+1:]
			}
			prev = strings.TrimSpace(prev)
			n++
			ok := regexp.MustCompile(`^if [^&|]+ != "" \{$`).MatchString(strings.TrimSpace(strings.SplitN(prev, "//", 2)[0]))
			c.Check(ok, rule, fmt.Sprintf("server/responses.gotmpl › %s › header write #%d", tn, k+1), l.Tree.PosStr(oc.Pos), "under `if <rendered value> != \"\" {` alone",
				"the header is written under `"+prev+"`: a value that renders to a non-empty string (false, 0) but fails the extra test is not sent, and the client reports the header's default instead")
		}
	}
	if n == 0 {
		c.Unk(rule, "server/responses.gotmpl › header writes", "", "no rw.Header().Set found")
	}
}

// mediaSamples: media types whose serializer is not a matter of taste. The table is read from the
// source (pattern literals, in order, first match wins) and evaluated on them.
var mediaSamples = []struct{ media, want, why string }{
	{"application/json", "json", "the JSON media type"},
	{"application/vnd.api+json", "json", "a +json structured suffix"},
	{"application/xml", "xml", "the XML media type"},
	{"text/xml", "xml", "the XML media type (text)"},
	{"application/atom+xml", "xml", "a +xml structured suffix"},
	{"application/octet-stream", "bin", "bytes"},
	{"application/vnd.openxmlformats-officedocument.wordprocessingml.document", "!xml", "a .docx is a zip archive: `xml` inside the subtype does not make the payload XML"},
	{"application/vnd.openxmlformats-officedocument.spreadsheetml.sheet", "!xml", "a .xlsx is a zip archive"},
}

// checkMediaTable: the serializer a media type gets is the name of the first row of
// mediaTypeNames whose pattern matches. A pattern that matches in the middle of a subtype hands
// a binary document to the XML (or JSON) codec: the payload does not arrive as it was sent.
func checkMediaTable(c *Ctx, rule string, gen *packages.Package) {
	c.Rule(rule, "the rows of mediaTypeNames, evaluated in order on sample media types, name the serializer of the payload's actual encoding (XML only when the type or its structured suffix is xml)", len(mediaSamples))
	var lit *ast.CompositeLit
	for _, f := range gen.Syntax {
		for _, d := range f.Decls {
			gd, ok := d.(*ast.GenDecl)
			if !ok {
				continue
			}
			for _, sp := range gd.Specs {
				if vs, ok := sp.(*ast.ValueSpec); ok && len(vs.Names) == 1 && vs.Names[0].Name == "mediaTypeNames" && len(vs.Values) == 1 {
					lit, _ = vs.Values[0].(*ast.CompositeLit)
				}
			}
		}
	}
	if lit == nil {
		c.Anchor(rule, "generator.mediaTypeNames", "not found")
		return
	}
	type row struct {
		rx   *regexp.Regexp
		name string
	}
	var rows []row
	for _, el := range lit.Elts {
		cl, ok := el.(*ast.CompositeLit)
		if !ok || len(cl.Elts) != 2 {
			c.Unk(rule, "generator.mediaTypeNames › row", c.posOf(gen, el.Pos()), "row is not {pattern, name}")
			return
		}
		call, ok := ast.Unparen(cl.Elts[0]).(*ast.CallExpr)
		if !ok || len(call.Args) != 1 {
			c.Unk(rule, "generator.mediaTypeNames › row", c.posOf(gen, el.Pos()), "pattern is not regexp.MustCompile(<constant>)")
			return
		}
		pat, ok1 := goan.StringVal(gen.TypesInfo, call.Args[0])
		name, ok2 := goan.StringVal(gen.TypesInfo, cl.Elts[1])
		rx, err := regexp.Compile(pat)
		if !ok1 || !ok2 || err != nil {
			c.Unk(rule, "generator.mediaTypeNames › row", c.posOf(gen, el.Pos()), "pattern or name is not a constant")
			return
		}
		rows = append(rows, row{rx, name})
	}
	for _, s := range mediaSamples {
		got := ""
		for _, r := range rows {
			if r.rx.MatchString(s.media) {
				got = r.name
				break
			}
		}
		ok := got == s.want
		if strings.HasPrefix(s.want, "!") {
			ok = got != s.want[1:]
		}
		c.Check(ok, rule, "generator.mediaTypeNames › "+s.media, c.posOf(gen, lit.Pos()), "serializer "+s.want+" ("+s.why+")",
			fmt.Sprintf("%s is given the %q serializer by the first matching row, expected %s (%s): server and client run the payload through the wrong codec, and it does not arrive as sent", s.media, got, s.want, s.why))
	}
}
