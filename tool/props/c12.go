package props

import (
	"fmt"
	"go/ast"
	"go/token"
	"go/types"
	"strings"

	"golang.org/x/tools/go/packages"

	"verif/tool/goan"
	"verif/tool/load"
)

func init() { register("C12", checkC12) }

// Pointer fields that may be nil in a *valid* Swagger 2.0 document (go-openapi/spec) or in
// the diff package's own structures. Fields absent from this table are assumed non-nil:
// Swagger.Paths, Swagger.Info, Operation.Responses (mandatory by the Swagger 2.0 schema),
// PathItemOp.Operation / ParentPathItem and PropertyDefn.Schema (set from &x at the only
// construction sites, checked below).
var diffNilable = map[string]map[string]bool{
	"SchemaProps":    {"Items": true, "AdditionalProperties": true, "AdditionalItems": true, "Not": true},
	"Schema":         {"Items": true, "AdditionalProperties": true, "AdditionalItems": true, "Not": true, "ExternalDocs": true, "XML": true},
	"SchemaOrArray":  {"Schema": true},
	"SchemaOrBool":   {"Schema": true},
	"ParamProps":     {"Schema": true},
	"Parameter":      {"Schema": true, "Items": true},
	"SimpleSchema":   {"Items": true},
	"Items":          {"Items": true},
	"Header":         {"Items": true},
	"ResponseProps":  {"Schema": true},
	"Response":       {"Schema": true},
	"InfoProps":      {"Contact": true, "License": true},
	"Info":           {"Contact": true, "License": true},
	"PathItemProps":  {"Get": true, "Put": true, "Post": true, "Delete": true, "Options": true, "Head": true, "Patch": true},
	"PathItem":       {"Get": true, "Put": true, "Post": true, "Delete": true, "Options": true, "Head": true, "Patch": true},
	"OperationProps": {"ExternalDocs": true},
	"Operation":      {"ExternalDocs": true},
	"Responses":      {"Default": true},
	"ResponsesProps": {"Default": true},
	"Node":           {"ChildNode": true},
	// DifferenceLocation.Node: nil for spec-level locations; every location handed to
	// compareSchema carries a node (checked by C12.R1.construction)
}

func diffMayPanic(c *Ctx, pk *packages.Package) *goan.MayPanic {
	m := goan.NewMayPanic(pk)
	m.CheckNil = true
	m.CheckIface = true
	m.NilableField = func(owner, field string) bool { return diffNilable[owner][field] }
	// schemaFromRef looks the last segment of the $ref up among the definitions of the document: a
	// valid $ref that is not such a name (a JSON pointer inside a definition, an escaped name, another
	// document) yields nil — also through the SchemaFromRefFn callbacks handed to CompareProperties
	m.NilableResult = map[string]bool{"forItems": true, "schemaFromRef": true, "getRefSchemaFromSpec1": true, "getRefSchemaFromSpec2": true, "SchemaFromRefFn": true}
	m.NilOnlyForNilArg = map[string]bool{"forItems": true} // `if items == nil { return nil }` is its only nil answer (checked below)
	info := pk.TypesInfo
	// array facts: isArray(x) / isArrayType(x.Type) / <local defined from x.Type…> == ArrayType
	m.ExtraCondFacts = func(mp *goan.MayPanic, e ast.Expr, pol bool) map[string]int {
		out := map[string]int{}
		if !pol {
			return out
		}
		switch x := ast.Unparen(e).(type) {
		case *ast.CallExpr:
			if fn := goan.Callee(info, x); fn != nil && len(x.Args) == 1 {
				switch fn.Name() {
				case "isArray":
					out["arr:"+goan.ExprString(x.Args[0])] = 1
				case "isArrayType":
					if se, ok := ast.Unparen(x.Args[0]).(*ast.SelectorExpr); ok && se.Sel.Name == "Type" {
						out["arr:"+goan.ExprString(se.X)] = 1
					}
				}
			}
		case *ast.BinaryExpr:
			if x.Op == token.EQL && (goan.IsIdent(x.Y, "ArrayType") || goan.IsIdent(x.X, "ArrayType")) {
				v := x.X
				if goan.IsIdent(x.X, "ArrayType") {
					v = x.Y
				}
				// v is (a local assigned from) base.Type or base.Type[0]
				var base ast.Expr
				find := func(e ast.Expr) {
					ast.Inspect(e, func(n ast.Node) bool {
						if se, ok := n.(*ast.SelectorExpr); ok && se.Sel.Name == "Type" && base == nil {
							base = se.X
						}
						return true
					})
				}
				find(v)
				if base == nil {
					if id, ok := ast.Unparen(v).(*ast.Ident); ok {
						if vv, ok := info.Uses[id].(*types.Var); ok && !vv.IsField() {
							for _, fd := range load.AllFuncs(pk) {
								if fd.Pos() <= id.Pos() && id.Pos() <= fd.End() {
									for _, a := range goan.AssignmentsTo(info, fd.Body, vv) {
										if a.Rhs != nil && a.Stmt != nil && a.Stmt.Pos() < id.Pos() && base == nil {
											find(a.Rhs)
										}
									}
								}
							}
						}
					}
				}
				if base != nil {
					out["arr:"+goan.ExprString(base)] = 1
				}
			}
		}
		return out
	}
	// Items of an array-typed schema / simple schema is mandatory (swagger validate rejects
	// arrays without items); Items.Schema is NOT assumed (tuple items are valid).
	m.FieldAssumed = func(mp *goan.MayPanic, base ast.Expr, field string, facts map[string]int) bool {
		if field != "Items" {
			return false
		}
		b := goan.ExprString(base)
		if facts["arr:"+b] > 0 || facts["arr:&"+b] > 0 {
			return true
		}
		// base.SimpleSchema.Items with arr:&base.SimpleSchema etc.
		for k := range facts {
			if strings.HasPrefix(k, "arr:") {
				a := strings.TrimPrefix(k, "arr:")
				a = strings.TrimPrefix(a, "&")
				if a == b || strings.HasPrefix(b, a+".") || strings.HasPrefix(a, b+".") {
					return true
				}
			}
		}
		return false
	}
	return m
}

func checkC12(c *Ctx) {
	c.Explain("diff totality/identity: (R1) may-panic guards over the diff package and the diff command — every slice/string index, dereference of a pointer that is nil-able in a valid spec, interface{} comparison, single-value type assertion and explicit panic is dominated by a fact making it safe (facts from conditions, producers, guard-function summaries; parameters become preconditions checked at call sites); " +
		"(R2) the $ref recursion cycle of compareSchema contains the visited-set test before any recursive descent and the visited key is loop-free (finite key space); (R3) every difference emission is control-dependent on a relational trigger of difference polarity between the two specs, and missing-in lookups compare twin collections. " +
		"Decides crash-freedom obligations and guard presence, not reflexivity of the comparison as such.")
	c.Assume("valid Swagger 2.0 input: Swagger.Paths, Swagger.Info and Operation.Responses are present; an array-typed schema/parameter/header/items has `items` (swagger validate rejects it otherwise); $refs resolve (go-openapi/validate); circular allOf ancestry is rejected by validation",
		"tuple-form items (Items.Schema == nil) ARE valid and are not assumed away")
	prog := c.Prog("./cmd/swagger/commands/diff", "./cmd/swagger/commands")
	pk := prog.Pkg(load.PkgDiff)

	// ---- R1 may-panic
	c.Rule("C12.R1.index", "constant / len-relative indexes and slice expressions have an established minimum length", 12)
	c.Rule("C12.R1.var-index", "variable indexes are bounded by the same slice (range key, loop counter, dominating comparison, sort.Slice closure, exact literal length)", 4)
	c.Rule("C12.R1.nil-deref", "pointers that may be nil in a valid spec are dereferenced only under a non-nil fact (or the array⇒items validity assumption)", 15)
	c.Rule("C12.R1.iface-compare", "no ==/!= between interface{} values holding decoded JSON (panics on slices/maps)", 0)
	c.Rule("C12.R1.assert-panic", "no single-value type assertion outside a type switch arm; no explicit panic", 0)
	m := diffMayPanic(c, pk)
	m.Run()
	c.Analysed("may-panic sites (diff)", len(m.Sites))
	for _, s := range m.Sites {
		rule := map[goan.PanicKind]string{goan.PKIndex: "C12.R1.index", goan.PKSlice: "C12.R1.index", goan.PKVarIndex: "C12.R1.var-index", goan.PKNilDeref: "C12.R1.nil-deref",
			goan.PKIfaceCmp: "C12.R1.iface-compare", goan.PKAssert: "C12.R1.assert-panic", goan.PKPanicCall: "C12.R1.assert-panic"}[s.Kind]
		key := "diff." + s.Key()
		if s.Safe {
			c.Ok(rule, key, c.posOf(pk, s.Pos), s.Why)
		} else {
			c.Bad(rule, key, c.posOf(pk, s.Pos), s.Why)
		}
	}
	checkConstruction(c, pk)
	checkNilOnlyForNilArg(c, "C12.R1.construction", pk, []string{"forItems"})
	checkLocationNodes(c, pk)
	checkTypedNilArgs(c, "C12.R1.typed-nil", pk, 12)

	// ---- R2 recursion guard
	checkRecursionGuard(c, "C12.R2.recursion-guard", pk)
	checkVisitedOrder(c, "C12.R2.linear-visits", pk, true)
	checkLoopAdvance(c, "C12.R2.loop-advance", pk)

	// ---- R3 relational guard presence
	r := c.diffRel()
	checkDiffsTo(c, r)
	checkSideMixing(c, "C12.R3.side-mixing", r)
	// totality also covers sizes handed to make, and a report file that is not truncated shows
	// the differences of an earlier run next to "no changes"
	c.Rule("C12.R1.make-size", "no make(…) in the diff package takes an unguarded difference as size; the report destination is opened truncated", 1)
	checkMakeSizes(c, "C12.R1.make-size", pk)
	if cmds := c.Prog("./cmd/swagger/commands/diff", "./cmd/swagger/commands").Pkg(load.PkgCommands); cmds != nil {
		checkOpenTruncates(c, "C12.R1.make-size", cmds, []string{"DiffCommand.Execute"}, 1)
	}
	c.Rule("C12.R3.difference-trigger", "every difference emission is control-dependent (locally or at every call site) on a relational trigger of difference polarity: a spec never differs from itself", 55)
	for _, bs := range bindSites(c, r, "C12.R3.difference-trigger") {
		trigs := bs.Derived
		if !goan.HasTrig(trigs, diffPolarity...) {
			trigs = append(append([]goan.Trig{}, trigs...), inheritedTrig(r, bs.Site)...)
		}
		key := siteKey(bs.Site, bs.Code)
		if bs.Call != nil {
			key += " @ " + bs.Call.FnName + "(" + strings.Join(bs.ArgNames, ",") + ")"
		}
		c.Check(goan.HasTrig(trigs, diffPolarity...), "C12.R3.difference-trigger", key, c.posOf(pk, bs.Pos), "under "+trigStr(trigs),
			fmt.Sprintf("%s is emitted under [%s]: nothing in its guards says the two specs differ here, so comparing a spec with itself can report it", bs.Code, trigStr(trigs)))
	}
	checkTwinLookups(c, r)
	checkPairwise(c, "C12.R3.pairwise", r)
	checkPointerIdentity(c, "C12.R3.pointer-identity", r)
	// a parameter is found by its name within its location: indexed by name alone, a header and a query parameter of one name take each other's place and the list order decides
	checkLocations(c, "C12.R3.presence", pk)
}

// checkConstruction: the pointer fields assumed non-nil by construction are only ever set
// from address-of expressions / non-nil values.
func checkConstruction(c *Ctx, pk *packages.Package) {
	rule := "C12.R1.construction"
	c.Rule(rule, "PathItemOp and PropertyDefn are only constructed with non-nil pointers (address-of, or a map value stored under a non-nil test)", 2)
	info := pk.TypesInfo
	for _, fd := range load.AllFuncs(pk) {
		fd := fd
		ast.Inspect(fd.Body, func(n ast.Node) bool {
			cl, ok := n.(*ast.CompositeLit)
			if !ok {
				return true
			}
			tn := goan.NamedName(info.TypeOf(cl))
			if tn != "PathItemOp" && tn != "PropertyDefn" {
				return true
			}
			for i, el := range cl.Elts {
				v := el
				fname := fmt.Sprint(i)
				if kv, ok := el.(*ast.KeyValueExpr); ok {
					v = kv.Value
					fname = goan.ExprString(kv.Key)
				}
				t := info.TypeOf(v)
				if t == nil {
					continue
				}
				if _, isPtr := t.Underlying().(*types.Pointer); !isPtr {
					continue
				}
				ok := false
				why := ""
				switch x := ast.Unparen(v).(type) {
				case *ast.UnaryExpr:
					ok = x.Op == token.AND
				case *ast.Ident:
					// range value of a map built only from non-nil entries (toMap) — accept when the
					// ranged expression is a call to toMap / a local assigned from it
					if vv, isVar := info.Uses[x].(*types.Var); isVar {
						for _, a := range goan.AssignmentsTo(info, fd.Body, vv) {
							if a.IsRange {
								src := goan.ResolveLocal(info, fd.Body, a.Rhs)
								if call, isCall := ast.Unparen(src).(*ast.CallExpr); isCall {
									if fn := goan.Callee(info, call); fn != nil && fn.Name() == "toMap" {
										ok = toMapNonNil(pk)
										why = "range value of toMap(), which stores entries only under `!= nil` tests"
									}
								}
							}
						}
					}
				}
				c.Check(ok, rule, fmt.Sprintf("diff.%s › %s{%s}", load.FuncName(fd), tn, fname), c.posOf(pk, v.Pos()), "non-nil by construction "+why,
					"pointer field of "+tn+" is set from "+goan.ExprString(v)+", which is not provably non-nil; the analyser dereferences it unconditionally")
			}
			return true
		})
	}
}

// checkLocationNodes: every DifferenceLocation passed to compareSchema (statically or through
// a CompareSchemaFn value) has its Node set: a composite literal with a Node field, the
// result of AddNode / addChildDiffNode, or the callee's own location parameter.
func checkLocationNodes(c *Ctx, pk *packages.Package) {
	rule := "C12.R1.construction"
	info := pk.TypesInfo
	var hasNode func(fd *ast.FuncDecl, e ast.Expr, depth int) bool
	hasNode = func(fd *ast.FuncDecl, e ast.Expr, depth int) bool {
		switch x := ast.Unparen(e).(type) {
		case *ast.CompositeLit:
			v := goan.Field(x, "Node")
			if v == nil {
				return false
			}
			if call, ok := ast.Unparen(v).(*ast.CallExpr); ok {
				if fn := goan.Callee(info, call); fn != nil && (fn.Name() == "getSchemaDiffNode" || fn.Name() == "getNameOnlyDiffNode") {
					return true
				}
			}
			if u, ok := ast.Unparen(v).(*ast.UnaryExpr); ok && u.Op == token.AND {
				return true
			}
			if id, ok := ast.Unparen(v).(*ast.Ident); ok && depth < 3 {
				if vv, ok := info.Uses[id].(*types.Var); ok {
					as := goan.AssignmentsTo(info, fd.Body, vv)
					okAll := len(as) > 0
					for _, a := range as {
						if a.Rhs == nil {
							okAll = false
							continue
						}
						if call, ok := ast.Unparen(a.Rhs).(*ast.CallExpr); ok {
							if fn := goan.Callee(info, call); fn != nil && (fn.Name() == "getSchemaDiffNode" || fn.Name() == "getNameOnlyDiffNode") {
								continue
							}
						}
						okAll = false
					}
					return okAll
				}
			}
			return false
		case *ast.CallExpr:
			if fn := goan.Callee(info, x); fn != nil && (fn.Name() == "AddNode" || fn.Name() == "addChildDiffNode") {
				return true
			}
		case *ast.Ident:
			vv, ok := info.Uses[x].(*types.Var)
			if !ok || depth > 3 {
				return false
			}
			if fd.Name.Name == "compareSchema" && goan.NamedName(vv.Type()) == "DifferenceLocation" && paramIndex(info, fd, vv) == 0 {
				return true // the callee's own, already checked, location
			}
			as := goan.AssignmentsTo(info, fd.Body, vv)
			if len(as) == 0 {
				return false
			}
			for _, a := range as {
				if a.Rhs == nil || !hasNode(fd, a.Rhs, depth+1) {
					return false
				}
			}
			return true
		}
		return false
	}
	n := 0
	for _, fd := range load.AllFuncs(pk) {
		fd := fd
		ast.Inspect(fd.Body, func(nd ast.Node) bool {
			call, ok := nd.(*ast.CallExpr)
			if !ok || len(call.Args) < 1 {
				return true
			}
			isCmp := false
			if fn := goan.Callee(info, call); fn != nil && fn.Name() == "compareSchema" {
				isCmp = true
			} else if t := info.TypeOf(call.Fun); t != nil && goan.NamedName(t) == "CompareSchemaFn" {
				isCmp = true
			}
			if !isCmp {
				return true
			}
			n++
			c.Check(hasNode(fd, call.Args[0], 0), rule, fmt.Sprintf("diff.%s › compareSchema(%s, …) location has a node", load.FuncName(fd), goan.ExprString(call.Args[0])), c.posOf(pk, call.Pos()),
				"location built with a Node / by AddNode / addChildDiffNode", "the location passed to compareSchema is not provably built with a Node; schemaLocationKey dereferences location.Node unconditionally")
			return true
		})
	}
	if n < 5 {
		c.Unk(rule, "compareSchema call sites", "", fmt.Sprintf("only %d call sites of compareSchema found", n))
	}
}

// toMapNonNil: every store into the map in toMap is guarded by `<same expr> != nil`.
func toMapNonNil(pk *packages.Package) bool {
	fd := load.FuncDecl(pk, "toMap")
	if fd == nil {
		return false
	}
	info := pk.TypesInfo
	ok, n := true, 0
	goan.WalkGuards(info, fd.Body, func(nd ast.Node, guards []goan.Lit, _ []ast.Stmt) {
		as, isAs := nd.(*ast.AssignStmt)
		if !isAs || len(as.Lhs) != 1 {
			return
		}
		if _, isIdx := as.Lhs[0].(*ast.IndexExpr); !isIdx {
			return
		}
		n++
		g := false
		for _, l := range guards {
			if be, isB := ast.Unparen(l.E).(*ast.BinaryExpr); isB && l.Pos && be.Op == token.NEQ && goan.IsNil(info, be.Y) && goan.ExprString(be.X) == goan.ExprString(as.Rhs[0]) {
				g = true
			}
		}
		if !g {
			ok = false
		}
	})
	return ok && n > 0
}

// checkRecursionGuard: compareSchema's $ref path tests and updates the visited set before
// resolving; the key function is loop-free.
func checkRecursionGuard(c *Ctx, rule string, pk *packages.Package) {
	c.Rule(rule, "compareSchema: on the isRefType(schema1) path the visited-set membership test (early return) and insertion precede the $ref resolution and every recursive descent; the visited key is computed without loops or recursion", 4)
	info := pk.TypesInfo
	fd := load.FuncDecl(pk, "SpecAnalyser.compareSchema")
	if fd == nil {
		c.Anchor(rule, "SpecAnalyser.compareSchema", "not found")
		return
	}
	var testPos, insertPos, resolvePos token.Pos
	var firstRecurse token.Pos
	var keyFn *types.Func
	keyNamesRef := false
	goan.WalkGuards(info, fd.Body, func(n ast.Node, guards []goan.Lit, _ []ast.Stmt) {
		underRef := false
		for _, g := range guards {
			if call, ok := ast.Unparen(g.E).(*ast.CallExpr); ok && g.Pos {
				if fn := goan.Callee(info, call); fn != nil && fn.Name() == "isRefType" {
					underRef = true
				}
			}
		}
		switch x := n.(type) {
		case *ast.AssignStmt:
			// `_, ok := sd.schemasCompared[key]` or insertion `sd.schemasCompared[key] = …`
			if len(x.Rhs) == 1 {
				if ix, ok := ast.Unparen(x.Rhs[0]).(*ast.IndexExpr); ok && goan.LastSel(ix.X) == "schemasCompared" && underRef && !testPos.IsValid() {
					testPos = x.Pos()
				}
				if call, ok := ast.Unparen(x.Rhs[0]).(*ast.CallExpr); ok {
					if fn := goan.Callee(info, call); fn != nil {
						if fn.Name() == "schemaFromRef" && underRef && !resolvePos.IsValid() && goan.Mentions(info, x.Lhs[0], info.Defs[fd.Type.Params.List[1].Names[0]]) {
							resolvePos = x.Pos()
						}
					}
				}
				// the key: `key := schemaLocationKey(location) + … schema1.Ref …`
				ast.Inspect(x.Rhs[0], func(m ast.Node) bool {
					if call, ok := m.(*ast.CallExpr); ok {
						if fn := goan.Callee(info, call); fn != nil && fn.Name() == "schemaLocationKey" {
							keyFn = fn
							keyNamesRef = false
							ast.Inspect(x.Rhs[0], func(k ast.Node) bool {
								if sel, ok := k.(*ast.SelectorExpr); ok && sel.Sel.Name == "Ref" && goan.Mentions(info, sel.X, info.Defs[fd.Type.Params.List[1].Names[0]]) {
									keyNamesRef = true
								}
								return true
							})
						}
					}
					return true
				})
			}
			for _, l := range x.Lhs {
				if ix, ok := l.(*ast.IndexExpr); ok && goan.LastSel(ix.X) == "schemasCompared" && underRef {
					insertPos = x.Pos()
				}
			}
		}
		// recursive descents: calls to compareSchema / CompareProperties(… sd.compareSchema)
		if st, ok := n.(ast.Stmt); ok {
			if _, isRange := st.(*ast.RangeStmt); isRange {
				return
			}
			ast.Inspect(st, func(m ast.Node) bool {
				if call, ok := m.(*ast.CallExpr); ok {
					if fn := goan.Callee(info, call); fn != nil && (fn.Name() == "compareSchema" || fn.Name() == "CompareProperties") {
						if !firstRecurse.IsValid() || call.Pos() < firstRecurse {
							firstRecurse = call.Pos()
						}
					}
				}
				return true
			})
		}
	})
	// the test must be followed by an early return under `ok`
	earlyReturn := false
	ast.Inspect(fd.Body, func(n ast.Node) bool {
		ifs, ok := n.(*ast.IfStmt)
		if !ok || ifs.Init == nil || ifs.Init.Pos() != testPos {
			return true
		}
		if len(ifs.Body.List) == 1 {
			if _, isRet := ifs.Body.List[0].(*ast.ReturnStmt); isRet && goan.IsIdent(ifs.Cond, "ok") {
				earlyReturn = true
			}
		}
		return true
	})
	okOrder := testPos.IsValid() && insertPos.IsValid() && resolvePos.IsValid() && firstRecurse.IsValid() && earlyReturn &&
		testPos < insertPos && insertPos < resolvePos && resolvePos < firstRecurse
	c.Check(okOrder, rule, "diff.SpecAnalyser.compareSchema › visited test → insert → resolve → recurse", c.posOf(pk, fd.Pos()),
		"membership test with early return, then insertion, then $ref resolution, all before the first recursive descent",
		fmt.Sprintf("ordering not established (test@%s early-return=%v insert@%s resolve@%s first-recursion@%s): a circular $ref chain can recurse forever", c.posOf(pk, testPos), earlyReturn, c.posOf(pk, insertPos), c.posOf(pk, resolvePos), c.posOf(pk, firstRecurse)))
	// key function: loop-free, recursion-free
	if keyFn == nil {
		c.Bad(rule, "diff.SpecAnalyser.compareSchema › visited key", c.posOf(pk, fd.Pos()), "the visited-set key is not computed by schemaLocationKey")
		return
	}
	c.Check(keyNamesRef, rule, "diff.SpecAnalyser.compareSchema › visited key names the $ref", c.posOf(pk, fd.Pos()), "the key combines the location root with the Ref of the old-side schema",
		"the visited-set key does not mention the old-side schema's Ref: two different $ref properties under one request/response root share a key, only the first one reached (map order) is compared")
	kd := load.FuncDecl(pk, keyFn.Name())
	loops, recurses := false, false
	ast.Inspect(kd.Body, func(n ast.Node) bool {
		switch x := n.(type) {
		case *ast.ForStmt, *ast.RangeStmt:
			loops = true
		case *ast.CallExpr:
			if fn := goan.Callee(info, x); fn != nil && fn.Pkg() == pk.Types {
				recurses = true // any same-package call could walk the location chain (Node.String does)
			}
		}
		return true
	})
	c.Check(!loops && !recurses, rule, "diff.schemaLocationKey › bounded key", c.posOf(pk, kd.Pos()), "the key reads a fixed number of location fields",
		"the visited-set key is computed with a loop or a call over the location chain: on a cycle through nested locations every turn yields a new key and the guard never fires")
	checkLocationKey(c, rule, pk)
	// analyzeSchemaExtensions / compareSimpleSchema / propertiesFor recurse on finite structure
	for _, fn := range []string{"SpecAnalyser.analyzeSchemaExtensions", "SpecAnalyser.compareSimpleSchema"} {
		d := load.FuncDecl(pk, fn)
		if d == nil {
			c.Anchor(rule, fn, "not found")
			continue
		}
		// every self-call passes a strict sub-structure (a field path of a parameter, or an element of one)
		okAll, n := true, 0
		ast.Inspect(d.Body, func(nn ast.Node) bool {
			call, ok := nn.(*ast.CallExpr)
			if !ok {
				return true
			}
			if cal := goan.Callee(info, call); cal == nil || cal != info.Defs[d.Name] {
				return true
			}
			n++
			sub := false
			for _, a := range call.Args {
				s := goan.ExprString(a)
				if strings.Contains(s, ".Items") {
					sub = true
				}
				if id, isId := ast.Unparen(a).(*ast.UnaryExpr); isId && id.Op == token.AND {
					// &s1 where s1 := schema1.Items.Schemas[i]
					if inner, ok := id.X.(*ast.Ident); ok {
						def := goan.ResolveLocal(info, d.Body, inner)
						if strings.Contains(goan.ExprString(def), ".Items") {
							sub = true
						}
					}
				}
			}
			if !sub {
				okAll = false
			}
			return true
		})
		c.Check(okAll && n > 0, rule, "diff."+fn+" › structural recursion", c.posOf(pk, d.Pos()), fmt.Sprintf("%d self-calls, each on the Items sub-structure of a parameter", n), "a self-call does not descend into a strict sub-structure")
	}
}

// checkTwinLookups: a missing-in-X lookup ranges one side's collection and looks the key up in
// the other side's *twin* collection (same derivation).
func checkTwinLookups(c *Ctx, r *goan.Rel) {
	rule := "C12.R3.twin-lookups"
	c.Rule(rule, "presence lookups compare twin collections: `for k := range A1 { _, ok := A2[k] }` with A1, A2 derived the same way from the two specs", 20)
	pk := r.Pkg
	info := pk.TypesInfo
	for _, fd := range load.AllFuncs(pk) {
		fd := fd
		ast.Inspect(fd.Body, func(n ast.Node) bool {
			rs, ok := n.(*ast.RangeStmt)
			if !ok {
				return true
			}
			collX, kobj := keyRange(info, fd.Body, rs)
			if collX == nil || kobj == nil {
				return true
			}
			sRange := r.SideOf(collX)
			if sRange != goan.S1 && sRange != goan.S2 {
				return true
			}
			// lookups M[k] (comma-ok) directly in this loop body with the other side's map
			ast.Inspect(rs.Body, func(m ast.Node) bool {
				if inner, ok := m.(*ast.RangeStmt); ok && inner != rs {
					_ = inner
				}
				as, ok := m.(*ast.AssignStmt)
				if !ok || len(as.Lhs) != 2 || len(as.Rhs) != 1 {
					return true
				}
				ix, ok := ast.Unparen(as.Rhs[0]).(*ast.IndexExpr)
				if !ok || !identIs(info, ix.Index, kobj) {
					return true
				}
				sMap := r.SideOf(ix.X)
				if sMap == sRange || (sMap != goan.S1 && sMap != goan.S2) {
					return true
				}
				a := r.TwinKeyResolved(collX, fd.Body)
				b := r.TwinKeyResolved(ix.X, fd.Body)
				c.Check(a == b, rule, fmt.Sprintf("diff.%s › range %s ∌ %s", load.FuncName(fd), goan.ExprString(collX), goan.ExprString(ix.X)), c.posOf(pk, as.Pos()),
					"twin collections", fmt.Sprintf("the loop ranges %s but looks its keys up in %s, which is not derived the same way from the other spec: items present on both sides can be reported missing (a spec would differ from itself)", goan.ExprString(collX), goan.ExprString(ix.X)))
				return true
			})
			return true
		})
	}
}

// checkLocationKey: the visited-set key of compareSchema reads every scalar field of
// DifferenceLocation (URL, Method, Response) and the node: two comparisons that differ in one
// of them are different comparisons, and a key that merges them makes the second one be
// skipped — which one depends on map iteration order.
func checkLocationKey(c *Ctx, rule string, pk *packages.Package) {
	kd := load.FuncDecl(pk, "schemaLocationKey")
	obj := pk.Types.Scope().Lookup("DifferenceLocation")
	if kd == nil || obj == nil {
		c.Anchor(rule, "diff.schemaLocationKey / DifferenceLocation", "not found")
		return
	}
	st, ok := obj.Type().Underlying().(*types.Struct)
	if !ok {
		c.Anchor(rule, "diff.DifferenceLocation", "not a struct")
		return
	}
	used := map[string]bool{}
	ast.Inspect(kd.Body, func(n ast.Node) bool {
		if se, ok := n.(*ast.SelectorExpr); ok {
			if goan.NamedName(pk.TypesInfo.TypeOf(se.X)) == "DifferenceLocation" {
				used[se.Sel.Name] = true
			}
		}
		return true
	})
	for i := 0; i < st.NumFields(); i++ {
		f := st.Field(i).Name()
		c.Check(used[f], rule, "diff.schemaLocationKey › reads DifferenceLocation."+f, c.posOf(pk, kd.Pos()), "part of the key",
			"the visited-set key ignores DifferenceLocation."+f+": a schema referenced at two locations that differ only in "+f+" is compared at one of them only, the one map iteration reaches first — a difference is under-reported and the report changes from run to run")
	}
}

// Reviewed map ranges of the diff package whose body reaches compareSchema (and with it the
// visited set, where the first comparison to arrive under a key is the one that runs): each
// iteration must work under a root of its own, so that no two iterations compete for a key.
var visitedOrderReviewed = map[string]string{
	"SpecAnalyser.analyseRequestParams › range sd.urlMethods2":  "one endpoint per iteration: URL and method are part of the visited key",
	"SpecAnalyser.analyseRequestParams › range params2":         "parameters of one location of one operation: only a body parameter carries a schema that can hold a $ref, and an operation has at most one",
	"SpecAnalyser.analyseResponseParams › range sd.urlMethods2": "one endpoint per iteration: URL and method are part of the visited key",
	"SpecAnalyser.analyseResponseParams › range op2Responses":   "one response code per iteration: the code is part of the visited key",
}

// checkVisitedOrder: the visited set makes "who arrives first" observable. Every loop whose body
// reaches compareSchema iterates in a fixed order (a slice, sorted names) or, when it ranges over
// a map, is reviewed: its iterations use keys of their own.
func checkVisitedOrder(c *Ctx, rule string, pk *packages.Package, linear bool) {
	if linear {
		c.Rule(rule, "no entry of the visited set is ever removed: a (root, $ref) pair is compared once and the work is linear in the number of definitions (held only during its comparison, a $ref is compared again on every path through mutually recursive definitions)", 1)
	} else {
		c.Rule(rule, "every range over a map whose body reaches compareSchema gives each iteration a root of its own (reviewed), so the comparison that reaches a key first does not depend on map order", 1)
	}
	info := pk.TypesInfo
	// functions reaching compareSchema (static calls inside the package, or a call through a
	// CompareSchemaFn value)
	decls := map[*types.Func]*ast.FuncDecl{}
	for _, fd := range load.AllFuncs(pk) {
		if fn, _ := info.Defs[fd.Name].(*types.Func); fn != nil && fd.Body != nil {
			decls[fn] = fd
		}
	}
	reaches := map[*types.Func]bool{}
	callsInto := func(n ast.Node) bool {
		found := false
		ast.Inspect(n, func(m ast.Node) bool {
			call, ok := m.(*ast.CallExpr)
			if !ok || found {
				return !found
			}
			if fn := goan.Callee(info, call); fn != nil {
				if fn.Name() == "compareSchema" || reaches[fn] {
					found = true
				}
				return true
			}
			if tv, ok := info.Types[call.Fun]; ok {
				if nt, ok := tv.Type.(*types.Named); ok && nt.Obj().Name() == "CompareSchemaFn" {
					found = true
				}
			}
			return true
		})
		return found
	}
	for changed := true; changed; {
		changed = false
		for fn, fd := range decls {
			if !reaches[fn] && callsInto(fd.Body) {
				reaches[fn] = true
				changed = true
			}
		}
	}
	// removals from the visited set
	removed := 0
	for _, fd := range load.AllFuncs(pk) {
		if fd.Body == nil || !linear {
			continue
		}
		ast.Inspect(fd.Body, func(n ast.Node) bool {
			call, ok := n.(*ast.CallExpr)
			if ok && goan.IsBuiltinCall(info, call, "delete") && len(call.Args) == 2 && goan.LastSel(call.Args[0]) == "schemasCompared" {
				removed++
				c.Bad(rule, "diff."+load.FuncName(fd)+" › visited entry removed", c.posOf(pk, call.Pos()),
					"an entry of the visited set is removed: a definition is then compared again on every path that reaches it, and the comparison of mutually recursive definitions walks every path through them (factorial in their number: it does not finish on a dozen)")
			}
			return true
		})
	}
	if removed == 0 && linear {
		c.Ok(rule, "diff › visited entries are never removed", "", "no delete on schemasCompared")
	}
	// entries released by a deferred delete are held only while their comparison runs: nothing is
	// decided by who arrives first, and map order does not matter (the linear-work rule does)
	scoped := false
	for _, fd := range load.AllFuncs(pk) {
		if fd.Body == nil {
			continue
		}
		ast.Inspect(fd.Body, func(n ast.Node) bool {
			if ds, ok := n.(*ast.DeferStmt); ok && goan.IsBuiltinCall(info, ds.Call, "delete") && len(ds.Call.Args) == 2 && goan.LastSel(ds.Call.Args[0]) == "schemasCompared" {
				scoped = true
			}
			return true
		})
	}
	if linear {
		return
	}
	if scoped {
		c.Ok(rule, "diff › visited entries are released when their comparison ends", "", "stack-scoped visited set: no first-comer effect")
		return
	}
	for _, fd := range load.AllFuncs(pk) {
		if fd.Body == nil {
			continue
		}
		ord := map[string]int{}
		ast.Inspect(fd.Body, func(n ast.Node) bool {
			rs, ok := n.(*ast.RangeStmt)
			if !ok {
				return true
			}
			tv, ok := info.Types[rs.X]
			if !ok {
				return true
			}
			if _, isMap := tv.Type.Underlying().(*types.Map); !isMap || !callsInto(rs.Body) {
				return true
			}
			key := fmt.Sprintf("%s › range %s", load.FuncName(fd), goan.ExprString(rs.X))
			ord[key]++
			if ord[key] > 1 {
				key = fmt.Sprintf("%s #%d", key, ord[key])
			}
			why, ok := visitedOrderReviewed[key]
			c.Check(ok && why != "", rule, "diff."+key, c.posOf(pk, rs.Pos()), "reviewed: "+why,
				fmt.Sprintf("%s ranges over the map %s and its body reaches compareSchema: the visited set lets the first iteration to reach a (root, $ref) key run the comparison and skips the others, so which property a shared definition is reported under follows map iteration order — iterate over sorted names, or show that every iteration works under a root of its own", load.FuncName(fd), goan.ExprString(rs.X)))
			return true
		})
	}
}

// checkNilOnlyForNilArg: the functions the may-panic analysis trusts to answer nil only for a
// nil argument do so: every `return nil` of theirs is under `<first parameter> == nil`.
func checkNilOnlyForNilArg(c *Ctx, rule string, pk *packages.Package, names []string) {
	info := pk.TypesInfo
	for _, name := range names {
		fd := load.FuncDecl(pk, name)
		if fd == nil || fd.Type.Params.NumFields() == 0 || len(fd.Type.Params.List[0].Names) == 0 {
			c.Anchor(rule, "diff."+name, "not found")
			continue
		}
		param := info.Defs[fd.Type.Params.List[0].Names[0]]
		ok := true
		goan.WalkGuards(info, fd.Body, func(leaf ast.Node, guards []goan.Lit, _ []ast.Stmt) {
			rs, isRet := leaf.(*ast.ReturnStmt)
			if !isRet || len(rs.Results) != 1 || !goan.IsNil(info, rs.Results[0]) {
				return
			}
			under := false
			for _, g := range guards {
				if be, isBin := ast.Unparen(g.E).(*ast.BinaryExpr); isBin && g.Tag == nil && !g.NonEmpty && be.Op == token.EQL && g.Pos && identIs(info, be.X, param) && goan.IsNil(info, be.Y) {
					under = true
				}
			}
			if !under {
				ok = false
			}
		})
		c.Check(ok, rule, "diff."+name+" › answers nil only for a nil argument", c.posOf(pk, fd.Pos()), "every `return nil` is under `"+param.Name()+" == nil`",
			name+" can answer nil for a non-nil argument: its callers dereference the result after testing the argument only")
	}
}

// checkLoopAdvance: a `for cond { … }` loop without post statement terminates because its body
// changes what cond reads. A `continue` placed before the statement that does so starts the next
// iteration on the same values: the loop never ends.
func checkLoopAdvance(c *Ctx, rule string, pk *packages.Package) {
	c.Rule(rule, "in every `for cond {}` loop of the diff package (no post statement), no `continue` precedes the last statement that assigns the variables of cond", 1)
	info := pk.TypesInfo
	n := 0
	for _, fd := range load.AllFuncs(pk) {
		if fd.Body == nil {
			continue
		}
		ord := 0
		ast.Inspect(fd.Body, func(nd ast.Node) bool {
			fs, ok := nd.(*ast.ForStmt)
			if !ok || fs.Cond == nil || fs.Post != nil {
				return true
			}
			vars := map[types.Object]bool{}
			ast.Inspect(fs.Cond, func(m ast.Node) bool {
				if id, ok := m.(*ast.Ident); ok {
					if v, ok := info.Uses[id].(*types.Var); ok && !v.IsField() {
						vars[v] = true
					}
				}
				return true
			})
			if len(vars) == 0 {
				return true
			}
			// the last top-level statement of the body that assigns one of them
			var advance token.Pos
			for _, st := range fs.Body.List {
				assigns := false
				switch x := st.(type) {
				case *ast.AssignStmt:
					for _, l := range x.Lhs {
						if id, ok := ast.Unparen(l).(*ast.Ident); ok && vars[info.ObjectOf(id)] {
							assigns = true
						}
					}
				case *ast.IncDecStmt:
					if id, ok := ast.Unparen(x.X).(*ast.Ident); ok && vars[info.ObjectOf(id)] {
						assigns = true
					}
				}
				if assigns {
					advance = st.Pos()
				}
			}
			if !advance.IsValid() {
				return true // advanced elsewhere (inside branches, by calls): not this rule's shape
			}
			ord++
			n++
			var early []string
			var walk func(m ast.Node)
			walk = func(m ast.Node) {
				ast.Inspect(m, func(k ast.Node) bool {
					switch y := k.(type) {
					case *ast.FuncLit, *ast.ForStmt, *ast.RangeStmt:
						if k != m {
							return false // a continue in there belongs to that loop
						}
					case *ast.BranchStmt:
						if y.Tok == token.CONTINUE && y.Label == nil && y.Pos() < advance {
							early = append(early, c.posOf(pk, y.Pos()))
						}
					}
					return true
				})
			}
			for _, st := range fs.Body.List {
				if st.Pos() < advance {
					walk(st)
				}
			}
			c.Check(len(early) == 0, rule, fmt.Sprintf("diff.%s › for %s #%d advances on every iteration", load.FuncName(fd), goan.ExprString(fs.Cond), ord), c.posOf(pk, fs.Pos()), "no continue before the advancing statement",
				fmt.Sprintf("the loop `for %s` is continued at %v before the statement that moves it on: the next iteration sees the same values and the comparison never returns", goan.ExprString(fs.Cond), early))
			return true
		})
	}
	if n == 0 {
		c.Ok(rule, "diff › no conditional loop without post statement", "", "none found")
	}
}

// checkPairwise: the elements of twin collections are compared pairwise — same key, same
// position. A loop over a collection of one spec nested in a loop over its twin of the other
// spec, whose body compares the two elements without relating their keys, compares everything
// with everything: a spec with two different elements then differs from itself.
func checkPairwise(c *Ctx, rule string, r *goan.Rel) {
	c.Rule(rule, "no comparison of an element of spec 1 with an element of spec 2 inside two nested loops over the twin collections, unless the body relates their keys", 0)
	pk := r.Pkg
	info := pk.TypesInfo
	n := 0
	for _, fd := range load.AllFuncs(pk) {
		if fd.Body == nil {
			continue
		}
		fd := fd
		ast.Inspect(fd.Body, func(nd ast.Node) bool {
			outer, ok := nd.(*ast.RangeStmt)
			if !ok {
				return true
			}
			so := r.SideOf(outer.X)
			if so != goan.S1 && so != goan.S2 {
				return true
			}
			ast.Inspect(outer.Body, func(m ast.Node) bool {
				inner, ok := m.(*ast.RangeStmt)
				if !ok {
					return true
				}
				si := r.SideOf(inner.X)
				if (si != goan.S1 && si != goan.S2) || si == so || r.TwinKeyResolved(outer.X, fd.Body) != r.TwinKeyResolved(inner.X, fd.Body) {
					return true
				}
				// the two iteration variables
				vars := func(rs *ast.RangeStmt) []types.Object {
					var out []types.Object
					for _, e := range []ast.Expr{rs.Key, rs.Value} {
						if id, ok := e.(*ast.Ident); ok && id.Name != "_" {
							out = append(out, info.Defs[id])
						}
					}
					return out
				}
				ov, iv := vars(outer), vars(inner)
				related := false
				ast.Inspect(inner.Body, func(k ast.Node) bool {
					be, ok := k.(*ast.BinaryExpr)
					if !ok || (be.Op != token.EQL && be.Op != token.NEQ) {
						return true
					}
					mentions := func(e ast.Expr, objs []types.Object) bool {
						for _, o := range objs {
							if goan.Mentions(info, e, o) {
								return true
							}
						}
						return false
					}
					if (mentions(be.X, ov) && mentions(be.Y, iv)) || (mentions(be.X, iv) && mentions(be.Y, ov)) {
						related = true
					}
					return true
				})
				n++
				c.Check(related, rule, fmt.Sprintf("diff.%s › range %s × range %s", load.FuncName(fd), goan.ExprString(outer.X), goan.ExprString(inner.X)), c.posOf(pk, inner.Pos()), "the body relates the two keys",
					fmt.Sprintf("%s compares every element of %s with every element of %s: two different elements of one spec are reported as differences of the spec with itself", load.FuncName(fd), goan.ExprString(outer.X), goan.ExprString(inner.X)))
				return true
			})
			return true
		})
	}
	if n == 0 {
		c.Ok(rule, "diff › no nested loops over twin collections", "", "none found")
	}
}
