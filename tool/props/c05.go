package props

import (
	"fmt"
	"go/ast"
	"go/token"
	"regexp"
	"sort"
	"strings"

	"golang.org/x/tools/go/packages"

	"verif/tool/goan"
	"verif/tool/load"
	"verif/tool/tmpl"
)

func init() { register("C05", checkC05) }

var serializerRules = []emitRule{
	// additionalProperties
	{Name: "additionalProperties: declared properties are read", Trees: []string{"additionalPropertiesSerializer"}, Rx: `rcv\.⟦pascalize \.Name⟧ = stage1\.⟦pascalize \.Name⟧`, Range: ".Properties", Min: 1,
		Why: "every declared property decoded in stage 1 is copied to the receiver"},
	{Name: "additionalProperties: declared properties are written", Trees: []string{"additionalPropertiesSerializer"}, Rx: `stage1\.⟦pascalize \.Name⟧ = ⟦\.ValueExpression⟧`, Range: ".Properties", Min: 1,
		Why: "every declared property is encoded"},
	{Name: "additionalProperties: declared properties are removed from the additional map by JSON name", Trees: []string{"additionalPropertiesSerializer", "hasDiscriminatedSerializer"}, Rx: `delete\((stage2|rawProps), ⟦printf "%q" \.OriginalName⟧\)`, Range: ".Properties", Min: 2,
		Why: "a declared property must not be decoded a second time as an additional property"},
	{Name: "additionalProperties: the map is written next to the declared properties", Trees: []string{"additionalPropertiesSerializer"}, Rx: `return swag\.ConcatJSON\(props, additional\), nil`, Min: 1,
		Why: "declared and additional properties are both encoded"},
	{Name: "additionalProperties: the map is filled from the remaining keys", Trees: []string{"additionalPropertiesSerializer"}, Rx: `⟦\.ValueExpression⟧ = (result|stage2)`, Min: 2,
		Why: "additional properties are kept on decode (typed and untyped)"},
	// strict object
	{Name: "strict object: declared properties are read", Trees: []string{"noAdditionalPropertiesSerializer"}, Rx: `⟦\.ReceiverName⟧\.⟦pascalize \.Name⟧ = props\.⟦pascalize \.Name⟧`, Range: ".Properties", Min: 1,
		Why: "every declared property is copied to the receiver"},
	// tuple
	{Name: "tuple: each item is read at its own index", Trees: []string{"tupleSerializer"}, Rx: `buf = bytes\.NewBuffer\(stage1\[⟦\$idx⟧\]\)`, Range: ".Properties", Min: 1,
		Why: "tuple items are positional"},
	{Name: "tuple: each item is stored", Trees: []string{"tupleSerializer"}, Rx: `⟦\.ReceiverName⟧\.⟦pascalize \.Name⟧⟦camelize \.Name⟧ = &?data⟦pascalize \.Name⟧`, Range: ".Properties", Min: 1,
		Why: "every decoded tuple item reaches the receiver"},
	{Name: "tuple: each item is written", Trees: []string{"tupleSerializer"}, Rx: `⟦\.ReceiverName⟧\.⟦pascalize \.Name⟧,`, Range: ".Properties", Min: 1,
		Why: "every tuple item is encoded in order"},
	{Name: "tuple: additional items are read", Trees: []string{"tupleSerializer"}, Rx: `= append\(⟦\$\.ValueExpression⟧\.[^\n]*, toadd\)`, Need: []guardAtom{{"AdditionalItems", +1}}, Min: 1,
		Why: "items beyond the tuple are kept on decode"},
	{Name: "tuple: additional items are written", Trees: []string{"tupleSerializer"}, Rx: `data = append\(data, v\)`, Min: 1,
		Why: "items beyond the tuple are encoded"},
	// allOf
	{Name: "allOf: inline member properties are read", Trees: []string{"allOfSerializer"}, Rx: `⟦\$receiverName⟧\.⟦pascalize \.Name⟧ = data⟦\$part⟧\.⟦pascalize \.Name⟧`, Range: ".Properties", Min: 1,
		Why: "properties of anonymous allOf members are decoded"},
	{Name: "allOf: inline member properties are written", Trees: []string{"allOfSerializer"}, Rx: `data⟦\$part⟧\.⟦pascalize \.Name⟧ = ⟦\$receiverName⟧\.⟦pascalize \.Name⟧`, Range: ".Properties", Min: 1,
		Why: "properties of anonymous allOf members are encoded"},
	{Name: "allOf: sibling properties are read", Trees: []string{"allOfSerializer"}, Rx: `⟦\$receiverName⟧\.⟦pascalize \.Name⟧ = props⟦\$part⟧\.⟦pascalize \.Name⟧`, Range: ".Properties", Min: 1,
		Why: "properties declared next to allOf are decoded"},
	{Name: "allOf: sibling properties are written", Trees: []string{"allOfSerializer"}, Rx: `props⟦\$part⟧\.⟦pascalize \.Name⟧ = ⟦\$receiverName⟧\.⟦pascalize \.Name⟧`, Range: ".Properties", Min: 1,
		Why: "properties declared next to allOf are encoded"},
	{Name: "allOf: named members are read", Trees: []string{"allOfSerializer"}, Rx: `⟦\.ReceiverName⟧\.⟦dropPackage \.GoType⟧ = ⟦varname \.Name⟧`, Range: ".AllOf", Need: []guardAtom{{"IsAnonymous", -1}}, Min: 1,
		Why: "each $ref member of allOf is decoded into its embedded struct"},
	{Name: "allOf: named members are written", Trees: []string{"allOfSerializer"}, Rx: `swag\.WriteJSON\(⟦\$receiverName⟧\.⟦dropPackage \.GoType⟧\)`, Range: ".AllOf", Need: []guardAtom{{"IsAnonymous", -1}}, Min: 1,
		Why: "each $ref member of allOf is encoded"},
	{Name: "allOf: every part is concatenated", Trees: []string{"allOfSerializer"}, Rx: `_parts = append\(_parts, `, Min: 4,
		Why: "each encoded part reaches the output"},
	{Name: "allOf: parts are merged into one object", Trees: []string{"allOfSerializer"}, Rx: `return swag\.ConcatJSON\(_parts\.\.\.\), nil`, Min: 1,
		Why: "the parts form one JSON object"},
	// polymorphic
	{Name: "polymorphic: own properties are stored", Trees: []string{"hasDiscriminatedSerializer"}, Rx: `result\.⟦camelize \.Name⟧Field⟦pascalize \.Name⟧ = prop⟦pascalize \.Name⟧data\.⟦pascalize \.Name⟧`, Range: ".Properties", Min: 1,
		Why: "every decoded property of the subtype reaches the result"},
	{Name: "polymorphic: the three encodings are merged", Trees: []string{"hasDiscriminatedSerializer"}, Rx: `return swag\.ConcatJSON\(b1, b2, b3\), nil`, Min: 1,
		Why: "plain, base-typed and additional properties are all encoded"},
	{Name: "polymorphic: additional properties are written", Trees: []string{"hasDiscriminatedSerializer"}, Rx: `b3, err = json\.Marshal\(⟦\.ValueExpression⟧\)`, Need: []guardAtom{{"IsAdditionalProperties", +1}}, Min: 1,
		Why: "additional properties of a polymorphic type are encoded"},
	{Name: "polymorphic: the discriminator is read by its JSON name", Trees: []string{"polymorphicSerializer"}, Rx: "var getType struct \\{ ⟦pascalize \\.DiscriminatorField⟧ string `json:⟦printf \"%q\" \\.DiscriminatorField⟧` \\}", Min: 1,
		Why: "the concrete type is chosen from the discriminator property of the document"},
	{Name: "polymorphic: one case per registered subtype", Trees: []string{"polymorphicSerializer"}, Rx: `case ⟦printf "%q" \$k⟧:\s*var result `, Range: ".Discriminates", Min: 1,
		Why: "each discriminator value restores its concrete type"},
	{Name: "polymorphic: unknown discriminator is an error", Trees: []string{"polymorphicSerializer"}, Rx: `return nil, errors\.New\(422, "invalid ⟦\.DiscriminatorField⟧ value: %q"`, Min: 1,
		Why: "a document of an unknown subtype is not silently decoded as something else"},
	// aliased
	{Name: "alias: decoding delegates to the aliased type", Trees: []string{"aliasedSerializer"}, Rx: `return \(\(\*⟦\.AliasedType⟧\)\(⟦\.ReceiverName⟧\)\)\.UnmarshalJSON\(b\)`, Min: 1,
		Why: "an alias of a formatted type decodes like the type"},
	{Name: "alias: encoding delegates to the aliased type", Trees: []string{"aliasedSerializer"}, Rx: `return \(⟦\.AliasedType⟧\(⟦\.ReceiverName⟧\)\)\.MarshalJSON\(\)`, Min: 1,
		Why: "an alias of a formatted type encodes like the type"},
}

// serializer defines and whether each must define both directions.
var serializerPairs = map[string]string{
	"hasDiscriminatedSerializer":       "both",
	"tupleSerializer":                  "both",
	"additionalPropertiesSerializer":   "both",
	"allOfSerializer":                  "both",
	"aliasedSerializer":                "both",
	"noAdditionalPropertiesSerializer": "unmarshal", // strictness only concerns decoding; encoding/json's default encoder writes exactly the declared properties
}

func checkC05(c *Ctx) {
	c.Explain("model JSON serialization round-trips without loss — structural conditions on the struct tags and the eight serializer templates: (R1) every json struct tag and every key removed from an additional-properties map is the property's JSON name (.OriginalName / PrintTags), never its Go name; `,omitempty` is emitted only under `not .Required` and `.IsEmptyOmitted`, in the templates and in renderMarshalTag, and Required is exactly the schema's required-ness; (R2) each serializer defines both directions, reads and writes every declared property, member, item and additional value (emission table), and selects the serializer by a total switch; (R3) the whole-receiver assignment of an UnmarshalJSON precedes every partial write to the receiver; (R4) polymorphism: the discriminator is read by its JSON name, there is one case per registered subtype keyed by the value the subtype writes, an unknown value is an error. " +
		"Decides tag/key naming, pairing, coverage and order; it does not decide equality of decode∘encode on any document (allOf member that is a map, additionalProperties next to allOf — the allOf serializer carries a TODO — are not decided).")
	c.Assume("encoding/json struct-tag semantics; swag.ConcatJSON merges objects; GenSchema.OriginalName is the property name of the spec (model.go sets it from the schema context's name, .Name may be replaced by x-go-name)")
	ev, _, gen := c.evalTemplates("")

	checkJSONKeys(c, ev, gen)
	checkNumberFormats(c, "C05.R1.number-formats", gen)
	c.Rule("C05.R2.coverage", "each serializer reads and writes every declared property, member, item and additional value", 27)
	checkEmitRules(c, "C05.R2.coverage", ev, serializerRules)
	checkSerializerPairs(c, ev)
	checkRangeFilters(c, "C05.R1.range-filters", ev, reviewedRangeFilters, 25)
	checkSingleSuccessExit(c, "C05.R2.single-success-exit", ev)
	checkSerializerReceivers(c, ev)
	checkMemberCopies(c, ev)
	checkDecodeTargets(c, ev)
	checkRequiredExact(c, "C05.R1.required-exact", gen)
	checkDecoders(c, ev, gen)
	checkReceiverAssignmentOrder(c, ev)
	checkFreshResult(c, ev)
	checkDiscriminatorAgreement(c, "C05.R4.discriminator", gen)
}

var jsonTagRx = regexp.MustCompile("`json:\"(⟦[^⟧]*⟧|-)")
var omitRx = regexp.MustCompile(`,omitempty`)

func checkJSONKeys(c *Ctx, ev *tmpl.Evaluator, gen *packages.Package) {
	rule := "C05.R1.json-keys"
	c.Rule(rule, "json struct tags of model types are built from the JSON name of the property (.OriginalName or PrintTags), never from the Go name", 20)
	models := reachableDefines(ev, []string{"model", "schemaSerializer", "hasDiscriminatedSerializer", "tupleSerializer", "additionalPropertiesSerializer", "allOfSerializer", "noAdditionalPropertiesSerializer", "polymorphicSerializer", "schema", "schemaBody", "schemabody"})
	n := 0
	for _, tn := range sortedKeys(models) {
		l := linearOf(c, ev, tn)
		if l == nil {
			continue
		}
		k := 0
		for _, oc := range l.Find(jsonTagRx) {
			k++
			n++
			tag := oc.Match[1]
			ok := tag == "-" || tag == "⟦.OriginalName⟧"
			c.Check(ok, rule, fmt.Sprintf("%s › %s › json tag #%d", l.Tree.Asset, tn, k), l.Tree.PosStr(oc.Pos), "JSON name",
				fmt.Sprintf("the json tag is built from %s: when the property carries x-go-name the (un)marshaller uses the Go name as JSON key and the value is lost in both directions", tag))
			// the tag of a property's field carries its `,string` option at every site: the structs of a
			// marshaller and of its unmarshaller must encode a value the same way
			if tag == "⟦.OriginalName⟧" {
				rest := l.Text[oc.End:]
				if i := strings.IndexByte(rest, '`'); i >= 0 {
					rest = rest[:i]
				}
				c.Check(strings.Contains(rest, ",string"), rule, fmt.Sprintf("%s › %s › json tag #%d carries ,string under .IsJSONString", l.Tree.Asset, tn, k), l.Tree.PosStr(oc.Pos), "…{{ if .IsJSONString }},string{{ end }}",
					"this struct tag drops the `,string` option that the other tags of the same property carry: an x-go-json-string value is read as a quoted string and written as a bare number (or the reverse), and the model cannot decode what it encoded")
			}
		}
	}
	// PrintTags → renderMarshalTag writes OriginalName
	info := gen.TypesInfo
	if fd := load.FuncDecl(gen, "GenSchema.renderMarshalTag"); fd == nil {
		c.Anchor(rule, "generator.GenSchema.renderMarshalTag", "not found")
	} else {
		first := ""
		ast.Inspect(fd.Body, func(nd ast.Node) bool {
			if call, ok := nd.(*ast.CallExpr); ok && first == "" && goan.LastSel(call.Fun) == "WriteString" && len(call.Args) == 1 {
				first = goan.ExprString(call.Args[0])
			}
			return true
		})
		c.Check(first == "g.OriginalName", rule, "generator.GenSchema.renderMarshalTag › name", c.posOf(gen, fd.Pos()), "g.OriginalName", "the json tag of struct fields starts with "+first+" instead of the property's JSON name")
		// the tag `json:"-"` skips the field: a property whose JSON name is "-" is written `-,`
		dash := false
		ast.Inspect(fd.Body, func(nd ast.Node) bool {
			ifs, ok := nd.(*ast.IfStmt)
			if !ok || len(ifs.Body.List) == 0 {
				return true
			}
			be, ok := ast.Unparen(ifs.Cond).(*ast.BinaryExpr)
			if !ok || be.Op != token.EQL {
				return true
			}
			lit, ok := goan.StringVal(info, be.Y)
			if !ok {
				lit, ok = goan.StringVal(info, be.X)
			}
			if !ok || lit != "-" {
				return true
			}
			if rs, ok := ifs.Body.List[len(ifs.Body.List)-1].(*ast.ReturnStmt); ok && len(rs.Results) == 1 {
				if v, ok := goan.StringVal(info, rs.Results[0]); ok && strings.HasPrefix(v, "-,") {
					dash = true
				}
			}
			return true
		})
		c.Check(dash, rule, "generator.GenSchema.renderMarshalTag › a property named \"-\" is tagged `-,`", c.posOf(gen, fd.Pos()), "the bare tag \"-\" is rewritten",
			"a property whose JSON name is \"-\" (and that is required, so that no option follows the name) gets the tag `json:\"-\"`, which tells encoding/json to skip the field: the property is neither read nor written, and a document that holds it does not round-trip")
		// omitempty condition
		rule2 := "C05.R1.omitempty"
		c.Rule(rule2, "`,omitempty` is written only for properties that are not required and whose zero value may be omitted; Required is the schema's own required-ness", 12)
		for _, fn := range []string{"GenSchema.renderMarshalTag", "GenSchema.PrintTags"} {
			f := load.FuncDecl(gen, fn)
			if f == nil {
				c.Anchor(rule2, "generator."+fn, "not found")
				continue
			}
			k := 0
			ast.Inspect(f.Body, func(nd ast.Node) bool {
				is, ok := nd.(*ast.IfStmt)
				if !ok {
					return true
				}
				writes := false
				ast.Inspect(is.Body, func(m ast.Node) bool {
					if bl, ok := m.(*ast.BasicLit); ok && bl.Kind == token.STRING && strings.Contains(bl.Value, "omitempty") {
						writes = true
					}
					return true
				})
				if !writes || is.Else != nil && false {
					return true
				}
				// nested ifs: only the innermost one that directly holds the literal
				inner := false
				for _, st := range is.Body.List {
					if _, isIf := st.(*ast.IfStmt); isIf {
						ast.Inspect(st, func(m ast.Node) bool {
							if bl, ok := m.(*ast.BasicLit); ok && bl.Kind == token.STRING && strings.Contains(bl.Value, "omitempty") {
								inner = true
							}
							return true
						})
					}
				}
				if inner {
					return true
				}
				k++
				atoms := map[string]bool{}
				boolAtoms(is.Cond, atoms)
				env1 := map[string]bool{"g.Required": true, "g.IsEmptyOmitted": true}
				env2 := map[string]bool{"g.Required": false, "g.IsEmptyOmitted": false}
				env3 := map[string]bool{"g.Required": false, "g.IsEmptyOmitted": true}
				for a := range atoms {
					if a != "g.Required" && a != "g.IsEmptyOmitted" {
						env1[a], env2[a], env3[a] = true, true, true
					}
				}
				ok2 := atoms["g.Required"] && atoms["g.IsEmptyOmitted"] && !boolEval(is.Cond, env1) && !boolEval(is.Cond, env2) && boolEval(is.Cond, env3)
				c.Check(ok2, rule2, fmt.Sprintf("generator.%s › omitempty condition #%d", fn, k), c.posOf(gen, is.Pos()), "!g.Required && g.IsEmptyOmitted",
					fmt.Sprintf("omitempty is written under `%s`: a required property holding a zero value is dropped from the output (or an optional one can no longer be omitted)", goan.ExprString(is.Cond)))
				return true
			})
		}
		n2 := 0
		for _, tn := range ev.F.Names() {
			l := linearOf(c, ev, tn)
			if tn == "serverresponse" {
				continue // response header structs are documentation-only tags
			}
			k := 0
			for _, oc := range l.Find(omitRx) {
				k++
				n2++
				ok := tmpl.GuardHas(oc.Guards, "Required", -1) && tmpl.GuardHas(oc.Guards, "IsEmptyOmitted", +1)
				c.Check(ok, rule2, fmt.Sprintf("%s › %s › ,omitempty #%d", l.Tree.Asset, tn, k), l.Tree.PosStr(oc.Pos), "under not .Required and .IsEmptyOmitted",
					fmt.Sprintf("`,omitempty` is emitted under [%s]: required properties may be omitted from the output", tmpl.GuardString(oc.Guards)))
			}
		}
		if n2 < 10 {
			c.Unk(rule2, "templates › ,omitempty emissions", "", fmt.Sprintf("%d emissions found, expected at least 10", n2))
		}
		checkRequiredWiring(c, rule2, gen)
	}
	_ = info
	if n < 20 {
		c.Unk(rule, "templates › json tags", "", fmt.Sprintf("%d json tags found in the model templates, expected at least 20", n))
	}
}

// checkRequiredWiring: schemaValidations() hands the templates the schema context's own Required.
func checkRequiredWiring(c *Ctx, rule string, gen *packages.Package) {
	info := gen.TypesInfo
	fd := load.FuncDecl(gen, "schemaGenContext.schemaValidations")
	if fd == nil {
		c.Anchor(rule, "schemaGenContext.schemaValidations", "not found")
		return
	}
	recv := info.Defs[fd.Recv.List[0].Names[0]]
	found := false
	ast.Inspect(fd.Body, func(n ast.Node) bool {
		kv, ok := n.(*ast.KeyValueExpr)
		if !ok || !goan.IsIdent(kv.Key, "Required") {
			return true
		}
		found = true
		se, isSel := ast.Unparen(kv.Value).(*ast.SelectorExpr)
		ok2 := isSel && se.Sel.Name == "Required" && identIs(info, se.X, recv)
		c.Check(ok2, rule, "generator.schemaGenContext.schemaValidations › Required", c.posOf(gen, kv.Pos()), "exactly the schema context's Required",
			fmt.Sprintf("Required is computed as %s instead of the schema's own required-ness: required properties get `,omitempty` and lose their zero values on encode", goan.ExprString(kv.Value)))
		return true
	})
	if !found {
		c.Anchor(rule, "schemaValidations › Required", "field not found in the literal")
	}
}

func checkSerializerPairs(c *Ctx, ev *tmpl.Evaluator) {
	rule := "C05.R2.pairs"
	c.Rule(rule, "each serializer template defines UnmarshalJSON and MarshalJSON together (the strict-object serializer only decodes), and schemaSerializer dispatches to every one of them", 9)
	for _, tn := range sortedKeys(boolKeys(serializerPairs)) {
		l := linearOf(c, ev, tn)
		if l == nil {
			c.Anchor(rule, "template "+tn, "not found")
			continue
		}
		hasU := strings.Contains(l.Text, ") UnmarshalJSON(")
		hasM := strings.Contains(l.Text, ") MarshalJSON() ([]byte, error)")
		want := serializerPairs[tn]
		ok := hasU && (hasM || want == "unmarshal")
		c.Check(ok, rule, "template "+tn+" › "+want, l.Tree.File, fmt.Sprintf("UnmarshalJSON=%v MarshalJSON=%v", hasU, hasM), fmt.Sprintf("%s defines UnmarshalJSON=%v MarshalJSON=%v: one direction falls back to encoding/json's default and disagrees with the other", tn, hasU, hasM))
	}
	l := linearOf(c, ev, "schemaSerializer")
	if l == nil {
		c.Anchor(rule, "template schemaSerializer", "not found")
		return
	}
	called := map[string]bool{}
	for _, tc := range l.Calls {
		called[tc.Name] = true
	}
	for _, tn := range []string{"hasDiscriminatedSerializer", "tupleSerializer", "additionalPropertiesSerializer", "allOfSerializer", "noAdditionalPropertiesSerializer"} {
		c.Check(called[tn], rule, "schemaSerializer › dispatches to "+tn, l.Tree.File, "called", "schemaSerializer no longer selects "+tn+": models of that shape are (un)marshalled by encoding/json's default, which loses the shape's extra data")
	}
}

func boolKeys(m map[string]string) map[string]bool {
	out := map[string]bool{}
	for k := range m {
		out[k] = true
	}
	return out
}

var wholeRecvRx = regexp.MustCompile(loosen(`\*⟦\.ReceiverName⟧ = (result|rcv)\b`))
var partialRecvRx = regexp.MustCompile(`⟦\.ValueExpression⟧(\[[a-z]+\])? = `)

// checkReceiverAssignmentOrder: within one generated function, `*m = result` comes before any
// write through .ValueExpression (the additional-properties map of the receiver).
func checkReceiverAssignmentOrder(c *Ctx, ev *tmpl.Evaluator) {
	rule := "C05.R3.receiver-order"
	c.Rule(rule, "in UnmarshalJSON the assignment of the whole receiver precedes every write to one of its parts", 2)
	for _, tn := range []string{"hasDiscriminatedSerializer", "additionalPropertiesSerializer"} {
		l := linearOf(c, ev, tn)
		if l == nil {
			c.Anchor(rule, "template "+tn, "not found")
			continue
		}
		// function segments
		starts := regexp.MustCompile(`\nfunc \(`).FindAllStringIndex(l.Text, -1)
		seg := func(off int) (int, int) {
			s, e := 0, len(l.Text)
			for _, st := range starts {
				if st[0] <= off {
					s = st[0]
				} else if st[0] > off && st[0] < e {
					e = st[0]
				}
			}
			return s, e
		}
		whole := wholeRecvRx.FindAllStringIndex(l.Text, -1)
		if len(whole) == 0 {
			c.Bad(rule, "template "+tn+" › *receiver = result", l.Tree.File, "the decoded result is never assigned to the receiver")
			continue
		}
		for i, w := range whole {
			s, e := seg(w[0])
			bad := ""
			for _, p := range partialRecvRx.FindAllStringIndex(l.Text[s:e], -1) {
				if s+p[0] < w[0] {
					bad = l.Tree.PosStr(l.PosAt(s + p[0]))
				}
			}
			c.Check(bad == "", rule, fmt.Sprintf("template %s › *receiver = result #%d precedes partial writes", tn, i+1), l.Tree.PosStr(l.PosAt(w[0])), "whole-receiver assignment first",
				"a part of the receiver (the additional-properties map) is written at "+bad+" before the whole receiver is overwritten: the additional properties just decoded are wiped")
		}
	}
}

var decodeIntoRx = regexp.MustCompile(`(?:json\.Unmarshal\(\w+, |\w+\.Decode\()(?:⟦[^⟧]*⟧)?&?(?:⟦[^⟧]*⟧)?(\w+)\)`)
var forRx = regexp.MustCompile(`\n\s*for [^\n]*\{`)

// checkDecoders: decoders that may fill untyped values keep numbers exact (UseNumber on every
// json.NewDecoder of the tuple and polymorphic serializers), the variable an additional value is
// decoded into is declared inside the loop (encoding/json merges into an existing value: a
// hoisted variable aliases slices and inherits fields across iterations), and a named tuple
// keeps its members in item order.
func checkDecoders(c *Ctx, ev *tmpl.Evaluator, gen *packages.Package) {
	rule := "C05.R2.decoders"
	c.Rule(rule, "element decoders keep numbers exact, decode each additional value into a fresh variable, and tuple members stay in item order", 6)
	for _, tn := range []string{"tupleSerializer", "hasDiscriminatedSerializer"} {
		l := linearOf(c, ev, tn)
		if l == nil {
			c.Anchor(rule, "template "+tn, "not found")
			continue
		}
		nd := len(regexp.MustCompile(`json\.NewDecoder\(`).FindAllString(l.Text, -1))
		nu := len(regexp.MustCompile(`\.UseNumber\(\)`).FindAllString(l.Text, -1))
		c.Check(nd > 0 && nd == nu, rule, "template "+tn+" › every json.NewDecoder uses UseNumber", l.Tree.File, fmt.Sprintf("%d decoders", nd),
			fmt.Sprintf("%d json.NewDecoder calls but %d UseNumber calls: untyped values decoded without UseNumber turn integers beyond 2^53 into float64 and lose digits", nd, nu))
	}
	nTargets := 0
	for _, tn := range []string{"additionalPropertiesSerializer", "hasDiscriminatedSerializer", "tupleSerializer"} {
		l := linearOf(c, ev, tn)
		if l == nil {
			continue
		}
		k := 0
		for _, use := range decodeIntoRx.FindAllStringSubmatchIndex(l.Text, -1) {
			v := l.Text[use[2]:use[3]]
			declRx := regexp.MustCompile(`var ` + regexp.QuoteMeta(v) + ` `)
			lastDecl, lastFor := -1, -1
			for _, d := range declRx.FindAllStringIndex(l.Text[:use[0]], -1) {
				lastDecl = d[0]
			}
			for _, f := range forRx.FindAllStringIndex(l.Text[:use[0]], -1) {
				lastFor = f[0]
			}
			// only decodes that sit in a loop of the generated code, into a variable declared with `var`
			if lastDecl < 0 || lastFor < 0 || strings.Count(l.Text[lastFor:use[0]], "{") <= strings.Count(l.Text[lastFor:use[0]], "}") {
				continue
			}
			k++
			nTargets++
			c.Check(lastDecl > lastFor, rule, fmt.Sprintf("template %s › loop decode #%d into a per-iteration variable", tn, k), l.Tree.PosStr(l.PosAt(use[0])), "`var "+v+"` declared inside the loop",
				"the variable `"+v+"` that loop values are decoded into is declared outside the loop: encoding/json reuses its backing arrays and keeps fields of the previous entry, so entries alias or inherit each other's data")
		}
	}
	if nTargets < 3 {
		c.Unk(rule, "serializer templates › loop decodes", "", fmt.Sprintf("%d decodes into `var` variables inside loops found, expected at least 3", nTargets))
	}
	// named tuple members in item order
	info := gen.TypesInfo
	fd := load.FuncDecl(gen, "schemaGenContext.buildItems")
	if fd == nil {
		c.Anchor(rule, "generator.schemaGenContext.buildItems", "not found")
		return
	}
	inOrder, sorted := false, ""
	ast.Inspect(fd.Body, func(n ast.Node) bool {
		switch x := n.(type) {
		case *ast.RangeStmt:
			if goan.LastSel(x.X) == "Schemas" {
				for _, st := range x.Body.List {
					if as, ok := st.(*ast.AssignStmt); ok && len(as.Lhs) == 1 && goan.LastSel(as.Lhs[0]) == "Properties" {
						if call, ok := as.Rhs[0].(*ast.CallExpr); ok && goan.IsBuiltinCall(info, call, "append") {
							inOrder = true
						}
					}
				}
			}
		case *ast.CallExpr:
			if fn := goan.Callee(info, x); fn != nil && fn.Pkg() != nil && (fn.Pkg().Path() == "sort" || fn.Pkg().Path() == "slices") {
				for _, a := range x.Args {
					if strings.Contains(goan.ExprString(a), "Properties") {
						sorted = c.posOf(gen, x.Pos())
					}
				}
			}
		}
		return true
	})
	c.Check(inOrder && sorted == "", rule, "generator.schemaGenContext.buildItems › tuple members appended in item order, never sorted", c.posOf(gen, fd.Pos()), "append in the range over Items.Schemas",
		"tuple members are re-ordered ("+sorted+"): the serializer decodes array position i into the i-th member, so members p10, p11 sorted before p2 receive the wrong items")
}

// checkSerializerReceivers: encoding/json does not call a pointer-receiver MarshalJSON on a value
// that is not addressable (a map element, a value passed by value): every generated MarshalJSON has a
// value receiver, every UnmarshalJSON a pointer receiver.
func checkSerializerReceivers(c *Ctx, ev *tmpl.Evaluator) {
	rule := "C05.R2.receivers"
	c.Rule(rule, "every generated MarshalJSON has a value receiver and every generated UnmarshalJSON a pointer receiver", 10)
	rx := regexp.MustCompile(`func \(⟦[^⟧]*⟧ (\*?)(?:\w*⟦[^⟧]*⟧\w*)+\) (MarshalJSON|UnmarshalJSON)\(`)
	for _, tn := range ev.F.Names() {
		l := linearOf(c, ev, tn)
		if l == nil || strings.HasPrefix(l.Tree.Asset, "contrib/") {
			continue
		}
		for k, oc := range l.Find(rx) {
			ptr := oc.Match[1] == "*"
			want := oc.Match[2] == "UnmarshalJSON"
			c.Check(ptr == want, rule, fmt.Sprintf("%s › %s › %s #%d", l.Tree.Asset, tn, oc.Match[2], k+1), l.Tree.PosStr(oc.Pos), map[bool]string{true: "pointer receiver", false: "value receiver"}[want],
				map[bool]string{true: "UnmarshalJSON with a value receiver decodes into a copy: the decoded value is lost", false: "MarshalJSON with a pointer receiver is not used by encoding/json for values that are not addressable (elements of a map[string]T, values encoded by value): the model is then encoded field by field and its additional properties / custom shape are dropped"}[want])
		}
	}
}

// checkMemberCopies: an UnmarshalJSON that decodes into a shadow struct copies every declared
// member back into the receiver unconditionally — a copy under a condition on the decoded value
// (non-zero, non-nil) keeps what an earlier decode left in the target.
func checkMemberCopies(c *Ctx, ev *tmpl.Evaluator) {
	rule := "C05.R2.member-copies"
	c.Rule(rule, "in the serializer templates, the assignment of a decoded member to the receiver's field is not wrapped in a generated `if`", 2)
	rx := regexp.MustCompile(`(?:⟦[^⟧]*ReceiverName⟧|\b\w+)\.⟦pascalize \.Name⟧ = \w+\.⟦pascalize \.Name⟧`)
	n := 0
	for _, tn := range ev.F.Names() {
		l := linearOf(c, ev, tn)
		if l == nil || !strings.Contains(l.Tree.Asset, "serializer") {
			continue
		}
		for k, oc := range l.Find(rx) {
			n++
			// previous non-blank line of generated text
			prev := strings.TrimRight(l.Text[:oc.Start], " \t\n")
			if i := strings.LastIndexByte(prev, '\n'); i >= 0 {
				prev = prev[i+1:]
			}
			prev = strings.TrimSpace(prev)
			cond := strings.HasPrefix(prev, "if ") && strings.HasSuffix(strings.TrimSpace(strings.SplitN(prev, "//", 2)[0]), "{")
			c.Check(!cond, rule, fmt.Sprintf("%s › %s › member copy #%d", l.Tree.Asset, tn, k+1), l.Tree.PosStr(oc.Pos), "unconditional",
				"the decoded member is copied into the receiver only under `"+prev+"`: decoding a document whose member is false/0/\"\" into a target that already holds a value keeps the old value")
		}
	}
	if n == 0 {
		c.Unk(rule, "serializer templates › member copies", "", "no `<receiver>.<Member> = <decoded>.<Member>` assignment found")
	}
}

// checkRequiredExact: property names are case-sensitive; whether a property is required is decided
// by exact comparison with the schema's `required` list.
func checkRequiredExact(c *Ctx, rule string, gen *packages.Package) {
	c.Rule(rule, "no case-insensitive matching of a name against a schema's Required list", 1)
	info := gen.TypesInfo
	n := 0
	for _, fd := range load.AllFuncs(gen) {
		fd := fd
		ast.Inspect(fd.Body, func(nd ast.Node) bool {
			// positive instances: ranges over <x>.Required comparing with ==
			if rs, ok := nd.(*ast.RangeStmt); ok && goan.LastSel(rs.X) == "Required" {
				n++
				c.Ok(rule, fmt.Sprintf("generator.%s › range over %s", load.FuncName(fd), goan.ExprString(rs.X)), c.posOf(gen, rs.Pos()), "element-wise comparison")
			}
			call, ok := nd.(*ast.CallExpr)
			if !ok {
				return true
			}
			fn := goan.Callee(info, call)
			if fn == nil {
				return true
			}
			name := goan.CalleeName(fn)
			if !(strings.HasSuffix(name, "ContainsStringsCI") || name == "strings.EqualFold") {
				return true
			}
			for _, a := range call.Args {
				if goan.LastSel(a) == "Required" {
					n++
					c.Bad(rule, fmt.Sprintf("generator.%s › %s(%s, …)", load.FuncName(fd), name, goan.ExprString(a)), c.posOf(gen, call.Pos()),
						"the required list is searched without regard to case: a property whose name differs only by case from a required one (ID / id) is treated as required — pointer without omitempty, `null` added on re-encoding")
				}
			}
			return true
		})
	}
	if n == 0 {
		c.Unk(rule, "generator › uses of Schema.Required", "", "no range over a Required list found")
	}
}

// checkDecodeTargets: json.Unmarshal needs a non-nil pointer: the additional-properties decoders
// declare `var toadd T` and must pass its address whatever T is (for a pointer T the variable
// itself is a nil pointer).
func checkDecodeTargets(c *Ctx, ev *tmpl.Evaluator) {
	rule := "C05.R2.decode-targets"
	c.Rule(rule, "every json.Unmarshal(v, X) of the serializer templates is passed the address of its target unconditionally", 2)
	rx := regexp.MustCompile(`json\.Unmarshal\(\w+, ([^)]*)\)`)
	n := 0
	for _, tn := range ev.F.Names() {
		l := linearOf(c, ev, tn)
		if l == nil || !strings.Contains(l.Tree.Asset, "serializer") {
			continue
		}
		for k, oc := range l.Find(rx) {
			arg := oc.Match[1]
			if !regexp.MustCompile(`^&?\w+$`).MatchString(strings.TrimSpace(arg)) {
				continue // composite targets (&struct fields …) are not this rule's shape
			}
			n++
			amp := strings.Index(l.Text[oc.Start:oc.End], "&")
			ok := strings.HasPrefix(strings.TrimSpace(arg), "&") && amp >= 0 && len(l.GuardsAt(oc.Start+amp)) == len(l.GuardsAt(oc.Start))
			c.Check(ok, rule, fmt.Sprintf("%s › %s › json.Unmarshal #%d", l.Tree.Asset, tn, k+1), l.Tree.PosStr(oc.Pos), "target passed by address in every instantiation",
				"the `&` in front of the decoding target "+strings.TrimSpace(arg)+" is missing or conditional: for a pointer-typed target the variable is a nil pointer and json.Unmarshal fails with 'Unmarshal(nil *T)' on every document that has such a member")
		}
	}
	if n == 0 {
		c.Unk(rule, "serializer templates › json.Unmarshal calls", "", "no call with a simple target found")
	}
}

// checkSingleSuccessExit: a generated decoder reports success once, after its last store. A
// `return nil` before that leaves out whatever the statements after it would have stored — the
// additional properties, the members of an allOf, the items of a tuple — for the inputs that
// take that exit.
func checkSingleSuccessExit(c *Ctx, rule string, ev *tmpl.Evaluator) {
	c.Rule(rule, "in the serializer templates, `return nil` is the last statement of its function and occurs nowhere else", 5)
	n := 0
	for _, name := range ev.F.Names() {
		t := ev.F.Trees[name]
		if t == nil || t.Tree == nil || t.Tree.Root == nil || !strings.Contains(t.File, "/templates/serializers/") {
			continue
		}
		l := tmpl.Linearise(t)
		lines := strings.Split(l.Text, "\n")
		fn, ord, fnNo := "", 0, 0
		for i, ln := range lines {
			if strings.HasPrefix(ln, "func ") {
				fnNo++
				fn = ln
				if j := strings.Index(fn, "{"); j > 0 {
					fn = strings.TrimSpace(fn[:j])
				}
				fn = regexp.MustCompile(`⟦[^⟧]*⟧`).ReplaceAllString(fn, "…")
				ord = 0
				continue
			}
			if strings.TrimSpace(ln) != "return nil" || fn == "" {
				continue
			}
			ord++
			n++
			// the next line that holds Go text closes the function
			last := false
			for _, nx := range lines[i+1:] {
				s := strings.TrimSpace(regexp.MustCompile(`⟦[^⟧]*⟧`).ReplaceAllString(nx, ""))
				if s == "" {
					continue
				}
				last = nx == "}" || strings.HasPrefix(nx, "}")
				break
			}
			c.Check(last, rule, fmt.Sprintf("%s › function %d %s › return nil #%d ends the function", t.Asset, fnNo, fn, ord), t.File, "last statement",
				fmt.Sprintf("%s reports success before its last statement: for the documents that take this exit, what the statements after it store (additional properties, allOf members, tuple items) is left out, and the model no longer round-trips", fn))
		}
	}
	c.Analysed("success exits of generated (un)marshallers", n)
}

// checkNumberFormats: JSON Schema writes every number with `type: number` or `type: integer`;
// specs that say `type: number, format: int64` mean a 64-bit integer. The format table gives such
// a property the Go type the integer table gives the same format: with float64 instead, values
// above 2^53 come back changed from a decode / encode round trip.
func checkNumberFormats(c *Ctx, rule string, gen *packages.Package) {
	c.Rule(rule, "formatMapping[\"number\"] gives every integer format the Go type formatMapping[\"integer\"] gives it", 10)
	fm := load.PkgVarValue(gen, "formatMapping")
	if fm == nil {
		c.Anchor(rule, "generator.formatMapping", "not found")
		return
	}
	tab := map[string]map[string]string{}
	for _, outer := range goan.Rows(fm) {
		ok, _ := goan.StringVal(gen.TypesInfo, outer.Key)
		tab[ok] = map[string]string{}
		for _, r := range goan.Rows(outer.Val) {
			ik, _ := goan.StringVal(gen.TypesInfo, r.Key)
			if v, isStr := goan.StringVal(gen.TypesInfo, r.Val); isStr {
				tab[ok][ik] = v
			}
		}
	}
	if len(tab["integer"]) == 0 {
		c.Anchor(rule, "generator.formatMapping[\"integer\"]", "no rows")
		return
	}
	var fmts []string
	for f := range tab["integer"] {
		fmts = append(fmts, f)
	}
	sort.Strings(fmts)
	for _, f := range fmts {
		want := tab["integer"][f]
		got := tab["number"][f]
		c.Check(got == want, rule, "generator.formatMapping › number."+f, c.posOf(gen, fm.Pos()), want,
			fmt.Sprintf("`type: number, format: %s` is given the Go type %q (no row: float64), `type: integer, format: %s` gets %s: an integer above 2^53 written in a property declared the first way is rounded when the document is decoded and encoded again", f, got, f, want))
	}
}

var freshDeclRx = `\bvar %s (?:⟦|\w|\*|\[)`

// checkFreshResult: the value an UnmarshalJSON assigns to the whole receiver (`*m = rcv`) starts as
// the zero value of the type: it is declared with `var rcv T` in the same function and by nothing
// else. A result that starts as a copy of the receiver (`rcv := *m`) keeps what an earlier document
// left in the parts this document does not mention — the additional-properties map is assigned only
// when there are extra keys — so decoding twice into the same memory (encoding/json does, for the
// elements of a slice it re-decodes) writes back properties the second document never had.
func checkFreshResult(c *Ctx, ev *tmpl.Evaluator) {
	rule := "C05.R3.fresh-result"
	c.Rule(rule, "the value assigned to the whole receiver in UnmarshalJSON is declared as a zero value (`var x T`) in the same function and never initialised from the receiver", 2)
	for _, tn := range []string{"hasDiscriminatedSerializer", "additionalPropertiesSerializer"} {
		l := linearOf(c, ev, tn)
		if l == nil {
			c.Anchor(rule, "template "+tn, "not found")
			continue
		}
		starts := regexp.MustCompile(`\nfunc \(`).FindAllStringIndex(l.Text, -1)
		for i, w := range wholeRecvRx.FindAllStringSubmatchIndex(l.Text, -1) {
			s := 0
			for _, st := range starts {
				if st[0] <= w[0] {
					s = st[0]
				}
			}
			name := l.Text[w[2]:w[3]]
			body := l.Text[s:w[0]]
			decl := regexp.MustCompile(fmt.Sprintf(freshDeclRx, name)).MatchString(body)
			other := regexp.MustCompile(`\b` + name + `\s*:?=[^=\n][^\n]*`).FindString(body)
			if regexp.MustCompile(`:?=\s*(?:⟦[^⟧]*⟧|\w)+\{\}\s*$`).MatchString(other) {
				// an empty composite literal is the zero value spelled out
				other, decl = "", true
			}
			key := fmt.Sprintf("template %s › *receiver = %s #%d starts from the zero value", tn, name, i+1)
			switch {
			case other != "":
				c.Bad(rule, key, l.Tree.PosStr(l.PosAt(w[0])), "`"+strings.TrimSpace(other)+"…` gives "+name+" a value before the properties are copied into it: what an earlier document left in the receiver (the additional-properties map, which is assigned only when the document has extra keys) survives, and a second decode into the same value writes back properties the document does not have")
			case !decl:
				c.Bad(rule, key, l.Tree.PosStr(l.PosAt(w[0])), "no `var "+name+" T` declaration precedes the assignment in the same function")
			default:
				c.Ok(rule, key, l.Tree.PosStr(l.PosAt(w[0])), "var "+name+" T")
			}
		}
	}
}
