package props

import (
	"fmt"
	"go/ast"
	"go/token"
	"go/types"
	"regexp"
	"sort"
	"strings"

	"golang.org/x/tools/go/packages"

	"verif/tool/goan"
	"verif/tool/load"
	"verif/tool/tmpl"
)

func init() { register("C02", checkC02) }

// Validation keywords (DESIGN appendix A.1): callee family → keyword; allowed / required
// validation-field arguments.
type kwSpec struct {
	guardFields []string // a guard on any of these fields counts
	allowed     []string // validation fields that may appear among the arguments
	required    []string // validation fields that must appear among the arguments
}

var validationFields = map[string]bool{"Maximum": true, "ExclusiveMaximum": true, "Minimum": true, "ExclusiveMinimum": true, "MultipleOf": true, "MaxLength": true, "MinLength": true,
	"Pattern": true, "MaxItems": true, "MinItems": true, "UniqueItems": true, "Enum": true, "ItemsEnum": true, "MaxProperties": true, "MinProperties": true}

var kwTable = map[string]kwSpec{
	"Maximum":       {[]string{"Maximum"}, []string{"Maximum", "ExclusiveMaximum"}, []string{"Maximum", "ExclusiveMaximum"}},
	"Minimum":       {[]string{"Minimum"}, []string{"Minimum", "ExclusiveMinimum"}, []string{"Minimum", "ExclusiveMinimum"}},
	"MultipleOf":    {[]string{"MultipleOf"}, []string{"MultipleOf"}, []string{"MultipleOf"}},
	"MaxLength":     {[]string{"MaxLength"}, []string{"MaxLength"}, []string{"MaxLength"}},
	"MinLength":     {[]string{"MinLength"}, []string{"MinLength"}, []string{"MinLength"}},
	"Pattern":       {[]string{"Pattern"}, []string{"Pattern"}, []string{"Pattern"}},
	"MaxItems":      {[]string{"MaxItems"}, []string{"MaxItems"}, []string{"MaxItems"}},
	"MinItems":      {[]string{"MinItems"}, []string{"MinItems"}, []string{"MinItems"}},
	"UniqueItems":   {[]string{"UniqueItems"}, nil, nil},
	"Enum":          {[]string{"Enum", "ItemsEnum", "HasEnum"}, []string{"Enum", "ItemsEnum"}, nil},
	"MaxProperties": {[]string{"MaxProperties"}, []string{"MaxProperties"}, []string{"MaxProperties"}},
	"MinProperties": {[]string{"MinProperties"}, []string{"MinProperties"}, []string{"MinProperties"}},
	"Required":      {[]string{"Required"}, nil, nil},
	"Format":        {[]string{"IsCustomFormatter"}, nil, nil},
	"ReadOnly":      {[]string{"ReadOnly"}, nil, nil},
}

// keywords whose template field is a pointer (or slice): declared ⇔ non-empty
var presenceGuarded = map[string]bool{"Maximum": true, "Minimum": true, "MultipleOf": true, "MaxLength": true, "MinLength": true, "MaxItems": true, "MinItems": true, "MaxProperties": true, "MinProperties": true}

func keywordOfCallee(pkg, fn string) string {
	if pkg == "errors" {
		switch fn {
		case "TooManyProperties":
			return "MaxProperties"
		case "TooFewProperties":
			return "MinProperties"
		case "Required":
			return "Required"
		}
		return ""
	}
	switch {
	case strings.HasPrefix(fn, "MaximumU"), strings.HasPrefix(fn, "MaximumI"), fn == "Maximum":
		return "Maximum"
	case strings.HasPrefix(fn, "MinimumU"), strings.HasPrefix(fn, "MinimumI"), fn == "Minimum":
		return "Minimum"
	case strings.HasPrefix(fn, "MultipleOf"):
		return "MultipleOf"
	case fn == "MaxLength", fn == "MinLength", fn == "Pattern", fn == "MaxItems", fn == "MinItems", fn == "UniqueItems", fn == "ReadOnly":
		return fn
	case fn == "EnumCase", fn == "Enum":
		return "Enum"
	case strings.HasPrefix(fn, "Required"):
		return "Required"
	case fn == "FormatOf":
		return "Format"
	}
	return ""
}

var validateCallRx = regexp.MustCompile(`\b(validate|errors)\.([A-Z][A-Za-z0-9]*)\(`)

type emitterSite struct {
	define  string
	keyword string
	callee  string
}

// checkValidationEmitters implements the guard↔call↔argument pairing over every template
// define (E3). Returns the set of (define → keywords emitted) for family coverage.
func checkValidationEmitters(c *Ctx, rule string, ev *tmpl.Evaluator, validatePkg *types.Package) map[string]map[string]bool {
	c.Rule(rule, "every validate.* / errors.TooFew|TooMany call in the templates: callee exists in go-openapi/validate, sits under a guard on its own keyword (locally or at every call site of its define), and its validation-field arguments belong to that keyword (bound together with its Exclusive flag)", 50)
	emitted := map[string]map[string]bool{}
	lins := map[string]*tmpl.Linear{}
	for _, name := range ev.F.Names() {
		lins[name] = tmpl.Linearise(ev.F.Trees[name])
	}
	// call sites of each define
	callers := map[string][]tmpl.TemplateCall{}
	for _, l := range lins {
		for _, tc := range l.Calls {
			callers[tc.Name] = append(callers[tc.Name], tc)
		}
	}
	occN := map[string]int{}
	for _, name := range ev.F.Names() {
		l := lins[name]
		for _, oc := range l.Find(validateCallRx) {
			pkg, fn := oc.Match[1], oc.Match[2]
			kw := keywordOfCallee(pkg, fn)
			if kw == "" {
				continue // errors.New, errors.CompositeValidationError, validate.FormatOf handled above…
			}
			base := fmt.Sprintf("%s › %s › %s.%s", l.Tree.Asset, name, pkg, fn)
			occN[base]++
			key := fmt.Sprintf("%s #%d", base, occN[base])
			pos := l.Tree.PosStr(oc.Pos)
			// callee exists
			if pkg == "validate" && validatePkg != nil {
				if validatePkg.Scope().Lookup(fn) == nil {
					c.Bad(rule, key+" › exists", pos, "go-openapi/validate has no function "+fn+": the generated code does not compile")
					continue
				}
			}
			spec := kwTable[kw]
			if emitted[name] == nil {
				emitted[name] = map[string]bool{}
			}
			emitted[name][kw] = true
			// guard
			guarded := false
			for _, gf := range spec.guardFields {
				if tmpl.GuardMentions(oc.Guards, gf) {
					guarded = true
				}
			}
			if !guarded && len(callers[name]) > 0 {
				all := true
				for _, cs := range callers[name] {
					ok := false
					for _, gf := range spec.guardFields {
						if tmpl.GuardMentions(cs.Guards, gf) {
							ok = true
						}
					}
					if !ok {
						all = false
					}
				}
				guarded = all
			}
			// a bound is enforced whenever it is declared: its guard is a presence test of the (pointer-
			// valued) field itself, not a test of its value (`gt0 .MaxItems` would drop `maxItems: 0`)
			if guarded && presenceGuarded[kw] {
				byPresence := false
				check := func(gs []tmpl.Guard) {
					for _, g := range gs {
						if g.Kind != "if" && g.Kind != "with" {
							continue
						}
						atoms := map[string]bool{}
						tmpl.ParseCond(g.Pipe).Atoms(atoms)
						for a := range atoms {
							for _, gf := range spec.guardFields {
								if a == "."+gf || strings.HasSuffix(a, "."+gf) && strings.HasPrefix(a, ".") && !strings.Contains(a, " ") {
									byPresence = true
								}
							}
						}
					}
				}
				check(oc.Guards)
				for _, cs := range callers[name] {
					check(cs.Guards)
				}
				if !byPresence {
					guarded = false
				}
			}
			if kw == "Required" || kw == "ReadOnly" || kw == "Format" {
				// emitted under structural flags (.Required / .ReadOnly / .IsCustomFormatter) that several
				// defines test at a distance: only the argument rule applies
				guarded = true
			}
			// arguments
			args := l.CallArgs(oc.End - 1)
			var vf []string
			seen := map[string]bool{}
			for _, ph := range tmpl.Placeholders(args) {
				for _, f := range tmpl.FieldsIn(ph) {
					if validationFields[f] && !seen[f] {
						seen[f] = true
						vf = append(vf, f)
					}
				}
			}
			sort.Strings(vf)
			var foreign, missing []string
			for _, f := range vf {
				if !contains(spec.allowed, f) {
					foreign = append(foreign, f)
				}
			}
			// the Enum callee may take its values from a generated variable instead of .Enum
			for _, rq := range spec.required {
				if !seen[rq] {
					missing = append(missing, rq)
				}
			}
			ok := guarded && len(foreign) == 0 && len(missing) == 0
			why := ""
			switch {
			case !guarded:
				why = fmt.Sprintf("%s.%s is not under a guard on %v (guards: %s): the check is emitted for schemas that do not carry the constraint, or never", pkg, fn, spec.guardFields, tmpl.GuardString(oc.Guards))
			case len(foreign) > 0:
				why = fmt.Sprintf("%s.%s (keyword %s) is passed %v: the value of another constraint is enforced in place of this one", pkg, fn, kw, foreign)
			case len(missing) > 0:
				why = fmt.Sprintf("%s.%s (keyword %s) is not passed %v", pkg, fn, kw, missing)
			}
			c.Check(ok, rule, key, pos, fmt.Sprintf("guard on %s, arguments %v", kw, vf), why)
		}
	}
	return emitted
}

func checkC02(c *Ctx) {
	c.Explain("generated model validation agrees with the schema — structural conditions: (R1) every validate.* call in the templates exists in go-openapi/validate, is guarded by its own keyword and receives that keyword's values (bound + Exclusive flag together); every validation keyword has an emitter in the schema-primitive family, the slice family and the object family; (R2) schemavalidator descends into Properties, Items, AdditionalProperties, AdditionalItems and AllOf; zero-value skips are guarded by `not .Required` (and by `.IsNullable` when they skip an element or a map value); (R3) the Go-side flags that select template branches depend on every input they must: hasValidations, HasSliceValidations, mergeValidation, MergeResult (or-accumulation), guardValidations pairs, and format resolution normalises dashes at every lookup site. " +
		"Decides emitter presence / pairing / flag dependencies, not agreement with the reference validator on any (schema, instance) pair.")
	c.Assume("keyword table of DESIGN appendix A.1 (Swagger 2.0 schema keywords ↔ go-openapi/validate v0.24 functions)")
	ev, _, gen := c.evalTemplates("")
	prog := c.ProgDeps("./generator", "github.com/go-openapi/runtime/yamlpc")
	var vpk *types.Package
	if p := prog.ByPath["github.com/go-openapi/validate"]; p != nil {
		vpk = p.Types
	}
	if vpk == nil {
		c.Anchor("C02.R1.emitters", "github.com/go-openapi/validate", "dependency not loaded")
	}
	emitted := checkValidationEmitters(c, "C02.R1.emitters", ev, vpk)

	// family coverage (union over the defines of a family, following template calls)
	c.Rule("C02.R1.family-coverage", "each validation keyword has at least one emitter reachable from the schema validator entry points", 14)
	reach := reachableDefines(ev, []string{"schemavalidator", "propertyvalidator", "primitivefieldvalidator", "slicevalidator", "mapvalidator", "objectvalidator", "modelvalidator", "validationPrimitive"})
	union := map[string]bool{}
	for d := range reach {
		for k := range emitted[d] {
			union[k] = true
		}
	}
	for _, k := range []string{"Maximum", "Minimum", "MultipleOf", "MaxLength", "MinLength", "Pattern", "MaxItems", "MinItems", "UniqueItems", "Enum", "MaxProperties", "MinProperties", "Required", "Format"} {
		c.Check(union[k], "C02.R1.family-coverage", "schema validator › keyword "+k, "", "emitter reachable", "no emitter for "+k+" is reachable from the schema validator: the constraint is silently not enforced by generated models")
	}

	// ---- R2 recursion coverage + zero skips
	checkRecursionCoverage(c, ev)
	checkZeroSkips(c, "C02.R2.zero-skips", ev)

	// ---- R3 flags
	checkValidationFlags(c, gen)
	checkEnumCasePolarity(c, "C02.R1.enum-case", ev)
	checkRangeFilters(c, "C02.R2.range-filters", ev, reviewedRangeFilters, 25)
	checkExtensionGetters(c, "C02.R3.extension-values", gen)
	c.Rule("C02.R2.decode-keys", "a declared property is removed from the additional-properties map by its JSON name before the rest is decoded as additional properties", 2)
	checkEmitRules(c, "C02.R2.decode-keys", ev, []emitRule{serializerRules[2]})
	checkRequiredWiring(c, "C02.R3.flags", gen)
	checkBoundPairShortcuts(c, gen)
	checkMapStackLift(c, gen)
	checkFormatNormalisation(c, "C02.R3.format-normalisation", gen)
	// a format whose Go type is not a custom formatter gets no validate.FormatOf call
	checkFormatTables(c, "C02.R3.format-tables", gen)
	// the predicates that decide whether a validator is generated answer from inside loops over the schema's members
	checkLoopTotality(c, "C02.R3.loop-totality", gen, "generator", 20, generatorLoopExits)
}

// reachableDefines: defines reachable through template calls from the given entry points.
func reachableDefines(ev *tmpl.Evaluator, entries []string) map[string]bool {
	out := map[string]bool{}
	var visit func(n string)
	visit = func(n string) {
		if out[n] || ev.F.Trees[n] == nil {
			return
		}
		out[n] = true
		for _, tc := range tmpl.Linearise(ev.F.Trees[n]).Calls {
			visit(tc.Name)
		}
	}
	for _, e := range entries {
		visit(e)
	}
	return out
}

func checkRecursionCoverage(c *Ctx, ev *tmpl.Evaluator) {
	rule := "C02.R2.recursion"
	c.Rule(rule, "the schema validator templates descend into each composite member: Properties, Items, AdditionalProperties, AdditionalItems, AllOf", 5)
	reach := reachableDefines(ev, []string{"schemavalidator"})
	mentions := map[string]bool{}
	memberRx := regexp.MustCompile(`(range|with|template [A-Za-z]+|if)[^⟧]*\.(Properties|Items|AdditionalProperties|AdditionalItems|AllOf)\b`)
	for d := range reach {
		t := ev.F.Trees[d]
		// scan the source of control pipelines: use the raw source slice of the define
		for _, m := range regexp.MustCompile(`\{\{-?\s*(range|with|template\s+"[A-Za-z]+"|if)[^}]*\.(Properties|Items|AdditionalProperties|AdditionalItems|AllOf)\b`).FindAllStringSubmatch(defineSource(t), -1) {
			if strings.HasPrefix(m[1], "range") || strings.HasPrefix(m[1], "with") || strings.HasPrefix(m[1], "template") {
				mentions[m[2]] = true
			}
		}
	}
	_ = memberRx
	for _, m := range []string{"Properties", "Items", "AdditionalProperties", "AdditionalItems", "AllOf"} {
		c.Check(mentions[m], rule, "schemavalidator › descends into ."+m, "", "range/with/template on the member", "no range/with/template over ."+m+" is reachable from schemavalidator: constraints nested in that member are not enforced")
	}
}

// defineSource returns the source text of the file a tree comes from (whole file: defines of
// one file are analysed together for member mentions).
func defineSource(t *tmpl.Tree) string { return t.Src }

var zeroSkipRx = regexp.MustCompile(`swag\.IsZero\(`)

func checkZeroSkips(c *Ctx, rule string, ev *tmpl.Evaluator) {
	c.Rule(rule, "every `if swag.IsZero(x) { continue | return nil }` skip is guarded by `not .Required`; skips of an element or map value (continue) are also guarded by `.IsNullable`", 5)
	for _, name := range ev.F.Names() {
		l := tmpl.Linearise(ev.F.Trees[name])
		occN := 0
		for _, oc := range l.Find(zeroSkipRx) {
			after := l.Text[oc.End:]
			if len(after) > 160 {
				after = after[:160]
			}
			isContinue := strings.Contains(after, "continue") && (!strings.Contains(after, "return") || strings.Index(after, "continue") < strings.Index(after, "return"))
			isReturn := !isContinue && strings.Contains(after, "return nil")
			if !isContinue && !isReturn {
				continue // a plain test, not a skip
			}
			occN++
			notRequired, nullable := false, false
			for _, g := range oc.Guards {
				if g.Kind != "if" {
					continue
				}
				if regexp.MustCompile(`not \.Required`).MatchString(g.Pipe) {
					notRequired = true
				}
				if strings.Contains(g.Pipe, ".IsNullable") && !strings.Contains(g.Pipe, "not .IsNullable") {
					nullable = true
				}
			}
			kind := "return"
			ok := notRequired
			if isContinue {
				kind = "continue"
				ok = notRequired && nullable
			}
			c.Check(ok, rule, fmt.Sprintf("%s › %s › zero-skip (%s) #%d", l.Tree.Asset, name, kind, occN), l.Tree.PosStr(oc.Pos), "guards: "+tmpl.GuardString(oc.Guards),
				fmt.Sprintf("a zero value is skipped (%s) under [%s]: without `not .Required`%s a value that the schema constrains (0, \"\", false against minimum/minLength/enum…) is accepted", kind, tmpl.GuardString(oc.Guards), map[bool]string{true: " and `.IsNullable`", false: ""}[isContinue]))
		}
	}
}

// checkValidationFlags: Go-side flag dependencies (E1).
func checkValidationFlags(c *Ctx, gen *packages.Package) {
	rule := "C02.R3.flags"
	c.Rule(rule, "flags selecting validation branches depend on every input they must", 12)

	// a property whose type is a polymorphic base type is always validated against it: hasValidations()
	// deliberately answers false for a discriminated schema, so the lift in buildProperties must hold for
	// IsBaseType on its own
	if fd := load.FuncDecl(gen, "schemaGenContext.buildProperties"); fd != nil {
		found := false
		ast.Inspect(fd.Body, func(n ast.Node) bool {
			ifs, ok := n.(*ast.IfStmt)
			if !ok || len(ifs.Body.List) != 1 {
				return true
			}
			as, ok := ifs.Body.List[0].(*ast.AssignStmt)
			if !ok || len(as.Lhs) != 1 || goan.LastSel(as.Lhs[0]) != "HasValidations" || !goan.IsIdent(as.Rhs[0], "true") {
				return true
			}
			atoms := map[string]bool{}
			boolAtoms(ifs.Cond, atoms)
			mentionsHV := false
			env := map[string]bool{}
			for a := range atoms {
				env[a] = false
				if strings.HasSuffix(a, ".IsBaseType") {
					env[a] = true
				}
				if a == "hv" {
					mentionsHV = true
				}
			}
			if !mentionsHV {
				return true
			}
			found = true
			c.Check(boolEval(ifs.Cond, env), rule, "generator.schemaGenContext.buildProperties › a base-type property is validated whatever hasValidations says", c.posOf(gen, ifs.Pos()), "the lift holds for IsBaseType alone",
				"`"+goan.ExprString(ifs.Cond)+"` is false for a property that is a $ref to a discriminated base type without other validations: the parent model neither generates nor calls its validator, and constraints declared in the base type are not enforced")
			return true
		})
		if !found {
			c.Unk(rule, "generator.schemaGenContext.buildProperties › lift of HasValidations for $ref'ed properties", c.posOf(gen, fd.Pos()), "the `if hv …` lift was not found")
		}
	}
	info := gen.TypesInfo
	mentionsAll := func(fn string, want []string) {
		fd := load.FuncDecl(gen, fn)
		if fd == nil {
			c.Anchor(rule, fn, "not found")
			return
		}
		src := nodeText(gen, fd)
		for _, w := range want {
			c.Check(strings.Contains(src, w), rule, fmt.Sprintf("generator.%s › depends on %s", fn, w), c.posOf(gen, fd.Pos()), "present", fn+" no longer depends on "+w+": schemas whose only constraint is of that kind are generated without validation code")
		}
	}
	mentionsAll("hasValidations", []string{"HasNumberValidations()", "HasStringValidations()", "HasArrayValidations()", "HasEnum()", "HasObjectValidations()", "AllOf"})
	if fd := load.FuncDecl(gen, "hasValidations"); fd != nil && fd.Type.Params.NumFields() >= 2 {
		names := fd.Type.Params.List[len(fd.Type.Params.List)-1].Names
		req := info.Defs[names[len(names)-1]]
		c.Check(goan.Mentions(info, fd.Body, req), rule, "generator.hasValidations › depends on its required-ness argument", c.posOf(gen, fd.Pos()), "parameter used", "hasValidations ignores the required flag: a required property without other constraints is generated without validation")
	}
	mentionsAll("schemaGenContext.schemaValidations", []string{"HasArrayValidations()", "HasEnum()", "hasValidations(&model", "model.Validations()"})
	mentionsAll("codeGenOpBuilder.HasValidations", []string{"HasNumberValidations()", "HasStringValidations()", "HasArrayValidations()", "HasEnum()", "hasFormatValidation("})
	mentionsAll("hasFormatValidation", []string{"IsCustomFormatter", "ElemType"})
	// every sharedValidations literal copies the constraints of the object being built
	for _, fd := range load.AllFuncs(gen) {
		fd := fd
		ast.Inspect(fd.Body, func(nd ast.Node) bool {
			cl, ok := nd.(*ast.CompositeLit)
			if !ok || goan.NamedName(info.TypeOf(cl)) != "sharedValidations" {
				return true
			}
			sv := goan.Field(cl, "SchemaValidations")
			ok = false
			if sv != nil {
				if call, isCall := ast.Unparen(goan.ResolveLocal(info, fd.Body, sv)).(*ast.CallExpr); isCall && goan.LastSel(call.Fun) == "Validations" {
					ok = true
				}
			}
			c.Check(ok, rule, fmt.Sprintf("generator.%s › sharedValidations{SchemaValidations: X.Validations()}", load.FuncName(fd)), c.posOf(gen, cl.Pos()), "constraints copied from the spec object", "the generated object does not receive the constraints of its spec object: templates see no Maximum/Pattern/Enum… and emit no check")
			return true
		})
	}
	// MergeResult or-accumulates HasValidations
	if fd := load.FuncDecl(gen, "schemaGenContext.MergeResult"); fd == nil {
		c.Anchor(rule, "schemaGenContext.MergeResult", "not found")
	} else {
		ok := false
		ast.Inspect(fd.Body, func(n ast.Node) bool {
			as, isAs := n.(*ast.AssignStmt)
			if !isAs || len(as.Lhs) != 1 || goan.LastSel(as.Lhs[0]) != "HasValidations" {
				return true
			}
			// x.HasValidations = x.HasValidations || other…   (or guarded set to true)
			if be, isBe := ast.Unparen(as.Rhs[0]).(*ast.BinaryExpr); isBe && be.Op == token.LOR {
				ok = true
			}
			if goan.IsIdent(as.Rhs[0], "true") {
				ok = true
			}
			return true
		})
		c.Check(ok, rule, "generator.schemaGenContext.MergeResult › HasValidations or-accumulated", c.posOf(gen, fd.Pos()), "never reset by a child without validations", "MergeResult overwrites HasValidations instead of or-accumulating it: a later child without constraints switches the parent's validation off")
	}
	// guardValidations: Clear<K>Validations under a type test
	if fd := load.FuncDecl(gen, "guardValidations"); fd == nil {
		c.Anchor(rule, "guardValidations", "not found")
	} else {
		n := 0
		ast.Inspect(fd.Body, func(nd ast.Node) bool {
			call, ok := nd.(*ast.CallExpr)
			if !ok {
				return true
			}
			if se, ok := call.Fun.(*ast.SelectorExpr); ok && strings.HasPrefix(se.Sel.Name, "Clear") && strings.HasSuffix(se.Sel.Name, "Validations") {
				n++
			}
			return true
		})
		c.Check(n >= 4, rule, "generator.guardValidations › clears each group", c.posOf(gen, fd.Pos()), fmt.Sprintf("%d Clear*Validations calls", n), "guardValidations no longer clears every validation group that does not apply to the type")
	}
	_ = info
}

// checkFormatNormalisation: every lookup in formatMapping[...] uses a key from which dashes
// were removed (strings.ReplaceAll(x, "-", "")), in all sibling resolvers.
func checkFormatNormalisation(c *Ctx, rule string, gen *packages.Package) {
	c.Rule(rule, "every format lookup in formatMapping normalises the format name by removing dashes (date-time ≡ datetime), in every resolver", 2)
	info := gen.TypesInfo
	fmObj := gen.Types.Scope().Lookup("formatMapping")
	if fmObj == nil {
		c.Anchor(rule, "generator.formatMapping", "not found")
		return
	}
	n := 0
	for _, fd := range load.AllFuncs(gen) {
		fd := fd
		ast.Inspect(fd.Body, func(nd ast.Node) bool {
			// fmm[key] where fmm, ok := formatMapping[t]   or formatMapping[t][key]
			ix, ok := nd.(*ast.IndexExpr)
			if !ok {
				return true
			}
			isInner := false
			if inner, ok := ast.Unparen(ix.X).(*ast.IndexExpr); ok && identIs(info, inner.X, fmObj) {
				isInner = true
			}
			if id, ok := ast.Unparen(ix.X).(*ast.Ident); ok {
				if v, ok := info.Uses[id].(*types.Var); ok && !v.IsField() && v != fmObj {
					for _, a := range goan.AssignmentsTo(info, fd.Body, v) {
						if a.Rhs != nil {
							if src, ok := ast.Unparen(a.Rhs).(*ast.IndexExpr); ok && identIs(info, src.X, fmObj) {
								isInner = true
							}
						}
					}
				}
			}
			if !isInner {
				return true
			}
			if tv, ok := info.Types[ix.Index]; ok && tv.Value != nil {
				return true // constant key (e.g. "binary")
			}
			n++
			norm := false
			key := goan.ResolveLocal(info, fd.Body, ix.Index)
			ast.Inspect(key, func(m ast.Node) bool {
				if call, ok := m.(*ast.CallExpr); ok {
					if fn := goan.Callee(info, call); fn != nil && (goan.CalleeName(fn) == "strings.ReplaceAll" || goan.CalleeName(fn) == "strings.Replace") && len(call.Args) >= 3 {
						if s, ok := goan.StringVal(info, call.Args[1]); ok && s == "-" {
							norm = true
						}
					}
				}
				return true
			})
			c.Check(norm, rule, fmt.Sprintf("generator.%s › formatMapping[…][%s]", load.FuncName(fd), goan.ExprString(ix.Index)), c.posOf(gen, ix.Pos()), "dashes removed before the lookup",
				"the format name is looked up without removing dashes: formats written with a dash (credit-card, hex-color, isbn-10…) fall back to a plain string with no format validation")
			return true
		})
	}
	if n < 2 {
		c.Unk(rule, "format lookups", "", fmt.Sprintf("found %d variable-key lookups in formatMapping, expected the schema and the simple-schema resolvers", n))
	}
}

var boundPairRx = regexp.MustCompile(`\.(Min|Max)(Properties|Items|Length|imum) == nil`)

// checkBoundPairShortcuts: a shortcut (early return / continue) guarded by tests of both bounds
// of a pair (minProperties/maxProperties, minItems/maxItems, …) must only fire when both are
// absent: small-model evaluation of the condition with exactly one bound present.
func checkBoundPairShortcuts(c *Ctx, gen *packages.Package) {
	rule := "C02.R3.bound-pairs"
	c.Rule(rule, "a shortcut guarded by the absence of a lower and an upper bound fires only when both are absent", 1)
	info := gen.TypesInfo
	n := 0
	for _, fd := range load.AllFuncs(gen) {
		fd := fd
		ast.Inspect(fd.Body, func(nd ast.Node) bool {
			is, ok := nd.(*ast.IfStmt)
			if !ok || len(is.Body.List) == 0 {
				return true
			}
			if !goan.Terminates(info, is.Body.List) {
				return true
			}
			atoms := map[string]bool{}
			boolAtoms(is.Cond, atoms)
			pairs := map[string][2]string{} // kind → (min atom, max atom)
			for a := range atoms {
				if m := boundPairRx.FindStringSubmatch(a); m != nil && strings.HasSuffix(a, "== nil") {
					p := pairs[m[2]]
					if m[1] == "Min" {
						p[0] = a
					} else {
						p[1] = a
					}
					pairs[m[2]] = p
				}
			}
			for kind, p := range pairs {
				if p[0] == "" || p[1] == "" {
					continue
				}
				n++
				bad := ""
				for _, present := range [][2]bool{{true, false}, {false, true}} {
					env := map[string]bool{}
					for a := range atoms {
						env[a] = false
					}
					env[p[0]] = !present[0] // "== nil" is true when absent
					env[p[1]] = !present[1]
					if boolEval(is.Cond, env) {
						bad = fmt.Sprintf("min present=%v, max present=%v", present[0], present[1])
					}
				}
				c.Check(bad == "", rule, fmt.Sprintf("generator.%s › shortcut on Min/Max%s absent", load.FuncName(fd), kind), c.posOf(gen, is.Pos()), "fires only when both bounds are absent",
					fmt.Sprintf("`%s` skips the %s handling with %s: a schema carrying only one of the two bounds gets no validation for it", goan.ExprString(is.Cond), kind, bad))
			}
			return true
		})
	}
	if n == 0 {
		c.Unk(rule, "generator › bound-pair shortcuts", "", "no shortcut on a Min*/Max* pair found (anchor: buildAdditionalProperties)")
	}
}

// checkMapStackLift: when a nested map stops on a $ref or an alias that must be validated, the
// level above is told so — both its own HasValidations and that of its additionalProperties.
func checkMapStackLift(c *Ctx, gen *packages.Package) {
	rule := "C02.R3.flags"
	fd := load.FuncDecl(gen, "mapStack.Build")
	if fd == nil {
		c.Anchor(rule, "generator.mapStack.Build", "not found")
		return
	}
	nBlocks, badPos := 0, ""
	ast.Inspect(fd.Body, func(n ast.Node) bool {
		is, ok := n.(*ast.IfStmt)
		if !ok {
			return true
		}
		cs := goan.ExprString(is.Cond)
		if !strings.Contains(cs, "IsAliased") && !strings.Contains(cs, "Ref.String()") {
			return true
		}
		own, addl, any := false, false, false
		for _, st := range is.Body.List {
			as, ok := st.(*ast.AssignStmt)
			if !ok || len(as.Lhs) != 1 || !goan.IsIdent(as.Rhs[0], "true") || goan.LastSel(as.Lhs[0]) != "HasValidations" {
				continue
			}
			any = true
			path := goan.SelectorPath(as.Lhs[0])
			switch {
			case strings.HasSuffix(path, "GenSchema.AdditionalProperties.HasValidations"):
				addl = true
			case strings.HasSuffix(path, "GenSchema.HasValidations"):
				own = true
			}
		}
		if any {
			nBlocks++
			if !(own && addl) {
				badPos = c.posOf(gen, is.Pos())
			}
		}
		return true
	})
	own, addl := badPos == "", nBlocks >= 2
	c.Check(own && addl, rule, "generator.mapStack.Build › a validated $ref/alias element lifts HasValidations to the enclosing map and its additionalProperties", c.posOf(gen, fd.Pos()), "both flags set under the ref/alias test",
		fmt.Sprintf("in mapStack.Build a `$ref or alias` block (%s) does not set both the enclosing level's GenSchema.HasValidations and its AdditionalProperties.HasValidations (all blocks complete=%v, %d blocks found): a map of maps whose inner values are a named, validated type is generated without the loop that validates them", badPos, own, nBlocks))
}
