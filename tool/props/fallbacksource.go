package props

import (
	"fmt"
	"go/ast"
	"go/token"
	"go/types"
	"sort"
	"strings"

	"golang.org/x/tools/go/packages"

	"verif/tool/goan"
	"verif/tool/load"
)

// checkFallbackSource: `v := lookup(A…); if v == "" { v = derive(B…) }` names one thing in two
// ways — the explicit name and the derived one. Both must be read from the same object: a
// lookup on another object (the parent, the member of an allOf, the previous element) gives a
// name that belongs to something else, and only when that other object happens to carry one.
func checkFallbackSource(c *Ctx, rule string, pk *packages.Package, floor int) {
	c.Rule(rule, "a value and the fallback that replaces it when it is empty are read from the same object (`v := A.lookup(); if v == \"\" { v = f(A.name) }`)", floor)
	info := pk.TypesInfo
	roots := func(e ast.Expr) map[types.Object]string {
		out := map[types.Object]string{}
		ast.Inspect(e, func(n ast.Node) bool {
			switch x := n.(type) {
			case *ast.SelectorExpr:
				// the root identifier of a selector chain
				var cur ast.Expr = x
				for {
					se, ok := ast.Unparen(cur).(*ast.SelectorExpr)
					if !ok {
						break
					}
					cur = se.X
				}
				if id, ok := ast.Unparen(cur).(*ast.Ident); ok {
					if v, ok := info.Uses[id].(*types.Var); ok && !v.IsField() && v.Pkg() == pk.Types && v.Parent() != pk.Types.Scope() {
						out[v] = id.Name
					}
				}
				return false
			case *ast.Ident:
				if v, ok := info.Uses[x].(*types.Var); ok && !v.IsField() && v.Pkg() == pk.Types && v.Parent() != pk.Types.Scope() {
					out[v] = x.Name
				}
			}
			return true
		})
		return out
	}
	for _, fd := range load.AllFuncs(pk) {
		if fd.Body == nil {
			continue
		}
		ord := map[string]int{}
		var walk func(list []ast.Stmt)
		walk = func(list []ast.Stmt) {
			for i, st := range list {
				ifs, ok := st.(*ast.IfStmt)
				if !ok || ifs.Else != nil || ifs.Init != nil || len(ifs.Body.List) != 1 || i == 0 {
					continue
				}
				be, ok := ast.Unparen(ifs.Cond).(*ast.BinaryExpr)
				if !ok || be.Op != token.EQL {
					continue
				}
				vid, ok := ast.Unparen(be.X).(*ast.Ident)
				if !ok {
					continue
				}
				if s, ok := goan.StringVal(info, be.Y); !ok || s != "" {
					continue
				}
				as, ok := ifs.Body.List[0].(*ast.AssignStmt)
				if !ok || len(as.Lhs) != 1 || len(as.Rhs) != 1 || as.Tok != token.ASSIGN {
					continue
				}
				lid, ok := as.Lhs[0].(*ast.Ident)
				if !ok || info.ObjectOf(lid) != info.ObjectOf(vid) {
					continue
				}
				// the statement just before defines v from a call
				prev, ok := list[i-1].(*ast.AssignStmt)
				if !ok || len(prev.Rhs) != 1 || len(prev.Lhs) == 0 {
					continue
				}
				pid, ok := prev.Lhs[0].(*ast.Ident)
				if !ok || info.ObjectOf(pid) != info.ObjectOf(vid) {
					continue
				}
				call, ok := ast.Unparen(prev.Rhs[0]).(*ast.CallExpr)
				if !ok {
					continue
				}
				src, fb := roots(call), roots(as.Rhs[0])
				delete(fb, info.ObjectOf(vid))
				if len(src) == 0 || len(fb) == 0 {
					continue
				}
				shared := false
				for o := range src {
					if _, ok := fb[o]; ok {
						shared = true
					}
				}
				names := func(m map[types.Object]string) string {
					var ns []string
					for _, n := range m {
						ns = append(ns, n)
					}
					sort.Strings(ns)
					return strings.Join(ns, ", ")
				}
				base := fmt.Sprintf("%s.%s › ‹%s› and its fallback read one object", pk.Name, load.FuncName(fd), types.TypeString(info.TypeOf(vid), func(*types.Package) string { return "" }))
				ord[base]++
				k := base
				if ord[base] > 1 {
					k = fmt.Sprintf("%s #%d", base, ord[base])
				}
				c.Check(shared, rule, k, c.posOf(pk, prev.Pos()), "both read "+names(src),
					fmt.Sprintf("%s is looked up on %s but falls back on a value derived from %s: the explicit name is taken from another object than the one being named, so an element is given the name of its parent / member / neighbour when that one carries a name", vid.Name, names(src), names(fb)))
			}
			for _, st := range list {
				ast.Inspect(st, func(n ast.Node) bool {
					if b, ok := n.(*ast.BlockStmt); ok {
						walk(b.List)
						return false
					}
					if cc, ok := n.(*ast.CaseClause); ok {
						walk(cc.Body)
						return false
					}
					return true
				})
			}
		}
		walk(fd.Body.List)
	}
}
