package props

import (
	"fmt"
	"go/ast"
	"go/token"
	"go/types"
	"regexp"
	"regexp/syntax"
	"sort"
	"strings"

	"golang.org/x/tools/go/packages"

	"verif/tool/goan"
	"verif/tool/load"
)

func init() { register("C17", checkC17) }

// Reviewed may-panic sites of codescan that the guard analysis cannot discharge, each with
// the reason it is safe and, where possible, a mechanically checked invariant backing it.
var c17Reviewed = map[string]string{
	"cleanupScannerLines › slice › uncommented[seenLine:lastContent + 1]": "with yamlBlock == nil at every call site (checked: the block branch is dead) each iteration appends exactly one element to uncommented, so seenLine ≤ lastContent < len(lines) = len(uncommented)",
	"processSchema › index › param.Schema":                                "param.Schema is allocated only in the `type:` arm of setOpParams.Parse, which sets Schema.Type to a one-element array in the same arm (invariant checked by C17.R1.schema-type-invariant)",
}

type taggerCons struct {
	setter  string // set* type name
	builder string // validations wrapper type name ("" when none)
	rxConst string // name of the regexp format constant / regexp variable
	groups  int
	hasRx   bool
	name    string // tagger name literal/format passed to newSingleLineTagParser etc.
	fn      string
	pos     token.Pos
	multi   bool
	list    token.Pos // position of the enclosing []tagParser literal (0 when appended singly)
}

// collectTaggers finds every construction of a set* parser value.
func collectTaggers(c *Ctx, pk *packages.Package, m *goan.MayPanic) []taggerCons {
	info := pk.TypesInfo
	var out []taggerCons
	for _, fd := range load.AllFuncs(pk) {
		fd := fd
		ast.Inspect(fd.Body, func(n ast.Node) bool {
			call, ok := n.(*ast.CallExpr)
			if !ok {
				return true
			}
			fn := goan.Callee(info, call)
			if fn == nil || fn.Pkg() != pk.Types {
				return true
			}
			if fn.Name() != "newSingleLineTagParser" && fn.Name() != "newMultiLineTagParser" {
				return true
			}
			if len(call.Args) < 2 {
				return true
			}
			tc := taggerCons{fn: load.FuncName(fd), pos: call.Pos(), multi: fn.Name() == "newMultiLineTagParser"}
			ast.Inspect(fd.Body, func(nn ast.Node) bool {
				if cl, ok := nn.(*ast.CompositeLit); ok && cl.Pos() <= call.Pos() && call.End() <= cl.End() {
					if _, isSlice := info.TypeOf(cl).Underlying().(*types.Slice); isSlice {
						tc.list = cl.Pos() // innermost wins (visited last)
					}
				}
				return true
			})
			if s, ok := goan.StringVal(info, call.Args[0]); ok {
				tc.name = s
			} else if sc, ok := ast.Unparen(call.Args[0]).(*ast.CallExpr); ok && len(sc.Args) >= 1 {
				if s, ok := goan.StringVal(info, sc.Args[0]); ok {
					tc.name = s // Sprintf format, e.g. "items%dMaximum"
				}
			}
			arg := ast.Unparen(call.Args[1])
			if u, ok := arg.(*ast.UnaryExpr); ok && u.Op == token.AND {
				arg = u.X
			}
			var cl *ast.CompositeLit
			switch x := arg.(type) {
			case *ast.CompositeLit:
				cl = x
			case *ast.CallExpr:
				// constructor functions newSetXxx(...): resolve through the callee's returned literal
				if cf := goan.Callee(info, x); cf != nil && cf.Pkg() == pk.Types {
					tc.setter = goan.NamedName(info.TypeOf(x))
					if d := load.FuncDecl(pk, cf.Name()); d != nil {
						ast.Inspect(d.Body, func(nn ast.Node) bool {
							if c2, ok := nn.(*ast.CompositeLit); ok && goan.NamedName(info.TypeOf(c2)) == tc.setter {
								cl = c2
							}
							return true
						})
					}
					// regexps passed as arguments of the constructor
					for _, a := range x.Args {
						if t := info.TypeOf(a); t != nil && goan.NamedPath(t) == "regexp.Regexp" {
							tc.rxConst, tc.groups, tc.hasRx = rxOf(info, m, a)
						}
					}
				}
			}
			if cl != nil {
				tc.setter = goan.NamedName(info.TypeOf(cl))
				st, _ := info.TypeOf(cl).Underlying().(*types.Struct)
				for i, el := range cl.Elts {
					v := el
					fname := ""
					if kv, ok := el.(*ast.KeyValueExpr); ok {
						v = kv.Value
						fname = goan.ExprString(kv.Key)
					} else if st != nil && i < st.NumFields() {
						fname = st.Field(i).Name()
					}
					t := info.TypeOf(v)
					if t == nil {
						continue
					}
					if goan.NamedPath(t) == "regexp.Regexp" && !tc.hasRx {
						tc.rxConst, tc.groups, tc.hasRx = rxOf(info, m, v)
					}
					if fname == "builder" {
						if bl, ok := ast.Unparen(v).(*ast.CompositeLit); ok {
							tc.builder = goan.NamedName(info.TypeOf(bl))
						} else {
							tc.builder = goan.NamedName(t)
						}
					}
				}
			}
			if tc.setter != "" {
				out = append(out, tc)
			}
			return true
		})
	}
	sort.SliceStable(out, func(i, j int) bool { return out[i].pos < out[j].pos })
	return out
}

// rxOf resolves a regexp-typed expression: rxf(<fmt const>, prefix) or a package-level regexp.
func rxOf(info *types.Info, m *goan.MayPanic, e ast.Expr) (string, int, bool) {
	e = ast.Unparen(e)
	if call, ok := e.(*ast.CallExpr); ok {
		if fn := goan.Callee(info, call); fn != nil && fn.Name() == "rxf" && len(call.Args) == 2 {
			if id, ok := ast.Unparen(call.Args[0]).(*ast.Ident); ok {
				if src, ok := goan.StringVal(info, id); ok {
					re, err := syntax.Parse(strings.ReplaceAll(src, "%s", "(?:x)"), syntax.Perl)
					if err == nil {
						return id.Name, re.MaxCap(), true
					}
				}
				return id.Name, 0, false
			}
		}
	}
	if g, ok := m.RxGroupsOf(e); ok {
		return goan.LastSel(e), g, true
	}
	return goan.ExprString(e), 0, false
}

var keywordSetter = map[string]bool{"maximum": true, "minimum": true, "multipleof": true, "minlength": true, "maxlength": true, "pattern": true,
	"minitems": true, "maxitems": true, "unique": true, "enum": true, "default": true, "example": true, "collectionformat": true}

func normTag(s string) string {
	s = strings.ToLower(s)
	for _, p := range []string{"items%d", "set", "rx"} {
		s = strings.TrimPrefix(s, p)
	}
	s = strings.TrimSuffix(s, "fmt")
	return s
}

func checkC17(c *Ctx) {
	c.Explain("generate spec (codescan): (R1) crash lint — every slice/string index, variable index, slice expression, explicit panic and type assertion on interface{} data in the scanner is dominated by a fact that makes it safe (regexp results are nil or have their full arity; facts from conditions, producers, guard functions; parameters become call-site preconditions), with two reviewed sites backed by checked invariants; " +
		"(R2) every set* parser's use of its regexp's capture groups fits the group count of each regexp it is constructed with, and its `len(matches) > k` guard is satisfiable; (R3) the Set<K> methods of the four validation builders store to field K; " +
		"(R4) every tagger is constructed with the setter type and regexp of its own keyword (no cross-wiring), tagger names are unique per parser, and the schema/parameter/header/items tagger sets cover the same keywords. Decides crash-freedom obligations over comment-driven code and table agreement, not validity or faithfulness of the produced document.")
	c.Assume("type assertions on go/ast and go/types node interfaces are driven by the structure of the compiled program, not by comment text, and are not decided here", "go/packages delivers type-checked packages (the scanner's precondition: a compilable program)")
	prog := c.Prog("./codescan")
	pk := prog.Pkg(load.PkgCodescan)
	info := pk.TypesInfo

	// ---- R1 crash lint
	c.Rule("C17.R1.index", "constant / len-relative indexes and slice expressions in the scanner have an established minimum length (regexp results: nil or full arity)", 100)
	c.Rule("C17.R1.var-index", "variable indexes are bounded by the same slice", 8)
	c.Rule("C17.R1.assert-panic", "no explicit panic; no single-value type assertion on interface{} (comment-derived) data outside a type-switch arm", 1)
	m := goan.NewMayPanic(pk)
	m.CheckNil = false
	m.CheckIface = false
	bindSetterRegexps(pk, m)
	m.Run()
	c.Analysed("may-panic sites (codescan)", len(m.Sites))
	reviewedHit := map[string]bool{}
	for _, s := range m.Sites {
		var rule string
		switch s.Kind {
		case goan.PKIndex, goan.PKSlice:
			rule = "C17.R1.index"
		case goan.PKVarIndex:
			rule = "C17.R1.var-index"
		case goan.PKPanicCall:
			rule = "C17.R1.assert-panic"
		case goan.PKAssert:
			rule = "C17.R1.assert-panic"
		default:
			continue
		}
		key := "codescan." + s.Key()
		if s.Kind == goan.PKAssert && !s.Safe {
			// only data-driven assertions (operand of static type interface{}) are decided
			continue
		}
		if s.Safe {
			c.Ok(rule, key, c.posOf(pk, s.Pos), s.Why)
			continue
		}
		if why, ok := c17Reviewed[s.Key()]; ok {
			reviewedHit[s.Key()] = true
			c.Ok(rule, key, c.posOf(pk, s.Pos), "reviewed: "+why)
			continue
		}
		c.Bad(rule, key, c.posOf(pk, s.Pos), s.Why)
	}
	// data-driven assertions: operand's static type is the empty interface
	checkDataAssertions(c, pk)
	checkSchemaTypeInvariant(c, pk, reviewedHit["processSchema › index › param.Schema"])
	checkCollectionPasses(c, pk)
	checkPackageIdentity(c, "C17.R6.package-identity", pk)
	checkMakeSizes(c, "C17.R6.collection", pk)
	checkNoopDeletes(c, "C17.R6.collection", pk)
	checkSplitURL(c, pk)
	checkResponsePrecedence(c, pk)
	checkLoopTotality(c, "C17.R7.loop-totality", pk, "codescan", 40, codescanLoopExits)
	checkCountsUsed(c, "C17.R6.counts-used", pk)
	checkNilableResults(c, "C17.R1.nilable-results", pk)
	checkLocationsWritten(c, "C17.R3.locations-written", pk)
	checkTypeOfNil(c, "C17.R1.typeof-nil", pk)
	checkPathRequiredLast(c, "C17.R6.path-required", pk)
	checkNamePatterns(c, "C17.R4.name-patterns", pk)
	checkListSplits(c, "C17.R6.list-splits", pk)
	checkMultiNameFields(c, "C17.R6.multi-name-fields", pk)
	checkPostDeclsCollected(c, "C17.R6.discovered-collected", pk)
	checkBuilderFields(c, "C17.R6.builder-fields", pk)
	checkArgumentRoles(c, "C17.R6.argument-roles", pk, "codescan", 3)
	checkAliasExpansionGuard(c, "C17.R1.alias-recursion", pk)
	checkModelsRescanned(c, "C17.R8.models-rescanned", pk)
	checkCommentsRaw(c, "C17.R8.comments-raw", pk)
	checkVariadicForward(c, "C17.R3.variadic-forward", pk)
	checkSplitsFiltered(c, "C17.R6.splits-filtered", pk)
	checkModelIdentity(c, "C17.R6.model-identity", pk)
	checkSpecYAMLExact(c, "C17.R8.yaml-exact")
	checkSpecDocFirst(c, "C17.R8.spec-doc-first", pk)
	checkParameterIdentity(c, "C17.R3.parameter-identity", pk)
	checkBodyHasLastWord(c, "C17.R3.body-last-word", pk)
	checkInputNormalised(c, "C17.R1.input-normalised", pk)
	checkValueParsers(c, "C17.R4.value-parsers", pk)
	checkNestingSiblings(c, "C17.R4.nesting-siblings", pk)

	// ---- R2 regexp arity; R4 tagger agreement
	taggers := collectTaggers(c, pk, m)
	c.Analysed("tagger constructions", len(taggers))
	checkArity(c, pk, taggers)
	checkTaggerAgreement(c, pk, taggers)

	// ---- R3 setter siblings
	checkSetterSiblings(c, pk, info)

	// ---- R5 HTTP method exhaustiveness (merging with an input spec, registering operations)
	checkMethodExhaustive(c, "C17.R5.methods", pk, 2)
}

// bindSetterRegexps: struct fields named rx of set* types take the group count of the regexp
// they are constructed with when every construction agrees.
func bindSetterRegexps(pk *packages.Package, m *goan.MayPanic) {
	info := pk.TypesInfo
	groups := map[types.Object]map[int]bool{}
	for _, f := range pk.Syntax {
		ast.Inspect(f, func(n ast.Node) bool {
			cl, ok := n.(*ast.CompositeLit)
			if !ok {
				return true
			}
			st, ok := info.TypeOf(cl).Underlying().(*types.Struct)
			if !ok {
				return true
			}
			for i, el := range cl.Elts {
				v := el
				var fld *types.Var
				if kv, ok := el.(*ast.KeyValueExpr); ok {
					v = kv.Value
					if id, ok := kv.Key.(*ast.Ident); ok {
						fld, _ = info.Uses[id].(*types.Var)
					}
				} else if i < st.NumFields() {
					fld = st.Field(i)
				}
				if fld == nil || goan.NamedPath(fld.Type()) != "regexp.Regexp" {
					continue
				}
				if _, g, ok := rxOf(info, m, v); ok {
					if groups[fld] == nil {
						groups[fld] = map[int]bool{}
					}
					groups[fld][g] = true
				}
			}
			return true
		})
	}
	for fld, gs := range groups {
		if len(gs) == 1 {
			for g := range gs {
				m.SetRxGroups(fld, g)
			}
		}
	}
}

func checkDataAssertions(c *Ctx, pk *packages.Package) {
	info := pk.TypesInfo
	for _, fd := range load.AllFuncs(pk) {
		fd := fd
		// assertions established by the immediately preceding store of the same dynamic type
		ast.Inspect(fd.Body, func(n ast.Node) bool {
			ta, ok := n.(*ast.TypeAssertExpr)
			if !ok || ta.Type == nil {
				return true
			}
			t := info.TypeOf(ta.X)
			if t == nil {
				return true
			}
			it, isIface := t.Underlying().(*types.Interface)
			if !isIface || it.NumMethods() != 0 {
				return true
			}
			key := fmt.Sprintf("codescan.%s › type-assert › %s", load.FuncName(fd), goan.ExprString(ta))
			// (1) comma-ok form or type switch
			if commaOK(fd, ta) {
				c.Ok("C17.R1.assert-panic", key, c.posOf(pk, ta.Pos()), "comma-ok form")
				return true
			}
			// (2) the operand was assigned a value of exactly that type earlier in the same block
			//     with no intervening assignment to it (ext.Root = make(map…); ext.Root.(map…)[k] = v)
			if storedAs(info, fd, ta) {
				c.Ok("C17.R1.assert-panic", key, c.posOf(pk, ta.Pos()), "operand assigned a value of the asserted type immediately before")
				return true
			}
			// (3) guarded by a reflect.Kind test or an enclosing switch on the dynamic type of the same operand
			if kindGuarded(info, fd, ta) {
				c.Ok("C17.R1.assert-panic", key, c.posOf(pk, ta.Pos()), "guarded by a reflect.Kind test on the same operand")
				return true
			}
			c.Bad("C17.R1.assert-panic", key, c.posOf(pk, ta.Pos()), "single-value type assertion on interface{} data that is not established by a dominating store or test: panics when the comment-derived structure has another shape")
			return true
		})
	}
}

func commaOK(fd *ast.FuncDecl, ta *ast.TypeAssertExpr) bool {
	found := false
	ast.Inspect(fd.Body, func(n ast.Node) bool {
		switch x := n.(type) {
		case *ast.AssignStmt:
			if len(x.Lhs) == 2 && len(x.Rhs) == 1 && ast.Unparen(x.Rhs[0]) == ast.Expr(ta) {
				found = true
			}
		case *ast.ValueSpec:
			if len(x.Names) == 2 && len(x.Values) == 1 && ast.Unparen(x.Values[0]) == ast.Expr(ta) {
				found = true
			}
		}
		return true
	})
	return found
}

// storedAs: in the statement list containing the assertion, an earlier statement assigns the
// operand a make/composite/address value of the asserted type and nothing in between
// reassigns the operand.
func storedAs(info *types.Info, fd *ast.FuncDecl, ta *ast.TypeAssertExpr) bool {
	op := goan.ExprString(ta.X)
	want := info.TypeOf(ta.Type)
	ok := false
	var visit func(list []ast.Stmt)
	visit = func(list []ast.Stmt) {
		established := false
		for _, st := range list {
			contains := false
			ast.Inspect(st, func(n ast.Node) bool {
				if n == ast.Node(ta) {
					contains = true
				}
				return true
			})
			if contains {
				if established {
					// direct child statement (not nested in a branch that could be skipped)
					ok = true
				}
			}
			if as, isAs := st.(*ast.AssignStmt); isAs && len(as.Lhs) == len(as.Rhs) {
				for i, l := range as.Lhs {
					if goan.ExprString(l) == op {
						established = want != nil && types.Identical(info.TypeOf(as.Rhs[i]), want)
					}
				}
			}
			// recurse into nested blocks with a fresh state
			ast.Inspect(st, func(n ast.Node) bool {
				if b, isB := n.(*ast.BlockStmt); isB {
					visit(b.List)
					return false
				}
				if cc, isC := n.(*ast.CaseClause); isC {
					visit(cc.Body)
					return false
				}
				return true
			})
		}
	}
	visit(fd.Body.List)
	return ok
}

func kindGuarded(info *types.Info, fd *ast.FuncDecl, ta *ast.TypeAssertExpr) bool {
	op := goan.ExprString(ta.X)
	res := false
	goan.WalkGuards(info, fd.Body, func(n ast.Node, guards []goan.Lit, _ []ast.Stmt) {
		has := false
		ast.Inspect(n, func(m ast.Node) bool {
			if m == ast.Node(ta) {
				has = true
			}
			return true
		})
		if !has {
			return
		}
		for _, g := range guards {
			if g.Pos && strings.Contains(g.String(), "reflect.TypeOf("+op+").Kind()") {
				res = true
			}
			// `if _, ok := X.(T); ok { … X.(T) … }`
			if id, isId := ast.Unparen(g.E).(*ast.Ident); isId && g.Pos {
				if v, isVar := info.Uses[id].(*types.Var); isVar {
					for _, a := range goan.AssignmentsTo(info, fd.Body, v) {
						if a.ResultIx == 1 && a.Rhs != nil {
							if t2, isTA := ast.Unparen(a.Rhs).(*ast.TypeAssertExpr); isTA && t2.Type != nil &&
								goan.ExprString(t2.X) == op && goan.ExprString(t2.Type) == goan.ExprString(ta.Type) && a.Stmt != nil && a.Stmt.Pos() < ta.Pos() {
								res = true
							}
						}
					}
				}
			}
		}
	})
	return res
}

// checkSchemaTypeInvariant backs the reviewed convertEnum site: every allocation of a
// parameter's Schema in route_params.go is in a case arm that also stores a one-element
// Schema.Type.
func checkSchemaTypeInvariant(c *Ctx, pk *packages.Package, needed bool) {
	rule := "C17.R1.schema-type-invariant"
	c.Rule(rule, "setOpParams.Parse: a parameter's Schema is allocated only in an arm that also sets Schema.Type to a one-element array (backs the reviewed convertEnum index)", 1)
	info := pk.TypesInfo
	fd := load.FuncDecl(pk, "setOpParams.Parse")
	if fd == nil {
		c.Anchor(rule, "setOpParams.Parse", "not found")
		return
	}
	n, okAll := 0, true
	ast.Inspect(fd.Body, func(nd ast.Node) bool {
		cc, ok := nd.(*ast.CaseClause)
		if !ok {
			return true
		}
		allocs, setsType := false, false
		for _, st := range cc.Body {
			ast.Inspect(st, func(m ast.Node) bool {
				as, ok := m.(*ast.AssignStmt)
				if !ok || len(as.Lhs) != 1 || len(as.Rhs) != 1 {
					return true
				}
				l := goan.ExprString(as.Lhs[0])
				if strings.HasSuffix(l, ".Schema") {
					allocs = true
				}
				return true
			})
			// the Type store must be an unconditional statement of the arm: one nested in a branch
			// leaves Type empty on the other branches
			if as, ok := st.(*ast.AssignStmt); ok && len(as.Lhs) == 1 && len(as.Rhs) == 1 && strings.HasSuffix(goan.ExprString(as.Lhs[0]), ".Schema.Type") {
				if cl, ok := ast.Unparen(as.Rhs[0]).(*ast.CompositeLit); ok && len(cl.Elts) == 1 {
					setsType = true
				}
			}
		}
		if allocs {
			n++
			if !setsType {
				okAll = false
			}
		}
		return true
	})
	// other stores to *.Schema in the file outside that function
	others := 0
	for _, f := range pk.Syntax {
		if !strings.HasSuffix(pk.Fset.Position(f.Pos()).Filename, "route_params.go") {
			continue
		}
		ast.Inspect(f, func(nd ast.Node) bool {
			as, ok := nd.(*ast.AssignStmt)
			if !ok {
				return true
			}
			for i, l := range as.Lhs {
				if goan.LastSel(l) == "Schema" && !(as.Pos() >= fd.Pos() && as.Pos() <= fd.End()) {
					if i < len(as.Rhs) && !goan.IsNil(info, as.Rhs[i]) {
						others++
					}
				}
			}
			return true
		})
	}
	c.Check(n >= 1 && okAll && others == 0, rule, "codescan.setOpParams.Parse › Schema allocated with a one-element Type", c.posOf(pk, fd.Pos()),
		fmt.Sprintf("%d allocating arm(s), each sets Schema.Type = {one element}; no other non-nil store to .Schema in route_params.go", n),
		fmt.Sprintf("invariant broken (allocating arms=%d, all set Type=%v, other stores=%d): convertEnum's schema.Type[0] is no longer safe", n, okAll, others))
	_ = needed
}

// checkArity: for each set* type, the constant indexes into its FindStringSubmatch result and
// its length guard, against the group count of every regexp it is constructed with.
func checkArity(c *Ctx, pk *packages.Package, taggers []taggerCons) {
	rule := "C17.R2.regexp-arity"
	c.Rule(rule, "set* parsers: indexes into the FindStringSubmatch result ≤ group count of each constructing regexp, and the `len(matches) > k` guard is satisfiable (k ≤ groups)", 40)
	info := pk.TypesInfo
	type use struct {
		maxIdx, guard int
		found         bool
		pos           token.Pos
	}
	uses := map[string]*use{}
	for _, fd := range load.AllFuncs(pk) {
		if fd.Recv == nil || fd.Name.Name != "Parse" {
			continue
		}
		recv := load.RecvName(fd)
		u := &use{maxIdx: -1, guard: -1}
		var mobj types.Object
		ast.Inspect(fd.Body, func(n ast.Node) bool {
			switch x := n.(type) {
			case *ast.AssignStmt:
				if len(x.Lhs) == 1 && len(x.Rhs) == 1 {
					if call, ok := x.Rhs[0].(*ast.CallExpr); ok {
						if fn := goan.Callee(info, call); fn != nil && fn.Name() == "FindStringSubmatch" {
							if se, ok := call.Fun.(*ast.SelectorExpr); ok && goan.LastSel(se.X) == "rx" {
								if id, ok := x.Lhs[0].(*ast.Ident); ok {
									mobj = info.Defs[id]
									u.found = true
									u.pos = x.Pos()
								}
							}
						}
					}
				}
			case *ast.IndexExpr:
				if identIs(info, x.X, mobj) && mobj != nil {
					if v := goan.ConstVal(info, x.Index); v != nil {
						var k int
						fmt.Sscanf(v.String(), "%d", &k)
						if k > u.maxIdx {
							u.maxIdx = k
						}
					}
				}
			case *ast.BinaryExpr:
				if call, ok := ast.Unparen(x.X).(*ast.CallExpr); ok && goan.IsBuiltinCall(info, call, "len") && len(call.Args) == 1 && identIs(info, call.Args[0], mobj) && mobj != nil {
					if v := goan.ConstVal(info, x.Y); v != nil && x.Op == token.GTR {
						var k int
						fmt.Sscanf(v.String(), "%d", &k)
						if k > u.guard {
							u.guard = k
						}
					}
				}
			}
			return true
		})
		if u.found {
			uses[recv] = u
		}
	}
	for _, tc := range taggers {
		u := uses[tc.setter]
		if u == nil || !tc.hasRx {
			continue
		}
		key := fmt.Sprintf("codescan.%s › %s{%s} in %s", tc.setter, tc.setter, tc.rxConst, tc.fn)
		ok := u.maxIdx <= tc.groups && u.guard <= tc.groups
		c.Check(ok, rule, key, c.posOf(pk, tc.pos), fmt.Sprintf("uses group %d, guard len > %d, regexp has %d group(s)", u.maxIdx, u.guard, tc.groups),
			fmt.Sprintf("%s.Parse requires len(matches) > %d and reads matches[%d], but %s has %d capture group(s) (len = %d): the annotation is silently ignored (or the index panics)", tc.setter, u.guard, u.maxIdx, tc.rxConst, tc.groups, tc.groups+1))
	}
}

// checkTaggerAgreement: name ↔ setter ↔ regexp agree; names unique within a parser list;
// the schema / parameter / header tagger sets cover the same keywords.
func checkTaggerAgreement(c *Ctx, pk *packages.Package, taggers []taggerCons) {
	rule := "C17.R4.taggers"
	c.Rule(rule, "each tagger is built from the setter type and the regexp of its own keyword; tagger names are unique within one parser; sibling parsers cover the same keyword set", 60)
	// documented exceptions: (name, setter, rx) triples that legitimately differ
	alias := map[string]string{"unique": "unique", "readonly": "readonlyschema", "required": "requiredschema", "discriminator": "discriminator"}
	_ = alias
	byFn := map[string]map[string][]taggerCons{}
	byList := map[string]map[string][]taggerCons{}
	for _, tc := range taggers {
		n, s, r := normTag(tc.name), normTag(tc.setter), normTag(tc.rxConst)
		key := fmt.Sprintf("codescan.%s › tagger %q = %s{%s}", tc.fn, tc.name, tc.setter, tc.rxConst)
		// setter ↔ regexp: the regexp constant's keyword is the setter's keyword
		if tc.hasRx && tc.rxConst != "" && strings.HasPrefix(tc.rxConst, "rx") && keywordSetter[s] {
			okSR := s == r || strings.HasPrefix(s, r) || strings.HasPrefix(r, s)
			c.Check(okSR, rule, key+" › setter↔regexp", c.posOf(pk, tc.pos), "setter and regexp name the same keyword",
				fmt.Sprintf("setter %s is constructed with %s: lines of one keyword would be parsed as another", tc.setter, tc.rxConst))
		}
		// name ↔ setter
		okNS := n == s || strings.HasPrefix(s, n) || strings.HasPrefix(n, s)
		if !okNS {
			// record for triage rather than fail: names are free-form labels, but a label shared by two different setters in one parser loses lines (checked below)
			c.Note("tagger name %q uses setter %s in %s", tc.name, tc.setter, tc.fn)
		}
		if byFn[tc.fn] == nil {
			byFn[tc.fn] = map[string][]taggerCons{}
		}
		byFn[tc.fn][tc.name] = append(byFn[tc.fn][tc.name], tc)
		lk := fmt.Sprintf("%s@%d", tc.fn, tc.list)
		if byList[lk] == nil {
			byList[lk] = map[string][]taggerCons{}
		}
		byList[lk][tc.name] = append(byList[lk][tc.name], tc)
	}
	var lks []string
	for lk := range byList {
		lks = append(lks, lk)
	}
	sort.Strings(lks)
	listNo := map[string]int{}
	for _, lk := range lks {
		fn := lk[:strings.IndexByte(lk, '@')]
		listNo[fn]++
		var names []string
		for n := range byList[lk] {
			names = append(names, n)
		}
		sort.Strings(names)
		for _, n := range names {
			tcs := byList[lk][n]
			setters := map[string]bool{}
			for _, tc := range tcs {
				setters[tc.setter] = true
			}
			var ss []string
			for s := range setters {
				ss = append(ss, s)
			}
			sort.Strings(ss)
			c.Check(len(tcs) == 1, rule, fmt.Sprintf("codescan.%s › list %d › tagger name %q unique", fn, listNo[fn], n), c.posOf(pk, tcs[0].pos), "registered once in this parser list",
				fmt.Sprintf("tagger name %q is registered %d times (setters %v) in one parser list: sectionedParser keys matched lines by tagger name, so one of the annotations is silently dropped", n, len(tcs), ss))
		}
	}
	// sibling coverage: the keyword sets of the top-level taggers of schema, parameter, header builders
	kw := func(fn string) map[string]bool {
		out := map[string]bool{}
		for n := range byFn[fn] {
			if !strings.Contains(n, "%d") {
				out[normTag(n)] = true
			}
		}
		return out
	}
	want := []string{"maximum", "minimum", "multipleof", "minlength", "maxlength", "pattern", "minitems", "maxitems", "unique", "enum", "default", "example"}
	for _, fn := range []string{"schemaBuilder.createParser", "parameterBuilder.buildFromStruct", "responseBuilder.buildFromStruct"} {
		got := kw(fn)
		if len(got) == 0 {
			c.Anchor(rule, fn, "no taggers found")
			continue
		}
		for _, k := range want {
			c.Check(got[k], rule, fmt.Sprintf("codescan.%s › keyword %s has a tagger", fn, k), "", "present", "no tagger for the documented validation keyword "+k+": the annotation is silently ignored in this context")
		}
	}
}

// checkSetterSiblings: Set<K> methods store to field <K> (Unique → UniqueItems).
func checkSetterSiblings(c *Ctx, pk *packages.Package, info *types.Info) {
	rule := "C17.R3.setters"
	c.Rule(rule, "validation builders: Set<K>(v) stores v into field K of the wrapped spec object (Maximum/Minimum also their Exclusive flag; Unique → UniqueItems)", 40)
	target := map[string][]string{
		"SetMaximum": {"Maximum", "ExclusiveMaximum"}, "SetMinimum": {"Minimum", "ExclusiveMinimum"}, "SetMultipleOf": {"MultipleOf"},
		"SetMinItems": {"MinItems"}, "SetMaxItems": {"MaxItems"}, "SetMinLength": {"MinLength"}, "SetMaxLength": {"MaxLength"},
		"SetPattern": {"Pattern"}, "SetUnique": {"UniqueItems"}, "SetDefault": {"Default"}, "SetExample": {"Example"}, "SetEnum": {"Enum"},
		"SetCollectionFormat": {"CollectionFormat"},
	}
	for _, fd := range load.AllFuncs(pk) {
		recv := load.RecvName(fd)
		if !strings.HasSuffix(recv, "Validations") {
			continue
		}
		want, ok := target[fd.Name.Name]
		if !ok {
			continue
		}
		stored := map[string]bool{}
		ast.Inspect(fd.Body, func(n ast.Node) bool {
			if as, ok := n.(*ast.AssignStmt); ok {
				for _, l := range as.Lhs {
					if _, isSel := ast.Unparen(l).(*ast.SelectorExpr); isSel {
						stored[goan.LastSel(l)] = true
					}
				}
			}
			return true
		})
		var got []string
		for k := range stored {
			got = append(got, k)
		}
		sort.Strings(got)
		okAll := len(stored) == len(want)
		for _, w := range want {
			if !stored[w] {
				okAll = false
			}
		}
		c.Check(okAll, rule, fmt.Sprintf("codescan.%s.%s", recv, fd.Name.Name), c.posOf(pk, fd.Pos()), "stores "+strings.Join(want, ", "),
			fmt.Sprintf("%s.%s stores %v, expected exactly %v", recv, fd.Name.Name, got, want))
	}
}

// checkCollectionPasses: typeIndex.processPackage collects each kind of path annotation in its
// own pass over the comment groups; a pass that collects two kinds must not `continue`, which
// would let the outcome for one kind skip the other.
func checkCollectionPasses(c *Ctx, pk *packages.Package) {
	rule := "C17.R6.collection"
	c.Rule(rule, "swagger:operation and swagger:route annotations are collected independently of each other; a named response takes precedence over a model of the same name", 3)
	fd := load.FuncDecl(pk, "typeIndex.processPackage")
	if fd == nil {
		c.Anchor(rule, "codescan.typeIndex.processPackage", "not found")
		return
	}
	seen := map[string]bool{}
	ast.Inspect(fd.Body, func(n ast.Node) bool {
		rs, ok := n.(*ast.RangeStmt)
		if !ok || goan.LastSel(rs.X) != "Comments" {
			return true
		}
		targets := map[string]bool{}
		conts := 0
		var walk func(n ast.Node)
		walk = func(n ast.Node) {
			ast.Inspect(n, func(m ast.Node) bool {
				switch x := m.(type) {
				case *ast.RangeStmt, *ast.ForStmt:
					if m != n {
						return false // `continue` inside an inner loop belongs to it
					}
				case *ast.FuncLit:
					return false
				case *ast.BranchStmt:
					if x.Tok == token.CONTINUE {
						conts++
					}
				case *ast.AssignStmt:
					if len(x.Lhs) == 1 && len(x.Rhs) == 1 {
						if call, ok := x.Rhs[0].(*ast.CallExpr); ok && goan.IsBuiltinCall(pk.TypesInfo, call, "append") {
							if se, ok := x.Lhs[0].(*ast.SelectorExpr); ok {
								targets[se.Sel.Name] = true
							}
						}
					}
				}
				return true
			})
		}
		walk(rs)
		var ts []string
		for t := range targets {
			ts = append(ts, t)
			seen[t] = true
		}
		sort.Strings(ts)
		ok = len(ts) <= 1 || conts == 0
		c.Check(ok, rule, fmt.Sprintf("codescan.typeIndex.processPackage › pass over file.Comments collecting %v", ts), c.posOf(pk, rs.Pos()), "one kind per pass (or no continue)",
			fmt.Sprintf("one loop collects %v and contains %d `continue` statements: a comment group that is not a valid annotation of the first kind skips the collection of the other kind, which silently disappears from the document", ts, conts))
		return true
	})
	for _, want := range []string{"Operations", "Routes"} {
		c.Check(seen[want], rule, "codescan.typeIndex.processPackage › collects "+want, c.posOf(pk, fd.Pos()), "collected from file.Comments", want+" are no longer collected from the comment groups of a file")
	}
}

// checkResponsePrecedence: in setOpResponses.Parse an untagged reference is turned into a
// definition reference only when no swagger:response of that name exists.
func checkResponsePrecedence(c *Ctx, pk *packages.Package) {
	rule := "C17.R6.collection"
	fd := load.FuncDecl(pk, "setOpResponses.Parse")
	if fd == nil {
		c.Anchor(rule, "codescan.setOpResponses.Parse", "not found")
		return
	}
	info := pk.TypesInfo
	n := 0
	goan.WalkGuards(info, fd.Body, func(nd ast.Node, guards []goan.Lit, _ []ast.Stmt) {
		as, ok := nd.(*ast.AssignStmt)
		if !ok || len(as.Lhs) != 1 || len(as.Rhs) != 1 || !goan.IsIdent(as.Rhs[0], "true") {
			return
		}
		id, ok := as.Lhs[0].(*ast.Ident)
		if !ok || !strings.Contains(strings.ToLower(id.Name), "definitionref") {
			return
		}
		n++
		guarded := false
		for _, g := range guards {
			gid, ok := ast.Unparen(g.E).(*ast.Ident)
			if !ok || g.Pos {
				continue
			}
			if obj, _ := info.Uses[gid].(*types.Var); obj != nil {
				for _, a := range goan.AssignmentsTo(info, fd.Body, obj) {
					if a.Stmt == nil {
						continue
					}
					if st, ok := a.Stmt.(*ast.AssignStmt); ok && len(st.Rhs) == 1 {
						if ix, ok := st.Rhs[0].(*ast.IndexExpr); ok && goan.LastSel(ix.X) == "responses" && st.Pos() < as.Pos() {
							guarded = true
						}
					}
				}
			}
		}
		c.Check(guarded, rule, "codescan.setOpResponses.Parse › definition fallback only when no response of that name exists", c.posOf(pk, as.Pos()), "under `_, ok := ss.responses[name]; !ok`",
			"an untagged response reference is resolved to a model without first looking the name up among the swagger:response declarations: a response and a model sharing a name make the operation lose the declared response (headers, description)")
	})
	if n == 0 {
		c.Unk(rule, "codescan.setOpResponses.Parse › definition fallback", c.posOf(pk, fd.Pos()), "the `isDefinitionRef = true` fallback was not found (anchor)")
	}
}

// checkSplitURL: a Contact / License line without a URL is a name: in splitURL, when the URL
// pattern does not match, the text goes to the first result and the URL result stays empty.
func checkSplitURL(c *Ctx, pk *packages.Package) {
	rule := "C17.R6.collection"
	fd := load.FuncDecl(pk, "splitURL")
	if fd == nil || fd.Type.Results == nil || fd.Type.Results.NumFields() != 2 {
		c.Anchor(rule, "codescan.splitURL", "not found (two results expected)")
		return
	}
	info := pk.TypesInfo
	var resNames []string
	for _, fl := range fd.Type.Results.List {
		for _, nm := range fl.Names {
			resNames = append(resNames, nm.Name)
		}
	}
	okFirst, okSecond, seen := false, true, false
	goan.WalkGuards(info, fd.Body, func(n ast.Node, guards []goan.Lit, _ []ast.Stmt) {
		noMatch := false
		for _, g := range guards {
			s := goan.ExprString(g.E)
			if g.Pos && strings.Contains(s, "len(") && strings.Contains(s, "== 0") && !strings.Contains(s, "str") && !strings.Contains(s, "line") {
				noMatch = true
			}
		}
		if !noMatch {
			return
		}
		switch x := n.(type) {
		case *ast.AssignStmt:
			if len(x.Lhs) == 1 && len(resNames) == 2 {
				if goan.IsIdent(x.Lhs[0], resNames[0]) {
					okFirst, seen = true, true
				}
				if goan.IsIdent(x.Lhs[0], resNames[1]) {
					okSecond = false
				}
			}
		case *ast.ReturnStmt:
			if len(x.Results) == 2 {
				seen = true
				if s, isStr := goan.StringVal(info, x.Results[0]); !(isStr && s == "") {
					okFirst = true
				}
				if s, isStr := goan.StringVal(info, x.Results[1]); !(isStr && s == "") {
					okSecond = false
				}
			}
		}
	})
	c.Check(seen && okFirst && okSecond, rule, "codescan.splitURL › a line without URL is a name, not a URL", c.posOf(pk, fd.Pos()), "no-match arm: text → first result, second result empty",
		"when the URL pattern does not match, splitURL does not return (text, \"\"): `License: MIT` or `Contact: Name <email>` end up in the url field and the document is not valid Swagger")
}

// codescanLoopExits: the reviewed early exits of the scanner's loops over struct fields, interface
// methods, packages and spec collections.
var codescanLoopExits = map[string]string{
	"codescan.typeIndex.processDecl › loop over ast.Spec #1 › success return #1":                                   " ⇒ a value specification: a declaration holds specifications of one kind, none of the others is a type",
	"codescan.typeIndex.processDecl › loop over ast.Spec #1 › success return #2":                                   " ⇒ an import specification: same",
	"codescan.typeIndex.processDecl › loop over ast.Spec #1 › continue #1":                                         "!‹bool› ⇒ no type information for this name (does not happen on a type-checked package); the next specification is looked at",
	"codescan.typeIndex.processDecl › loop over ast.Spec #1 › continue #2":                                         "!‹bool› ⇒ an alias of an unnamed type (`type ID = string`) declares nothing to describe; the next specification is looked at",
	"codescan.typeIndex.processDecl › loop over ast.Spec #1 › conditional store #1":                                "‹codescan.node› & modelNode != 0 && ‹*codescan.entityDecl›.HasModelAnnotation() ⇒ models are the declarations annotated swagger:model in a file that has such annotations",
	"codescan.typeIndex.processDecl › loop over ast.Spec #1 › conditional store #2":                                "‹codescan.node› & parametersNode != 0 && ‹*codescan.entityDecl›.HasParameterAnnotation() ⇒ same for swagger:parameters",
	"codescan.typeIndex.processDecl › loop over ast.Spec #1 › conditional store #3":                                "‹codescan.node› & responseNode != 0 && ‹*codescan.entityDecl›.HasResponseAnnotation() ⇒ same for swagger:response",
	"codescan.typeIndex.processPackage › loop over ast.CommentGroup #1 › continue #1":                              "‹codescan.parsedPathContent›.Method == \"\" ⇒ the comment group holds no swagger:operation line",
	"codescan.typeIndex.processPackage › loop over ast.CommentGroup #1 › continue #2":                              "!shouldAcceptTag(‹codescan.parsedPathContent›.Tags, ‹*codescan.typeIndex›.includeTags, ‹*codescan.typeIndex›.excludeTags) ⇒ left out by --include-tag / --exclude-tag, on request",
	"codescan.typeIndex.processPackage › loop over ast.CommentGroup #2 › continue #1":                              "‹codescan.parsedPathContent›.Method == \"\" ⇒ the comment group holds no swagger:route line",
	"codescan.typeIndex.processPackage › loop over ast.CommentGroup #2 › continue #2":                              "!shouldAcceptTag(‹codescan.parsedPathContent›.Tags, ‹*codescan.typeIndex›.includeTags, ‹*codescan.typeIndex›.excludeTags) ⇒ left out by --include-tag / --exclude-tag, on request",
	"codescan.typeIndex.processPackage › loop over ast.Decl #1 › continue #1":                                      " ⇒ a declaration the parser could not read",
	"codescan.typeIndex.processPackage › loop over ast.Decl #1 › continue #2":                                      "‹*ast.FuncDecl›.Body == nil ⇒ a function without body declares no local types",
	"codescan.typeIndex.processPackage › loop over ast.File #1 › conditional store #1":                             "‹codescan.node› & metaNode != 0 ⇒ the file carries a swagger:meta annotation",
	"codescan.typeIndex.detectNodes › loop over ast.Comment #1 › continue #1":                                      "‹*ast.Comment› == nil ⇒ no comment to read",
	"codescan.typeIndex.detectNodes › loop over ast.Comment #2 › continue #1":                                      "‹*ast.Comment› == nil ⇒ no comment to read",
	"codescan.typeIndex.detectNodes › loop over ast.Comment #2 › continue #2":                                      "len(‹[]string›) < 2 ⇒ the line holds no swagger: annotation",
	"codescan.parameterBuilder.buildFromStruct › loop over types.Struct.NumFields #1 › continue #1":                "‹*types.Var›.Embedded() ⇒ embedded struct: its fields were just collected by the recursive buildFromType call",
	"codescan.parameterBuilder.buildFromStruct › loop over types.Struct.NumFields #1 › continue #2":                "!‹*types.Var›.Exported() ⇒ unexported field: not part of the parameter set",
	"codescan.parameterBuilder.buildFromStruct › loop over types.Struct.NumFields #1 › continue #3":                "‹*ast.Field› == nil ⇒ no syntax found for the field (declared in a file that was not parsed): nothing to read annotations from (logged)",
	"codescan.parameterBuilder.buildFromStruct › loop over types.Struct.NumFields #1 › continue #4":                "ignored(‹*ast.Field›.Doc) ⇒ field annotated swagger:ignore",
	"codescan.parameterBuilder.buildFromStruct › loop over types.Struct.NumFields #1 › continue #5":                "‹bool› ⇒ field tagged json:\"-\"",
	"codescan.responseBuilder.buildFromStruct › loop over types.Struct.NumFields #1 › continue #1":                 "‹*types.Var›.Embedded() ⇒ embedded struct: its fields were just collected by the recursive buildFromType call",
	"codescan.responseBuilder.buildFromStruct › loop over types.Struct.NumFields #1 › continue #2":                 "‹*types.Var›.Anonymous() ⇒ unexported field: not part of the response header set",
	"codescan.responseBuilder.buildFromStruct › loop over types.Struct.NumFields #1 › continue #3":                 "‹*ast.Field› == nil ⇒ no syntax found for the field (declared in a file that was not parsed): nothing to read annotations from (logged)",
	"codescan.responseBuilder.buildFromStruct › loop over types.Struct.NumFields #1 › continue #4":                 "ignored(‹*ast.Field›.Doc) ⇒ field annotated swagger:ignore",
	"codescan.responseBuilder.buildFromStruct › loop over types.Struct.NumFields #1 › continue #5":                 "‹bool› ⇒ field tagged json:\"-\"",
	"codescan.parameterBuilder.buildFromStruct › loop over spec.Parameter #1 › break #1":                           "‹spec.Parameter›.Name == ‹string› && ‹spec.Parameter›.In == ‹spec.Parameter›.In ⇒ re-ordering pass: the parameter named k in the same location was found and removed from its old position",
	"codescan.schemaBuilder.buildFromStruct › loop over types.Struct.NumFields #1 › continue #1":                   "!‹*types.Var›.Anonymous() ⇒ first pass looks at embedded fields only",
	"codescan.schemaBuilder.buildFromStruct › loop over types.Struct.NumFields #1 › continue #2":                   "‹*ast.Field› == nil ⇒ no syntax found for the embedded field (logged)",
	"codescan.schemaBuilder.buildFromStruct › loop over types.Struct.NumFields #1 › continue #3":                   "ignored(‹*ast.Field›.Doc) ⇒ embedded field annotated swagger:ignore",
	"codescan.schemaBuilder.buildFromStruct › loop over types.Struct.NumFields #1 › continue #4":                   "‹bool› ⇒ embedded field tagged json:\"-\"",
	"codescan.schemaBuilder.buildFromStruct › loop over types.Struct.NumFields #1 › continue #5":                   "‹string› != \"\" ⇒ embedded field named by its json tag: described as a property by the second pass",
	"codescan.schemaBuilder.buildFromStruct › loop over types.Struct.NumFields #1 › continue #6":                   "!allOfMember(‹*ast.Field›.Doc) ⇒ embedded field without swagger:allOf: its properties were just inlined by buildEmbedded",
	"codescan.schemaBuilder.buildFromStruct › loop over types.Struct.NumFields #2 › continue #1":                   "‹*types.Var›.Embedded() && jsonTagName(‹string›) == \"\" ⇒ second pass: embedded fields without a tag name were handled by the first pass",
	"codescan.schemaBuilder.buildFromStruct › loop over types.Struct.NumFields #2 › continue #2":                   "!‹*types.Var›.Exported() ⇒ unexported field: encoding/json does not write it",
	"codescan.schemaBuilder.buildFromStruct › loop over types.Struct.NumFields #2 › continue #3":                   "‹*ast.Field› == nil ⇒ no syntax found for the field (logged)",
	"codescan.schemaBuilder.buildFromStruct › loop over types.Struct.NumFields #2 › continue #4":                   "ignored(‹*ast.Field›.Doc) ⇒ field annotated swagger:ignore",
	"codescan.schemaBuilder.buildFromStruct › loop over types.Struct.NumFields #2 › continue #5":                   "‹bool› ⇒ field tagged json:\"-\" (the promoted property of the same Go name, if any, was removed just above)",
	"codescan.schemaBuilder.buildFromInterface › loop over types.Interface.NumEmbeddeds #1 › continue #1":          "‹*ast.Field› == nil ⇒ no syntax found for the embedded interface (logged)",
	"codescan.schemaBuilder.buildFromInterface › loop over types.Interface.NumEmbeddeds #1 › continue #2":          "ignored(‹*ast.Field›.Doc) ⇒ embedded interface annotated swagger:ignore",
	"codescan.schemaBuilder.buildFromInterface › loop over types.Interface.NumEmbeddeds #1 › continue #3":          "!allOfMember(‹*ast.Field›.Doc) ⇒ embedded interface without swagger:allOf: its methods were just inlined by buildEmbedded",
	"codescan.schemaBuilder.buildFromInterface › loop over types.Interface.NumExplicitMethods #1 › continue #1":    "!‹*types.Func›.Exported() ⇒ unexported method",
	"codescan.schemaBuilder.buildFromInterface › loop over types.Interface.NumExplicitMethods #1 › continue #2":    "!‹bool› ⇒ not a method signature",
	"codescan.schemaBuilder.buildFromInterface › loop over types.Interface.NumExplicitMethods #1 › continue #3":    "‹*types.Signature›.Params().Len() > 0 ⇒ method with parameters: not a getter, not a property",
	"codescan.schemaBuilder.buildFromInterface › loop over types.Interface.NumExplicitMethods #1 › continue #4":    "‹*types.Signature›.Results() == nil || ‹*types.Signature›.Results().Len() != 1 ⇒ method without exactly one result: not a getter",
	"codescan.schemaBuilder.buildFromInterface › loop over types.Interface.NumExplicitMethods #1 › continue #5":    "‹*ast.Field› == nil ⇒ no syntax found for the method (logged)",
	"codescan.schemaBuilder.buildFromInterface › loop over types.Interface.NumExplicitMethods #1 › continue #6":    "ignored(‹*ast.Field›.Doc) ⇒ method annotated swagger:ignore",
	"codescan.typeIndex.build › loop over packages.Package #1 › continue #1":                                       "‹bool› ⇒ package already registered and processed",
	"codescan.collectOperationsFromInput › loop over spec.PathItem #1 › conditional store #1":                      "‹spec.PathItem›.Get != nil ⇒ one arm per HTTP method of a path item (GET): absent methods have no operation",
	"codescan.collectOperationsFromInput › loop over spec.PathItem #1 › conditional store #2":                      "‹spec.PathItem›.Post != nil ⇒ one arm per HTTP method of a path item (POST): absent methods have no operation",
	"codescan.collectOperationsFromInput › loop over spec.PathItem #1 › conditional store #3":                      "‹spec.PathItem›.Put != nil ⇒ one arm per HTTP method of a path item (PUT): absent methods have no operation",
	"codescan.collectOperationsFromInput › loop over spec.PathItem #1 › conditional store #4":                      "‹spec.PathItem›.Patch != nil ⇒ one arm per HTTP method of a path item (PATCH): absent methods have no operation",
	"codescan.collectOperationsFromInput › loop over spec.PathItem #1 › conditional store #5":                      "‹spec.PathItem›.Delete != nil ⇒ one arm per HTTP method of a path item (DELETE): absent methods have no operation",
	"codescan.collectOperationsFromInput › loop over spec.PathItem #1 › conditional store #6":                      "‹spec.PathItem›.Head != nil ⇒ one arm per HTTP method of a path item (HEAD): absent methods have no operation",
	"codescan.collectOperationsFromInput › loop over spec.PathItem #1 › conditional store #7":                      "‹spec.PathItem›.Options != nil ⇒ one arm per HTTP method of a path item (OPTIONS): absent methods have no operation",
	"codescan.parameterBuilder.buildFromStruct › loop over spec.Parameter #1 › conditional store #1":               "‹spec.Parameter›.Name == ‹string› && ‹spec.Parameter›.In == ‹spec.Parameter›.In ⇒ re-ordering pass: removes the parameter (same name, same location) from its old position before it is appended at the new one",
	"codescan.responseBuilder.buildFromStruct › loop over types.Struct.NumFields #1 › conditional store #1":        "‹string› != \"body\" ⇒ fields with `in: body` describe the response schema, the others are headers",
	"codescan.responseBuilder.buildFromStruct › loop over types.Struct.NumFields #1 › conditional store #2":        "‹string› != \"body\" ⇒ same arm: the header is stored",
	"codescan.schemaBuilder.buildFromInterface › loop over types.Interface.NumEmbeddeds #1 › conditional store #1": "!allOfMember(‹*ast.Field›.Doc) ⇒ embedded interface without swagger:allOf: inlined as an allOf member built from its methods",
}

// checkTypeOfNil: reflect.TypeOf(nil) is a nil Type; calling a method on it panics. Every
// `reflect.TypeOf(E).M()` over a value that comes from source text (enum constants) is dominated by
// `E != nil`.
func checkTypeOfNil(c *Ctx, rule string, pk *packages.Package) {
	c.Rule(rule, "a method is called on reflect.TypeOf(E) only under `E != nil`", 1)
	info := pk.TypesInfo
	n := 0
	for _, fd := range load.AllFuncs(pk) {
		fd := fd
		goan.WalkGuards(info, fd.Body, func(nd ast.Node, guards []goan.Lit, _ []ast.Stmt) {
			ast.Inspect(nd, func(m ast.Node) bool {
				if _, isFn := m.(*ast.FuncLit); isFn {
					return false
				}
				if bs, isBlock := m.(*ast.BlockStmt); isBlock && m != nd {
					_ = bs
					return false // nested statements are visited with their own guards
				}
				call, ok := m.(*ast.CallExpr)
				if !ok {
					return true
				}
				se, ok := call.Fun.(*ast.SelectorExpr)
				if !ok {
					return true
				}
				inner, ok := ast.Unparen(se.X).(*ast.CallExpr)
				if !ok || len(inner.Args) != 1 {
					return true
				}
				if fn := goan.Callee(info, inner); fn == nil || goan.CalleeName(fn) != "reflect.TypeOf" {
					return true
				}
				arg := goan.ExprString(inner.Args[0])
				n++
				okG := false
				for _, g := range guards {
					if be, isB := ast.Unparen(g.E).(*ast.BinaryExpr); isB && g.Pos && be.Op == token.NEQ && goan.IsNil(info, be.Y) && goan.ExprString(be.X) == arg {
						okG = true
					}
				}
				c.Check(okG, rule, fmt.Sprintf("codescan.%s › reflect.TypeOf(%s).%s", load.FuncName(fd), arg, se.Sel.Name), c.posOf(pk, call.Pos()), "under "+arg+" != nil",
					"reflect.TypeOf("+arg+") is nil when "+arg+" is nil (an enum constant whose literal could not be read): the method call panics and generate spec crashes")
				return true
			})
		})
	}
	if n == 0 {
		c.Unk(rule, "codescan › reflect.TypeOf(…).M()", "", "no such call found (anchor: schemaBuilder.buildFromType)")
	}
}

// checkAliasExpansionGuard: while an alias declaration is built, buildFromType replaces a named type
// by its underlying type and recurses; a type that refers to itself would be expanded forever. The arm
// must test a visited set keyed by the type and insert the type before it recurses.
func checkAliasExpansionGuard(c *Ctx, rule string, pk *packages.Package) {
	c.Rule(rule, "the alias-expansion arm of buildFromType recurses on Underlying() only for a type that is not already being expanded (visited-set test in the condition, insertion before the call)", 1)
	fd := load.FuncDecl(pk, "schemaBuilder.buildFromType")
	if fd == nil {
		c.Anchor(rule, "codescan.schemaBuilder.buildFromType", "not found")
		return
	}
	info := pk.TypesInfo
	n := 0
	ast.Inspect(fd.Body, func(nd ast.Node) bool {
		ifs, ok := nd.(*ast.IfStmt)
		if !ok || !strings.Contains(goan.ExprString(ifs.Cond), "Assign.IsValid()") {
			return true
		}
		// body recurses on Underlying()
		var rec *ast.CallExpr
		ast.Inspect(ifs.Body, func(m ast.Node) bool {
			if call, ok := m.(*ast.CallExpr); ok && len(call.Args) >= 1 {
				if fn := goan.Callee(info, call); fn != nil && fn.Name() == "buildFromType" && strings.HasSuffix(goan.ExprString(call.Args[0]), ".Underlying()") {
					rec = call
				}
			}
			return true
		})
		if rec == nil {
			return true
		}
		n++
		// condition: a negated lookup in a map
		var visited ast.Expr
		ast.Inspect(ifs.Cond, func(m ast.Node) bool {
			if un, ok := m.(*ast.UnaryExpr); ok && un.Op == token.NOT {
				if ix, ok := ast.Unparen(un.X).(*ast.IndexExpr); ok {
					if _, isMap := info.TypeOf(ix.X).Underlying().(*types.Map); isMap {
						visited = ix
					}
				}
			}
			return true
		})
		inserted := false
		if visited != nil {
			want := goan.ExprString(visited)
			ast.Inspect(ifs.Body, func(m ast.Node) bool {
				if as, ok := m.(*ast.AssignStmt); ok && len(as.Lhs) == 1 && as.Pos() < rec.Pos() && goan.ExprString(as.Lhs[0]) == want {
					inserted = true
				}
				return true
			})
		}
		c.Check(visited != nil && inserted, rule, "codescan.schemaBuilder.buildFromType › alias expansion stops at a type that is being expanded", c.posOf(pk, ifs.Pos()), "visited-set test and insertion before the recursive call",
			"while an alias declaration is built every named type is replaced by its underlying type without remembering which ones are being expanded: a struct that refers to itself (Next *Inner) recurses until the stack overflows")
		return true
	})
	if n == 0 {
		c.Unk(rule, "codescan.schemaBuilder.buildFromType › alias expansion arm", c.posOf(pk, fd.Pos()), "no arm testing Assign.IsValid() and recursing on Underlying() found")
	}
}

// checkPathRequiredLast: Swagger 2.0 wants every path parameter required; the scanner forces it —
// which only holds if the store comes after the field's doc comment (where `required: false` can
// be written) has been parsed.
func checkPathRequiredLast(c *Ctx, rule string, pk *packages.Package) {
	c.Rule(rule, "parameterBuilder.buildFromStruct forces Required for `in: path` after the field's annotations have been parsed", 1)
	fd := load.FuncDecl(pk, "parameterBuilder.buildFromStruct")
	if fd == nil {
		c.Anchor(rule, "codescan.parameterBuilder.buildFromStruct", "not found")
		return
	}
	info := pk.TypesInfo
	var parsePos, storePos token.Pos
	goan.WalkGuards(info, fd.Body, func(n ast.Node, guards []goan.Lit, _ []ast.Stmt) {
		switch x := n.(type) {
		case *ast.AssignStmt:
			if len(x.Lhs) == 1 && len(x.Rhs) == 1 && goan.LastSel(x.Lhs[0]) == "Required" && goan.IsIdent(x.Rhs[0], "true") {
				for _, g := range guards {
					if strings.Contains(goan.ExprString(g.E), `"path"`) && g.Pos {
						storePos = x.Pos()
					}
				}
			}
		}
	})
	ast.Inspect(fd.Body, func(n ast.Node) bool {
		if call, ok := n.(*ast.CallExpr); ok && len(call.Args) == 1 && goan.LastSel(call.Fun) == "Parse" && goan.LastSel(call.Args[0]) == "Doc" {
			if call.Pos() > parsePos {
				parsePos = call.Pos()
			}
		}
		return true
	})
	c.Check(parsePos.IsValid() && storePos.IsValid() && parsePos < storePos, rule, "codescan.parameterBuilder.buildFromStruct › path ⇒ required has the last word", c.posOf(pk, storePos),
		"the store follows Parse(<field>.Doc)", fmt.Sprintf("Required is forced for path parameters at %s, before the field's annotations are parsed at %s (or one of the two is missing): `required: false` on a path parameter survives and the document is invalid", c.posOf(pk, storePos), c.posOf(pk, parsePos)))
}

// checkBuilderFields: the builders of the scanner are plain structs filled by composite literals; a
// field that the builder's methods read and never assign must be set by every literal that
// constructs it (its zero value silently disables what the field feeds).
func checkBuilderFields(c *Ctx, rule string, pk *packages.Package) {
	checkStructLiterals(c, rule, pk, "codescan", []string{"Builder"}, builderFieldsNeverSet, 9)
}

func checkStructLiterals(c *Ctx, rule string, pk *packages.Package, label string, suffixes []string, neverSet map[string]string, floor int) {
	c.Rule(rule, "every keyed composite literal of a builder struct sets the fields its methods read but never assign", floor)
	info := pk.TypesInfo
	// fields read / assigned through a receiver, per struct type
	reads := map[*types.Named]map[string]bool{}
	writes := map[*types.Named]map[string]bool{}
	for _, fd := range load.AllFuncs(pk) {
		if fd.Recv == nil || len(fd.Recv.List) == 0 || len(fd.Recv.List[0].Names) == 0 {
			continue
		}
		recv := info.Defs[fd.Recv.List[0].Names[0]]
		if recv == nil {
			continue
		}
		rt := recv.Type()
		if p, ok := rt.(*types.Pointer); ok {
			rt = p.Elem()
		}
		named, ok := rt.(*types.Named)
		if !ok {
			continue
		}
		match := false
		for _, sx := range suffixes {
			if strings.HasSuffix(named.Obj().Name(), sx) {
				match = true
			}
		}
		if !match {
			continue
		}
		if reads[named] == nil {
			reads[named], writes[named] = map[string]bool{}, map[string]bool{}
		}
		assigned := map[*ast.SelectorExpr]bool{}
		ast.Inspect(fd.Body, func(n ast.Node) bool {
			if as, ok := n.(*ast.AssignStmt); ok {
				for _, l := range as.Lhs {
					if se, ok := l.(*ast.SelectorExpr); ok && identIs(info, se.X, recv) {
						writes[named][se.Sel.Name] = true
						assigned[se] = true
					}
				}
			}
			return true
		})
		ast.Inspect(fd.Body, func(n ast.Node) bool {
			if se, ok := n.(*ast.SelectorExpr); ok && identIs(info, se.X, recv) && !assigned[se] {
				if sel := info.Selections[se]; sel != nil && sel.Kind() == types.FieldVal {
					reads[named][se.Sel.Name] = true
				}
			}
			return true
		})
	}
	// assignments through any expression of the struct type, anywhere in the package, and fields set by some literal
	setSomewhere := map[*types.Named]map[string]bool{}
	for _, fd := range load.AllFuncs(pk) {
		ast.Inspect(fd.Body, func(nd ast.Node) bool {
			switch x := nd.(type) {
			case *ast.AssignStmt:
				for _, l := range x.Lhs {
					if se, ok := l.(*ast.SelectorExpr); ok {
						t := info.TypeOf(se.X)
						if p, ok := t.(*types.Pointer); ok {
							t = p.Elem()
						}
						if named, ok := t.(*types.Named); ok && reads[named] != nil {
							writes[named][se.Sel.Name] = true
						}
					}
				}
			case *ast.CompositeLit:
				if named, ok := info.TypeOf(x).(*types.Named); ok && reads[named] != nil {
					if setSomewhere[named] == nil {
						setSomewhere[named] = map[string]bool{}
					}
					for _, e := range x.Elts {
						if kv, ok := e.(*ast.KeyValueExpr); ok {
							if id, ok := kv.Key.(*ast.Ident); ok {
								setSomewhere[named][id.Name] = true
							}
						}
					}
				}
			}
			return true
		})
	}
	n := 0
	for _, fd := range load.AllFuncs(pk) {
		fd := fd
		ast.Inspect(fd.Body, func(nd ast.Node) bool {
			cl, ok := nd.(*ast.CompositeLit)
			if !ok || len(cl.Elts) == 0 {
				return true
			}
			t := info.TypeOf(cl)
			named, ok := t.(*types.Named)
			if !ok || reads[named] == nil {
				return true
			}
			set := map[string]bool{}
			keyed := false
			for _, e := range cl.Elts {
				if kv, ok := e.(*ast.KeyValueExpr); ok {
					keyed = true
					if id, ok := kv.Key.(*ast.Ident); ok {
						set[id.Name] = true
					}
				}
			}
			if !keyed {
				return true
			}
			var missing []string
			for f := range reads[named] {
				// a field no literal ever sets and nothing assigns is reviewed once, in neverSet; a field that some other
				// literal sets, nothing assigns, and this literal leaves out is the deviant case
				if !writes[named][f] && !set[f] && neverSet[named.Obj().Name()+"."+f] == "" && neverSet[load.FuncName(fd)+" › "+named.Obj().Name()+"."+f] == "" {
					missing = append(missing, f)
				}
			}
			sort.Strings(missing)
			// fields assigned right after construction through the variable (b.x = …) count as set
			n++
			c.Check(len(missing) == 0, rule, fmt.Sprintf("%s.%s › %s{…}", label, load.FuncName(fd), named.Obj().Name()), c.posOf(pk, cl.Pos()), "sets every field its methods rely on",
				fmt.Sprintf("the literal leaves %v unset, which the methods of %s read and never assign: the builder silently works without that input (e.g. the index of swagger:parameters structs — the operation then loses its parameters)", missing, named.Obj().Name()))
			return true
		})
	}
	if n == 0 {
		c.Unk(rule, label+" › builder literals", "", "no keyed composite literal of a builder struct found")
	}
}

// builderFieldsNeverSet: fields that no constructor sets, reviewed.
var builderFieldsNeverSet = map[string]string{
	"routesBuilder.parameters": "set by no constructor: the base list handed to newSetParams is empty by design (a route's parameters come from its own `Parameters:` section and from the swagger:parameters structs that name its operation id, merged afterwards)",
}

// checkNamePatterns: annotations that name a Go type or a response must accept every identifier,
// one-letter ones included.
func checkNamePatterns(c *Ctx, rule string, pk *packages.Package) {
	c.Rule(rule, "the patterns of swagger:model, swagger:response and swagger:enum capture one-letter names", 3)
	for _, it := range []struct{ v, ann string }{{"rxModelOverride", "swagger:model"}, {"rxResponseOverride", "swagger:response"}, {"rxEnum", "swagger:enum"}} {
		lit, ok := packageRegexpByName(pk, it.v)
		if !ok {
			c.Anchor(rule, "codescan."+it.v, "not a package-level regexp compiled from a literal")
			continue
		}
		rx, err := regexp.Compile(lit)
		if err != nil {
			c.Anchor(rule, "codescan."+it.v, "literal does not compile")
			continue
		}
		bad := ""
		for _, nm := range []string{"T", "Ab", "notFound", "pet_store2"} {
			if m := rx.FindStringSubmatch(it.ann + " " + nm); m == nil || m[len(m)-1] != nm {
				bad = nm
			}
		}
		c.Check(bad == "", rule, "codescan."+it.v+" › captures any identifier", "codescan/regexprs.go", "one-letter and longer names are captured",
			"`"+it.ann+" "+bad+"` is not matched by "+lit+": the annotated declaration is dropped from the document (and references to it dangle)")
	}
}

// checkListSplits: a list whose elements are trimmed after splitting admits blanks around its
// separator — so it must be split on the separator alone; splitting on separator+blank keeps
// `a,b` as one element.
func checkListSplits(c *Ctx, rule string, pk *packages.Package) {
	c.Rule(rule, "no strings.Split on a separator followed by a blank; the elements of a comma-separated list are trimmed where they are ranged", 4)
	info := pk.TypesInfo
	n := 0
	for _, fd := range load.AllFuncs(pk) {
		fd := fd
		ast.Inspect(fd.Body, func(nd ast.Node) bool {
			call, ok := nd.(*ast.CallExpr)
			if !ok || len(call.Args) != 2 {
				return true
			}
			if fn := goan.Callee(info, call); fn == nil || goan.CalleeName(fn) != "strings.Split" {
				return true
			}
			sep, ok := goan.StringVal(info, call.Args[1])
			if !ok {
				return true
			}
			n++
			c.Check(!(len(sep) > 1 && strings.HasSuffix(sep, " ")), rule, fmt.Sprintf("codescan.%s › strings.Split(%s, %q)", load.FuncName(fd), goan.ExprString(call.Args[0]), sep), c.posOf(pk, call.Pos()), "separator alone",
				fmt.Sprintf("the list is split on %q: written without the blank (`http,https`) it stays one element, which is not a valid value", sep))
			return true
		})
	}
	if n == 0 {
		c.Unk(rule, "codescan › strings.Split calls", "", "none found")
	}
	// the elements of a list written with commas are used without the blanks around them: every
	// strings.Split(…, ",") of an annotation value has its elements trimmed where they are ranged
	// (in the function, or in the package function the list is handed to)
	trimsRange := func(body ast.Node, inf *types.Info, list types.Object) bool {
		found := false
		ast.Inspect(body, func(nd ast.Node) bool {
			rs, ok := nd.(*ast.RangeStmt)
			if !ok || !identIs(inf, rs.X, list) || rs.Value == nil {
				return true
			}
			ev := inf.ObjectOf(rs.Value.(*ast.Ident))
			ast.Inspect(rs.Body, func(m ast.Node) bool {
				if call, ok := m.(*ast.CallExpr); ok && len(call.Args) >= 1 {
					if fn := goan.Callee(inf, call); fn != nil && goan.CalleeName(fn) == "strings.TrimSpace" && identIs(inf, call.Args[0], ev) {
						found = true
					}
				}
				return true
			})
			return true
		})
		return found
	}
	decls := map[*types.Func]*ast.FuncDecl{}
	for _, fd := range load.AllFuncs(pk) {
		if fn, _ := info.Defs[fd.Name].(*types.Func); fn != nil && fd.Body != nil {
			decls[fn] = fd
		}
	}
	for _, fd := range load.AllFuncs(pk) {
		fd := fd
		if fd.Body == nil {
			continue
		}
		ast.Inspect(fd.Body, func(nd ast.Node) bool {
			as, ok := nd.(*ast.AssignStmt)
			if !ok || len(as.Lhs) != 1 || len(as.Rhs) != 1 {
				return true
			}
			call, ok := ast.Unparen(as.Rhs[0]).(*ast.CallExpr)
			if !ok || len(call.Args) != 2 {
				return true
			}
			if fn := goan.Callee(info, call); fn == nil || goan.CalleeName(fn) != "strings.Split" {
				return true
			}
			if sep, ok := goan.StringVal(info, call.Args[1]); !ok || sep != "," {
				return true
			}
			id, ok := as.Lhs[0].(*ast.Ident)
			if !ok {
				return true
			}
			list := info.ObjectOf(id)
			trimmed := trimsRange(fd.Body, info, list)
			if !trimmed {
				// handed to a function of the package that ranges its parameter and trims
				ast.Inspect(fd.Body, func(m ast.Node) bool {
					c2, ok := m.(*ast.CallExpr)
					if !ok {
						return true
					}
					callee := goan.Callee(info, c2)
					cd := decls[callee]
					if cd == nil {
						return true
					}
					for k, a := range c2.Args {
						if identIs(info, a, list) {
							i := 0
							for _, fl := range cd.Type.Params.List {
								for _, nm := range fl.Names {
									if i == k && trimsRange(cd.Body, info, info.Defs[nm]) {
										trimmed = true
									}
									i++
								}
							}
						}
					}
					return true
				})
			}
			c.Check(trimmed, rule, fmt.Sprintf("codescan.%s › elements of strings.Split(%s, \",\") are trimmed", load.FuncName(fd), goan.ExprString(call.Args[0])), c.posOf(pk, call.Pos()), "strings.TrimSpace on each element",
				fmt.Sprintf("the elements of the comma-separated list %s are used as they were split: `a, b` yields \"a\" and \" b\" — the sibling lists of the scanner (schemes, scopes, route enums) trim theirs", goan.ExprString(call.Args[0])))
			return true
		})
	}
}

// checkMultiNameFields: parseJSONTag names a field after the first identifier of its declaration; every
// caller that uses that name for a field it got from go/types must take the default from the types.Var
// (`A, B string` declares two fields).
func checkMultiNameFields(c *Ctx, rule string, pk *packages.Package) {
	c.Rule(rule, "every function that names a field with parseJSONTag's first result re-reads the default name from the types.Var it describes", 3)
	info := pk.TypesInfo
	n := 0
	for _, fd := range load.AllFuncs(pk) {
		fd := fd
		var nameObj types.Object
		ast.Inspect(fd.Body, func(nd ast.Node) bool {
			as, ok := nd.(*ast.AssignStmt)
			if !ok || len(as.Rhs) != 1 || len(as.Lhs) < 2 {
				return true
			}
			if call, ok := as.Rhs[0].(*ast.CallExpr); ok {
				if fn := goan.Callee(info, call); fn != nil && fn.Name() == "parseJSONTag" {
					if id, ok := as.Lhs[0].(*ast.Ident); ok && id.Name != "_" {
						nameObj = info.ObjectOf(id)
					}
				}
			}
			return true
		})
		if nameObj == nil {
			continue
		}
		// only functions that walk types.Struct fields (st.Field(i))
		walks := false
		ast.Inspect(fd.Body, func(nd ast.Node) bool {
			if call, ok := nd.(*ast.CallExpr); ok {
				if se, ok := call.Fun.(*ast.SelectorExpr); ok && se.Sel.Name == "Field" && goan.NamedPath(info.TypeOf(se.X)) == "go/types.Struct" {
					walks = true
				}
			}
			return true
		})
		if !walks {
			continue
		}
		// uses of the name other than tests: does it name something?
		n++
		okOwn := false
		ast.Inspect(fd.Body, func(nd ast.Node) bool {
			as, ok := nd.(*ast.AssignStmt)
			if !ok || len(as.Lhs) != 1 || len(as.Rhs) != 1 {
				return true
			}
			id, ok := as.Lhs[0].(*ast.Ident)
			if !ok || info.ObjectOf(id) != nameObj {
				return true
			}
			if call, ok := ast.Unparen(as.Rhs[0]).(*ast.CallExpr); ok && len(call.Args) == 0 {
				if se, ok := call.Fun.(*ast.SelectorExpr); ok && se.Sel.Name == "Name" && goan.NamedPath(info.TypeOf(se.X)) == "go/types.Var" {
					okOwn = true
				}
			}
			return true
		})
		c.Check(okOwn, rule, "codescan."+load.FuncName(fd)+" › each field of a multi-name declaration keeps its own name", c.posOf(pk, fd.Pos()), "default name re-read from the types.Var",
			"the name comes only from parseJSONTag (first identifier of the declaration): for `A, B string` both fields are published as A and B is lost")
	}
	if n < 3 {
		c.Unk(rule, "codescan › callers of parseJSONTag that name fields", "", fmt.Sprintf("%d found, expected the model, parameter and response builders", n))
	}
}

// checkPostDeclsCollected: a schemaBuilder records in postDecls the declarations it referenced by
// $ref; whoever creates one and builds with it must collect them, or the document ends up with a
// $ref to a definition nobody emits.
func checkPostDeclsCollected(c *Ctx, rule string, pk *packages.Package) {
	c.Rule(rule, "every function that creates a schemaBuilder and builds with it reads its postDecls afterwards", 8)
	info := pk.TypesInfo
	n := 0
	ord := map[string]int{}
	for _, fd := range load.AllFuncs(pk) {
		fd := fd
		// locals initialised with a schemaBuilder literal (value or pointer)
		ast.Inspect(fd.Body, func(nd ast.Node) bool {
			as, ok := nd.(*ast.AssignStmt)
			if !ok || len(as.Lhs) != 1 || len(as.Rhs) != 1 {
				return true
			}
			id, ok := as.Lhs[0].(*ast.Ident)
			if !ok {
				return true
			}
			rhs := ast.Unparen(as.Rhs[0])
			if un, isUn := rhs.(*ast.UnaryExpr); isUn && un.Op == token.AND {
				rhs = un.X
			}
			cl, ok := rhs.(*ast.CompositeLit)
			if !ok || goan.NamedName(info.TypeOf(cl)) != "schemaBuilder" {
				return true
			}
			obj := info.ObjectOf(id)
			// the enclosing block: uses after the literal
			builds, collects := false, false
			ast.Inspect(fd.Body, func(m ast.Node) bool {
				se, ok := m.(*ast.SelectorExpr)
				if !ok || se.Pos() < as.End() || !identIs(info, se.X, obj) {
					return true
				}
				switch se.Sel.Name {
				case "buildFromType", "Build", "buildFromDecl":
					builds = true
				case "postDecls":
					collects = true
				}
				return true
			})
			if !builds {
				return true
			}
			n++
			ord[load.FuncName(fd)]++
			c.Check(collects, rule, fmt.Sprintf("codescan.%s › schemaBuilder #%d", load.FuncName(fd), ord[load.FuncName(fd)]), c.posOf(pk, as.Pos()), "postDecls read after building",
				"a schemaBuilder is created and used to build a schema, but the declarations it discovered (postDecls) are dropped: a type only referenced from here gets a $ref and no definition")
			return true
		})
	}
	if n < 8 {
		c.Unk(rule, "codescan › local schemaBuilders", "", fmt.Sprintf("%d found", n))
	}
}

// checkCountsUsed: a function that counts something (an int result it increments) tells its
// caller how many; a caller that only asks "is it zero?" treats two, three, … as one — the
// nesting depth of `[][]T`, the number of levels to build.
func checkCountsUsed(c *Ctx, rule string, pk *packages.Package) {
	c.Rule(rule, "the count returned by a counting function is used as a magnitude at its call sites (loop bound, arithmetic, argument), not only compared with a constant", 1)
	info := pk.TypesInfo
	// counting functions: named int results incremented in the body
	counting := map[*types.Func]map[int]string{}
	for _, fd := range load.AllFuncs(pk) {
		if fd.Body == nil || fd.Type.Results == nil {
			continue
		}
		fn, _ := info.Defs[fd.Name].(*types.Func)
		if fn == nil {
			continue
		}
		idx := 0
		for _, fl := range fd.Type.Results.List {
			if len(fl.Names) == 0 {
				idx++
				continue
			}
			for _, nm := range fl.Names {
				obj := info.Defs[nm]
				if b, ok := obj.Type().Underlying().(*types.Basic); ok && b.Info()&types.IsInteger != 0 {
					inc := false
					ast.Inspect(fd.Body, func(n ast.Node) bool {
						if ids, ok := n.(*ast.IncDecStmt); ok && ids.Tok == token.INC && identIs(info, ids.X, obj) {
							inc = true
						}
						return true
					})
					if inc {
						if counting[fn] == nil {
							counting[fn] = map[int]string{}
						}
						counting[fn][idx] = nm.Name
					}
				}
				idx++
			}
		}
	}
	c.Analysed("counting functions (codescan)", len(counting))
	for _, fd := range load.AllFuncs(pk) {
		if fd.Body == nil {
			continue
		}
		ast.Inspect(fd.Body, func(n ast.Node) bool {
			as, ok := n.(*ast.AssignStmt)
			if !ok || len(as.Rhs) != 1 {
				return true
			}
			call, ok := ast.Unparen(as.Rhs[0]).(*ast.CallExpr)
			if !ok {
				return true
			}
			fn := goan.Callee(info, call)
			if fn == nil || counting[fn] == nil {
				return true
			}
			for idx, rname := range counting[fn] {
				if idx >= len(as.Lhs) {
					continue
				}
				id, ok := as.Lhs[idx].(*ast.Ident)
				if !ok || id.Name == "_" {
					continue
				}
				obj := info.ObjectOf(id)
				tests, magnitudes := 0, 0
				var visit func(n ast.Node, parent ast.Node)
				parents := map[ast.Node]ast.Node{}
				ast.Inspect(fd.Body, func(m ast.Node) bool {
					if m == nil {
						return true
					}
					ast.Inspect(m, func(k ast.Node) bool {
						if k != nil && k != m {
							if _, seen := parents[k]; !seen {
								parents[k] = m
							}
						}
						return k == m
					})
					return true
				})
				_ = visit
				ast.Inspect(fd.Body, func(m ast.Node) bool {
					uid, ok := m.(*ast.Ident)
					if !ok || info.Uses[uid] != obj {
						return true
					}
					if be, ok := parents[uid].(*ast.BinaryExpr); ok {
						other := be.Y
						if ast.Unparen(be.Y) == ast.Expr(uid) {
							other = be.X
						}
						if tv, ok := info.Types[other]; ok && tv.Value != nil {
							switch be.Op {
							case token.EQL, token.NEQ, token.GTR, token.LSS, token.GEQ, token.LEQ:
								tests++
								return true
							}
						}
					}
					magnitudes++
					return true
				})
				c.Check(magnitudes > 0, rule, fmt.Sprintf("codescan.%s › %s of %s used as a magnitude", load.FuncName(fd), rname, fn.Name()), c.posOf(pk, as.Pos()), fmt.Sprintf("%d uses as a magnitude, %d tests against a constant", magnitudes, tests),
					fmt.Sprintf("%s counts %s, and %s only compares the count with a constant (%d tests): every count above the constant is treated alike — `[][]T` is built as `[]T`", fn.Name(), rname, load.FuncName(fd), tests))
			}
			return true
		})
	}
}

// Reviewed dereferences of a result that one implementation answers with nil.
var nilableResultsReviewed = map[string]string{
	"codescan.paramTypable.AddExtension › pt.Schema()":           "under `pt.param.In == \"body\"`, the very condition under which paramTypable.Schema answers non-nil",
	"codescan.paramTypable.WithEnum › pt.Schema()":               "same guard",
	"codescan.paramTypable.SetSchema › pt.Schema()":              "same guard",
	"codescan.responseBuilder.buildFromField › typable.Schema()": "the response builder only hands responseTypable and schemaTypable values to buildFromField, and neither answers nil",
}

// checkNilableResults: a method that has `return nil` for some receivers (paramTypable.Schema
// answers nil for every parameter that is not in the body) hands that nil to whoever selects
// from its result — directly, or through the interface the method implements.
func checkNilableResults(c *Ctx, rule string, pk *packages.Package) {
	c.Rule(rule, "the result of a method that some implementation answers with nil is not selected from without a nil test (reviewed exceptions)", 1)
	info := pk.TypesInfo
	nilable := map[string]bool{} // method name: some implementation answers nil
	nilImpl := map[string]bool{} // receiver.method: this implementation answers nil
	for _, fd := range load.AllFuncs(pk) {
		if fd.Body == nil || fd.Recv == nil || fd.Type.Results == nil || fd.Type.Results.NumFields() != 1 {
			continue
		}
		if _, isPtr := info.TypeOf(fd.Type.Results.List[0].Type).(*types.Pointer); !isPtr {
			continue
		}
		ast.Inspect(fd.Body, func(n ast.Node) bool {
			if _, isLit := n.(*ast.FuncLit); isLit {
				return false
			}
			if rs, ok := n.(*ast.ReturnStmt); ok && len(rs.Results) == 1 && goan.IsNil(info, rs.Results[0]) {
				nilable[fd.Name.Name] = true
				nilImpl[load.FuncName(fd)] = true
			}
			return true
		})
	}
	c.Analysed("methods with a nil answer (codescan)", len(nilable))
	n := 0
	for _, fd := range load.AllFuncs(pk) {
		if fd.Body == nil {
			continue
		}
		ord := map[string]int{}
		goan.WalkGuards(info, fd.Body, func(leaf ast.Node, guards []goan.Lit, _ []ast.Stmt) {
			if rs, ok := leaf.(*ast.RangeStmt); ok {
				leaf = rs.X
			}
			ast.Inspect(leaf, func(m ast.Node) bool {
				if _, isLit := m.(*ast.FuncLit); isLit {
					return false
				}
				se, ok := m.(*ast.SelectorExpr)
				if !ok {
					return true
				}
				call, ok := ast.Unparen(se.X).(*ast.CallExpr)
				if !ok {
					return true
				}
				fn := goan.Callee(info, call)
				if fn == nil || fn.Pkg() != pk.Types || !nilable[fn.Name()] || len(call.Args) != 0 {
					return true
				}
				sig, _ := fn.Type().(*types.Signature)
				if sig == nil || sig.Recv() == nil {
					return true
				}
				if !types.IsInterface(sig.Recv().Type()) && !nilImpl[strings.TrimSuffix(load.RecvNameOf(fn), ".")+"."+fn.Name()] {
					return true // a concrete receiver whose own implementation never answers nil
				}
				n++
				base := fmt.Sprintf("codescan.%s › %s", load.FuncName(fd), goan.ExprString(call))
				ord[base]++
				key := base
				if ord[base] > 1 {
					key = fmt.Sprintf("%s #%d", base, ord[base])
				}
				tested := false
				for _, g := range guards {
					if g.Tag != nil || g.NonEmpty {
						continue
					}
					if be, ok := ast.Unparen(g.E).(*ast.BinaryExpr); ok {
						for _, pair := range [][2]ast.Expr{{be.X, be.Y}, {be.Y, be.X}} {
							if goan.ExprString(ast.Unparen(pair[0])) == goan.ExprString(call) && goan.IsNil(info, pair[1]) {
								if (be.Op == token.NEQ && g.Pos) || (be.Op == token.EQL && !g.Pos) {
									tested = true
								}
							}
						}
					}
				}
				if tested {
					c.Ok(rule, key, c.posOf(pk, se.Pos()), "under "+goan.ExprString(call)+" != nil")
					return true
				}
				if why, ok := nilableResultsReviewed[base]; ok {
					c.Ok(rule, key, c.posOf(pk, se.Pos()), "reviewed: "+why)
					return true
				}
				c.Bad(rule, key, c.posOf(pk, se.Pos()), fmt.Sprintf("%s selects .%s from the result of %s, which some implementation answers with nil (for a parameter that is not in the body there is no schema): a nil pointer dereference instead of an error", load.FuncName(fd), se.Sel.Name, goan.ExprString(call)))
				return true
			})
		})
	}
	if n == 0 {
		c.Ok(rule, "codescan › no selection from a nil-able result", "", "none found")
	}
}

// checkLocationsWritten: a parameter location stored by the scanner is one of the five of
// Swagger 2.0, spelled as the specification spells it.
func checkLocationsWritten(c *Ctx, rule string, pk *packages.Package) {
	c.Rule(rule, "every constant the scanner can store into a parameter's `In` (directly, or from the validIn list) is one of query, path, header, body, formData", 2)
	info := pk.TypesInfo
	valid := map[string]bool{"query": true, "path": true, "header": true, "body": true, "formData": true}
	// the list of accepted spellings
	if v := load.PkgVarValue(pk, "validIn"); v != nil {
		if cl, ok := ast.Unparen(v).(*ast.CompositeLit); ok {
			for _, el := range cl.Elts {
				if s, ok := goan.StringVal(info, el); ok {
					c.Check(valid[s], rule, "codescan.validIn › "+s, c.posOf(pk, el.Pos()), "a Swagger 2.0 location", fmt.Sprintf("validIn accepts %q and stores it as the parameter's location: it is not one of the five locations of Swagger 2.0, the document does not validate", s))
				}
			}
		}
	} else {
		c.Anchor(rule, "codescan.validIn", "not found")
	}
	for _, fd := range load.AllFuncs(pk) {
		if fd.Body == nil {
			continue
		}
		ast.Inspect(fd.Body, func(n ast.Node) bool {
			as, ok := n.(*ast.AssignStmt)
			if !ok || len(as.Lhs) != 1 || len(as.Rhs) != 1 {
				return true
			}
			se, ok := ast.Unparen(as.Lhs[0]).(*ast.SelectorExpr)
			if !ok || se.Sel.Name != "In" {
				return true
			}
			s, ok := goan.StringVal(info, as.Rhs[0])
			if !ok {
				return true
			}
			c.Check(valid[s], rule, fmt.Sprintf("codescan.%s › %s = %q", load.FuncName(fd), goan.ExprString(as.Lhs[0]), s), c.posOf(pk, as.Pos()), "a Swagger 2.0 location",
				fmt.Sprintf("the scanner stores %q as a parameter location: not one of query, path, header, body, formData", s))
			return true
		})
	}
}

// checkInputNormalised: the builder works on the caller's input document and reads its paths,
// definitions, responses and extensions without further tests. newSpecBuilder makes each of them
// non-nil under a test of that very field — an input document given with `-i` may lack any of
// them on its own (a document without "paths" is the usual case when only definitions are shared).
func checkInputNormalised(c *Ctx, rule string, pk *packages.Package) {
	c.Rule(rule, "newSpecBuilder fills each nil collection of the input document under a test of that collection alone (top-level `if input.F == nil { input.F = … }`)", 4)
	fd := load.FuncDecl(pk, "newSpecBuilder")
	if fd == nil {
		c.Anchor(rule, "codescan.newSpecBuilder", "not found")
		return
	}
	info := pk.TypesInfo
	var input types.Object
	for _, fl := range fd.Type.Params.List {
		for _, nm := range fl.Names {
			if goan.NamedPath(info.TypeOf(nm)) == "github.com/go-openapi/spec.Swagger" {
				input = info.Defs[nm]
			}
		}
	}
	if input == nil {
		c.Anchor(rule, "codescan.newSpecBuilder › parameter of type *spec.Swagger", "not found")
		return
	}
	fieldOf := func(e ast.Expr) string {
		se, ok := ast.Unparen(e).(*ast.SelectorExpr)
		if !ok {
			return ""
		}
		if id, ok := ast.Unparen(se.X).(*ast.Ident); ok && info.Uses[id] == input {
			return se.Sel.Name
		}
		return ""
	}
	topGuard := map[string]bool{}
	for _, st := range fd.Body.List {
		ifs, ok := st.(*ast.IfStmt)
		if !ok {
			continue
		}
		be, ok := ast.Unparen(ifs.Cond).(*ast.BinaryExpr)
		if !ok || be.Op != token.EQL || !goan.IsIdent(be.Y, "nil") {
			continue
		}
		f := fieldOf(be.X)
		if f == "" {
			continue
		}
		for _, s := range ifs.Body.List {
			if as, ok := s.(*ast.AssignStmt); ok && len(as.Lhs) == 1 && fieldOf(as.Lhs[0]) == f {
				topGuard[f] = true
			}
		}
	}
	seen := map[string]bool{}
	ast.Inspect(fd.Body, func(n ast.Node) bool {
		as, ok := n.(*ast.AssignStmt)
		if !ok || len(as.Lhs) != 1 || len(as.Rhs) != 1 {
			return true
		}
		f := fieldOf(as.Lhs[0])
		if f == "" || seen[f] {
			return true
		}
		switch info.TypeOf(as.Lhs[0]).Underlying().(type) {
		case *types.Pointer, *types.Map:
		default:
			return true
		}
		seen[f] = true
		c.Check(topGuard[f], rule, "codescan.newSpecBuilder › input."+f+" filled when nil", c.posOf(pk, as.Pos()), "if input."+f+" == nil { input."+f+" = … } at the top level",
			"input."+f+" is given a value only under another condition than `input."+f+" == nil`: an input document that lacks this part alone keeps a nil "+f+", which the builder dereferences (or stores into) — generate spec -i panics instead of merging")
		return true
	})
}

// checkBodyHasLastWord: the YAML body of a swagger:operation is a whole operation object: what it
// declares (tags, id, schemes …) is unmarshalled over what the annotation line gave. An
// unconditional store into the same object after the unmarshalling takes back what the body said.
func checkBodyHasLastWord(c *Ctx, rule string, pk *packages.Package) {
	c.Rule(rule, "no field of the object a YAML body is unmarshalled into is overwritten unconditionally after the unmarshalling", 1)
	info := pk.TypesInfo
	n := 0
	for _, fd := range load.AllFuncs(pk) {
		if fd.Body == nil {
			continue
		}
		for i, st := range fd.Body.List {
			var target types.Object
			ast.Inspect(st, func(m ast.Node) bool {
				call, ok := m.(*ast.CallExpr)
				if !ok {
					return true
				}
				for _, a := range call.Args {
					se, ok := ast.Unparen(a).(*ast.SelectorExpr)
					if !ok || se.Sel.Name != "UnmarshalJSON" {
						continue
					}
					if sel := info.Selections[se]; sel == nil || sel.Kind() != types.MethodVal {
						continue
					}
					if id, ok := ast.Unparen(se.X).(*ast.Ident); ok {
						target = info.Uses[id]
					}
				}
				return true
			})
			if target == nil {
				continue
			}
			n++
			bad := ""
			for _, later := range fd.Body.List[i+1:] {
				as, ok := later.(*ast.AssignStmt)
				if !ok {
					continue
				}
				for _, l := range as.Lhs {
					if se, ok := ast.Unparen(l).(*ast.SelectorExpr); ok {
						if id, ok := ast.Unparen(se.X).(*ast.Ident); ok && info.Uses[id] == target {
							bad = se.Sel.Name
						}
					}
				}
			}
			c.Check(bad == "", rule, "codescan."+load.FuncName(fd)+" › the "+goan.NamedName(target.Type())+" keeps what the YAML body declared", c.posOf(pk, st.Pos()), "no unconditional store after the unmarshalling",
				"the field "+bad+" of "+target.Name()+" is assigned unconditionally after the YAML body was unmarshalled into it: a value the body declares ("+strings.ToLower(bad)+": …) is replaced by the annotation line's, which is empty when the line does not give one — the operation loses what it declared, without an error")
		}
	}
	if n == 0 {
		c.Anchor(rule, "codescan › call passing <object>.UnmarshalJSON", "not found")
	}
}

// checkParameterIdentity: Swagger identifies a parameter by its name and its location. Where the
// scanner replaces a parameter an operation already has (a second swagger:parameters struct for
// the same operation, an input document), the one it removes is the one with the same name in
// the same location: by name alone, `?id=` takes the place of `/{id}` and the path parameter is gone.
func checkParameterIdentity(c *Ctx, rule string, pk *packages.Package) {
	c.Rule(rule, "a parameter of an operation is replaced only by one of the same name and the same location (the condition compares .Name and .In)", 1)
	info := pk.TypesInfo
	n := 0
	for _, fd := range load.AllFuncs(pk) {
		if fd.Body == nil {
			continue
		}
		fd := fd
		ast.Inspect(fd.Body, func(m ast.Node) bool {
			rs, ok := m.(*ast.RangeStmt)
			if !ok {
				return true
			}
			sl, ok := info.TypeOf(rs.X).Underlying().(*types.Slice)
			if !ok || goan.NamedPath(sl.Elem()) != "github.com/go-openapi/spec.Parameter" {
				return true
			}
			coll := goan.ExprString(rs.X)
			ast.Inspect(rs.Body, func(k ast.Node) bool {
				ifs, ok := k.(*ast.IfStmt)
				if !ok {
					return true
				}
				writes := false
				ast.Inspect(ifs.Body, func(w ast.Node) bool {
					if as, ok := w.(*ast.AssignStmt); ok {
						for _, l := range as.Lhs {
							if goan.ExprString(l) == coll {
								writes = true
							}
							if ix, ok := l.(*ast.IndexExpr); ok && goan.ExprString(ix.X) == coll {
								writes = true
							}
						}
					}
					return true
				})
				if !writes {
					return true
				}
				n++
				byName, byIn := false, false
				ast.Inspect(ifs.Cond, func(w ast.Node) bool {
					if be, ok := w.(*ast.BinaryExpr); ok && be.Op == token.EQL {
						for _, side := range []ast.Expr{be.X, be.Y} {
							if se, ok := ast.Unparen(side).(*ast.SelectorExpr); ok && goan.NamedPath(info.TypeOf(se.X)) == "github.com/go-openapi/spec.Parameter" {
								switch se.Sel.Name {
								case "Name":
									byName = true
								case "In":
									byIn = true
								}
							}
						}
					}
					return true
				})
				c.Check(byName && byIn, rule, "codescan."+load.FuncName(fd)+" › replacement in "+goan.NamedName(info.TypeOf(ast.Unparen(rs.X).(*ast.SelectorExpr).X))+".Parameters", c.posOf(pk, ifs.Pos()), "same name and same location",
					"the parameter removed to make room for the new one is found by `"+goan.ExprString(ifs.Cond)+"`: a parameter of the same name in another location (path `id` and query `id`, declared by two swagger:parameters structs) is taken for the same one and disappears from the operation, without an error")
				return true
			})
			return true
		})
	}
	if n == 0 {
		c.Anchor(rule, "codescan › replacement of an operation parameter", "not found")
	}
}

// checkNestingSiblings: the three copies of the parseArrayTypes closure (parameters, response headers,
// schemas) walk the element type of a slice field and hand the items taggers of nesting level n to the
// n-th `items.` prefix. Each recursive call either stays on the same items object and the same level
// (a pointer: `[]*string` has one items level) or advances both (a slice element, the named element type).
// Frozen from the three copies, which agree: ArrayType, Ident, SelectorExpr advance, StarExpr stays.
var nestingAdvances = map[string]bool{"ArrayType": true, "Ident": true, "SelectorExpr": true, "StarExpr": false}

func checkNestingSiblings(c *Ctx, rule string, pk *packages.Package) {
	c.Rule(rule, "in every copy of the parseArrayTypes closure a recursive call advances the items object and the level together, and does so for slices and named element types but not for pointers (the copies agree per case)", 11)
	info := pk.TypesInfo
	n := 0
	for _, fd := range load.AllFuncs(pk) {
		if fd.Body == nil {
			continue
		}
		fd := fd
		ast.Inspect(fd.Body, func(m ast.Node) bool {
			as, ok := m.(*ast.AssignStmt)
			if !ok || len(as.Lhs) != 1 || len(as.Rhs) != 1 {
				return true
			}
			id, ok := as.Lhs[0].(*ast.Ident)
			fl, ok2 := as.Rhs[0].(*ast.FuncLit)
			if !ok || !ok2 || id.Name != "parseArrayTypes" {
				return true
			}
			self := info.ObjectOf(id)
			var params []types.Object
			for _, f := range fl.Type.Params.List {
				for _, nm := range f.Names {
					params = append(params, info.ObjectOf(nm))
				}
			}
			ast.Inspect(fl.Body, func(k ast.Node) bool {
				cc, ok := k.(*ast.CaseClause)
				if !ok || len(cc.List) != 1 {
					return true
				}
				caseName := ""
				if st, ok := cc.List[0].(*ast.StarExpr); ok {
					caseName = goan.NamedName(info.TypeOf(st.X))
				}
				for _, s := range cc.Body {
					ast.Inspect(s, func(w ast.Node) bool {
						call, ok := w.(*ast.CallExpr)
						if !ok {
							return true
						}
						f, ok := ast.Unparen(call.Fun).(*ast.Ident)
						if !ok || info.ObjectOf(f) != self || len(call.Args) != len(params) || len(params) < 3 {
							return true
						}
						n++
						var stays []bool
						for i := 1; i < len(params); i++ {
							a, ok := ast.Unparen(call.Args[i]).(*ast.Ident)
							stays = append(stays, ok && info.ObjectOf(a) == params[i])
						}
						together := true
						for _, s := range stays {
							if s != stays[0] {
								together = false
							}
						}
						key := "codescan." + load.FuncName(fd) + " › parseArrayTypes › case *ast." + caseName
						want, known := nestingAdvances[caseName]
						got := "(" + goan.ExprString(call.Args[1]) + ", " + goan.ExprString(call.Args[2]) + ")"
						switch {
						case !known:
							c.Bad(rule, key, c.posOf(pk, call.Pos()), "a case the reviewed table does not know: decide whether *ast."+caseName+" consumes an items level")
						case !together:
							c.Bad(rule, key, c.posOf(pk, call.Pos()), "the recursive call hands on "+got+": the items object and the level do not advance together, so the taggers of one `items.` prefix are attached to the items of another level")
						case want == stays[0]:
							verb := map[bool]string{true: "advances", false: "stays on"}[want]
							c.Bad(rule, key, c.posOf(pk, call.Pos()), "the recursive call hands on "+got+" where the sibling copies "+map[bool]string{true: "advance to the nested items and level+1", false: "stay on the same items and level"}[want]+": a `[]*T` field "+map[bool]string{true: "", false: "has one items level, not two — "}[want]+"the `items.` annotations of this level are then parsed by the wrong (or no) taggers ("+verb+" expected)")
						default:
							c.Ok(rule, key, c.posOf(pk, call.Pos()), got)
						}
						return true
					})
				}
				return true
			})
			return true
		})
	}
	if n == 0 {
		c.Anchor(rule, "codescan › parseArrayTypes closures", "not found")
	}
}
