package props

import (
	"fmt"
	"sort"
	"strings"
	"text/template/parse"

	"verif/tool/tmpl"
)

// rangeFilters lists the `{{ range X }}{{ if C }}…{{ end }}{{ end }}` idioms of a forest: a range
// whose body is, apart from white space and comments, a single `if` without else — i.e. a filter
// on the elements that get any output at all.
func rangeFilters(ev *tmpl.Evaluator, skipContrib bool) []string {
	var out []string
	for _, tn := range ev.F.Names() {
		t := ev.F.Trees[tn]
		if t == nil || t.Tree == nil || t.Tree.Root == nil || (skipContrib && strings.HasPrefix(t.Asset, "contrib/")) {
			continue
		}
		count := map[string]int{}
		var walk func(l *parse.ListNode)
		walk = func(l *parse.ListNode) {
			if l == nil {
				return
			}
			for _, n := range l.Nodes {
				switch x := n.(type) {
				case *parse.RangeNode:
					var only *parse.IfNode
					other := false
					if x.List != nil {
						for _, b := range x.List.Nodes {
							switch y := b.(type) {
							case *parse.TextNode:
								if strings.TrimSpace(string(y.Text)) != "" {
									other = true
								}
							case *parse.CommentNode:
							case *parse.IfNode:
								if only != nil {
									other = true
								}
								only = y
							default:
								other = true
							}
						}
					}
					if only != nil && !other && only.ElseList == nil {
						k := fmt.Sprintf("%s › %s › range %s › if %s", t.Asset, tn, x.Pipe.String(), canonCond(only.Pipe.String()))
						count[k]++
						out = append(out, k)
					}
					walk(x.List)
					walk(x.ElseList)
				case *parse.IfNode:
					walk(x.List)
					walk(x.ElseList)
				case *parse.WithNode:
					walk(x.List)
					walk(x.ElseList)
				}
			}
		}
		walk(t.Tree.Root)
	}
	sort.Strings(out)
	return out
}

type rangeFilterEntry struct {
	max int
	why string
}

// canonCond renders a condition with the arguments of and/or sorted, so that re-ordering them
// does not change the key.
func canonCond(pipe string) string {
	var render func(c *tmpl.Cond) string
	render = func(c *tmpl.Cond) string {
		if c == nil {
			return ""
		}
		switch c.Op {
		case "atom":
			return c.Atom
		case "true":
			return "true"
		case "not":
			if len(c.Args) == 1 {
				return "not (" + render(c.Args[0]) + ")"
			}
		}
		var as []string
		for _, a := range c.Args {
			as = append(as, "("+render(a)+")")
		}
		sort.Strings(as)
		return c.Op + " " + strings.Join(as, " ")
	}
	return render(tmpl.ParseCond(pipe))
}

// checkRangeFilters: every filtering range of the Go-producing templates is a reviewed entry, and
// occurs no more often than reviewed.
func checkRangeFilters(c *Ctx, rule string, ev *tmpl.Evaluator, allow map[string]rangeFilterEntry, floor int) {
	if c.Contrib != "" {
		return // the reviewed table describes the standard templates; contributed sets replace whole assets
	}
	c.Rule(rule, "a template range whose whole body sits under one `if` (a filter on which elements produce any output) is a reviewed entry", floor)
	seen := map[string]int{}
	for _, k := range rangeFilters(ev, true) {
		seen[k]++
	}
	var keys []string
	for k := range seen {
		keys = append(keys, k)
	}
	sort.Strings(keys)
	for _, k := range keys {
		e, ok := allow[k]
		c.Check(ok && seen[k] <= e.max, rule, k, "", fmt.Sprintf("reviewed (%d×): %s", seen[k], e.why),
			fmt.Sprintf("the whole body of this range is under a condition that is not in the reviewed table (or occurs %d times, reviewed %d): the elements that fail it produce no output at all — a property without field or validator, an operation without handler, a parameter without binder", seen[k], e.max))
	}
}
